import DiscretModel.Lemmas.Digest
import DiscretModel.Gen.DigestLayout
/-
C06 — A signature binds exactly one row and only its author can produce it.

Model: `Model/Digest.lean` (how a field reaches the hasher; idealised hash and signatures) over the
field lists REGENERATED from the sources by translator T2 (`Gen/DigestLayout.lean`). No bound on field
lengths or contents anywhere.

The full statement is FALSE of the code (`Defects.asImplemented`): the `C06_breaks_*` witnesses are
concrete pairs; each is replayed on the real `sign`/`verify` by the check (corpus/C06).
-/
namespace Discret.Digest
open Discret.Digest.Gen

/-- the bytes hashed and signed for row `r` of kind `k` -/
def msg (d : Defects) (k : Kind) (r : Row) : Bytes := encode d k (layoutOf k) r

/-- the row is well-typed for its kind (16-byte ids, 33-byte key, `i64` dates, lengths below 2^64) -/
def WF (k : Kind) (r : Row) : Prop := rowOk (layoutOf k) r = true

instance (k : Kind) (r : Row) : Decidable (WF k r) := by unfold WF; infer_instance

/-! ### 1. the full statement, for an encoding that binds lengths, presence and kind (`Defects.none`) -/

/-- **C06 (full, part 1).** The digest input is an injective function of (kind, row) on the disjoint
    union of all signed kinds: rows of every length and content. -/
theorem C06_full_injective (k₁ k₂ : Kind) (r₁ r₂ : Row) (h₁ : WF k₁ r₁) (h₂ : WF k₂ r₂)
    (h : msg Defects.none k₁ r₁ = msg Defects.none k₂ r₂) : k₁ = k₂ ∧ r₁ = r₂ := by
  simp only [msg, encode, kindTag, Defects.none, Bool.false_eq_true, if_false, List.cons_append,
    List.nil_append, List.cons.injEq] at h
  have hk := Kind.tag_inj h.1
  subst hk
  exact ⟨rfl, encFields_none_inj _ _ _ h₁ h₂ h.2⟩

/-- **C06 (full, part 1').** A signature made for one row verifies for no row that differs from it in
    any field, nor for a row of another kind. -/
theorem C06_full_signature_binds_one_row (k₁ k₂ : Kind) (sk : Bytes) (r₁ r₂ : Row)
    (h₁ : WF k₁ (setKey sk (layoutOf k₁) r₁)) (h₂ : WF k₂ r₂)
    (h : sigValid Defects.none k₂ (layoutOf k₂) r₂ (signRow Defects.none k₁ (layoutOf k₁) sk r₁) = true) :
    k₁ = k₂ ∧ setKey sk (layoutOf k₁) r₁ = r₂ := by
  simp only [sigValid, signRow, hash, Bool.and_eq_true, beq_iff_eq] at h
  exact C06_full_injective _ _ _ _ h₁ h₂ h.2

/-- **C06 (full, part 2).** Nothing a peer can ask a running instance to sign (identity challenge,
    announce header, invitation — whatever bytes it submits) verifies as a row of any stored kind. -/
theorem C06_full_requests_safe (me : Bytes) (q : Request) (k : Kind) (r : Row) (hk : k.isRow = true)
    (hq : WF q.kind q.row) (hr : WF k r) :
    sigValid Defects.none k (layoutOf k) r (answer Defects.none layoutOf me q) = false := by
  cases hs : sigValid Defects.none k (layoutOf k) r (answer Defects.none layoutOf me q) with
  | false => rfl
  | true =>
    have hm : msg Defects.none q.kind q.row = msg Defects.none k r := by
      simp only [sigValid, Bool.and_eq_true, beq_iff_eq] at hs
      have h2 := hs.2
      cases q <;> simpa [answer, hash, msg, Defects.none, Request.kind, Request.row] using h2
    have := (C06_full_injective _ _ _ _ hq hr hm).1
    cases q <;> simp [Request.kind] at this <;> subst this <;> simp [Kind.isRow] at hk

/-- a signed row verifies as stored (every layout with a key field; both encodings) -/
theorem C06_signed_row_verifies (d : Defects) (k : Kind) (sk : Bytes) (r : Row) (hk : k.isRow = true)
    (h : WF k r) : sigValid d k (layoutOf k) (setKey sk (layoutOf k) r) (signRow d k (layoutOf k) sk r) = true := by
  have hkey : (layoutOf k).any (fun f => f.ty == .key) = true := by
    cases k <;> first | rfl | simp [Kind.isRow] at hk
  simp [sigValid, signRow, rowKey_setKey sk _ _ h hkey]

/-! ### 2. the code as it is: the full statement fails (DESIGN.md §4, sites 16 and 17) -/

def uid (b : Nat) : Bytes := List.replicate 16 b
def key (b : Nat) : Bytes := 1 :: List.replicate 32 b

/-- two different rows of the same kind with the same digest input -/
def Collide (k₁ k₂ : Kind) (r₁ r₂ : Row) : Prop :=
  WF k₁ r₁ ∧ WF k₂ r₂ ∧ (k₁ ≠ k₂ ∨ r₁ ≠ r₂) ∧ msg Defects.asImplemented k₁ r₁ = msg Defects.asImplemented k₂ r₂

instance (k₁ k₂ : Kind) (r₁ r₂ : Row) : Decidable (Collide k₁ k₂ r₁ r₂) := by unfold Collide; infer_instance

/-- **C06_breaks_entityJsonBoundary.** `_entity` and the JSON-quoted `_json` are concatenated without
    lengths: entity `a` with `_json = {}` and entity `a"{}"` without `_json` sign the same bytes. -/
theorem C06_breaks_entityJsonBoundary :
    Collide .node .node
      [.bytes (uid 1), .opt none, .int 1000, .int 2000, .bytes [97], .opt (some [123, 125]), .opt none, .bytes (key 7)]
      [.bytes (uid 1), .opt none, .int 1000, .int 2000, .bytes [97, 34, 123, 125, 34], .opt none, .opt none, .bytes (key 7)] := by
  decide

/-- **C06_breaks_entityLabelBoundary.** `src_entity` and `label` of a reference: (`ab`,`c`) and (`a`,`bc`). -/
theorem C06_breaks_entityLabelBoundary :
    Collide .edge .edge
      [.bytes (uid 1), .bytes [97, 98], .bytes [99], .bytes (uid 2), .int 1000, .bytes (key 7)]
      [.bytes (uid 1), .bytes [97], .bytes [98, 99], .bytes (uid 2), .int 1000, .bytes (key 7)] := by
  decide

/-- **C06_breaks_optionalRoom.** The presence of `room_id` is not hashed: a row in room `R` equals a
    room-less row whose dates are the two halves of `R` and whose entity starts with the old dates. -/
theorem C06_breaks_optionalRoom :
    Collide .node .node
      [.bytes (uid 3), .opt (some [1, 0, 0, 0, 0, 0, 0, 0, 2, 0, 0, 0, 0, 0, 0, 0]), .int 100, .int 101,
        .bytes [97], .opt none, .opt none, .bytes (key 7)]
      [.bytes (uid 3), .opt none, .int 1, .int 2,
        .bytes [100, 0, 0, 0, 0, 0, 0, 0, 101, 0, 0, 0, 0, 0, 0, 0, 97], .opt none, .opt none, .bytes (key 7)] := by
  decide

/-- **C06_breaks_optionalBinary.** An empty `_binary` and an absent one. -/
theorem C06_breaks_optionalBinary :
    Collide .node .node
      [.bytes (uid 3), .opt none, .int 1, .int 2, .bytes [97], .opt none, .opt (some []), .bytes (key 7)]
      [.bytes (uid 3), .opt none, .int 1, .int 2, .bytes [97], .opt none, .opt none, .bytes (key 7)] := by
  decide

/-- **C06_breaks_crossKind.** No domain separation: the deletion record of row `I` (room `R`, entity
    `abcdefghX`) is also the signature of a *row* with id `R` in room `I`, entity `X`. -/
theorem C06_breaks_crossKind :
    Collide .nodeDel .node
      [.bytes (uid 4), .bytes (uid 5), .int 1000, .bytes [97, 98, 99, 100, 101, 102, 103, 104, 88], .int 3000, .bytes (key 7)]
      [.bytes (uid 4), .opt (some (uid 5)), .int 1000, .int 7523094288207667809, .bytes [88], .opt none,
        .opt (some [184, 11, 0, 0, 0, 0, 0, 0]), .bytes (key 7)] := by
  decide

/-- **C06_breaks_challengeOracle (general form).** For EVERY row naming the instance's key as its
    author, the instance itself returns a valid signature to any peer that submits the row's digest
    as an identity challenge. -/
theorem C06_breaks_challengeOracle_all (k : Kind) (r : Row) (me : Bytes)
    (hkey : rowKey (layoutOf k) r = some me) :
    sigValid Defects.asImplemented k (layoutOf k) r
      (answer Defects.asImplemented layoutOf me (.challenge (hash (msg Defects.asImplemented k r)))) = true := by
  simp [sigValid, answer, Defects.asImplemented, hkey, msg]

/-- **C06_breaks_challengeOracle.** A concrete row the instance never signed, accepted by `verify()`
    (prechecks included) with the answer to one `ProveIdentity` request. -/
theorem C06_breaks_challengeOracle :
    let forged : Row := [.bytes (uid 9), .opt (some (uid 8)), .int 5, .int 6, .bytes [49, 46, 48],
      .opt (some [123, 125]), .opt none, .bytes (key 7)]
    WF .node forged ∧
    oracleAttack Defects.asImplemented layoutOf (key 7) (hash (msg Defects.asImplemented .node forged))
      .node forged true = .accept ∧
    oracleAttack Defects.none layoutOf (key 7) (hash (msg Defects.none .node forged)) .node forged true = .reject := by
  decide

/-! ### 3. what does hold for the code as it is -/

/-- **C06_partial.** Within a shape class — same kind, same presence flags, same encoded lengths of
    every field — the digest input determines the row: a signature is valid for no other row *of the
    same shape*, for fields of arbitrary length. What is missing with respect to the full statement:
    rows of different shapes or kinds can collide (witnesses above). -/
theorem C06_partial (k : Kind) (r₁ r₂ : Row) (h₁ : WF k r₁) (h₂ : WF k r₂)
    (hs : shape Defects.asImplemented (layoutOf k) r₁ = shape Defects.asImplemented (layoutOf k) r₂)
    (h : msg Defects.asImplemented k r₁ = msg Defects.asImplemented k r₂) : r₁ = r₂ := by
  simp only [msg, encode, kindTag, Defects.asImplemented, if_true, List.nil_append] at h
  exact encFields_inj_of_shape _ _ _ _ h₁ h₂ hs h

/-- the same, phrased on signatures: moving a signature between two rows of one shape class works
    only if they are the same row -/
theorem C06_partial_signature (k : Kind) (sk : Bytes) (r₁ r₂ : Row)
    (h₁ : WF k (setKey sk (layoutOf k) r₁)) (h₂ : WF k r₂)
    (hs : shape Defects.asImplemented (layoutOf k) (setKey sk (layoutOf k) r₁)
        = shape Defects.asImplemented (layoutOf k) r₂)
    (h : sigValid Defects.asImplemented k (layoutOf k) r₂ (signRow Defects.asImplemented k (layoutOf k) sk r₁) = true) :
    setKey sk (layoutOf k) r₁ = r₂ := by
  simp only [sigValid, signRow, hash, Bool.and_eq_true, beq_iff_eq] at h
  exact C06_partial k _ _ h₁ h₂ hs h.2

/-- **T2 obligation: every stored field is signed.** Every stored or transmitted field of every kind
    (signature and `serde(skip)` fields excepted) occurs in the kind's digest — decided on the table
    regenerated from the sources: dropping a field from a digest breaks this theorem. -/
theorem C06_layout_covers_stored (k : Kind) :
    (storedOf k).all (fun f => (layoutOf k).any (fun s => s.name == f)) = true ∧
    ((layoutOf k).map (·.name)).Nodup := by
  cases k <;> decide

/-- **T2 obligation:** `sign` and `verify` of the deletion records hash the same fields in the same order -/
theorem C06_sign_layout_eq_verify_layout (k : Kind) : signLayoutOf k = layoutOf k := by
  cases k <;> decide

/-- **T2 obligation:** the model's switches describe the source read on this run -/
theorem C06_asImplemented_matches_source :
    proveIdentitySignsRaw = Defects.asImplemented.challengeSignedRaw ∧
    importKeyIndexesBeforeLengthCheck = Defects.asImplemented.emptyKeyPanics := by decide

/-- **C06_partial (requests).** The announce signature (a digest of exactly 48 bytes) is valid for no
    stored row: every row digest is longer. (The invitation digest is *not* separated from the row
    digests; its content is chosen locally, not by a peer.) -/
theorem C06_partial_announce_safe (me e c : Bytes) (k : Kind) (r : Row) (hk : k.isRow = true)
    (hq : WF .announce [.bytes e, .bytes c]) (hr : WF k r) :
    sigValid Defects.asImplemented k (layoutOf k) r (answer Defects.asImplemented layoutOf me (.announce e c)) = false := by
  cases hs : sigValid Defects.asImplemented k (layoutOf k) r
      (answer Defects.asImplemented layoutOf me (.announce e c)) with
  | false => rfl
  | true =>
    simp only [sigValid, answer, hash, Request.kind, Request.row, encode, kindTag, Defects.asImplemented,
      if_true, List.nil_append, Bool.and_eq_true, beq_iff_eq] at hs
    have hlen := congrArg List.length hs.2
    have hge := encFields_length_ge Defects.asImplemented (layoutOf k) r hr
    have h48 : (encFields Defects.asImplemented (layoutOf .announce) [.bytes e, .bytes c]).length = 48 := by
      simp only [WF, layoutOf, rowOk, valOk, Bool.and_eq_true, beq_iff_eq, and_true] at hq
      simp [layoutOf, encFields, encVal, hq.1, hq.2]
    have hmin : 65 ≤ minLen (layoutOf k) := by
      cases k <;> first | decide | simp [Kind.isRow] at hk
    simp only [Defects.asImplemented] at hge h48
    omega

/-! ### non-vacuity -/

-- a well-formed node with every optional field present, in a shape class with more than one member
example : WF .node [.bytes (uid 1), .opt (some (uid 2)), .int (-5), .int 1700000000000, .bytes [49, 46, 48],
    .opt (some [123, 34, 97, 34, 58, 49, 125]), .opt (some [0, 255]), .bytes (key 7)] := by decide

example :
    let r₁ : Row := [.bytes (uid 1), .opt (some (uid 2)), .int 1, .int 2, .bytes [97], .opt (some [123, 125]), .opt none, .bytes (key 7)]
    let r₂ : Row := [.bytes (uid 1), .opt (some (uid 2)), .int 1, .int 3, .bytes [98], .opt (some [123, 125]), .opt none, .bytes (key 7)]
    WF .node r₁ ∧ WF .node r₂ ∧ r₁ ≠ r₂ ∧
    shape Defects.asImplemented (layoutOf .node) r₁ = shape Defects.asImplemented (layoutOf .node) r₂ ∧
    msg Defects.asImplemented .node r₁ ≠ msg Defects.asImplemented .node r₂ := by decide

-- the pairs that collide for the code are separated by the binding encoding
example : msg Defects.none .node
      [.bytes (uid 1), .opt none, .int 1000, .int 2000, .bytes [97], .opt (some [123, 125]), .opt none, .bytes (key 7)]
    ≠ msg Defects.none .node
      [.bytes (uid 1), .opt none, .int 1000, .int 2000, .bytes [97, 34, 123, 125, 34], .opt none, .opt none, .bytes (key 7)] := by
  decide

-- requests are well-formed for all three request kinds
example : WF (Request.challenge [1, 2, 3]).kind (Request.challenge [1, 2, 3]).row ∧
    WF .announce [.bytes (uid 1), .bytes (List.replicate 32 9)] ∧ WF .invite [.bytes (uid 1), .bytes [97, 112, 112]] := by decide

-- JSON quoting: `{"a":"\n"}` is fed as `"{\"a\":\"\\n\"}"`
example : jsonQuote [123, 34, 97, 34, 58, 34, 92, 110, 34, 125] =
    [34, 123, 92, 34, 97, 92, 34, 58, 92, 34, 92, 92, 110, 92, 34, 125, 34] := by decide

end Discret.Digest
