import DiscretModel.Lemmas.Pipeline
/-
C16 — Concurrent mutations of one row do not lose acknowledged changes.

Model: `Model/Pipeline.lean` (read on the reader pool — validate/sign in the authorisation actor — write
in the batch writer; the new row is the WHOLE old row as read, with the assigned fields overwritten).

The full statement — every interleaving of the phases of mutations of one row gives the result of
running the acknowledged mutations one after another in some order — is FALSE of the code
(DESIGN §4 site 23): `C16_breaks_lostUpdate`, `C16_breaks_lostRoomMove`,
`C16_breaks_duplicatedSingleReference`, `C16_breaks_staleReferenceRemoval`. What holds, for any number of mutations and any schedule:
a schedule in which no write happens while another mutation of the same row is pending (i.e. every read
follows the previous write of the same row) gives exactly the serial result in the order of the writes
(`C16_serial_when_reads_follow_writes`, = `C16_partial`); mutations of different rows never interfere and
commute; and for two writes of different fields the non-serialisable schedules are exactly those in which
both reads precede both writes.
-/
namespace Discret.Pipeline

/-! ### what holds for every schedule -/

/-- **C16_partial (read-after-write schedules are serial).** For any list of mutations and ANY run of the
    pipeline (any interleaving of the read / validate / write events accepted by the FIFO stages): if no
    write happened while another mutation of the same row was pending — every read of a row follows the
    previous write of that row — the final database is exactly the result of applying the mutations one
    after another, whole, in the order of their writes. The guard `overlap = false` is decidable on the
    schedule and is what excludes the witnesses below. -/
theorem C16_serial_when_reads_follow_writes (ops : List Op) (db0 : Db) (s : List Ev)
    (he : (exec ops db0 s).err = false) (ho : (exec ops db0 s).overlap = false) :
    (exec ops db0 s).db = serial ops db0 (exec ops db0 s).done.reverse :=
  (exec_inv ops db0 s (start db0) (start_inv ops db0) he ho).1

/-- alias required by the conventions of the rig -/
theorem C16_partial (ops : List Op) (db0 : Db) (s : List Ev)
    (he : (exec ops db0 s).err = false) (ho : (exec ops db0 s).overlap = false) :
    (exec ops db0 s).db = serial ops db0 (exec ops db0 s).done.reverse :=
  C16_serial_when_reads_follow_writes ops db0 s he ho

/-- **C16 (different rows).** Mutations of pairwise different rows: EVERY run of the pipeline, whatever the
    interleaving, gives the serial result in the order of the writes. -/
theorem C16_distinct_rows_serial (ops : List Op) (db0 : Db) (s : List Ev) (hd : Distinct ops)
    (he : (exec ops db0 s).err = false) :
    (exec ops db0 s).db = serial ops db0 (exec ops db0 s).done.reverse :=
  C16_serial_when_reads_follow_writes ops db0 s he
    (exec_noOverlap ops s (start db0) hd (fun e h => by cases h) rfl)

/-- **C16 (different rows commute).** and that serial result does not depend on the order: two mutations
    of different rows commute, whatever their dates. -/
theorem C16_distinct_rows_commute (db : Db) (a b : Op) (da db' : Nat) (h : a.key ≠ b.key) :
    apply (apply db a da) b db' = apply (apply db b db') a da :=
  apply_comm db a b da db' h

/-- validation does not look at the database: the position of a `v` event between its read and its write
    is irrelevant to the outcome (it is a function of the pending mutation alone) -/
theorem C16_validate_independent (db db' : Db) (p : Pending) :
    commit db (validate p) = commit db p ∧ validate p = p ∧ (∀ q : Pending, validate q = q → commit db' (validate q) = commit db' q) :=
  ⟨rfl, rfl, fun _ _ => rfl⟩

/-! ### the witnesses: what a reader sees at the end, for row 1 -/

/-- what is compared: the row and its references -/
abbrev View := Option (Nat × List (Nat × Nat)) × List (Nat × Nat)

def view (db : Db) (k : Key) : View :=
  ((db.rows k).map fun r => (r.room, r.vals), db.refs k)

/-- the schedule of the three witnesses: both reads, both validations, both writes -/
def bothReadsThenWrites : List Ev := [.r 0, .r 1, .v 0, .v 1, .w 0, .w 1]

/-- mutation 0 assigns field 1 := 5, mutation 1 assigns field 2 := 7, both on row 1 -/
def opsTwoFields : List Op :=
  [{ key := 1, sets := [(1, 5)], room := none, adds := [], pet := none },
   { key := 1, sets := [(2, 7)], room := none, adds := [], pet := none }]

/-- **C16_breaks_lostUpdate** (site 23). `R₀ R₁ W₀ W₁`: both mutations read the stored row, both are
    validated and written; mutation 1 writes back the whole row it read, so the acknowledged assignment
    of field 1 is lost — the final row is the result of NO serial order (both give `1=5, 2=7`). -/
theorem C16_breaks_lostUpdate :
    (exec opsTwoFields init bothReadsThenWrites).err = false ∧
    (exec opsTwoFields init bothReadsThenWrites).done.length = 2 ∧
    view (exec opsTwoFields init bothReadsThenWrites).db 1 = ((some (1, [(1, 0), (2, 7)]), []) : View) ∧
    view (serial opsTwoFields init [(0, 1), (1, 2)]) 1 = ((some (1, [(1, 5), (2, 7)]), []) : View) ∧
    view (serial opsTwoFields init [(1, 2), (0, 1)]) 1 = ((some (1, [(1, 5), (2, 7)]), []) : View) :=
  ⟨by decide, by decide, by decide, by decide, by decide⟩

/-- mutation 0 moves row 1 to room 2 (and assigns field 1), mutation 1 assigns field 2 -/
def opsRoomMove : List Op :=
  [{ key := 1, sets := [(1, 5)], room := some 2, adds := [], pet := none },
   { key := 1, sets := [(2, 7)], room := none, adds := [], pet := none }]

/-- **C16_breaks_lostRoomMove.** The same window undoes an acknowledged room move: the row is back in
    room 1 although every serial order leaves it in room 2. -/
theorem C16_breaks_lostRoomMove :
    (exec opsRoomMove init bothReadsThenWrites).err = false ∧
    view (exec opsRoomMove init bothReadsThenWrites).db 1 = ((some (1, [(1, 0), (2, 7)]), []) : View) ∧
    view (serial opsRoomMove init [(0, 1), (1, 2)]) 1 = ((some (2, [(1, 5), (2, 7)]), []) : View) ∧
    view (serial opsRoomMove init [(1, 2), (0, 1)]) 1 = ((some (2, [(1, 5), (2, 7)]), []) : View) :=
  ⟨by decide, by decide, by decide, by decide⟩

/-- mutations 0 and 1 both set the single-valued reference (label 2) of row 1, to rows 2 and 3 -/
def opsTwoPets : List Op :=
  [{ key := 1, sets := [], room := none, adds := [], pet := some (some 2) },
   { key := 1, sets := [], room := none, adds := [], pet := some (some 3) }]

/-- **C16_breaks_duplicatedSingleReference.** Both mutations read "no reference yet", so neither plans a
    deletion: the single-valued field ends with TWO references — a mixed state that no serial order
    produces (each leaves exactly one). -/
theorem C16_breaks_duplicatedSingleReference :
    (exec opsTwoPets init bothReadsThenWrites).err = false ∧
    (view (exec opsTwoPets init bothReadsThenWrites).db 1).2 = [(2, 2), (2, 3)] ∧
    (view (serial opsTwoPets init [(0, 1), (1, 2)]) 1).2 = [(2, 3)] ∧
    (view (serial opsTwoPets init [(1, 2), (0, 1)]) 1).2 = [(2, 2)] := by decide

/-- mutation 0 sets the single-valued reference and field 1 := 9, mutation 1 removes the reference
    (`pet: null`) and sets field 1 := 6 -/
def opsPetNull : List Op :=
  [{ key := 1, sets := [(1, 9)], room := none, adds := [], pet := some (some 4) },
   { key := 1, sets := [(1, 6)], room := none, adds := [], pet := some none }]

/-- **C16_breaks_staleReferenceRemoval.** `R₁ R₀ W₀ W₁`: the removal was planned when there was nothing
    to remove and is written after the other mutation has set the reference: the final row has the field
    value of mutation 1 (which came last) together with the reference of mutation 0 — a mixed state:
    the order 0;1 leaves no reference, the order 1;0 leaves field 1 = 9. -/
theorem C16_breaks_staleReferenceRemoval :
    (exec opsPetNull init [.r 1, .r 0, .v 0, .w 0, .v 1, .w 1]).err = false ∧
    view (exec opsPetNull init [.r 1, .r 0, .v 0, .w 0, .v 1, .w 1]).db 1 = ((some (1, [(1, 6), (2, 0)]), [(2, 4)]) : View) ∧
    view (serial opsPetNull init [(0, 1), (1, 2)]) 1 = ((some (1, [(1, 6), (2, 0)]), []) : View) ∧
    view (serial opsPetNull init [(1, 1), (0, 2)]) 1 = ((some (1, [(1, 9), (2, 0)]), [(2, 4)]) : View) :=
  ⟨by decide, by decide, by decide, by decide⟩

/-! ### two writes of different fields: the exact set of non-serialisable schedules -/

/-- the four read/write events of two mutations: 0 = R₀, 1 = W₀, 2 = R₁, 3 = W₁; a write is preceded by
    its validation (validation is independent of the database, `C16_validate_independent`) -/
def expand : List (Fin 4) → List Ev
  | [] => []
  | e :: es =>
    (match e.val with
     | 0 => [Ev.r 0]
     | 1 => [Ev.v 0, Ev.w 0]
     | 2 => [Ev.r 1]
     | _ => [Ev.v 1, Ev.w 1]) ++ expand es

def before (s : List (Fin 4)) (a b : Fin 4) : Bool := s.idxOf a < s.idxOf b

/-- a schedule of the two mutations: each event once, each read before its write -/
def validRW (s : List (Fin 4)) : Bool := s.length = 4 && s.Nodup && before s 0 1 && before s 2 3

/-- both reads precede both writes -/
def bothReadsFirst (s : List (Fin 4)) : Bool := before s 0 3 && before s 2 1

def serialOutcomes : List View :=
  [view (serial opsTwoFields init [(0, 1), (1, 2)]) 1, view (serial opsTwoFields init [(1, 1), (0, 2)]) 1]

/-- the run of the schedule is accepted by the FIFO stages -/
def accepted (s : List (Fin 4)) : Bool := !(exec opsTwoFields init (expand s)).err

/-- the final row is the result of one of the two serial orders -/
def serialisable (s : List (Fin 4)) : Bool :=
  serialOutcomes.contains (view (exec opsTwoFields init (expand s)).db 1)

/-- **C16 (exact set).** For the two mutations of different fields of one row, over ALL schedules of the
    four events: the run is accepted by the pipeline, and its final row is a serial outcome if and only
    if the two reads do not both precede the two writes. -/
theorem C16_two_field_writes_exact :
    ∀ a b c d : Fin 4, validRW [a, b, c, d] = true →
      accepted [a, b, c, d] = true ∧ serialisable [a, b, c, d] = !bothReadsFirst [a, b, c, d] := by decide

/-! ### non-vacuity -/

-- there are 6 schedules of the four events, 4 of them with both reads first
example : ((List.finRange 4).flatMap fun a => (List.finRange 4).flatMap fun b => (List.finRange 4).flatMap fun c =>
    (List.finRange 4).filterMap fun d => if validRW [a, b, c, d] then some (bothReadsFirst [a, b, c, d]) else none)
    = [false, true, true, true, true, false] := by decide

-- a run with three mutations of two rows in which reads follow writes: the guard of C16_partial holds
def opsThree : List Op := opsTwoFields ++ [{ key := 2, sets := [(1, 9)], room := none, adds := [1], pet := none }]
def schedThree : List Ev := [.r 0, .r 2, .v 0, .w 0, .r 1, .v 2, .v 1, .w 2, .w 1]
example : (exec opsThree init schedThree).err = false ∧ (exec opsThree init schedThree).overlap = false ∧
    (exec opsThree init schedThree).done.length = 3 ∧
    view (exec opsThree init schedThree).db 1 = ((some (1, [(1, 5), (2, 7)]), []) : View) ∧
    view (exec opsThree init schedThree).db 2 = ((some (1, [(1, 9), (2, 0)]), [(1, 1)]) : View) :=
  ⟨by decide, by decide, by decide, by decide, by decide⟩

-- the guard fails on the lost-update schedule
example : (exec opsTwoFields init bothReadsThenWrites).overlap = true := by decide

end Discret.Pipeline
