import DiscretModel.Lemmas.Room
import DiscretModel.Model.RoomBuild
/- C10 — placeholder while the pipeline is brought up; replaced by the real statements. -/
namespace Discret.RoomBuild
open Discret.Room

theorem C10_placeholder (r : Room) (d : Int) : r.SameAt r d := Room.SameAt.refl r d

end Discret.RoomBuild
