import DiscretModel.Lemmas.RoomImport
/-
C10 — A room means the same live, after restart, and on a peer that imports it.

Models: `Model/Room.lean` (decision functions, append-only histories), `Model/RoomBuild.lean` (the
construction paths: local mutation, reload at start-up, export, import of a new room, import on top of an
earlier version). The compiled model (`dmodel_room`) is run against real `GraphDatabaseService` instances
on every check (`checks/C10.py`).

All statements quantify over every history (any number of entries, keys, groups, dates, instances).
-/
namespace Discret.RoomBuild
open Discret.Room

/-- the instances that can be reached: local room mutations by any caller at any date, restarts, and
    imports of ANY candidate (honest or not — which candidates are accepted is C07's subject) -/
inductive Reachable (df : Defects) : Site → Prop
  | empty : Reachable df Site.empty
  | mutate {s s' : Site} {caller : Key} {n : Nat} {m : MutSpec} :
      Reachable df s → s.mutate df caller n m = .ok s' → Reachable df s'
  | restart {s s' : Site} : Reachable df s → s.restart df = .ok s' → Reachable df s'
  | importRoom {s s' : Site} {cand : RoomRow} :
      Reachable df s → s.importRoom df cand = .ok s' → Reachable df s'

/-- **C10 (invariant).** In every reachable instance (intended behaviour), every room held in memory is
    well-formed and holds exactly the entries of the rows stored for it, list by list; every stored room is
    held in memory; the instance is alive. -/
theorem C10_invariant {s : Site} (h : Reachable Defects.none s) : SiteInv s ∧ s.dead = false := by
  induction h with
  | empty => exact ⟨siteInv_empty, rfl⟩
  | @mutate s s' caller n m _ hm ih =>
    refine ⟨siteInv_mutate ih.1 hm, ?_⟩
    unfold Site.mutate at hm
    split at hm
    · cases hm
    · simp only at hm
      split at hm
      · cases hm
      · split at hm
        · cases hm
        · cases hm; simp [ih.2]
  | @restart s s' _ hr ih =>
    obtain ⟨s2, h2, hi, _, hd, _⟩ := restart_none ih.1 ih.2
    rw [h2] at hr; cases hr
    exact ⟨hi, hd⟩
  | @importRoom s s' cand _ hm ih =>
    refine ⟨siteInv_import ih.1 hm, ?_⟩
    unfold Site.importRoom at hm
    split at hm
    · cases hm
    · split at hm
      · split at hm
        · cases hm
        · cases hm; simp [ih.2]
      · split at hm
        · cases hm
        · split at hm
          · cases hm
          · cases hm; exact ih.2
          · split at hm
            · cases hm
            · cases hm; simp [ih.2]

/-- **C10 (the decisions are a function of the stored entries).** Two well-formed rooms that hold the
    entries of the same rows — inserted in ANY order, groups in any order — give the same answer to every
    question (`isAdmin`, `isUserValidAt`, `canAdminUsers` of every group, `can` for every key, entity, right)
    at every date, provided that within one list two entries with the same key and the same date carry the
    same payload (`TiesHarmless`). This is why live construction, reload and import agree. -/
theorem C10_same_meaning {r₁ r₂ : Room} {x y : RoomRow} (a1 : Agrees r₁ x) (a2 : Agrees r₂ y)
    (hs : SameRows x y) (w1 : r₁.WF) (w2 : r₂.WF) (ht : TiesHarmless x) (d : Int) : r₁.SameAt r₂ d :=
  sameAt_of_agrees a1 a2 hs w1 w2 ht d

/-- **C10 (restart).** A reachable instance can always be restarted on the data it wrote itself, and every
    room it held means the same afterwards. -/
theorem C10_restart {s : Site} (h : Reachable Defects.none s) :
    ∃ s', s.restart Defects.none = .ok s' ∧
      ∀ rid r, s.getMem rid = some r →
        ∃ r' rr, s'.getMem rid = some r' ∧ s.getStored rid = some rr ∧
          (TiesHarmless rr → ∀ d, r.SameAt r' d) := by
  obtain ⟨hi, hd⟩ := C10_invariant h
  obtain ⟨s', hr, _, _, _, hrooms⟩ := restart_none hi hd
  refine ⟨s', hr, ?_⟩
  intro rid r hm
  obtain ⟨r', rr, hm', hs, ha, hw, ha', hw'⟩ := hrooms rid r hm
  refine ⟨r', rr, hm', hs, ?_⟩
  intro ht d
  exact sameAt_of_agrees ha.agrees ha'.agrees (SameRows.refl rr) hw hw' ht d

/-- **C10 (import by an instance that had never seen the room).** If the export of an instance satisfying
    the invariant (every reachable instance does, `C10_invariant`) is accepted by an instance that does not
    hold the room, the room installed there means the same as the room of the exporter. Holds for the code
    as it is as well (`df` arbitrary): the defects make imports FAIL, they do not make them mean something else. -/
theorem C10_import_unknown {df : Defects} {src dst dst' : Site} (hinv : SiteInv src) (hd : src.dead = false)
    {rid : Id} {r : Room} {cand : RoomRow} (hm : src.getMem rid = some r)
    (he : src.export df rid = .ok cand) (hnone : dst.getMem rid = none)
    (hi : dst.importRoom df cand = .ok dst') :
    ∃ r' rr, dst'.getMem rid = some r' ∧ src.getStored rid = some rr ∧
      (TiesHarmless rr → ∀ d, r.SameAt r' d) := by
  obtain ⟨rr, hs, ha, hw⟩ := hinv.agree _ _ hm
  have hc : cand = exportRoom df rr := by
    unfold Site.export at he
    simp only [hd, Bool.false_eq_true, if_false, hs] at he
    cases he; rfl
  have hcid : cand.rid = rid := by rw [hc]; show rr.rid = rid; exact getStored_some hs
  unfold Site.importRoom at hi
  split at hi
  · cases hi
  · rw [hcid, hnone] at hi
    simp only at hi
    split at hi
    · cases hi
    · rename_i room hp
      cases hi
      unfold prepareNewRoom at hp
      split at hp
      · cases hp
      · rename_i r0 hparse
        split at hp
        · cases hp
          obtain ⟨ha', hw', hid'⟩ := parseRoom_agreesOrd (liftErr_ok hparse)
          refine ⟨room, rr, ?_, hs, ?_⟩
          · rw [getMem_noteInserted, getMem_setMem]
            have : room.id = rid := hid'.trans hcid
            simp [this]
          · intro ht d
            subst hc
            have hsr : SameRows rr (groupsByUid df.uidOrderReversed (exportRoom df rr)) :=
              (exportRoom_sameRows df rr).symm.trans
                (sameRows_of_groups_perm (x := groupsByUid df.uidOrderReversed (exportRoom df rr))
                  (y := exportRoom df rr) rfl (groupsByUid_perm _ _)).symm
            exact sameAt_of_agrees ha.agrees ha'.agrees hsr hw hw' ht d
        · cases hp

/-- **C10 (import by an instance that had an earlier version of the room).** The importer holds the room; what
    it stores for it is contained in the candidate (`Covers`: it holds an earlier version); the candidate brings
    something new and is accepted. Then the room installed means the same as the exporter's room. Holds for the
    code as it is as well (`df` arbitrary). -/
theorem C10_import_earlier {df : Defects} {src dst dst' : Site} (hinv : SiteInv src) (hd : src.dead = false)
    {rid : Id} {r rd : Room} {cand old merged : RoomRow} (hm : src.getMem rid = some r)
    (he : src.export df rid = .ok cand) (hmem : dst.getMem rid = some rd) (hst : dst.getStored rid = some old)
    (hcov : Covers cand (exportRoom df old))
    (hprep : prepareWithHistory df rd (exportRoom df old) cand = .ok (true, merged))
    (hi : dst.importRoom df cand = .ok dst') :
    ∃ r' rr, dst'.getMem rid = some r' ∧ src.getStored rid = some rr ∧
      (TiesHarmless rr → ∀ d, r.SameAt r' d) := by
  obtain ⟨rr, hs, ha, hw⟩ := hinv.agree _ _ hm
  have hc : cand = exportRoom df rr := by
    unfold Site.export at he
    simp only [hd, Bool.false_eq_true, if_false, hs] at he
    cases he; rfl
  have hcid : cand.rid = rid := by rw [hc]; show rr.rid = rid; exact getStored_some hs
  have hnod : (cand.groups.map (·.gid)).Nodup := by
    rw [hc]; exact exportRoom_gids_nodup (agreesOrd_gids_nodup ha hw)
  obtain ⟨hsame, hmrid⟩ := prepareWithHistory_sameRows hcov hnod hprep
  unfold Site.importRoom at hi
  split at hi
  · cases hi
  · rw [hcid, hmem] at hi
    simp only [hst, hprep] at hi
    split at hi
    · cases hi
    · rename_i room' hparse
      cases hi
      obtain ⟨ha', hw', hid'⟩ := parseRoom_agreesOrd (liftErr_ok hparse)
      have hmid : merged.rid = rid := hmrid.trans hcid
      refine ⟨room', rr, ?_, hs, ?_⟩
      · rw [getMem_noteInserted, getMem_setMem]
        have : room'.id = rid := hid'.trans hmid
        simp [this]
      · intro ht d
        have hsr : SameRows rr (groupsByUid df.uidOrderReversed merged) := by
          have h1 : SameRows rr cand := by rw [hc]; exact (exportRoom_sameRows df rr).symm
          have h2 : SameRows cand merged := hsame.symm
          have h3 : SameRows merged (groupsByUid df.uidOrderReversed merged) :=
            (sameRows_of_groups_perm (x := groupsByUid df.uidOrderReversed merged) (y := merged) rfl
              (groupsByUid_perm _ _)).symm
          exact (h1.trans h2).trans h3
        exact sameAt_of_agrees ha.agrees ha'.agrees hsr hw hw' ht d

/-- **C10 (import, in general).** Whatever an instance accepts — a new room, or a newer version of a room
    it holds — what it installs in memory is the parse of what it stores: the importer itself is consistent,
    so `C10_restart` applies to it (restart of the importer), and so does `C10_same_meaning` with any other
    instance storing the same rows. -/
theorem C10_import_consistent {s s' : Site} {cand : RoomRow} (hs : Reachable Defects.none s)
    (hi : s.importRoom Defects.none cand = .ok s') : SiteInv s' ∧ Reachable Defects.none s' :=
  ⟨(C10_invariant (Reachable.importRoom hs hi)).1, Reachable.importRoom hs hi⟩

/-! ### success of the import by an instance that never saw the room -/

/-- the instances built by accepted LOCAL room mutations alone (one instance, any callers), where every mutation is
    dated after every date its room already holds (`AllEntries (· < m.date)`: a clock that moves forward between
    mutations of one room) -/
inductive BuiltLocally (df : Defects) : Site → Prop
  | empty : BuiltLocally df Site.empty
  | mutate {s s' : Site} {caller : Key} {n : Nat} {m : MutSpec} :
      BuiltLocally df s → s.mutate df caller n m = .ok s' →
      (∀ rr, s.getStored m.rid = some rr → AllEntries (fun _ t => t < m.date) rr) → BuiltLocally df s'

/-- every such instance satisfies the invariant, is alive, and — with the repaired rule for group creation — every
    stored row is signed by a key that is admin of the room (as held now) at the row's date: the caller of an accepted
    mutation of an existing room is admin before and after it, the creator of a room is admin of it or creates it
    empty (`validate_existing_admin`, `validate_new_admin_or_empty`), and later entries do not change who was admin
    at earlier dates (past stability) -/
theorem C10_built_entitled {df : Defects} (hdf : df.groupCreationUnchecked = false) {s : Site}
    (h : BuiltLocally df s) : SiteInv s ∧ s.dead = false ∧ SiteEntitled s := by
  induction h with
  | empty =>
    refine ⟨siteInv_empty, rfl, ?_⟩
    intro rid r rr hm _
    simp [Site.getMem, Site.empty] at hm
  | @mutate s s' caller n m _ hm hdates ih =>
    obtain ⟨hi, hd, he⟩ := ih
    refine ⟨siteInv_mutate hi hm, ?_, siteEntitled_mutate hdf hi he hm hdates⟩
    unfold Site.mutate at hm
    split at hm
    · cases hm
    · simp only at hm
      split at hm
      · cases hm
      · split at hm
        · cases hm
        · cases hm; simp [hd]

/-- **C10 (the import by an instance that never saw the room SUCCEEDS), the code after the repair of the
    group-creation rule.** For every instance built by accepted local room mutations whose dates move forward
    (`BuiltLocally`), every room it holds whose stored entries have harmless ties is exported, accepted by ANY live
    instance that does not hold the room — in particular a fresh one — and means there what it means on the exporter.
    `df` is arbitrary apart from the replay order (fixed in /repo, f7a29ff) and the group-creation rule
    (findings/C10-new-group-needs-room-admin.patch): the statement holds for `Defects.asImplemented` once that
    repair is in. The remaining guards are exact: dates that do not move forward (`C10_breaks_authorDisabledSameDate`)
    and conflicting equal-date entries (`C10_breaks_sameDateEntries`) make the import fail or mean something else. -/
theorem C10_import_succeeds {df : Defects} (hnf : df.newestFirstReplay = false)
    (hdf : df.groupCreationUnchecked = false) {src : Site}
    (hb : BuiltLocally df src) {rid : Id} {r : Room} {rr : RoomRow} (hm : src.getMem rid = some r)
    (hs : src.getStored rid = some rr) (ht : TiesHarmless rr) {dst : Site} (hdd : dst.dead = false)
    (hnone : dst.getMem rid = none) :
    ∃ cand dst' r', src.export df rid = .ok cand ∧ dst.importRoom df cand = .ok dst' ∧
      dst'.getMem rid = some r' ∧ ∀ d, r.SameAt r' d := by
  obtain ⟨hi, hd, he⟩ := C10_built_entitled hdf hb
  obtain ⟨cand, dst', hexp, himp⟩ := import_new_succeeds hnf hi hd hm hs (he rid r rr hm hs) ht hdd hnone
  obtain ⟨r', rr', hm', hs', hsame⟩ := C10_import_unknown hi hd hm hexp hnone himp
  rw [hs] at hs'; cases hs'
  exact ⟨cand, dst', r', hexp, himp, hm', hsame ht⟩

/-- **C10 (what the local rule guarantees about the caller).** With the repaired rule for group creation, a room
    mutation that adds an admin entry, a right, a user admin or a group is accepted only from a caller that is admin of
    the room as it stands after the mutation. -/
theorem C10_caller_is_admin {df : Defects} (hdf : df.groupCreationUnchecked = false) {mem : Option Room}
    {caller : Key} {m : MutSpec} {room' : Room} (h : validate df mem caller m = .ok room')
    (hnodup : (m.groups.map (·.gid)).Nodup)
    (hfresh : ∀ g ∈ m.groups, g.isNew = true → ∀ r, m.isNew = false → mem = some r → r.getAuth g.gid = none)
    (hneed : m.admins ≠ [] ∨ ∃ g ∈ m.groups, g.rights ≠ [] ∨ g.userAdmins ≠ [] ∨ g.isNew = true) :
    room'.isAdmin caller m.date = true :=
  validate_admin_of_need hdf h hnodup hfresh hneed

/-! ### non-vacuity -/

/-- creation by key 1 at date 1: admins 1 and 2; group 0 with a right on entity 1 and user 4 -/
def m1 : MutSpec :=
  { rid := 0, isNew := true, date := 1, admins := [(1, true), (2, true)],
    groups := [{ gid := 0, isNew := true, rights := [(1, false, true)], users := [(4, true)], userAdmins := [(1, true)] }] }

/-- at date 3 key 1 disables user 4 and replaces the right -/
def m2 : MutSpec :=
  { rid := 0, isNew := false, date := 3, admins := [],
    groups := [{ gid := 0, isNew := false, rights := [(1, true, false)], users := [(4, false)], userAdmins := [] }] }

def site1 : Site := match Site.empty.mutate Defects.none 1 0 m1 with | .ok s => s | .error _ => Site.empty
def site2 : Site := match site1.mutate Defects.none 1 (0 + m1.size) m2 with | .ok s => s | .error _ => Site.empty

def canAt (s : Site) (k : Key) (e : Ent) (d : Int) (rt : RightType) : Bool :=
  match s.getMem 0 with
  | some r => r.can k e d rt
  | none => false

def restarted (df : Defects) (s : Site) : Site := match s.restart df with | .ok s' => s' | .error _ => Site.empty

def imported (df : Defects) (src dst : Site) : Except MErr Site :=
  match src.export df 0 with
  | .ok c => dst.importRoom df c
  | .error e => .error e

def importedSite (df : Defects) (src : Site) : Site :=
  match imported df src Site.empty with | .ok s => s | .error _ => Site.empty

-- a reachable instance with a two-date history; user 4 can write at 2, not at 3
example : Reachable Defects.none site2 := by
  obtain ⟨a, ha⟩ := ok_of_toBool (x := Site.empty.mutate Defects.none 1 0 m1) (by decide)
  obtain ⟨b, hb⟩ := ok_of_toBool (x := site1.mutate Defects.none 1 (0 + m1.size) m2) (by decide)
  have h1 : site1 = a := by simp only [site1, ha]
  have h2 : site2 = b := by simp only [site2, hb]
  rw [h2]
  exact Reachable.mutate (Reachable.mutate Reachable.empty ha) (h1 ▸ hb)

example : canAt site2 4 1 2 .mutateSelf = true ∧ canAt site2 4 1 3 .mutateSelf = false ∧
    canAt site2 2 1 3 .mutateSelf = true ∧ canAt site2 2 1 3 .mutateAll = false := by decide

-- with the intended behaviour the restart and the fresh import succeed and give the same answers
example : canAt (restarted Defects.none site2) 4 1 2 .mutateSelf = true ∧
    canAt (restarted Defects.none site2) 4 1 3 .mutateSelf = false := by decide

example : (imported Defects.none site2 Site.empty).toBool = true := by decide

-- the hypotheses of `C10_import_earlier` are met by a non-trivial pair: a peer that imported the room after its
-- creation (`site1`) then receives the two-date history of `site2`: its rows are covered, something new arrives
example :
    let dst := importedSite Defects.none site1
    (match site2.export Defects.none 0, dst.getMem 0, dst.getStored 0 with
      | .ok cand, some rd, some old =>
        coversB cand (exportRoom Defects.none old) &&
        (match prepareWithHistory Defects.none rd (exportRoom Defects.none old) cand with
          | .ok (true, _) => true | _ => false) &&
        (dst.importRoom Defects.none cand).toBool
      | _, _, _ => false) = true := by decide

/-! ### the code as it is: the full statement is false

Each witness turns ONE switch on over the intended behaviour (so that it stays valid when `Defects.asImplemented`
changes after a fix in /repo) and shows the statement failing, then holding again with the switch off. -/

/-- **C10_breaks_newestFirstReplay (#4).** After a second entry for one key (user 4 disabled at a later
    date) the instance cannot be restarted, and a fresh peer cannot import the room: the entries are
    replayed newest first into the append-only histories. -/
theorem C10_breaks_newestFirstReplay :
    (site2.restart { Defects.none with newestFirstReplay := true }).toBool = false ∧
    (imported { Defects.none with newestFirstReplay := true } site2 Site.empty).toBool = false ∧
    (site2.restart Defects.none).toBool = true := by decide

/-- **C10_breaks_reloadRawRights (#5).** A right `{mutate_self: false, mutate_all: true}` grants own-row
    mutations live and on an importer (normalised by `EntityRight::new`) but not after a restart. -/
theorem C10_breaks_reloadRawRights :
    canAt site1 4 1 1 .mutateSelf = true ∧
    canAt (restarted { Defects.none with reloadRawRights := true } site1) 4 1 1 .mutateSelf = false ∧
    canAt (restarted Defects.none site1) 4 1 1 .mutateSelf = true := by
  decide

/-- a room with two admins and no group -/
def m3 : MutSpec := { rid := 0, isNew := true, date := 1, admins := [(1, true), (2, true)], groups := [] }
def site3 : Site := match Site.empty.mutate Defects.none 1 0 m3 with | .ok s => s | .error _ => Site.empty

def adminAtSite (s : Site) (k : Key) (d : Int) : Bool :=
  match s.getMem 0 with
  | some r => r.isAdmin k d
  | none => false

/-- **C10_breaks_reloadDropsIncompleteRoom.** A room without group is not loaded at start-up: key 2 is an
    admin before the restart and unknown after it. -/
theorem C10_breaks_reloadDropsIncompleteRoom :
    adminAtSite site3 2 1 = true ∧
    adminAtSite (restarted { Defects.none with reloadDropsIncompleteRoom := true } site3) 2 1 = false ∧
    adminAtSite (restarted Defects.none site3) 2 1 = true := by
  decide

/-- at date 2 admin 1 adds a new group 1 with user 4, without making itself user admin of it -/
def m4 : MutSpec :=
  { rid := 0, isNew := false, date := 2, admins := [],
    groups := [{ gid := 1, isNew := true, rights := [(0, true, false)], users := [(4, true)], userAdmins := [] }] }
def site4 : Site := match site3.mutate Defects.none 1 (0 + m3.size) m4 with | .ok s => s | .error _ => Site.empty
def peer3 (df : Defects) : Site := match imported df site3 Site.empty with | .ok s => s | .error _ => Site.empty

/-- **C10_breaks_newGroupUsersRule (#33).** A peer that already holds the room refuses the honest new
    group (its user was added by a room admin who is not user admin of the new group); a fresh peer accepts
    the very same definition. -/
theorem C10_breaks_newGroupUsersRule :
    (imported { Defects.none with newGroupUsersNeedUserAdmin := true } site4 (peer3 Defects.none)).toBool = false ∧
    (imported { Defects.none with newGroupUsersNeedUserAdmin := true } site4 Site.empty).toBool = true ∧
    (imported Defects.none site4 (peer3 Defects.none)).toBool = true := by decide

/-- **C10_partial (the code as it is, under an explicit guard).** An instance satisfying the invariant
    (it does after any sequence of local room mutations and imports: `siteInv_mutate`, `siteInv_import`,
    which hold for the code as it is) whose stored rooms all satisfy `ReloadGuard` — one date per key in
    every list, no right with all-rows but not own-rows, at least one admin entry and one group — restarts
    successfully, satisfies the invariant again, and every room means the same afterwards — whatever the
    switches are (`df` arbitrary), in particular for `Defects.asImplemented`.
    What is missing with respect to the full statement: histories with a second date for some key (#4),
    un-normalised rights (#5), rooms without group or admin, and — for imports on top of an earlier version —
    new groups whose users were added by a plain admin (#33). -/
theorem C10_partial (df : Defects) {s : Site} (hi : SiteInv s) (hd : s.dead = false)
    (hg : ∀ rr ∈ s.stored, ReloadGuard rr) :
    ∃ s', s.restart df = .ok s' ∧ SiteInv s' ∧ s'.dead = false ∧
      ∀ rid r, s.getMem rid = some r →
        ∃ r' rr, s'.getMem rid = some r' ∧ s.getStored rid = some rr ∧
          (TiesHarmless rr → ∀ d, r.SameAt r' d) := by
  obtain ⟨s', hr, hi', _, hd', hrooms⟩ := restart_ok (df := df) hi hd
    (fun rr hrr => loads_guarded (gidsNodup_of_inv hi rr hrr) (hg rr hrr))
  refine ⟨s', hr, hi', hd', ?_⟩
  intro rid r hm
  obtain ⟨r', rr, hm', hs, ha, hw, ha', hw'⟩ := hrooms rid r hm
  exact ⟨r', rr, hm', hs, fun ht d => sameAt_of_agrees ha.agrees ha'.agrees (SameRows.refl rr) hw hw' ht d⟩

/-- creation with two admins, a group with two rights (none of the all-without-own shape) and two users -/
def m5 : MutSpec :=
  { rid := 0, isNew := true, date := 1, admins := [(1, true), (2, false)],
    groups := [{ gid := 0, isNew := true, rights := [(1, true, true), (0, true, false)],
                 users := [(4, true), (5, false)], userAdmins := [(1, true)] }] }
def site5 : Site := match Site.empty.mutate Defects.none 1 0 m5 with | .ok s => s | .error _ => Site.empty

/-- what `site5` stores -/
def rows5 : RoomRow :=
  { rid := 0, mdate := 1, author := 1,
    admins := [⟨0, 1, 1, true, 1⟩, ⟨1, 2, 1, false, 1⟩],
    groups := [{ gid := 0, uid := 2, mdate := 1, author := 1,
                 rights := [⟨3, 1, 1, true, true, 1⟩, ⟨4, 0, 1, true, false, 1⟩],
                 users := [⟨5, 4, 1, true, 1⟩, ⟨6, 5, 1, false, 1⟩],
                 userAdmins := [⟨7, 1, 1, true, 1⟩] }] }

-- the guard is satisfiable by a non-trivial stored room, and then the code as it is restarts and agrees
example : site5.stored = [rows5] ∧ (∀ rr ∈ site5.stored, ReloadGuard rr) := by
  have h : site5.stored = [rows5] := by decide
  refine ⟨h, ?_⟩
  intro rr hrr
  rw [h] at hrr
  have : rr = rows5 := by simpa using hrr
  subst this
  constructor <;> decide

example : canAt site5 4 1 1 .mutateAll = true ∧
    canAt (restarted ⟨true, true, true, true, false, true⟩ site5) 4 1 1 .mutateAll = true ∧
    canAt site5 5 1 1 .mutateSelf = false ∧
    canAt (restarted ⟨true, true, true, true, false, true⟩ site5) 5 1 1 .mutateSelf = false := by
  decide

/-- a room created by key 1 with an empty group and NO admin entry -/
def m7 : MutSpec :=
  { rid := 0, isNew := true, date := 1, admins := [],
    groups := [{ gid := 0, isNew := true, rights := [], users := [], userAdmins := [] }] }
def site7 : Site :=
  match Site.empty.mutate { Defects.none with groupCreationUnchecked := true } 1 0 m7 with
  | .ok s => s | .error _ => Site.empty

/-- **C10_breaks_groupCreatedByNonAdmin.** The live path lets a creator add an empty group without being admin
    of the room (nothing in `validate_authorisation_mutation` asks for it); every importer refuses the group row
    because its author is not admin (`prepare_new_room`): the two rules differ. With the switch off the local
    rule asks what every importer asks (the creator of a group is admin of the room as it stands after the
    mutation) and the creation is refused locally.
    (Replayed on the real code: corpus/C10/group-created-by-non-admin.ops.) -/
theorem C10_breaks_groupCreatedByNonAdmin :
    (Site.empty.mutate { Defects.none with groupCreationUnchecked := true } 1 0 m7).toBool = true ∧
    (imported Defects.none site7 Site.empty).toBool = false ∧
    (Site.empty.mutate Defects.none 1 0 m7).toBool = false := by decide

/-- concurrent edits: instance A (key 1) and instance B (key 2, which imported the room) both make key 5 admin,
    A at date 1, B at date 4; A then merges B's version -/
def m8a : MutSpec := { rid := 0, isNew := false, date := 1, admins := [(5, true)], groups := [] }
def m8b : MutSpec := { rid := 0, isNew := false, date := 4, admins := [(5, true)], groups := [] }
def siteA8 : Site := match site1.mutate Defects.none 1 100 m8a with | .ok s => s | .error _ => Site.empty
def siteB8 : Site := match (importedSite Defects.none site1).mutate Defects.none 2 200 m8b with | .ok s => s | .error _ => Site.empty
def siteA8' : Site := match imported Defects.none siteB8 siteA8 with | .ok s => s | .error _ => Site.empty

/-- **C10_breaks_mergeOlderEntry.** `prepare_room_with_history` appends the new admin entries to the importer's
    live room, which is append-only per key: B, which holds "key 5 admin since 4", cannot import A's merged
    version carrying "key 5 admin since 1" (`InvalidUserDate`), although A could import B's. No switch removes
    this. (Replayed on the real code: corpus/C10/merge-older-entry.ops.) -/
theorem C10_breaks_mergeOlderEntry :
    (imported Defects.none siteB8 siteA8).toBool = true ∧
    (imported Defects.none siteA8' siteB8).toBool = false := by decide

/-- concurrent edits: B (key 2, which imported the room) disables admin 1 at date 2; A (key 1), not knowing, grants
    a right at date 3; A then merges B's version -/
def m9b : MutSpec := { rid := 0, isNew := false, date := 2, admins := [(1, false)], groups := [] }
def m9a : MutSpec :=
  { rid := 0, isNew := false, date := 3, admins := [],
    groups := [{ gid := 0, isNew := false, rights := [(2, true, true)], users := [], userAdmins := [] }] }
def siteB9 : Site := match (importedSite Defects.none site1).mutate Defects.none 2 200 m9b with | .ok s => s | .error _ => Site.empty
def siteA9 : Site := match site1.mutate Defects.none 1 100 m9a with | .ok s => s | .error _ => Site.empty
def siteA9' : Site := match imported Defects.none siteB9 siteA9 with | .ok s => s | .error _ => Site.empty

/-- **C10_breaks_authorDisabledConcurrently.** `prepare_room_with_history` checks the NEW entries of a candidate
    against the merged history but never re-checks the entries the importer already holds: A accepts B's version
    (admin 1 disabled from date 2) and keeps its own right entry of date 3 signed by key 1; from then on no
    instance that does not already hold that entry can import A's definition (`prepare_new_room` /
    `prepare_room_with_history` refuse the entry: its author is not admin at its date) — neither a fresh peer nor
    B. No switch removes this. (Replayed on the real code: corpus/C10/author-disabled-concurrently.ops.) -/
theorem C10_breaks_authorDisabledConcurrently :
    (imported Defects.none siteB9 siteA9).toBool = true ∧
    (imported Defects.none siteA9' Site.empty).toBool = false ∧
    (imported Defects.none siteA9' siteB9).toBool = false := by decide

/-- at date 1 (the date of the creation) key 1 disables admin 2: two entries of key 2 with one date -/
def m6 : MutSpec := { rid := 0, isNew := false, date := 1, admins := [(2, false)], groups := [] }
def site6 : Site := match site1.mutate Defects.none 1 (0 + m1.size) m6 with | .ok s => s | .error _ => Site.empty

/-- **C10_breaks_sameDateEntries.** The guard `TiesHarmless` is needed even for the intended behaviour.
    Two entries of one key with the same date and different flags: the live instance takes the last
    inserted (admin 2 is disabled); an importer takes them in the order the exporter's storage returns them,
    uid order, and uids are random: when the later entry got the smaller uid, admin 2 is enabled on the
    importer. (Replayed on the real code with `uids=desc`: corpus/C10/same-date-conflict.ops.) -/
theorem C10_breaks_sameDateEntries :
    adminAtSite site6 2 1 = false ∧
    adminAtSite (importedSite Defects.none site6) 2 1 = false ∧
    adminAtSite (importedSite { Defects.none with uidOrderReversed := true } site6) 2 1 = true := by decide

/-! ### the guards of `C10_import_succeeds` are needed -/

/-- `site2` (creation at date 1 by admin 1, update at date 3 by admin 1) is built locally, and a fresh instance
    accepts its export -/
example : BuiltLocally Defects.none site2 := by
  obtain ⟨a, ha⟩ := ok_of_toBool (x := Site.empty.mutate Defects.none 1 0 m1) (by decide)
  obtain ⟨b, hb⟩ := ok_of_toBool (x := site1.mutate Defects.none 1 (0 + m1.size) m2) (by decide)
  have h1 : site1 = a := by simp only [site1, ha]
  have h2 : site2 = b := by simp only [site2, hb]
  rw [h2]
  refine BuiltLocally.mutate (BuiltLocally.mutate BuiltLocally.empty ha ?_) (h1 ▸ hb) ?_
  · intro rr hrr; simp [Site.getStored, Site.empty] at hrr
  · intro rr hrr
    have e : a.getStored m2.rid = site1.getStored 0 := by rw [h1]; rfl
    rw [e] at hrr
    have : site1.getStored 0 = some (match site1.getStored 0 with | some r => r | none => ⟨0, 0, 0, [], []⟩) := by decide
    rw [this] at hrr; cases hrr
    constructor <;> decide

/-- key 4 is made user admin of group 0 (and nothing else) at date 2 by admin 1; at date 3 key 4 tries to add user 5 -/
def m10 : MutSpec :=
  { rid := 0, isNew := false, date := 2, admins := [],
    groups := [{ gid := 0, isNew := false, rights := [], users := [], userAdmins := [(4, true)] }] }
def m11 : MutSpec :=
  { rid := 0, isNew := false, date := 3, admins := [],
    groups := [{ gid := 0, isNew := false, rights := [], users := [(5, true)], userAdmins := [] }] }
def site10 : Site := match site1.mutate Defects.none 1 100 m10 with | .ok s => s | .error _ => Site.empty

/-- why `BuiltLocally` needs no assumption on the callers: the user-admin rule of `validate_authorisation_mutation`
    (a group's user admin may add users) never applies to an existing room — `validate_room_mutation` refuses every
    caller that is not a room admin before looking at anything else (`C01_room_mutation_existing`) -/
example : (site1.mutate Defects.none 1 100 m10).toBool = true ∧ adminAtSite site10 4 3 = false ∧
    (site10.mutate Defects.none 4 200 m11).toBool = false := by decide

/-- at date 3 — the date of the update `m2` signed by admin 1 — admin 2 disables admin 1 -/
def m12 : MutSpec := { rid := 0, isNew := false, date := 3, admins := [(1, false)], groups := [] }
def site12 : Site := match site2.mutate Defects.none 2 300 m12 with | .ok s => s | .error _ => Site.empty

/-- **C10_breaks_authorDisabledSameDate (the first hypothesis of `BuiltLocally.mutate` is needed).** On ONE instance:
    admin 2 disables admin 1 with the very date of an entry that admin 1 signed. Live, that entry stays in force; for
    an importer its author is not admin at its date any more (the last entry of admin 1 dated ≤ 3 is the disabling
    one): the definition is refused by every instance that does not hold the room. With dates that move forward
    between mutations this cannot happen (`C10_import_succeeds`). -/
theorem C10_breaks_authorDisabledSameDate :
    (site2.mutate Defects.none 2 300 m12).toBool = true ∧
    (imported Defects.none site2 Site.empty).toBool = true ∧
    (imported Defects.none site12 Site.empty).toBool = false := by decide

end Discret.RoomBuild
