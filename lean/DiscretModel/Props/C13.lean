import DiscretModel.Lemmas.WriterRun
/-
C13 — Writes are atomic, durable once acknowledged, and leave the log repairable.

Model: `Model/Writer.lean` (`process_batch_write`, the writer thread's replies, the marks and the
recomputation of the daily log); the per-arm error policy, which arm feeds the marks and the position of
the marks write come from `Gen/WriterTable.lean`, regenerated from `sqlite_database.rs` on every run.

Assumed, not proved (trusted base): an SQLite transaction is atomic and a committed transaction survives
the death of the process (WAL, synchronous=NORMAL); nothing is claimed about power loss or about the
write-ahead log itself. All statements quantify over every batch (any number of messages, any statement
lists), every fault, every crash point and every sequence of batches — no bound.
-/
namespace Discret.Writer
open Discret.Gen.WriterTable (OnError)

/-! ### what the regenerated table says about the source (closed by `decide`: a change of the source
    that changes one of these facts stops this file from compiling) -/

/-- every arm that executes statements rolls back and returns the error -/
theorem C13_table_everyArmRollsBack :
    ∀ k ∈ Kind.all, k = .optimize ∨ Table.ofGen.onError k = .rollbackReturn := by decide

/-- the arms that write rows or deletion records feed the marks; the others do not -/
theorem C13_table_marks :
    (Kind.all.filter fun k => Table.ofGen.marks k) =
      [.deletion, .mutation, .mutationStream, .nodes, .roomMutation, .roomMutationStream,
       .deleteEdges, .deleteNodes] := by decide

/-- the marks write sits between BEGIN and COMMIT -/
theorem C13_table_marksInTransaction : Table.ofGen.marksInTxn = true := by decide

/-- **one buffer, one transaction**: the loop over the buffer of `process_batch_write` contains no BEGIN / COMMIT /
    END / SAVEPOINT / RELEASE statement (only the ROLLBACK of its error paths) — the model's `Batch` is one
    transaction because of this; an arm that commits in the middle (seed C13-6: the hourly `Optimize` tick handled
    where it sits in the buffer) changes the regenerated count. -/
theorem C13_table_oneTransaction : Discret.Gen.WriterTable.txnControlInLoop = 0 := by decide

/-- `Defects.asImplemented` is what the source does after a failed marks write / a failed COMMIT -/
theorem C13_table_defectsAsInSource :
    Discret.Gen.WriterTable.marksFailureRollsBack = !Defects.asImplemented.marksFailureLeavesTxnOpen ∧
    Discret.Gen.WriterTable.commitFailureRollsBack = !Defects.asImplemented.commitFailureLeavesTxnOpen ∧
    Discret.Gen.WriterTable.beginFailureReturns = true := by decide

/-- writer thread: `Ok` replies only in the `Ok` branch of the result, `Err` only in the `Err` branch,
    the same number of replies in both -/
theorem C13_table_replies :
    Discret.Gen.WriterTable.okRepliesInErrBranch = 0 ∧ Discret.Gen.WriterTable.errRepliesInOkBranch = 0 ∧
    Discret.Gen.WriterTable.okBranchReplies = Discret.Gen.WriterTable.errBranchReplies := by decide

/-- the instrumented points the correspondence run relies on are where the model puts them -/
theorem C13_table_faultPoints :
    Discret.Gen.WriterTable.steps =
      ["hook:batch.before_begin", "BEGIN", "loop", "hook:batch.group.before", "hook:batch.group.after",
       "hook:batch.before_marks", "marks", "hook:batch.before_commit", "COMMIT", "hook:batch.after_commit"] ∧
    Discret.Gen.WriterTable.ackPoint = true := by decide

theorem Kind.mem_all (k : Kind) : k ∈ Kind.all := by cases k <;> decide

/-- a message of the model is well formed when it respects what its arm can do: `Optimize` carries no
    statement; only the arms that feed the marks carry row writes or deletions -/
def Msg.Valid (m : Msg) : Prop :=
  (m.kind = .optimize → m.stmts = []) ∧ (Table.ofGen.marks m.kind = true ∨ ∀ s ∈ m.stmts, s.touchesLog = false)

theorem allRollback_ofGen {ms : List Msg} (h : ∀ m ∈ ms, m.Valid) : AllRollback Table.ofGen ms := by
  intro m hm
  rcases C13_table_everyArmRollsBack m.kind (Kind.mem_all _) with hk | hk
  · exact Or.inr ((h m hm).1 hk)
  · exact Or.inl hk

/-- the driver only runs messages accepted by `Msg.validB`: they are in the domain of the theorems -/
theorem Msg.valid_of_validB {m : Msg} (h : m.validB Table.ofGen = true) : m.Valid := by
  simp only [Msg.validB, Bool.and_eq_true, Bool.or_eq_true, bne_iff_ne, ne_eq,
    List.all_eq_true, List.isEmpty_iff, Bool.not_eq_eq_eq_not, Bool.not_true] at h
  refine ⟨fun hk => ?_, ?_⟩
  · rcases h.1 with h1 | h1
    · exact absurd hk (by simpa using h1)
    · exact h1
  · rcases h.2 with h2 | h2
    · exact Or.inl h2
    · exact Or.inr fun s hs => h2 s hs

def Op.Valid (op : Op) : Prop := ∀ m ∈ op.msgs, m.Valid

theorem recomputeMsg_valid : recomputeMsg.Valid := by
  refine ⟨by decide, Or.inr ?_⟩
  intro s hs
  simp only [recomputeMsg, List.mem_singleton] at hs
  subst hs; rfl

/-! ### (i) acknowledged `Ok` only after the commit -/

/-- **C13 (i).** Whatever the batch, the state of the connection and the fault: the replies are all `Ok`
    or all `Err`, one per message; and if any reply is `Ok` then the run started from an idle connection,
    met no failure of BEGIN, of the marks write or of COMMIT, and ended with the whole batch committed
    and the connection idle. -/
theorem C13_ok_only_after_commit (D : Defects) (s : Sys) (ms : List Msg) (f : Option Fault)
    (hv : ∀ m ∈ ms, m.Valid) :
    ((processBatch Table.ofGen D s ms f).2 = replies .ok ms ∨ (processBatch Table.ofGen D s ms f).2 = replies .err ms) ∧
    (Ack.ok ∈ (processBatch Table.ofGen D s ms f).2 →
      (processBatch Table.ofGen D s ms f).1 = { db := commitBatch Table.ofGen s.db ms, conn := ⟨none⟩ } ∧
      s.conn.txn = none ∧ f ≠ some .begin ∧ f ≠ some .marks ∧ f ≠ some .commit ∧ f ≠ some .commitRolledBack) := by
  rcases processBatch_cases Table.ofGen D s ms f (allRollback_ofGen hv).noSwallow C13_table_marksInTransaction
    with ⟨_, h2⟩ | ⟨h1, h2, h3⟩
  · refine ⟨Or.inr h2, ?_⟩
    intro hok
    rw [h2] at hok
    exact absurd (mem_replies hok) (by decide)
  · exact ⟨Or.inl h2, fun _ => ⟨h1, h3⟩⟩

/-! ### (ii) all or nothing, for every fault and every crash point -/

/-- **C13 (ii), statement errors.** For every fault, what every other connection sees after the batch is
    the old database — and then every message is answered `Err` — or the fully applied batch — and then
    every message is answered `Ok`. Holds for the code as it is (`Defects.asImplemented` included). -/
theorem C13_atomic (D : Defects) (s : Sys) (ms : List Msg) (f : Option Fault) (hv : ∀ m ∈ ms, m.Valid) :
    ((processBatch Table.ofGen D s ms f).1.db = s.db ∧ (processBatch Table.ofGen D s ms f).2 = replies .err ms) ∨
    ((processBatch Table.ofGen D s ms f).1.db = commitBatch Table.ofGen s.db ms ∧
      (processBatch Table.ofGen D s ms f).2 = replies .ok ms) := by
  rcases processBatch_cases Table.ofGen D s ms f (allRollback_ofGen hv).noSwallow C13_table_marksInTransaction
    with h | ⟨h1, h2, _⟩
  · exact Or.inl h
  · exact Or.inr ⟨by rw [h1], h2⟩

/-- **C13 (ii), crashes.** For every crash point, what is found after the restart is the old database
    or the fully applied batch, and no message was answered. -/
theorem C13_atomic_crash (db : Db) (ms : List Msg) (c : CrashPoint) :
    ((crashBatch Table.ofGen db ms c).1 = db ∨ (crashBatch Table.ofGen db ms c).1 = commitBatch Table.ofGen db ms) ∧
    (crashBatch Table.ofGen db ms c).2 = [] :=
  crashBatch_cases Table.ofGen db ms c C13_table_marksInTransaction

/-- **C13 (durable once acknowledged).** A batch answered `Ok` is in the committed database, which is
    what every later batch starts from, what a crash at any later point leaves at least, and what a
    restart reads. (Survival of a committed transaction across the death of the process is SQLite's, assumed.) -/
theorem C13_acknowledged_is_committed (D : Defects) (s : Sys) (ms : List Msg) (f : Option Fault)
    (hv : ∀ m ∈ ms, m.Valid) (hok : Ack.ok ∈ (processBatch Table.ofGen D s ms f).2)
    (ms' : List Msg) (c : CrashPoint) :
    let s' := (processBatch Table.ofGen D s ms f).1
    s'.db = commitBatch Table.ofGen s.db ms ∧
    ((crashBatch Table.ofGen s'.db ms' c).1 = s'.db ∨
      (crashBatch Table.ofGen s'.db ms' c).1 = commitBatch Table.ofGen s'.db ms') := by
  have h := (C13_ok_only_after_commit D s ms f hv).2 hok
  exact ⟨by rw [h.1], (C13_atomic_crash _ ms' c).1⟩

/-! ### (iii) the log is repairable after every fault and every crash -/

/-- **C13 (iii).** From the initial state, after any sequence of batches with any faults, crashes at any
    point followed by a restart, and recomputation requests — for the code as it is — every log entry
    that is not flagged agrees with the stored content of its day (count and digest) and every day with
    content has an entry: the marks were committed in the same step as the data they describe. -/
theorem C13_log_invariant (D : Defects) (ops : List Op) (hv : ∀ op ∈ ops, op.Valid) :
    LogInv (run Table.ofGen D init ops).db :=
  run_logInv Table.ofGen D ops init (fun op ho => (allRollback_ofGen (hv op ho)).noSwallow)
    C13_table_marksInTransaction (fun op ho m hm => (hv op ho m hm).2) init_logInv

/-- **C13 (iii), repair.** After any such history, a crash at ANY point of ANY further batch followed by
    the start-up recomputation leaves a log that is exactly the log of the stored content: nothing
    flagged, every count and digest right, every day with content present. -/
theorem C13_log_repaired_after_crash (D : Defects) (ops : List Op) (hv : ∀ op ∈ ops, op.Valid)
    (ms : List Msg) (hm : ∀ m ∈ ms, m.Valid) (c : CrashPoint) :
    LogClean (restart (crashBatch Table.ofGen (run Table.ofGen D init ops).db ms c).1).db :=
  restart_clean (crashBatch_logInv Table.ofGen _ ms c C13_table_marksInTransaction
    (fun m h => (hm m h).2) (C13_log_invariant D ops hv))

/-- the same after a plain restart (no batch in flight) -/
theorem C13_log_repaired_after_restart (D : Defects) (ops : List Op) (hv : ∀ op ∈ ops, op.Valid) :
    LogClean (restart (run Table.ofGen D init ops).db).db :=
  restart_clean (C13_log_invariant D ops hv)

/-! ### (iv) the writer is ready for the next batch — was false before the fix 6475b84 in /repo -/

/-- **C13 (iv).** With a ROLLBACK after a failed marks write and after a failed COMMIT (`Defects.none`)
    the connection is idle after every batch of every run. -/
theorem C13_idle_after_every_batch (ops : List Op) (hv : ∀ op ∈ ops, op.Valid) :
    (run Table.ofGen Defects.none init ops).conn.txn = none :=
  run_idle Table.ofGen Defects.none ops init (fun op ho => allRollback_ofGen (hv op ho)) rfl (Or.inl rfl)

/-- **C13 (iv) for the code as it is** (since the fix: `Defects.asImplemented = Defects.none`, which
    `C13_table_defectsAsInSource` checks against the regenerated table on every run). -/
theorem C13_idle_after_every_batch_asImplemented (ops : List Op) (hv : ∀ op ∈ ops, op.Valid) :
    (run Table.ofGen Defects.asImplemented init ops).conn.txn = none :=
  C13_idle_after_every_batch ops hv

/- The two witnesses are stated for the switch itself (not for `Defects.asImplemented`), so that a fix in
   /repo only needs `Defects.asImplemented` flipped (then `C13_table_defectsAsInSource` checks again). -/

/-- a batch that writes one row on day 1 -/
def witnessBatch : List Msg := [{ kind := .mutation, stmts := [.put 1 1 1] }]
def nextBatch : List Msg := [{ kind := .write, stmts := [.aux (.conf 1)] }]

/-- **C13_breaks_marksFailureLeavesTxnOpen** (DESIGN §4 site 15; the code before the fix, and what the
    check reports again if the ROLLBACK is removed). The marks write of a batch fails:
    the batch is answered `Err` and nothing is visible (atomicity holds), but the transaction stays
    open, and the next batch — any batch — fails at BEGIN. -/
theorem C13_breaks_marksFailureLeavesTxnOpen :
    let D : Defects := { Defects.none with marksFailureLeavesTxnOpen := true }
    let r := processBatch Table.ofGen D init witnessBatch (some .marks)
    r.2 = [.err] ∧ r.1.db = init.db ∧ r.1.conn.txn.isSome = true ∧
    processBatch Table.ofGen D r.1 nextBatch none = (r.1, [.err]) := by decide

/-- **C13_breaks_commitFailureLeavesTxnOpen** (site 15). The same after a COMMIT that fails and leaves
    the transaction active. -/
theorem C13_breaks_commitFailureLeavesTxnOpen :
    let D : Defects := { Defects.none with commitFailureLeavesTxnOpen := true }
    let r := processBatch Table.ofGen D init witnessBatch (some .commit)
    r.2 = [.err] ∧ r.1.db = init.db ∧ r.1.conn.txn.isSome = true ∧
    processBatch Table.ofGen D r.1 nextBatch none = (r.1, [.err]) := by decide

/-- once that has happened, EVERY later batch of the instance fails and changes nothing, until the process
    is restarted -/
theorem C13_wedged_until_restart (D : Defects) (s : Sys) (w : Db) (h : s.conn.txn = some w) (ops : List Op)
    (hb : ∀ op ∈ ops, ∃ ms f, op = .batch ms f) : run Table.ofGen D s ops = s := by
  induction ops with
  | nil => rfl
  | cons op ops ih =>
    obtain ⟨ms, f, rfl⟩ := hb _ (List.mem_cons_self ..)
    simp only [run, List.foldl_cons, stepOp, processBatch_wedged Table.ofGen D s ms f h]
    exact ih fun o ho => hb o (List.mem_cons_of_mem _ ho)

/-- **C13_partial.** Whatever the two switches (in particular for the code before the fix): if no batch
    of the run suffers a failure of the marks write or of COMMIT, the connection is idle after every
    batch. (What is missing compared with the full statement: exactly those two fault points.) -/
theorem C13_partial (D : Defects) (ops : List Op) (hv : ∀ op ∈ ops, op.Valid) (hg : ∀ op ∈ ops, op.noLateFault) :
    (run Table.ofGen D init ops).conn.txn = none :=
  run_idle Table.ofGen D ops init (fun op ho => allRollback_ofGen (hv op ho)) rfl (Or.inr hg)

/-! ### why the side conditions matter: a marks write outside the transaction breaks (iii) -/

/-- If the marks were written after COMMIT (not the code as it is), a crash between the two would leave
    an entry that is not flagged and disagrees with the content: day 0 still says 1 entry after row 0
    moved to day 1, and day 1 has content but no entry. -/
theorem C13_marksOutsideTransaction_breaks :
    let T' : Table := { Table.ofGen with marksInTxn := false }
    let db' := (crashBatch T' init.db [{ kind := .mutation, stmts := [.put 0 5 1] }] .beforeMarks).1
    (∃ e ∈ db'.log, e.dirty = false ∧ e.count ≠ count db' e.day) ∧
    (0 < count db' 1 ∧ ∀ e ∈ db'.log, e.day ≠ 1) := by decide

/-! ### non-vacuity -/

-- a valid mixed batch: rows, a deletion, peer rows, a reference, a room, a recomputation in the middle
def sampleBatch : List Msg :=
  [{ kind := .mutation, stmts := [.put 1 1 1, .put 0 7 1] }, { kind := .nodes, stmts := [.put 2 1 1] },
   { kind := .computeDailyLog, stmts := [.recompute] }, { kind := .deletion, stmts := [.del 0 2 true] },
   { kind := .edges, stmts := [.aux (.edge 1 2)] }, { kind := .roomMutation, stmts := [.aux (.room 1)] }]

-- it commits: all Ok, three days flagged, the rows and the tombstone are there
example : let r := processBatch Table.ofGen Defects.asImplemented init sampleBatch none
    r.2 = replies .ok sampleBatch ∧ r.1.db.rows.length = 2 ∧ r.1.db.tombs = [(0, 2)] ∧
    (r.1.db.log.filter (·.dirty)).map (·.day) = [0, 2, 1] := by decide

-- a statement error in the fourth group: all Err, nothing visible, connection idle
example : processBatch Table.ofGen Defects.asImplemented init sampleBatch (some (.stmt 3 0))
    = (init, replies .err sampleBatch) := by decide

-- a crash after COMMIT keeps the whole batch, and the restart recomputes the three days (day 0 holds nothing any
-- more: its entry is removed)
example : let db' := (crashBatch Table.ofGen init.db sampleBatch .beforeAck).1
    db' = commitBatch Table.ofGen init.db sampleBatch ∧
    ((restart db').db.log.map fun e => (e.day, e.count, e.dirty)) = [(2, 1, false), (1, 2, false)] := by
  decide

-- the guard of C13_partial is satisfiable by a run with a statement fault and a crash
example : ∀ op ∈ [Op.batch sampleBatch (some (.stmt 0 1)), Op.crash sampleBatch .beforeCommit, Op.recompute],
    op.noLateFault := by
  intro op h
  simp only [List.mem_cons, List.mem_nil_iff, or_false] at h
  rcases h with rfl | rfl | rfl <;> simp [Op.noLateFault]

end Discret.Writer
