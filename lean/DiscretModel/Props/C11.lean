import DiscretModel.Lemmas.SyncTombs
import DiscretModel.Lemmas.SyncTombsFixedRoom
import DiscretModel.Lemmas.SyncRefineRoom
import DiscretModel.Lemmas.SyncConverge
/-
C11 — a deleted row stays deleted.

`Lemmas/SyncTombs.lean`: with ingestion consulting the deletion log (`ingestIgnoresTombstones := false`) and a
deletion record removing every version of its row (`syncDeletionRoomScoped := false`) — both off in
`Defects.none` — no replica ever stores a row that carries a deletion record, whatever the schedule of local
writes, writer batches, recomputations and pulls between any number of peers.

`Lemmas/SyncTombsScoped.lean`, `Lemmas/SyncTombsFixedRoom.lean`: the same for EVERY model that consults the deletion log
(#18 repaired) with every other switch as in the code — deletion records are per room there (a synchronised deletion
deletes `WHERE room_id = ? AND id = ?`, the log is consulted `WHERE room_id = ? AND id IN (..)`):
* whatever a peer pulls from whatever source, a row is never stored (again) in a room in which the peer holds a
  deletion record of it, and no record is forgotten (`C11_pull_keeps_deleted`, `C11_invariant_repaired`,
  `C11_deleted_stays_deleted_repaired`);
* in histories where rows keep the room they were created in — the histories of the property — this is the statement
  at the level of row ids: no version of a deleted row is ever stored again (`C11_invariant_rooms`,
  `C11_deleted_stays_deleted_rooms`).
-/
namespace Discret.Sync
open Discret.DailyLog

/-- **C11 (invariant over any schedule).** Any number of peers, any op sequence (creations use fresh ids): in
    the state reached, no replica — and no committed state hidden behind an open writer batch — stores a row
    whose id carries a deletion record on that replica. -/
theorem C11_invariant (rights : Rights) (ops : List Op)
    (hf : runFresh Defects.none (World.initDated rights) ops) :
    let w := World.run Defects.none (World.initDated rights) ops
    (∀ r ∈ w.peers, NoZombie r) ∧ (∀ r ∈ w.visible, NoZombie r) := by
  have s := run_step (d := Defects.none) rfl rfl ops (World.initDated rights) (init_WZ rights) hf
  refine ⟨s.1.1, ?_⟩
  intro r hr
  unfold World.visible at hr
  split at hr
  · rename_i b hb
    rcases List.mem_or_eq_of_mem_set hr with e | e
    · exact s.1.1 r e
    · rw [e]; exact s.1.2 b hb
  · exact s.1.1 r hr

/-- **C11 (a deleted row stays deleted).** Once peer `p` stores a deletion record of row `i` (after `ops1`),
    then after ANY continuation `ops2` — pulls from peers that never saw the deletion included — peer `p`
    still stores a deletion record of `i` and stores no version of row `i` at all. -/
theorem C11_deleted_stays_deleted (rights : Rights) (ops1 ops2 : List Op) (p i : Nat)
    (hf : runFresh Defects.none (World.initDated rights) (ops1 ++ ops2))
    (hd : i ∈ ((World.run Defects.none (World.initDated rights) ops1).peer p).deadIds) :
    let w := World.run Defects.none (World.initDated rights) (ops1 ++ ops2)
    i ∈ (w.peer p).deadIds ∧ ∀ n ∈ (w.peer p).nodes, n.id ≠ i := by
  have hsplit : World.run Defects.none (World.initDated rights) (ops1 ++ ops2) =
      World.run Defects.none (World.run Defects.none (World.initDated rights) ops1) ops2 := by
    simp [World.run, List.foldl_append]
  have hf1 : runFresh Defects.none (World.initDated rights) ops1 ∧
      runFresh Defects.none (World.run Defects.none (World.initDated rights) ops1) ops2 := by
    clear hd hsplit
    generalize World.initDated rights = w0 at hf ⊢
    induction ops1 generalizing w0 with
    | nil => exact ⟨trivial, hf⟩
    | cons op t ih =>
      obtain ⟨a, b⟩ := hf
      obtain ⟨c, e⟩ := ih _ b
      exact ⟨⟨a, c⟩, e⟩
  have s1 := run_step (d := Defects.none) rfl rfl ops1 (World.initDated rights) (init_WZ rights) hf1.1
  have s2 := run_step (d := Defects.none) rfl rfl ops2 _ s1.1 hf1.2
  simp only
  rw [hsplit]
  have hdead := s2.2 p i hd
  refine ⟨hdead, ?_⟩
  intro n hn e
  have hz := (noZombie_iff _).mp (s2.1.peer p) n hn
  rw [e] at hz
  exact hz hdead

/-! ### the code with #18 repaired: any model `d` that consults the deletion log, every other switch free -/

/-- the model of the code with the repair of #18 (`findings/C11-ingest-consults-deletion-log-v2.patch`): since that
    repair is in /repo this is `Defects.asImplemented` itself -/
def Defects.repaired18 : Defects := { Defects.asImplemented with ingestIgnoresTombstones := false }

theorem Defects.repaired18_eq : Defects.repaired18 = Defects.asImplemented := rfl

/-- **C11 (one pull, whatever the source holds).** For every model that consults the deletion log — the code with
    #18 repaired, room-scoped deletions and every other deviation included — and ANY source replica (a peer that has
    not seen the deletion, that holds older or newer versions, anything): after the pull the puller stores no row in a
    room in which it holds a deletion record of that row, and it still holds every deletion record it held. -/
theorem C11_pull_keeps_deleted (d : Defects) (hI : d.ingestIgnoresTombstones = false) (rights : Rights)
    (dst src : Replica) (room : Nat) (h : NoZombieR dst) :
    NoZombieR (pull d rights dst src room).dst ∧
      ∀ x ∈ dst.deadPairs, x ∈ (pull d rights dst src room).dst.deadPairs :=
  pull_noZombieR hI rights src h room

/-- **C11 (invariant over any schedule, #18 repaired).** Any number of peers, any op sequence in which no LOCAL write
    itself puts a row into a room where the writer holds its deletion record (`runSafe`: fresh ids for creations, no
    room move into such a room — for every other write outside an open batch this is automatic,
    `C11_safe_is_automatic`): in the state reached no replica — and no committed state hidden behind an open writer
    batch — stores a row in a room in which it holds a deletion record of that row. -/
theorem C11_invariant_repaired (d : Defects) (hI : d.ingestIgnoresTombstones = false) (rights : Rights)
    (ops : List Op) (hs : runSafe d (World.initDated rights) ops) :
    let w := World.run d (World.initDated rights) ops
    (∀ r ∈ w.peers, NoZombieR r) ∧ (∀ r ∈ w.visible, NoZombieR r) := by
  have s := run_stepR hI ops (World.initDated rights) (init_WZR rights) hs
  refine ⟨s.1.1, ?_⟩
  intro r hr
  unfold World.visible at hr
  split at hr
  · rename_i b hb
    rcases List.mem_or_eq_of_mem_set hr with e | e
    · exact s.1.1 r e
    · rw [e]; exact s.1.2 b hb
  · exact s.1.1 r hr

/-- the guard of `C11_invariant_repaired` is automatic for updates without room move, reference changes and
    deletions made outside an open batch, in every state that satisfies the invariant -/
theorem C11_safe_is_automatic (w : World) (hw : WZR w) (hb : w.batch = none) (p : Nat) :
    (∀ row val sig, Op.safe w (.write p (.upd row val sig none))) ∧
    (∀ row to sig, Op.safe w (.write p (.ref row to sig))) ∧
    (∀ row to sig dsig, Op.safe w (.write p (.unref row to sig dsig))) ∧
    (∀ row dsig, Op.safe w (.write p (.del row dsig))) := by
  have h := WOp.safe_of_noZombieR (hw.peer p)
  simp only [Op.safe, World.snapOf, hb]
  exact h

/-- **C11 (a deleted row stays deleted, #18 repaired).** Once peer `p` stores a deletion record of row `i` in room
    `room` (after `ops1`), then after ANY continuation `ops2` — pulls from peers that never saw the deletion
    included — peer `p` still stores a deletion record of `i` in that room and stores no version of `i` in that room. -/
theorem C11_deleted_stays_deleted_repaired (d : Defects) (hI : d.ingestIgnoresTombstones = false) (rights : Rights)
    (ops1 ops2 : List Op) (p i room : Nat)
    (hs : runSafe d (World.initDated rights) (ops1 ++ ops2))
    (hd : (i, room) ∈ ((World.run d (World.initDated rights) ops1).peer p).deadPairs) :
    let w := World.run d (World.initDated rights) (ops1 ++ ops2)
    (i, room) ∈ (w.peer p).deadPairs ∧ ∀ n ∈ (w.peer p).nodes, n.id = i → n.room ≠ room := by
  have hsplit : World.run d (World.initDated rights) (ops1 ++ ops2) =
      World.run d (World.run d (World.initDated rights) ops1) ops2 := by
    simp [World.run, List.foldl_append]
  obtain ⟨hs1, hs2⟩ := runSafe_append d ops1 ops2 _ hs
  have s1 := run_stepR hI ops1 (World.initDated rights) (init_WZR rights) hs1
  have s2 := run_stepR hI ops2 _ s1.1 hs2
  simp only
  rw [hsplit]
  have hdead := s2.2 p (i, room) hd
  refine ⟨hdead, ?_⟩
  intro n hn e1 e2
  have hz := (noZombieR_iff _).mp (s2.1.peer p) n hn
  rw [e1, e2] at hz
  exact hz hdead

/-- **C11 (invariant at the level of row ids, #18 repaired, rows keep their room).** Any number of peers, any op
    sequence whose creations use fresh ids and in which a row is created in, and only ever explicitly moved to, the
    room `f` names for it (no row changes room — the histories of the property): no replica, and no committed state
    behind an open batch, stores ANY version of a row whose id carries a deletion record on that replica. -/
theorem C11_invariant_rooms (d : Defects) (hI : d.ingestIgnoresTombstones = false) (rights : Rights) (f : Nat → Nat)
    (ops : List Op) (hf : runFresh d (World.initDated rights) ops) (hk : ∀ op ∈ ops, op.keepsRoom f) :
    let w := World.run d (World.initDated rights) ops
    (∀ r ∈ w.peers, NoZombie r) ∧ (∀ r ∈ w.visible, NoZombie r) := by
  have s := run_stepF hI ops (World.initDated rights) (init_WZ rights) (init_WRooms f rights) hf hk
  refine ⟨s.1.1.1, ?_⟩
  intro r hr
  unfold World.visible at hr
  split at hr
  · rename_i b hb
    rcases List.mem_or_eq_of_mem_set hr with e | e
    · exact s.1.1.1 r e
    · rw [e]; exact s.1.1.2 b hb
  · exact s.1.1.1 r hr

/-- **C11 (a deleted row stays deleted, row ids, #18 repaired, rows keep their room).** Once peer `p` stores a
    deletion record of row `i`, then after any continuation — pulls from peers that never saw the deletion, that hold
    the deleted, an older or a newer version — peer `p` still stores a record of `i` and no version of `i` at all. -/
theorem C11_deleted_stays_deleted_rooms (d : Defects) (hI : d.ingestIgnoresTombstones = false) (rights : Rights)
    (f : Nat → Nat) (ops1 ops2 : List Op) (p i : Nat)
    (hf : runFresh d (World.initDated rights) (ops1 ++ ops2)) (hk : ∀ op ∈ ops1 ++ ops2, op.keepsRoom f)
    (hd : i ∈ ((World.run d (World.initDated rights) ops1).peer p).deadIds) :
    let w := World.run d (World.initDated rights) (ops1 ++ ops2)
    i ∈ (w.peer p).deadIds ∧ ∀ n ∈ (w.peer p).nodes, n.id ≠ i := by
  have hsplit : World.run d (World.initDated rights) (ops1 ++ ops2) =
      World.run d (World.run d (World.initDated rights) ops1) ops2 := by
    simp [World.run, List.foldl_append]
  obtain ⟨hf1, hf2⟩ := runFresh_append d ops1 ops2 _ hf
  have s1 := run_stepF hI ops1 (World.initDated rights) (init_WZ rights) (init_WRooms f rights) hf1
    (fun o ho => hk o (List.mem_append_left _ ho))
  have s2 := run_stepF hI ops2 _ s1.1.1 s1.2 hf2 (fun o ho => hk o (List.mem_append_right _ ho))
  simp only
  rw [hsplit]
  have hdead := s2.1.2 p i hd
  refine ⟨hdead, ?_⟩
  intro n hn e
  have hz := (noZombie_iff _).mp (s2.1.1.peer p) n hn
  rw [e] at hz
  exact hz hdead

open Discret.SyncOrder in
/-- **C11 (once a pull has nothing left to bring: record present, row absent).** For every model that consults the
    deletion log (#18 repaired) and compares the whole history (`summaryFirstEntityOnly` off), members holding every
    right, rows that keep their room (or unscoped deletions), no two records of one row on one day in the source (or
    batches not keyed by row id), both logs being the logs of the stored content (C09): when a pull `dst ← src` of a
    room leaves the rows and deletion records of `dst` as they were — the pair is quiescent — `dst` holds every
    deletion record that `src` holds for that room and stores no version of the rows they name.
    Each hypothesis stands for one open known finding: `room-summary-compares-first-entity-only`
    (+ `deletion-missing-room-summaries-equal`), `greater-version-refused-author-lacks-all-rows-right`
    (+ `deletion-refused-local-version-by-other-author`), `two-deletion-records-of-one-row-one-day`
    (+ `deletion-record-missing-after-quiescence`), and the daily-log findings of C09. -/
theorem C11_quiescent_pull_complete (d : Defects) (hI : d.ingestIgnoresTombstones = false)
    (hS : d.summaryFirstEntityOnly = false) (rights : Rights) (hA : AllRights rights) (f : Nat → Nat)
    (dst src : Replica) (hR : d.syncDeletionRoomScoped = false ∨ (RoomFn f dst ∧ RoomFn f src))
    (hK : d.deletionBatchKeyedById = false ∨ DayRecordsDistinct src)
    (hzd : NoZombie dst) (hzs : NoZombie src) (hnd : IdsNodup dst) (hns : IdsNodup src)
    (hpk : PkFun (fun x => x ∈ dst.ntombs ∨ x ∈ src.ntombs))
    (hld : IsLogOf dst.sigs dst.log) (hls : IsLogOf src.sigs src.log) (hsig : SigsDetermine dst src) (room : Nat)
    (hq : abs (pull d rights dst src room).dst = abs dst) :
    ∀ t ∈ src.ntombs, t.room = room → (∃ u ∈ dst.ntombs, u.sig = t.sig) ∧ ∀ n ∈ dst.nodes, n.id ≠ t.id := by
  intro t ht hr
  have e := pull_refines_join hI hS hA hR hK hzd hzs hnd hns hpk hld hls hsig room
  rw [hq] at e
  have hin : t ∈ (inRoom src room).ntombs := List.mem_filter.mpr ⟨ht, by simp [hr]⟩
  have hrec : (abs dst).recs t.sig = true := by
    have := congrArg (fun a => a.recs t.sig) e
    simp only [join] at this
    rw [this]
    have : (abs (inRoom src room)).recs t.sig = true := List.any_eq_true.mpr ⟨t, hin, by simp⟩
    rw [this, Bool.or_true]
  have hdead : (abs dst).dead t.id = true := by
    have := congrArg (fun a => a.dead t.id) e
    simp only [join] at this
    rw [this]
    have : (abs (inRoom src room)).dead t.id = true := List.any_eq_true.mpr ⟨t, hin, by simp⟩
    rw [this, Bool.or_true]
  constructor
  · obtain ⟨u, hu, eu⟩ := List.any_eq_true.mp hrec
    exact ⟨u, hu, by simpa using eu⟩
  · intro n hn e2
    obtain ⟨u, hu, eu⟩ := List.any_eq_true.mp hdead
    have eu' : u.id = t.id := by simpa using eu
    exact hzd u hu n hn (e2.trans eu'.symm)

/-! #### the code as it is -/

/-- **C11 for the code as it is (one pull, whatever the source holds)**: `C11_pull_keeps_deleted` at `Defects.asImplemented` -/
theorem C11_pull_keeps_deleted_asImplemented (rights : Rights) (dst src : Replica) (room : Nat) (h : NoZombieR dst) :
    NoZombieR (pull Defects.asImplemented rights dst src room).dst ∧
      ∀ x ∈ dst.deadPairs, x ∈ (pull Defects.asImplemented rights dst src room).dst.deadPairs :=
  C11_pull_keeps_deleted Defects.asImplemented rfl rights dst src room h

/-- **C11 for the code as it is (invariant over any schedule)**: `C11_invariant_repaired` at `Defects.asImplemented` -/
theorem C11_invariant_asImplemented (rights : Rights) (ops : List Op)
    (hs : runSafe Defects.asImplemented (World.initDated rights) ops) :
    let w := World.run Defects.asImplemented (World.initDated rights) ops
    (∀ r ∈ w.peers, NoZombieR r) ∧ (∀ r ∈ w.visible, NoZombieR r) :=
  C11_invariant_repaired Defects.asImplemented rfl rights ops hs

/-- **C11 for the code as it is (a deleted row stays deleted)**: once a peer stores a deletion record of a row in a
    room, whatever it pulls afterwards it keeps the record and stores no version of the row in that room -/
theorem C11_deleted_stays_deleted_asImplemented (rights : Rights) (ops1 ops2 : List Op) (p i room : Nat)
    (hs : runSafe Defects.asImplemented (World.initDated rights) (ops1 ++ ops2))
    (hd : (i, room) ∈ ((World.run Defects.asImplemented (World.initDated rights) ops1).peer p).deadPairs) :
    let w := World.run Defects.asImplemented (World.initDated rights) (ops1 ++ ops2)
    (i, room) ∈ (w.peer p).deadPairs ∧ ∀ n ∈ (w.peer p).nodes, n.id = i → n.room ≠ room :=
  C11_deleted_stays_deleted_repaired Defects.asImplemented rfl rights ops1 ops2 p i room hs hd

/-- **C11 for the code as it is, at the level of row ids**, for the histories of the property (rows keep the room they
    were created in): no replica ever stores any version of a row whose id carries a deletion record on it -/
theorem C11_invariant_rooms_asImplemented (rights : Rights) (f : Nat → Nat) (ops : List Op)
    (hf : runFresh Defects.asImplemented (World.initDated rights) ops) (hk : ∀ op ∈ ops, op.keepsRoom f) :
    let w := World.run Defects.asImplemented (World.initDated rights) ops
    (∀ r ∈ w.peers, NoZombie r) ∧ (∀ r ∈ w.visible, NoZombie r) :=
  C11_invariant_rooms Defects.asImplemented rfl rights f ops hf hk

/-- **C11 for the code as it is (a deleted row stays deleted, row ids, rows keep their room)** -/
theorem C11_deleted_stays_deleted_rooms_asImplemented (rights : Rights) (f : Nat → Nat) (ops1 ops2 : List Op)
    (p i : Nat) (hf : runFresh Defects.asImplemented (World.initDated rights) (ops1 ++ ops2))
    (hk : ∀ op ∈ ops1 ++ ops2, op.keepsRoom f)
    (hd : i ∈ ((World.run Defects.asImplemented (World.initDated rights) ops1).peer p).deadIds) :
    let w := World.run Defects.asImplemented (World.initDated rights) (ops1 ++ ops2)
    i ∈ (w.peer p).deadIds ∧ ∀ n ∈ (w.peer p).nodes, n.id ≠ i :=
  C11_deleted_stays_deleted_rooms Defects.asImplemented rfl rights f ops1 ops2 p i hf hk hd

/-! #### the hypotheses are satisfiable: the schedules of the property on the model of the repaired code -/

instance (tombs : List NTomb) (id room : Nat) : Decidable (Clear tombs id room) := by
  unfold Clear; exact inferInstance

instance (sn : List Node) (tombs : List NTomb) : (op : WOp) → Decidable (op.safe sn tombs)
  | .new .. => by unfold WOp.safe; exact inferInstance
  | .upd .. => by unfold WOp.safe; exact inferInstance
  | .ref .. => by unfold WOp.safe; exact inferInstance
  | .unref .. => by unfold WOp.safe; exact inferInstance
  | .del .. => by unfold WOp.safe; exact inferInstance

instance (w : World) : (op : Op) → Decidable (op.safe w)
  | .write .. => by unfold Op.safe; exact inferInstance
  | .clock .. | .compute .. | .pull .. | .begin .. | .commit .. | .settle .. => by unfold Op.safe; exact inferInstance

instance (d : Defects) : (ops : List Op) → (w : World) → Decidable (runSafe d w ops)
  | [], _ => by unfold runSafe; exact inferInstance
  | op :: t, w => by
    unfold runSafe
    have := instDecidableRunSafe d t (w.exec d op)
    exact inferInstance

instance (w : World) : (op : Op) → Decidable (op.fresh w)
  | .write _ (.new ..) => by unfold Op.fresh; exact inferInstance
  | .write _ (.upd ..) | .write _ (.ref ..) | .write _ (.unref ..) | .write _ (.del ..) => by
    unfold Op.fresh; exact inferInstance
  | .clock .. | .compute .. | .pull .. | .begin .. | .commit .. | .settle .. => by unfold Op.fresh; exact inferInstance

instance (d : Defects) : (ops : List Op) → (w : World) → Decidable (runFresh d w ops)
  | [], _ => by unfold runFresh; exact inferInstance
  | op :: t, w => by
    unfold runFresh
    have := instDecidableRunFresh d t (w.exec d op)
    exact inferInstance

instance (f : Nat → Nat) : (op : WOp) → Decidable (op.keepsRoom f)
  | .new .. => by unfold WOp.keepsRoom; exact inferInstance
  | .upd _ _ _ (some _) => by unfold WOp.keepsRoom; exact inferInstance
  | .upd _ _ _ none | .ref .. | .unref .. | .del .. => by unfold WOp.keepsRoom; exact inferInstance

instance (f : Nat → Nat) : (op : Op) → Decidable (op.keepsRoom f)
  | .write .. => by unfold Op.keepsRoom; exact inferInstance
  | .clock .. | .compute .. | .pull .. | .begin .. | .commit .. | .settle .. => by unfold Op.keepsRoom; exact inferInstance

/-- non-vacuity: a reachable state in which a peer that never deleted anything stores a deletion record -/
example :
    let w := World.run Defects.none (World.init [true, true, true])
      [.clock 1000, .write 0 (.new 1 1 0 1 11), .compute 0, .pull 1 0 1, .pull 2 0 1,
       .clock 2000, .write 0 (.del 1 12), .compute 0, .pull 1 0 1, .pull 1 2 1, .pull 0 1 1]
    1 ∈ (w.peer 1).deadIds ∧ (w.peer 1).nodes = [] ∧ (w.peer 0).nodes = [] ∧ (w.peer 2).nodes.length = 1 := by
  decide +kernel

/-- the schedule of the property text: delete on A (0); B (1) pulls from A; B pulls from C (2), which has not
    seen the deletion; A pulls from B -/
def comeBackTrace : List Op :=
  [.clock 1000, .write 0 (.new 1 1 0 1 11), .compute 0, .pull 1 0 1, .pull 2 0 1,
   .clock 2000, .write 0 (.del 1 12), .compute 0, .pull 1 0 1, .pull 1 2 1, .pull 0 1 1]

/-- **C11_breaks_ingestIgnoresTombstones** (#18, the code before `findings/C11-ingest-consults-deletion-log-v2.patch`;
    regression witness, replay `corpus/C11/deleted-row-comes-back.ops`). Ingestion never consulted the deletion log: after
    `delete@A, B←A, B←C, A←B` the row is visible again on B and on A — the peer that deleted it — although both
    store its deletion record. With the deletion log consulted it stays deleted. -/
theorem C11_breaks_ingestIgnoresTombstones :
    let w := World.run { Defects.asImplemented with ingestIgnoresTombstones := true } (World.init [true, true, true])
      comeBackTrace
    1 ∈ (w.peer 0).deadIds ∧ 1 ∈ (w.peer 1).deadIds ∧
    (w.peer 0).nodes.map (·.id) = [1] ∧ (w.peer 1).nodes.map (·.id) = [1] ∧
    let w' := World.run { Defects.asImplemented with ingestIgnoresTombstones := false } (World.init [true, true, true])
      comeBackTrace
    (w'.peer 0).nodes = [] ∧ (w'.peer 1).nodes = [] := by
  decide +kernel

/-- non-vacuity of `C11_invariant_repaired`, `C11_invariant_rooms`, `C11_deleted_stays_deleted_*` on the model of the
    repaired code: the schedule of the property text satisfies every guard, B (1) and A (0) store the deletion record
    and no version of the row, C (2) — which never heard of the deletion — still stores it -/
example :
    let d := Defects.repaired18
    let w0 := World.init [true, true, true]
    let w := World.run d w0 comeBackTrace
    runSafe d w0 comeBackTrace ∧ runFresh d w0 comeBackTrace ∧ (∀ op ∈ comeBackTrace, op.keepsRoom fun _ => 1) ∧
    1 ∈ (w.peer 0).deadIds ∧ 1 ∈ (w.peer 1).deadIds ∧ (w.peer 0).nodes = [] ∧ (w.peer 1).nodes = [] ∧
    (w.peer 2).nodes.length = 1 := by
  decide +kernel

/-- rows 1 and 2 refer to each other; row 2 is deleted on a later day than its last change; peer 1 applies the
    deletion and then pulls from peer 2, which has not seen it and holds the row and both references -/
def referencesTrace : List Op :=
  [.clock 1000, .write 0 (.new 1 1 0 1 11), .write 0 (.new 2 1 0 2 12), .clock 2000, .write 0 (.ref 1 2 13),
   .clock 2001, .write 0 (.ref 2 1 14), .compute 0, .pull 1 0 1, .pull 2 0 1,
   .clock 86401000, .write 0 (.del 2 15), .compute 0,
   .pull 1 0 1, .pull 1 2 1, .pull 0 2 1, .pull 0 1 1, .settle 1 6]

/-- non-vacuity, references and a deletion on a later day: on the repaired model the guards hold, the deleted row is
    stored nowhere after quiescence, and no reference has both ends stored; on the model of the code before the repair
    the row is back everywhere with its references (the known findings `reference-of-deleted-row-differs` and
    `deleted-reference-back-with-deleted-row` are consequences of #18) -/
example :
    let w0 := World.init [true, true, true]
    let w := World.run Defects.repaired18 w0 referencesTrace
    let v := World.run { Defects.asImplemented with ingestIgnoresTombstones := true } w0 referencesTrace
    runSafe Defects.repaired18 w0 referencesTrace ∧ runFresh Defects.repaired18 w0 referencesTrace ∧
    w.peers.map (fun r => r.nodes.map (·.id)) = [[1], [1], [1]] ∧
    w.peers.map (fun r => r.deadIds) = [[2], [2], [2]] ∧
    v.peers.map (fun r => r.nodes.map (·.id)) = [[1, 2], [1, 2], [1, 2]] ∧
    (v.peer 0).edges.length = 1 ∧ (v.peer 1).edges.length = 2 := by
  decide +kernel

/-- the opposite arrival order: an unaware peer edits the row after its deletion; peer 1 receives the NEWER version
    first and the deletion record afterwards, then is offered the newer version again -/
def newerFirstTrace : List Op :=
  [.clock 1000, .write 0 (.new 1 1 0 1 11), .compute 0, .pull 1 0 1, .pull 2 0 1,
   .clock 2000, .write 0 (.del 1 12), .compute 0, .clock 3000, .write 2 (.upd 1 5 13 none), .compute 2,
   .pull 1 2 1, .pull 1 0 1, .pull 1 2 1, .settle 1 6]

/-- the deletion wins in both arrival orders on the repaired model: the row is stored nowhere, the record everywhere -/
example :
    let w := World.run Defects.repaired18 (World.init [true, true, true]) newerFirstTrace
    runSafe Defects.repaired18 (World.init [true, true, true]) newerFirstTrace ∧
    w.peers.map (fun r => r.nodes) = [[], [], []] ∧ w.peers.map (fun r => r.deadIds) = [[1], [1], [1]] := by
  decide +kernel

/-- a row that travels between rooms: created in room 1, moved to room 2 by peer 2, moved back to room 1 by peer 1,
    deleted there by peer 0; peer 3 applies the deletion, then pulls room 2 from peer 2, which still holds the
    version of room 2 -/
def twoMovesTrace : List Op :=
  [.clock 1000, .write 0 (.new 1 1 0 1 11), .compute 0, .pull 1 0 1, .pull 2 0 1, .pull 3 0 1,
   .clock 1500, .write 2 (.upd 1 2 12 (some 2)), .compute 2, .pull 1 2 2,
   .clock 3000, .write 1 (.upd 1 3 13 (some 1)), .compute 1, .pull 0 1 1,
   .clock 4000, .write 0 (.del 1 14), .compute 0, .pull 3 0 1, .pull 3 2 2]

/-- **C11_breaks_syncDeletionRoomScoped** (what remains open after the repair of #18). Deletion records are per
    room (`DELETE … WHERE room_id = ? AND id = ?`, a security boundary: the deleter's right is judged in the room the
    record names): for a row that has lived in two rooms, a peer that stores the deletion record of a LATER version in
    room 1 still fetches an OLDER version of the row that another peer holds in room 2. The room-level invariant of
    `C11_invariant_repaired` holds (every guard is satisfied), the id-level statement does not: rows that change room
    are outside `C11_invariant_rooms`. -/
theorem C11_breaks_syncDeletionRoomScoped :
    let w0 := World.init [true, true, true, true]
    let w := World.run Defects.repaired18 w0 twoMovesTrace
    runSafe Defects.repaired18 w0 twoMovesTrace ∧
    (w.peer 3).ntombs.map (fun t => (t.id, t.room, t.mdate)) = [(1, 1, 3000)] ∧
    (w.peer 3).nodes.map (fun n => (n.id, n.room, n.mdate)) = [(1, 2, 1500)] := by
  decide +kernel

end Discret.Sync

namespace Discret.SyncOrder

/-- **C11 (after everybody has synchronised).** When the pulls are joins: once a full round changes nothing,
    a row of which ANY replica initially held a deletion record is shown by no replica, and every replica holds
    every deletion record. -/
theorem C11_converged_absent (s0 : Net) (hw : ∀ x ∈ s0, x.WF) (sched : List (Nat × Nat))
    (hq : (s0.run sched).Quiet) (i : Nat) (hi : i < s0.length) (id : Nat)
    (hdel : ∃ x ∈ s0, x.dead id = true) :
    ((s0.run sched).at i).dead id = true ∧ ((s0.run sched).at i).ver id = none ∧
    ∀ x ∈ s0, ∀ sg, x.recs sg = true → ((s0.run sched).at i).recs sg = true := by
  rw [Net.quiet_is_joinAll hw sched hq hi]
  have hd : (joinAll s0).dead id = true := by
    rw [joinAll_dead]
    obtain ⟨x, hx, hxd⟩ := hdel
    exact List.any_eq_true.mpr ⟨x, hx, hxd⟩
  refine ⟨hd, joinAll_wf s0 id hd, ?_⟩
  intro x hx sg hr
  clear hq hdel hd hi
  induction s0 with
  | nil => cases hx
  | cons a t ih =>
    rcases List.mem_cons.mp hx with e | e
    · subst e; simp [joinAll, join, hr]
    · have := ih (fun y hy => hw y (List.mem_cons_of_mem _ hy)) e
      simp [joinAll, join, this]

end Discret.SyncOrder
