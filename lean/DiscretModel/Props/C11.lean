import DiscretModel.Lemmas.SyncTombs
import DiscretModel.Lemmas.SyncConverge
/-
C11 — a deleted row stays deleted.

`Lemmas/SyncTombs.lean`: with ingestion consulting the deletion log (`ingestIgnoresTombstones := false`) and a
deletion record removing every version of its row (`syncDeletionRoomScoped := false`) — both off in
`Defects.none` — no replica ever stores a row that carries a deletion record, whatever the schedule of local
writes, writer batches, recomputations and pulls between any number of peers.
-/
namespace Discret.Sync
open Discret.DailyLog

/-- **C11 (invariant over any schedule).** Any number of peers, any op sequence (creations use fresh ids): in
    the state reached, no replica — and no committed state hidden behind an open writer batch — stores a row
    whose id carries a deletion record on that replica. -/
theorem C11_invariant (rights : Rights) (ops : List Op)
    (hf : runFresh Defects.none (World.initDated rights) ops) :
    let w := World.run Defects.none (World.initDated rights) ops
    (∀ r ∈ w.peers, NoZombie r) ∧ (∀ r ∈ w.visible, NoZombie r) := by
  have s := run_step (d := Defects.none) rfl rfl ops (World.initDated rights) (init_WZ rights) hf
  refine ⟨s.1.1, ?_⟩
  intro r hr
  unfold World.visible at hr
  split at hr
  · rename_i b hb
    rcases List.mem_or_eq_of_mem_set hr with e | e
    · exact s.1.1 r e
    · rw [e]; exact s.1.2 b hb
  · exact s.1.1 r hr

/-- **C11 (a deleted row stays deleted).** Once peer `p` stores a deletion record of row `i` (after `ops1`),
    then after ANY continuation `ops2` — pulls from peers that never saw the deletion included — peer `p`
    still stores a deletion record of `i` and stores no version of row `i` at all. -/
theorem C11_deleted_stays_deleted (rights : Rights) (ops1 ops2 : List Op) (p i : Nat)
    (hf : runFresh Defects.none (World.initDated rights) (ops1 ++ ops2))
    (hd : i ∈ ((World.run Defects.none (World.initDated rights) ops1).peer p).deadIds) :
    let w := World.run Defects.none (World.initDated rights) (ops1 ++ ops2)
    i ∈ (w.peer p).deadIds ∧ ∀ n ∈ (w.peer p).nodes, n.id ≠ i := by
  have hsplit : World.run Defects.none (World.initDated rights) (ops1 ++ ops2) =
      World.run Defects.none (World.run Defects.none (World.initDated rights) ops1) ops2 := by
    simp [World.run, List.foldl_append]
  have hf1 : runFresh Defects.none (World.initDated rights) ops1 ∧
      runFresh Defects.none (World.run Defects.none (World.initDated rights) ops1) ops2 := by
    clear hd hsplit
    generalize World.initDated rights = w0 at hf ⊢
    induction ops1 generalizing w0 with
    | nil => exact ⟨trivial, hf⟩
    | cons op t ih =>
      obtain ⟨a, b⟩ := hf
      obtain ⟨c, e⟩ := ih _ b
      exact ⟨⟨a, c⟩, e⟩
  have s1 := run_step (d := Defects.none) rfl rfl ops1 (World.initDated rights) (init_WZ rights) hf1.1
  have s2 := run_step (d := Defects.none) rfl rfl ops2 _ s1.1 hf1.2
  simp only
  rw [hsplit]
  have hdead := s2.2 p i hd
  refine ⟨hdead, ?_⟩
  intro n hn e
  have hz := (noZombie_iff _).mp (s2.1.peer p) n hn
  rw [e] at hz
  exact hz hdead

/-- non-vacuity: a reachable state in which a peer that never deleted anything stores a deletion record -/
example :
    let w := World.run Defects.none (World.init [true, true, true])
      [.clock 1000, .write 0 (.new 1 1 0 1 11), .compute 0, .pull 1 0 1, .pull 2 0 1,
       .clock 2000, .write 0 (.del 1 12), .compute 0, .pull 1 0 1, .pull 1 2 1, .pull 0 1 1]
    1 ∈ (w.peer 1).deadIds ∧ (w.peer 1).nodes = [] ∧ (w.peer 0).nodes = [] ∧ (w.peer 2).nodes.length = 1 := by
  decide +kernel

/-- the schedule of the property text: delete on A (0); B (1) pulls from A; B pulls from C (2), which has not
    seen the deletion; A pulls from B -/
def comeBackTrace : List Op :=
  [.clock 1000, .write 0 (.new 1 1 0 1 11), .compute 0, .pull 1 0 1, .pull 2 0 1,
   .clock 2000, .write 0 (.del 1 12), .compute 0, .pull 1 0 1, .pull 1 2 1, .pull 0 1 1]

/-- **C11_breaks_ingestIgnoresTombstones** (#18). Ingestion never consults the deletion log: after
    `delete@A, B←A, B←C, A←B` the row is visible again on B and on A — the peer that deleted it — although both
    store its deletion record. With the deletion log consulted it stays deleted. -/
theorem C11_breaks_ingestIgnoresTombstones :
    let w := World.run Defects.asImplemented (World.init [true, true, true]) comeBackTrace
    1 ∈ (w.peer 0).deadIds ∧ 1 ∈ (w.peer 1).deadIds ∧
    (w.peer 0).nodes.map (·.id) = [1] ∧ (w.peer 1).nodes.map (·.id) = [1] ∧
    let w' := World.run { Defects.asImplemented with ingestIgnoresTombstones := false } (World.init [true, true, true])
      comeBackTrace
    (w'.peer 0).nodes = [] ∧ (w'.peer 1).nodes = [] := by
  decide +kernel

end Discret.Sync

namespace Discret.SyncOrder

/-- **C11 (after everybody has synchronised).** When the pulls are joins: once a full round changes nothing,
    a row of which ANY replica initially held a deletion record is shown by no replica, and every replica holds
    every deletion record. -/
theorem C11_converged_absent (s0 : Net) (hw : ∀ x ∈ s0, x.WF) (sched : List (Nat × Nat))
    (hq : (s0.run sched).Quiet) (i : Nat) (hi : i < s0.length) (id : Nat)
    (hdel : ∃ x ∈ s0, x.dead id = true) :
    ((s0.run sched).at i).dead id = true ∧ ((s0.run sched).at i).ver id = none ∧
    ∀ x ∈ s0, ∀ sg, x.recs sg = true → ((s0.run sched).at i).recs sg = true := by
  rw [Net.quiet_is_joinAll hw sched hq hi]
  have hd : (joinAll s0).dead id = true := by
    rw [joinAll_dead]
    obtain ⟨x, hx, hxd⟩ := hdel
    exact List.any_eq_true.mpr ⟨x, hx, hxd⟩
  refine ⟨hd, joinAll_wf s0 id hd, ?_⟩
  intro x hx sg hr
  clear hq hdel hd hi
  induction s0 with
  | nil => cases hx
  | cons a t ih =>
    rcases List.mem_cons.mp hx with e | e
    · subst e; simp [joinAll, join, hr]
    · have := ih (fun y hy => hw y (List.mem_cons_of_mem _ hy)) e
      simp [joinAll, join, this]

end Discret.SyncOrder
