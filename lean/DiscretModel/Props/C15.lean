import DiscretModel.Model.DataModel
import DiscretModel.Gen.Consts
/-
C15 — placeholder while the proofs are being written (plumbing test).
-/
namespace Discret.DM

theorem C15_consts_reserved : Gen.reservedShortNames = reservedShort := by decide

end Discret.DM
