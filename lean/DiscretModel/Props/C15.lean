import DiscretModel.Lemmas.DataModel
import DiscretModel.Gen.Consts
/-
C15 — changing the data model never loses data and a refused change changes nothing.

Model: `Model/DataModel.lean` (AST level model of `data_model_parser.rs` and of the load / update /
persist cycle of `graph_database.rs`). All statements quantify over every model, every version, every
history of versions (user and system), every hash-map visit order `pri` — no bound.

The three deviations found by this check were fixed in /repo (`hashOrderIds` e35fd01, `partialRefusal` fb21964,
`defaultDropAccepted` 9cb7f9f): `Defects.asImplemented` is `Defects.none`, the full statements below are about
the code as it is now. The `C15_breaks_*` witnesses and `C15_partial` describe what each defect did, i.e. what a
revert of a fix brings back; the replays in corpus/C15 exhibit the same on the real code.
-/
namespace Discret.DM

/-- the theorems stated for `Defects.none` are about the code as implemented -/
theorem C15_code_is_intended : Defects.asImplemented = Defects.none := rfl

/-! ### short ids never change -/

/-- **C15 (ids never change).** Along every history — accepted or refused versions, any defects, any
    visit order — every namespace, entity and field that exists keeps its storage id (and its type). -/
theorem C15_ids_never_change (d : Defects) (m : Model) (steps : List Step) (n e f : String) :
    (∀ i, m.nsId n = some i → (runSteps d m steps).nsId n = some i) ∧
    (∀ k, m.entK n e = some k → (runSteps d m steps).entK n e = some k) ∧
    (∀ s, m.fieldShort n e f = some s → (runSteps d m steps).fieldShort n e f = some s) ∧
    (∀ fd, m.findField n e f = some fd →
      ∃ fd', (runSteps d m steps).findField n e f = some fd' ∧ fd'.short = fd.short ∧ fd'.ty = fd.ty) :=
  have h := runSteps_ext d m steps
  ⟨fun _ hi => h.nsId hi, fun _ hk => h.entK hk, fun _ hs => h.fieldShort hs, fun _ hf => h.findField hf⟩

/-! ### short ids are pairwise distinct -/

/-- **C15 (ids never collide).** In every model reached from the empty one: namespace ids are distinct,
    entity numbers are distinct inside a namespace, field ids are distinct inside an entity, and the
    storage name of an entity (`"k"` / `"ns.k"`) identifies it among all entities of the model. -/
theorem C15_ids_distinct (steps : List Step) :
    let m := runSteps Defects.none Model.empty steps
    (m.nss.map (·.id)).Nodup ∧
    (∀ n ∈ m.nss, (n.ents.map (·.k)).Nodup ∧ ∀ e ∈ n.ents, (e.fields.map (·.short)).Nodup) ∧
    (∀ n₁ ∈ m.nss, ∀ n₂ ∈ m.nss, ∀ e₁ ∈ n₁.ents, ∀ e₂ ∈ n₂.ents,
        entShort n₁ e₁ = entShort n₂ e₂ → n₁ = n₂ ∧ e₁ = e₂) :=
  (runSteps_wf Defects.none rfl rfl Model.empty steps wf_empty).distinct

/-! ### short ids are a function of the accepted versions only -/

/-- **C15 (ids are the positions in the accepted text).** After an accepted user version the ids of the
    user part of the model are exactly those the parser gives to that text, whatever the model was before. -/
theorem C15_ids_positional (pri : List Key) (m m' : Model) (v : Version) (hm : m.WF)
    (h : update Defects.none pri m v = (m', none)) :
    ∃ nv, parse 1 v = .ok nv ∧ ∀ n, n ≠ sysNs → ∀ e f,
      m'.nsId n = nv.nsId n ∧ m'.entK n e = nv.entK n e ∧ m'.fieldShort n e f = nv.fieldShort n e f := by
  rw [update_eq_applyV] at h
  obtain ⟨nv, hp, hnv, hacc, heq⟩ := applyV_ok h
  refine ⟨nv, hp, fun n hn e f => ?_⟩
  have hs : m'.SameUserIds nv := by rw [heq]; exact merged_sameUserIds pri Defects.none rfl m nv hm hnv hacc
  exact ⟨hs.nsId hn, hs.entK hn e, hs.fieldShort hn e f⟩

/-- **C15 (peers agree).** Two peers with different pasts and different hash seeds that accept the same
    version carry the same ids for everything the version describes. -/
theorem C15_peers_agree (pri₁ pri₂ : List Key) (m₁ m₂ m₁' m₂' : Model) (v : Version) (h₁ : m₁.WF) (h₂ : m₂.WF)
    (a₁ : update Defects.none pri₁ m₁ v = (m₁', none)) (a₂ : update Defects.none pri₂ m₂ v = (m₂', none)) :
    ∀ n, n ≠ sysNs → ∀ e f,
      m₁'.nsId n = m₂'.nsId n ∧ m₁'.entK n e = m₂'.entK n e ∧ m₁'.fieldShort n e f = m₂'.fieldShort n e f := by
  obtain ⟨nv, hp, k₁⟩ := C15_ids_positional pri₁ m₁ m₁' v h₁ a₁
  obtain ⟨nv', hp', k₂⟩ := C15_ids_positional pri₂ m₂ m₂' v h₂ a₂
  rw [hp] at hp'; cases hp'
  intro n hn e f
  obtain ⟨x1, x2, x3⟩ := k₁ n hn e f
  obtain ⟨y1, y2, y3⟩ := k₂ n hn e f
  exact ⟨x1.trans y1.symm, x2.trans y2.symm, x3.trans y3.symm⟩

/-- **C15 (accepted versions only).** The model after a history is the model after its accepted steps
    alone, and does not depend on the hash-map visit orders: it is a function of the sequence of accepted
    versions. -/
theorem C15_accepted_versions_only (m : Model) (steps steps' : List Step)
    (h : sameVersions (acceptedSteps Defects.none m steps) steps') :
    runSteps Defects.none m steps = runSteps Defects.none m steps' := by
  rw [runSteps_accepted Defects.none rfl m steps]
  exact runSteps_pri Defects.none rfl rfl m _ _ h

/-- acceptance itself and the resulting model do not depend on the visit order -/
theorem C15_visit_order_irrelevant (pri pri' : List Key) (system : Bool) (m : Model) (v : Version) :
    (applyV Defects.none pri system m v).1 = (applyV Defects.none pri' system m v).1 ∧
    ((applyV Defects.none pri system m v).2 = none ↔ (applyV Defects.none pri' system m v).2 = none) :=
  applyV_pri Defects.none rfl rfl pri pri' system m v

/-! ### existing rows stay readable, new fields read null or their default -/

/-- **C15 (values read back).** A value stored under a field's short id is returned under the same field
    name by every later model of the history (any defects: this only needs the ids to be stable). -/
theorem C15_values_read_back (d : Defects) (m : Model) (steps : List Step) (n e f : String) (fd : Field)
    (hf : m.findField n e f = some fd) (row : Row) (val : String) (hv : row.lookup fd.short = some val) :
    read m n e f row = some (some val) ∧ read (runSteps d m steps) n e f row = some (some val) :=
  read_preserved (runSteps_ext d m steps) hf row val hv

/-- **C15 (new fields read default or null).** A row written under model `m` (its keys are short ids of
    fields of its entity in `m`), read through a later model for a field the entity did not have in `m`,
    gives that field's default, or null. -/
theorem C15_new_fields_read_default_or_null (m : Model) (steps : List Step) (hm : m.WF) (n e f : String)
    (ent : Entity) (fd' : Field) (he : m.findEntity n e = some ent) (hnew : ent.findField f = none)
    (hf' : (runSteps Defects.none m steps).findField n e f = some fd')
    (row : Row) (hrow : ∀ p ∈ row, ∃ g ∈ ent.fields, g.short = p.1) :
    read (runSteps Defects.none m steps) n e f row = some (fd'.dflt.map (·.tok)) :=
  read_new_field hm (runSteps_wf Defects.none rfl rfl m steps hm) (runSteps_ext Defects.none m steps) he hnew hf' row hrow

/-- **C15 (old rows keep conforming).** A row written under model `m` that conforms to its entity (what a peer
    checks before it stores a row it receives: every field present with a value of its type, or absent while the
    field is nullable or has a default) conforms to that entity in every later model of the history: an accepted
    version never makes a field that rows may lack "not nullable without default", and a new field is nullable
    or has a default. `vok` is the per-type value check, arbitrary. -/
theorem C15_old_rows_conform (vok : FType → String → Bool) (m : Model) (steps : List Step) (hm : m.WF)
    (n e : String) (ent : Entity) (he : m.findEntity n e = some ent) (row : Row)
    (hrow : ∀ p ∈ row, ∃ g ∈ ent.fields, g.short = p.1) (hc : rowConforms vok ent row = true) :
    ∃ ent', (runSteps Defects.none m steps).findEntity n e = some ent' ∧ rowConforms vok ent' row = true :=
  runSteps_conforms vok m steps hm n e ent he row hrow hc

/-! ### the reverse table (short name ↦ entity) -/

/-- **C15 (the reverse table stays complete).** `DataModel` carries `entities_short`; after any history of
    versions every entity of the model is found again through its short name — also the entities a later
    version added to an existing namespace. -/
theorem C15_reverse_table_complete (steps : List Step) :
    (steps.foldl (fun dm s => (dm.apply Defects.none s.2.1 s.1 s.2.2).1) DataModel.empty).RevOk ∧
    (steps.foldl (fun dm s => (dm.apply Defects.none s.2.1 s.1 s.2.2).1) DataModel.empty).core.WF := by
  have key : ∀ (dm : DataModel), dm.core.WF → dm.RevOk →
      (steps.foldl (fun dm s => (dm.apply Defects.none s.2.1 s.1 s.2.2).1) dm).RevOk ∧
      (steps.foldl (fun dm s => (dm.apply Defects.none s.2.1 s.1 s.2.2).1) dm).core.WF := by
    induction steps with
    | nil => intro dm hw hr; exact ⟨hr, hw⟩
    | cons s rest ih =>
      intro dm hw hr
      simp only [List.foldl_cons]
      exact ih _ (applyV_wf Defects.none rfl rfl s.2.1 s.1 dm.core s.2.2 hw) (apply_revOk s.2.1 s.1 dm s.2.2 hw hr)
  exact key DataModel.empty wf_empty revOk_empty

/-! ### a refused version changes nothing; the same text again changes nothing -/

/-- **C15 (refused ⇒ unchanged).** -/
theorem C15_refused_changes_nothing (pri : List Key) (system : Bool) (m : Model) (v : Version) (e : Err)
    (h : (applyV Defects.none pri system m v).2 = some e) : (applyV Defects.none pri system m v).1 = m :=
  applyV_refused Defects.none rfl pri system m v e h

/-- the same at instance level: a refused run-time update leaves the live and the stored model as they were -/
theorem C15_refused_update_instance (pri : List Key) (sysV : Version) (s : Inst) (v : Version) (e : Err) (live : Model)
    (hl : s.live = some live) (hstored : s.stored = some live)
    (hsys : (updateSystem Defects.none pri live sysV) = (live, none))
    (h : (s.updateLive Defects.none pri sysV v).2 = some e) :
    (s.updateLive Defects.none pri sysV v).1 = s := by
  unfold Inst.updateLive at h ⊢
  simp only [hl, loadAndUpdate, hstored, Option.getD_some, hsys] at h ⊢
  have hr := C15_refused_changes_nothing pri false live v
  rw [← update_eq_applyV] at hr
  cases hu : update Defects.none pri live v with
  | mk m2 r =>
    rw [hu] at h hr
    cases r with
    | none => simp at h
    | some e' =>
      have := hr e' rfl
      simp only at this
      subst this
      cases s
      simp_all

/-- **C15 (the same text again).** Re-applying an accepted version is accepted and changes nothing. -/
theorem C15_same_text_changes_nothing (pri pri' : List Key) (m m' : Model) (v : Version) (hm : m.WF)
    (h : update Defects.none pri m v = (m', none)) : update Defects.none pri' m' v = (m', none) := by
  rw [update_eq_applyV] at h ⊢
  exact applyV_idem Defects.none rfl pri pri' false m m' v hm h

/-- **C15 (restart on the same model).** An instance that started (or restarted) on a model text restarts
    on the same text, with any other hash seeds, into exactly the same stored and live model. -/
theorem C15_restart_same_model (pri pri' : List Key) (sysV : Version) (s s' : Inst) (v : Version)
    (hs : (s.stored.getD Model.empty).WF) (h : s.start Defects.none pri sysV v = (s', none)) :
    s'.start Defects.none pri' sysV v = (s', none) := by
  unfold Inst.start at h
  cases hl : loadAndUpdate Defects.none pri sysV s.stored v with
  | mk m r =>
    rw [hl] at h
    cases r with
    | some e => simp at h
    | none =>
      simp only [Prod.mk.injEq, and_true] at h
      subst h
      have := loadAndUpdate_restart Defects.none rfl pri pri' sysV s.stored v m hs hl
      unfold Inst.start
      simp only [this]

/-! ### the constants of `system_entities.rs` (regenerated table, T6) -/

/-- id of entity `ns.e` and of its field `f` in a parsed model -/
def shortOf (m : Model) (n e f : String) : Option Nat := m.fieldShort n e f

def entIdOf (m : Model) (n e : String) : Option (Nat × Nat) :=
  (m.findNs n).bind fun ns => (ns.findEnt e).map fun x => (ns.id, x.k)

set_option maxRecDepth 100000 in
/-- **C15 (hard-coded short names are the positional ones).** `RESERVED_SHORT_NAMES`, the keys of
    `SYSTEM_FIELDS` and every `*_SHORT` constant of `system_entities.rs` agree with what `update_system`
    computes from `SYSTEM_DATA_MODEL` (all regenerated from the source on every run). -/
theorem C15_system_constants :
    Gen.reservedShortNames = reservedShort ∧ Gen.systemNamespace = sysNs ∧
    (∀ x ∈ Gen.systemFieldNames, x ∈ systemFields) ∧ (∀ x ∈ systemFields, x ∈ Gen.systemFieldNames) ∧
    Gen.unmappedConsts = [] ∧
    (updateSystem Defects.none [] Model.empty Gen.sysVersion).2 = none ∧
    (∀ c ∈ Gen.entityShortConsts,
      entIdOf (updateSystem Defects.none [] Model.empty Gen.sysVersion).1 c.1 c.2.1 = some c.2.2) ∧
    (∀ c ∈ Gen.fieldShortConsts,
      shortOf (updateSystem Defects.none [] Model.empty Gen.sysVersion).1 Gen.systemNamespace c.1 c.2.1 = some c.2.2) := by
  decide

/-! ### witnesses: what the two defects did (the code before the fixes) -/

private def fI (n : String) (nullable : Bool) : AField :=
  { name := n, cls := .ok, ty := .int, nullable := nullable, dflt := none, deprecated := false }
private def fS (n : String) (nullable : Bool) : AField :=
  { name := n, cls := .ok, ty := .str, nullable := nullable, dflt := none, deprecated := false }
private def ent (n : String) (dep : Bool) (fs : List AField) : AEntity :=
  { name := n, cls := .ok, deprecated := dep, fullText := true, fields := fs, indexes := [] }

/-- `{ P { a : Integer } }` -/
def wV1 : Version := [{ name := "", ents := [ent "P" false [fI "a" false]] }]
/-- `{ P { a : Integer, b : Integer nullable, c : Integer nullable } }` -/
def wV2 : Version := [{ name := "", ents := [ent "P" false [fI "a" false, fI "b" true, fI "c" true]] }]

def onlyHashOrder : Defects := { hashOrderIds := true, partialRefusal := false, defaultDropAccepted := false }
def onlyPartial : Defects := { hashOrderIds := false, partialRefusal := true, defaultDropAccepted := false }
def onlyDefaultDrop : Defects := { hashOrderIds := false, partialRefusal := false, defaultDropAccepted := true }

set_option maxRecDepth 100000 in
/-- **C15_breaks_hashOrderIds** (data_model_parser.rs:1038-1051 before e35fd01). Two fields added in one
    version, visited in the order `c, b`: the version is accepted, `b` gets id 34 while a peer that visits
    them in text order (or starts on the same text) gives it 33 — `C15_peers_agree` fails — and the
    instance refuses its own model at the next start — `C15_same_text_changes_nothing` fails. -/
theorem C15_breaks_hashOrderIds :
    let m1 := (update onlyHashOrder [] Model.empty wV1).1
    let a := update onlyHashOrder [.fld "" "P" "c", .fld "" "P" "b"] m1 wV2
    let b := update onlyHashOrder [] m1 wV2
    a.2 = none ∧ b.2 = none ∧ a.1.fieldShort "" "P" "b" = some 34 ∧ b.1.fieldShort "" "P" "b" = some 33 ∧
      (update onlyHashOrder [] a.1 wV2).2 = some .invalidFieldOrdering := by
  decide

/-- `{ P { a : Integer, b : String nullable, z : Integer } }` — `z` has no default: refused -/
def wBad : Version := [{ name := "", ents := [ent "P" false [fI "a" false, fS "b" true, fI "z" false]] }]
/-- `{ P { a : Integer, c : String nullable, b : String nullable } }` — valid with respect to `wV1` -/
def wV3 : Version := [{ name := "", ents := [ent "P" false [fI "a" false, fS "c" true, fS "b" true]] }]
/-- `{ @deprecated P { a : String } }` — retyped field: refused -/
def wRetyped : Version := [{ name := "", ents := [ent "P" true [fS "a" false]] }]

set_option maxRecDepth 100000 in
/-- **C15_breaks_partialRefusal** (data_model_parser.rs:304-379, 987-1063 before fb21964). A refused
    version leaves the model modified (`deprecated` is assigned before the field checks; fields visited
    before the failing one are inserted) — `C15_refused_changes_nothing` fails. On an instance the live
    model then accepts a write through the half-added field `b` (id 33); the next accepted version gives
    33 to `c`: the value written as `b` is read back as `c` and `b` reads null. -/
theorem C15_breaks_partialRefusal :
    let m1 := (update onlyPartial [] Model.empty wV1).1
    ((update onlyPartial [] m1 wRetyped).2 = some .cannotUpdateFieldType ∧ (update onlyPartial [] m1 wRetyped).1 ≠ m1) ∧
    (let s0 := (Inst.fresh.start onlyPartial [] [] wV1).1
     let s1 := s0.updateLive onlyPartial [.fld "" "P" "b"] [] wBad
     let s2 := s1.1.put "" "P" 1 [("a", .int, "1"), ("b", .str, "secret")]
     let s3 := s2.1.updateLive onlyPartial [] [] wV3
     s1.2 = some .missingDefaultValue ∧ s2.2 = none ∧ s3.2 = none ∧
       (match s3.1.get "" "P" ["a", "b", "c"] with | .ok rows => rows | .error _ => [])
         = [(1, [("a", some "1"), ("b", none), ("c", some "secret")])]) := by
  decide

/-- `{ P { a : Integer, b : Integer default 3 } }` then `{ P { a : Integer, b : Integer } }` -/
def wDflt : Version := [{ name := "", ents := [ent "P" false [fI "a" false,
  { name := "b", cls := .ok, ty := .int, nullable := false, dflt := some { kind := .int, tok := "3" }, deprecated := false }]] }]
def wNoDflt : Version := [{ name := "", ents := [ent "P" false [fI "a" false, fI "b" false]] }]

set_option maxRecDepth 100000 in
/-- **C15_breaks_defaultDropAccepted** (data_model_parser.rs:1015-1025 before 9cb7f9f; confirmed on the real code:
    corpus/C15/default_dropped.ops). A row written when `P` only had `a`; a version adds `b` not nullable with a
    default (accepted, the row reads 3); the next version removes the default: the code accepts it, the old row
    reads null for a not nullable field and no longer conforms (`MissingJsonField`: every peer refuses it) —
    `C15_old_rows_conform` fails. The intended behaviour refuses that version. -/
theorem C15_breaks_defaultDropAccepted :
    let s0 := (Inst.fresh.start onlyDefaultDrop [] [] wV1).1
    let s1 := (s0.put "" "P" 1 [("a", .int, "5")]).1
    let s2 := (s1.updateLive onlyDefaultDrop [] [] wDflt)
    let s3 := (s2.1.updateLive onlyDefaultDrop [] [] wNoDflt)
    s2.2 = none ∧ s2.1.conf (fun _ _ => true) = some [] ∧
    s3.2 = none ∧ s3.1.conf (fun _ _ => true) = some [(1, true)] ∧
    ((s2.1.updateLive Defects.none [] [] wNoDflt).2 = some .missingDefaultValue) := by
  decide

/-- **C15_partial** (the code before the fixes, under a decidable guard). When the version is accepted and
    brings at most one new field to each existing entity, the model with hash-order numbering and partial
    refusals computes exactly what text-order numbering and atomic refusals compute under the same acceptance
    rules (`onlyDefaultDrop`). What is missing: versions adding several fields to one entity (`hashOrderIds`),
    refused versions (`partialRefusal`), and the versions that drop a default (`defaultDropAccepted`), which the
    code now refuses. -/
theorem C15_partial (pri : List Key) (system : Bool) (m m' : Model) (v : Version)
    (hg : oneFreshGuard system m v = true) (h : applyV Defects.beforeFixes pri system m v = (m', none)) :
    applyV onlyDefaultDrop pri system m v = (m', none) :=
  applyV_single Defects.beforeFixes pri system m m' v hg h

/-! ### non-vacuity -/

set_option maxRecDepth 100000 in
-- an accepted update of a non-empty well-formed model that adds two fields (hypotheses of
-- C15_ids_positional / C15_peers_agree / C15_same_text_changes_nothing)
example : (update Defects.none [] (update Defects.none [] Model.empty wV1).1 wV2).2 = none ∧
    (update Defects.none [] (update Defects.none [] Model.empty wV1).1 wV2).1.fieldShort "" "P" "c" = some 34 := by decide

example : (update Defects.none [] Model.empty wV1).1.WF :=
  applyV_wf Defects.none rfl rfl [] false Model.empty wV1 wf_empty

set_option maxRecDepth 100000 in
-- a refused version on a non-empty model (hypothesis of C15_refused_changes_nothing)
example : (applyV Defects.none [] false (update Defects.none [] Model.empty wV1).1 wBad).2 = some .missingDefaultValue := by decide

set_option maxRecDepth 100000 in
-- the guard of C15_partial holds for an accepted version that adds one field, and fails for wV2
example : oneFreshGuard false (update Defects.beforeFixes [] Model.empty wV1).1
      [{ name := "", ents := [ent "P" false [fI "a" false, fI "b" true]] }] = true ∧
    oneFreshGuard false (update Defects.beforeFixes [] Model.empty wV1).1 wV2 = false := by decide

set_option maxRecDepth 100000 in
-- a started instance holding a row (hypotheses of C15_restart_same_model / C15_values_read_back)
example : ((Inst.fresh.start Defects.none [] Gen.sysVersion wV1).2 = none) := by decide

end Discret.DM
