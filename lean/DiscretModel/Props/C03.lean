import DiscretModel.Lemmas.SyncConverge
import DiscretModel.Lemmas.SyncRefineRoom
import DiscretModel.Model.Sync
/-
C03 — synchronisation converges: all members end with the same room content.

`Lemmas/SyncOrder.lean`: the last-writer-wins order `(mdate, signature)` and the replica join
(greater version wins, deletion records are united, a deletion record removes every version of its row).
`Lemmas/SyncConverge.lean`: any number of replicas, any sequence of directed pulls, a pull being the join.
`Model/Sync.lean`: the pull of the code (`Defects.asImplemented`), on which the witnesses are evaluated.
`Lemmas/SyncRefine*.lean`: the pull of the model with five switches off IS the join (refinement).
-/
namespace Discret.SyncOrder

/-- **C03 (the order is total).** `(mdate, signature)` compared lexicographically is a total order on versions. -/
theorem C03_order_total (a b c : Ver) :
    vle a a ∧ (vle a b ∨ vle b a) ∧ (vle a b → vle b c → vle a c) ∧ (vle a b → vle b a → a = b) :=
  ⟨vle_refl a, vle_total a b, vle_trans, vle_antisymm⟩

/-- **C03 (merge of versions).** Keeping the greater version is idempotent, commutative and associative. -/
theorem C03_merge_semilattice (a b c : Option Ver) :
    merge a a = a ∧ merge a b = merge b a ∧ merge (merge a b) c = merge a (merge b c) :=
  ⟨merge_idem a, merge_comm a b, merge_assoc a b c⟩

/-- **C03 (join of replicas).** The join is an idempotent, commutative, associative operation on replicas. -/
theorem C03_join_semilattice (a b c : ARep) (ha : a.WF) :
    join a a = a ∧ join a b = join b a ∧ join (join a b) c = join a (join b c) ∧ (join a b).WF :=
  ⟨join_idem ha, join_comm a b, join_assoc a b c, join_wf a b⟩

/-- **C03 (quiescence ⇒ agreement).** For any finite set of replicas: if a full round of all ordered pairs
    changes nothing then all replicas are equal, and a further pull between two of them transfers nothing. -/
theorem C03_quiet_all_equal (s : Net) (h : s.Quiet) (i j : Nat) (hi : i < s.length) (hj : j < s.length) :
    s.at i = s.at j ∧ s.pull i j = s :=
  ⟨Net.quiet_all_equal h hi hj, Net.quiet_pull_noop h hi hj⟩

/-- **C03 (convergence, independent of the order).** Any number of replicas, any sequence of directed pulls of
    any length: once a full round changes nothing, every replica holds the join of ALL initial replicas —
    the same state whatever the schedule was and whatever order the replicas are listed in. -/
theorem C03_convergence (s0 : Net) (hw : ∀ x ∈ s0, x.WF) (sched : List (Nat × Nat))
    (hq : (s0.run sched).Quiet) (i : Nat) (hi : i < s0.length) :
    (s0.run sched).at i = joinAll s0 ∧ ∀ s0', s0.Perm s0' → joinAll s0' = joinAll s0 :=
  ⟨Net.quiet_is_joinAll hw sched hq hi, fun _ hp => (joinAll_perm hp).symm⟩

/-- **C03 (the same version wins everywhere).** In the converged state a row that carries a deletion record is
    shown nowhere; otherwise the version shown is one that some replica held and is the greatest, for
    `(mdate, signature)`, of all versions any replica held — independent of arrival order. -/
theorem C03_winner_is_max (s0 : Net) (hw : ∀ x ∈ s0, x.WF) (id : Nat) :
    ((joinAll s0).dead id = true → (joinAll s0).ver id = none) ∧
    ((joinAll s0).dead id = false →
      (∀ w, (joinAll s0).ver id = some w → ∃ x ∈ s0, x.ver id = some w) ∧
      (∀ x ∈ s0, ∀ v, x.ver id = some v → ∃ w, (joinAll s0).ver id = some w ∧ vle v w)) :=
  joinAll_ver s0 hw id

/-- non-vacuity: three replicas holding three versions of row 7 (two of the same date), one schedule -/
example :
    let a : ARep := { ver := fun i => if i = 7 then some (5, 1) else none, dead := fun _ => false, recs := fun _ => false }
    let b : ARep := { ver := fun i => if i = 7 then some (9, 2) else none, dead := fun _ => false, recs := fun _ => false }
    let c : ARep := { ver := fun i => if i = 7 then some (9, 3) else none, dead := fun _ => false, recs := fun _ => false }
    ((Net.run [a, b, c] [(0, 1), (1, 2), (2, 0), (0, 2), (1, 0)]).at 0).ver 7 = some (9, 3) ∧
    (joinAll [a, b, c]).ver 7 = some (9, 3) := by
  decide

end Discret.SyncOrder

namespace Discret.Sync
open Discret.DailyLog

/-! ### refinement: the pull of the model is the join -/

open Discret.SyncOrder in
/-- **C03 (refinement, one day).** For the model of `synchronise_day` with the switches #18 (ingestion ignores deletion
    records), room-scoped synchronised deletion and deletion records keyed by row id off — every other switch as in
    the code, #30 (references only for fetched rows) included —, members holding every right: the rows and node
    deletion records of the puller afterwards are the join of what it held with the source's rows and records of that
    `(room, entity, day)`. Any replicas in which no stored row carries a deletion record. -/
theorem C03_refines_day (d : Defects) (hI : d.ingestIgnoresTombstones = false) (hR : d.syncDeletionRoomScoped = false)
    (hK : d.deletionBatchKeyedById = false)
    (rights : Rights) (hA : AllRights rights) (dst src : Replica)
    (hzd : NoZombie dst) (hzs : NoZombie src) (hns : IdsNodup src)
    (hpk : PkFun (fun x => x ∈ dst.ntombs ∨ x ∈ src.ntombs)) (room ent day : Nat) :
    abs (syncDay d rights dst src room ent day).dst = join (abs dst) (abs (slice src room ent day)) :=
  syncDay_refines (f := fun _ => 0) hI hA (Or.inl hR) (Or.inl hK) hzd hzs hns hpk room ent day

open Discret.SyncOrder in
/-- **C03 (refinement, one pull, any logs).** Same switches off and the whole history compared (room summary switch
    off): `synchronise_room` is the sequence of joins with the source's days whose daily hash the puller's log does
    not show — whatever the two logs hold. -/
theorem C03_refines_pull_days (d : Defects) (hI : d.ingestIgnoresTombstones = false)
    (hR : d.syncDeletionRoomScoped = false) (hK : d.deletionBatchKeyedById = false)
    (hS : d.summaryFirstEntityOnly = false)
    (rights : Rights) (hA : AllRights rights) (dst src : Replica)
    (hzd : NoZombie dst) (hzs : NoZombie src) (hns : IdsNodup src)
    (hpk : PkFun (fun x => x ∈ dst.ntombs ∨ x ∈ src.ntombs)) (room : Nat) :
    abs (pull d rights dst src room).dst = joinDays src room (diffDays dst src room) (abs dst) :=
  pull_refines_days (f := fun _ => 0) hI hS hA (Or.inl hR) (Or.inl hK) hzd hzs hns hpk room

open Discret.SyncOrder in
/-- **C03 (refinement, one pull).** `pull d dst src = join dst (src restricted to the room)` on rows and node deletion
    records, for any model `d` with four switches off (#18, room-scoped deletion, batches keyed by row id, room
    summary of one entity), when both logs are the logs of the stored content (C09: the state after a recomputation
    with nothing pending), row ids are unique per replica, no stored row carries a deletion record (C11's invariant),
    a signature stands for the record it signs, and every member holds every right. With `C03_convergence` (a pull
    being the join): any schedule converges to the join of all replicas. -/
theorem C03_refines_pull (d : Defects) (hI : d.ingestIgnoresTombstones = false)
    (hR : d.syncDeletionRoomScoped = false) (hK : d.deletionBatchKeyedById = false)
    (hS : d.summaryFirstEntityOnly = false)
    (rights : Rights) (hA : AllRights rights) (dst src : Replica)
    (hzd : NoZombie dst) (hzs : NoZombie src) (hnd : IdsNodup dst) (hns : IdsNodup src)
    (hpk : PkFun (fun x => x ∈ dst.ntombs ∨ x ∈ src.ntombs))
    (hld : IsLogOf dst.sigs dst.log) (hls : IsLogOf src.sigs src.log) (hsig : SigsDetermine dst src) (room : Nat) :
    abs (pull d rights dst src room).dst = join (abs dst) (abs (inRoom src room)) :=
  pull_refines_join (f := fun _ => 0) hI hS hA (Or.inl hR) (Or.inl hK) hzd hzs hnd hns hpk hld hls hsig room

open Discret.SyncOrder in
/-- **C03 (refinement, one pull, deviations of the code as conditions on the data).** The same equation for every
    model that consults the deletion log (#18 repaired) and compares the whole history, with the room-scoped
    synchronised deletion and the deletion batches keyed by row id LEFT AS IN THE CODE, for replicas in which rows
    keep their room (`RoomFn f`: every version and every deletion record of a row name the room `f` gives it) and a
    source that holds no two deletion records of one row on one day (`DayRecordsDistinct`). What separates the code
    from this theorem is then: the room summary of one entity (`hS`, finding
    `room-summary-compares-first-entity-only`), members without the all-rows right (`hA`, #19), and the daily-log
    findings of C09 (`hld`, `hls`). -/
theorem C03_refines_pull_code (d : Defects) (hI : d.ingestIgnoresTombstones = false)
    (hS : d.summaryFirstEntityOnly = false) (rights : Rights) (hA : AllRights rights) (f : Nat → Nat)
    (dst src : Replica) (hfd : RoomFn f dst) (hfs : RoomFn f src) (hdist : DayRecordsDistinct src)
    (hzd : NoZombie dst) (hzs : NoZombie src) (hnd : IdsNodup dst) (hns : IdsNodup src)
    (hpk : PkFun (fun x => x ∈ dst.ntombs ∨ x ∈ src.ntombs))
    (hld : IsLogOf dst.sigs dst.log) (hls : IsLogOf src.sigs src.log) (hsig : SigsDetermine dst src) (room : Nat) :
    abs (pull d rights dst src room).dst = join (abs dst) (abs (inRoom src room)) ∧
    NoZombie (pull d rights dst src room).dst ∧ RoomFn f (pull d rights dst src room).dst :=
  ⟨pull_refines_join hI hS hA (Or.inr ⟨hfd, hfs⟩) (Or.inr hdist) hzd hzs hnd hns hpk hld hls hsig room,
   (pull_noZombie_rooms hI rights hzd hfd hfs room).1, (pull_noZombie_rooms hI rights hzd hfd hfs room).2.1⟩

open Discret.SyncOrder in
/-- **C03 (refinement, one pull, the code as it is but for the room summary).** `Defects.asImplemented` consults the
    deletion log and applies every deletion record of an answer; with the whole history compared (the one switch that
    still has to be off) a pull of the code's model is the join, for replicas in which rows keep their room, members
    holding every right and logs that are the logs of the content. -/
theorem C03_refines_pull_asImplemented_fullHistory (rights : Rights) (hA : AllRights rights) (f : Nat → Nat)
    (dst src : Replica) (hfd : RoomFn f dst) (hfs : RoomFn f src)
    (hzd : NoZombie dst) (hzs : NoZombie src) (hnd : IdsNodup dst) (hns : IdsNodup src)
    (hpk : PkFun (fun x => x ∈ dst.ntombs ∨ x ∈ src.ntombs))
    (hld : IsLogOf dst.sigs dst.log) (hls : IsLogOf src.sigs src.log) (hsig : SigsDetermine dst src) (room : Nat) :
    abs (pull { Defects.asImplemented with summaryFirstEntityOnly := false } rights dst src room).dst =
      join (abs dst) (abs (inRoom src room)) :=
  pull_refines_join rfl rfl hA (Or.inr ⟨hfd, hfs⟩) (Or.inl rfl) hzd hzs hnd hns hpk hld hls hsig room

/-- the model of the code with #18 repaired and the whole history compared: the only switch of the model that
    `C03_refines_pull_code` needs off and the code has on is the room summary -/
def Defects.repaired18FullHistory : Defects :=
  { Defects.asImplemented with ingestIgnoresTombstones := false, summaryFirstEntityOnly := false }

open Discret.SyncOrder in
/-- the intended behaviour is such a model -/
theorem C03_refines_pull_intended (rights : Rights) (hA : AllRights rights) (dst src : Replica)
    (hzd : NoZombie dst) (hzs : NoZombie src) (hnd : IdsNodup dst) (hns : IdsNodup src)
    (hpk : PkFun (fun x => x ∈ dst.ntombs ∨ x ∈ src.ntombs))
    (hld : IsLogOf dst.sigs dst.log) (hls : IsLogOf src.sigs src.log) (hsig : SigsDetermine dst src) (room : Nat) :
    abs (pull Defects.none rights dst src room).dst = join (abs dst) (abs (inRoom src room)) :=
  pull_refines_join (f := fun _ => 0) rfl rfl hA (Or.inl rfl) (Or.inl rfl) hzd hzs hnd hns hpk hld hls hsig room

/-- a concrete pair of peers (one deletion, one concurrent update, two days): the pull and the join, row by row -/
def refineWorld : World :=
  World.run Defects.none (World.init [true, true])
    [.clock 1000, .write 0 (.new 1 1 0 1 11), .write 0 (.new 2 1 0 2 12), .compute 0, .pull 1 0 1,
     .clock 86401000, .write 1 (.upd 1 3 13 none), .write 1 (.del 2 14), .compute 1,
     .clock 86402000, .write 0 (.upd 1 4 15 none), .write 0 (.new 3 1 0 5 16), .compute 0]

open Discret.SyncOrder in
example :
    let dst := refineWorld.peer 1
    let src := refineWorld.peer 0
    let a := abs (pull Defects.none [some 0, some 0] dst src 1).dst
    let j := join (abs dst) (abs (inRoom src 1))
    [1, 2, 3, 4].map a.ver = [1, 2, 3, 4].map j.ver ∧ [1, 2, 3, 4].map a.dead = [1, 2, 3, 4].map j.dead ∧
    a.ver 1 = some (86402000, 15) ∧ a.ver 2 = none ∧ a.dead 2 = true ∧ a.ver 3 = some (86402000, 16) := by
  decide +kernel

/-- a pair of peers for the code-level refinement: peer 1 holds the deletion record of row 2 (pulled from peer 0's
    deletion), peer 2 has not seen it, still holds row 2 and has meanwhile updated row 1 and created row 3 -/
def refineCodeWorld : World :=
  World.run Defects.repaired18FullHistory (World.init [true, true, true])
    [.clock 1000, .write 0 (.new 1 1 0 1 11), .write 0 (.new 2 1 0 2 12), .compute 0, .pull 1 0 1, .pull 2 0 1,
     .clock 86401000, .write 0 (.del 2 14), .compute 0, .pull 1 0 1,
     .clock 86402000, .write 2 (.upd 1 4 15 none), .write 2 (.new 3 1 0 5 16), .compute 2]

open Discret.SyncOrder in
/-- non-vacuity of `C03_refines_pull_code` on the model of the repaired code: the puller holds a deletion record of
    row 2, the source offers row 2 (#18's path), a newer version of row 1 and a new row 3; the decidable hypotheses hold
    and the pull is the join, row by row: row 2 stays deleted, rows 1 and 3 arrive -/
example :
    let dst := refineCodeWorld.peer 1
    let src := refineCodeWorld.peer 2
    let a := abs (pull Defects.repaired18FullHistory [some 0, some 0, some 0] dst src 1).dst
    let j := join (abs dst) (abs (inRoom src 1))
    (∀ n ∈ dst.nodes ++ src.nodes, n.room = 1) ∧ (∀ t ∈ dst.ntombs ++ src.ntombs, t.room = 1) ∧
    (∀ t ∈ dst.ntombs, ∀ n ∈ dst.nodes, n.id ≠ t.id) ∧ src.ntombs = [] ∧ src.nodes.map (·.id) = [1, 2, 3] ∧
    [1, 2, 3, 4].map a.ver = [1, 2, 3, 4].map j.ver ∧ [1, 2, 3, 4].map a.dead = [1, 2, 3, 4].map j.dead ∧
    a.ver 1 = some (86402000, 15) ∧ a.ver 2 = none ∧ a.dead 2 = true ∧ a.ver 3 = some (86402000, 16) := by
  decide +kernel

/-! ### the pull of the code does not refine the join: witnesses (each replayed on real instances, corpus/C03) -/

def rowsAt (w : World) (p : Nat) : List (Nat × Nat × Nat) := (w.peer p).canon.nodes.map fun n => (n.id, n.mdate, n.sig)
def recsAt (w : World) (p : Nat) : List (Nat × Nat) := (w.peer p).canon.ntombs.map fun t => (t.id, t.sig)
def refsAt (w : World) (p : Nat) : List (Nat × Nat) := (w.peer p).canon.edges.map fun e => (e.src, e.dest)

/-- peer 2 may change its own rows only; peer 1 (all rows) updates peer 2's row, then peer 2 updates it later -/
def localAuthorTrace : List Op :=
  [.clock 1000, .write 2 (.new 1 1 0 1 11), .compute 2, .pull 0 2 1, .pull 1 2 1,
   .clock 2000, .write 1 (.upd 1 2 12 none), .compute 1, .clock 3000, .write 2 (.upd 1 3 13 none), .compute 2,
   .pull 0 1 1, .settle 1 4]

/-- **C03_breaks_rightDependsOnLocalAuthor** (#19). The right required of an incoming version depends on the
    author of the version stored locally: peers 0 and 1 (holding peer 1's version) refuse for ever the later
    version of peer 2, which they would have accepted had it arrived first. Quiescent, not converged. -/
theorem C03_breaks_rightDependsOnLocalAuthor :
    let w := World.run Defects.asImplemented (World.init [true, true, false]) localAuthorTrace
    rowsAt w 0 = [(1, 2000, 12)] ∧ rowsAt w 1 = [(1, 2000, 12)] ∧ rowsAt w 2 = [(1, 3000, 13)] ∧
    let w' := World.run { Defects.asImplemented with rightDependsOnLocalAuthor := false } (World.init [true, true, false])
      localAuthorTrace
    rowsAt w' 0 = [(1, 3000, 13)] ∧ rowsAt w' 1 = [(1, 3000, 13)] ∧ rowsAt w' 2 = [(1, 3000, 13)] := by
  decide +kernel

/-- peer 0 adds a reference 1→2 (re-signing row 1 at 2000) while peer 1 updates row 1 later (3000) -/
def lostReferenceTrace : List Op :=
  [.clock 1000, .write 0 (.new 1 1 0 1 11), .write 0 (.new 2 1 0 2 12), .compute 0, .pull 1 0 1,
   .clock 2000, .write 0 (.ref 1 2 13), .compute 0, .clock 3000, .write 1 (.upd 1 3 14 none), .compute 1, .settle 1 4]

/-- **C03_breaks_edgesOnlyForFetchedRows** (#30). References are fetched only for rows whose remote version
    wins, and they are not part of the daily hash: the reference added on peer 0 never reaches peer 1
    (whose version of the row is newer); once peer 0 has taken that version the two daily hashes are equal
    and the day is never looked at again. Same rows everywhere, different references, quiescent.
    (Fetching references for every announced row, `edgesOnlyForFetchedRows := false`, repairs the order
    `1 ← 0` first but not this one: a repair needs the references in the day's hash.) -/
theorem C03_breaks_edgesOnlyForFetchedRows :
    let w := World.run Defects.asImplemented (World.init [true, true]) lostReferenceTrace
    rowsAt w 0 = rowsAt w 1 ∧ refsAt w 0 = [(1, 2)] ∧ refsAt w 1 = [] := by
  decide +kernel

/-- the same row deleted on two peers on the same day -/
def twoRecordsTrace : List Op :=
  [.clock 1000, .write 0 (.new 1 1 0 1 11), .compute 0, .pull 1 0 1, .pull 2 0 1,
   .clock 2000, .write 0 (.del 1 12), .compute 0, .clock 3000, .write 1 (.del 1 13), .compute 1, .settle 1 5]

/-- **C03_breaks_deletionBatchKeyedById** (the code before `findings/C03-deletion-batch-keeps-every-record-v2.patch`;
    regression witness, replay `corpus/C03/two-deletion-records-one-batch.ops`). Deletion records of one answer were
    keyed by row id: of two records of one row only the later was kept, so peers 1 and 2 never stored the first one.
    Quiescent, the deletion records differ. With the answer split into sub-batches they agree. -/
theorem C03_breaks_deletionBatchKeyedById :
    let w := World.run { Defects.asImplemented with deletionBatchKeyedById := true } (World.init [true, true, true]) twoRecordsTrace
    recsAt w 0 = [(1, 12), (1, 13)] ∧ recsAt w 1 = [(1, 13)] ∧ recsAt w 2 = [(1, 13)] ∧
    let w' := World.run { Defects.asImplemented with deletionBatchKeyedById := false } (World.init [true, true, true]) twoRecordsTrace
    recsAt w' 0 = [(1, 12), (1, 13)] ∧ recsAt w' 1 = [(1, 12), (1, 13)] ∧ recsAt w' 2 = [(1, 12), (1, 13)] := by
  decide +kernel

/-- a room with two entities; peer 1 updates a row of the second entity -/
def firstEntityTrace : List Op :=
  [.clock 1000, .write 0 (.new 1 1 1 1 11), .write 0 (.new 2 1 0 2 12), .compute 0, .pull 1 0 1,
   .clock 2000, .write 1 (.upd 1 3 13 none), .compute 1, .settle 1 4]

/-- **C03_breaks_summaryFirstEntityOnly** (new). The room summary exchanged at the start of a pull carries the
    last-day log row of ONE entity (the first of the join); when that entity's hashes agree the pull stops,
    although the daily hashes of the other entity differ: the update of the second entity never travels.
    Quiescent, not converged. With the full history compared it does. -/
theorem C03_breaks_summaryFirstEntityOnly :
    let w := World.run Defects.asImplemented (World.init [true, true]) firstEntityTrace
    rowsAt w 0 = [(1, 1000, 11), (2, 1000, 12)] ∧ rowsAt w 1 = [(1, 2000, 13), (2, 1000, 12)] ∧
    let w' := World.run { Defects.asImplemented with summaryFirstEntityOnly := false } (World.init [true, true]) firstEntityTrace
    rowsAt w' 0 = [(1, 2000, 13), (2, 1000, 12)] ∧ rowsAt w' 1 = [(1, 2000, 13), (2, 1000, 12)] := by
  decide +kernel

/-- one deletion, two pull orders -/
def deletionOrderA : List Op :=
  [.clock 1000, .write 0 (.new 1 1 0 1 11), .compute 0, .pull 1 0 1, .pull 2 0 1,
   .clock 2000, .write 0 (.del 1 12), .compute 0, .pull 1 0 1, .pull 2 0 1, .settle 1 4]
def deletionOrderB : List Op :=
  [.clock 1000, .write 0 (.new 1 1 0 1 11), .compute 0, .pull 1 0 1, .pull 2 0 1,
   .clock 2000, .write 0 (.del 1 12), .compute 0, .pull 1 0 1, .pull 1 2 1, .settle 1 4]

/-- **C03_breaks_ingestIgnoresTombstones** (#18, the code before `findings/C11-ingest-consults-deletion-log-v2.patch`;
    regression witness, replay `corpus/C03/deletion-order-dependent.ops`). The same writes, two pull orders: in one the row is deleted
    everywhere, in the other it is back everywhere — the converged state depends on the order of the pulls. -/
theorem C03_breaks_ingestIgnoresTombstones :
    let wa := World.run { Defects.asImplemented with ingestIgnoresTombstones := true } (World.init [true, true, true]) deletionOrderA
    let wb := World.run { Defects.asImplemented with ingestIgnoresTombstones := true } (World.init [true, true, true]) deletionOrderB
    rowsAt wa 0 = [] ∧ rowsAt wa 1 = [] ∧ rowsAt wa 2 = [] ∧
    rowsAt wb 0 = [(1, 1000, 11)] ∧ rowsAt wb 1 = [(1, 1000, 11)] ∧ rowsAt wb 2 = [(1, 1000, 11)] ∧
    recsAt wa 0 = recsAt wb 0 := by
  decide +kernel

end Discret.Sync
