import DiscretModel.Lemmas.DailyLogRun
import DiscretModel.Lemmas.DailyLogLazy
import DiscretModel.Lemmas.DailyLogWindow
import DiscretModel.Lemmas.SyncMarks
import DiscretModel.Lemmas.DailyLogUnrefs
import DiscretModel.Lemmas.Date
/-
C09 — the daily log is a function of the stored content, nothing else.

Model: `Model/DailyLog.lean` (marks, `DailyLogsUpdate::compute`), `Model/Sync.lean` (the writes and their marks).
`IsLogOf sigs log` is the specification: one group per `(room, entity)` with content, one row per day with
content carrying the entry count, the hash of the sorted signatures, and the chained history
`history(d₁) = daily(d₁)`, `history(dₖ₊₁) = H(history(dₖ) ++ daily(dₖ))`.
All statements quantify over every content, every number of rooms / entities / days, every schedule.
-/
namespace Discret.DailyLog

/-! ### the statement, for every version of the code in which the three repairs of #20 and the window fix are in
(`d.LogRepaired`); `Defects.none` is one, `Defects.asImplemented` is one as soon as the repairs are in /repo -/

/-- **C09 (recomputation barrier).** A table satisfying the invariant with no mark waiting to be written is turned
    by `compute` into exactly the log of the stored content. -/
theorem C09_barrier_of {d : Defects} (hd : d.LogRepaired) {sigs : Content} {log : Log} (h : WInv sigs noPending log) :
    IsLogOf sigs (recompute d sigs log) :=
  recompute_isLogOf hd.seed hd.entity hd.emptied hd.window h

/-- **C09 (invariant over any schedule).** Starting from an empty database, after ANY sequence of writes
    (each marking the days whose signatures it changes, or relying on marks already collected by its batch),
    end-of-batch mark writes and recomputations — processed at ANY point, also in the middle of a batch whose
    marks are not written yet — the invariant between content, table and pending marks holds. No bound on
    the schedule, the batches or where recomputation is asked. -/
theorem C09_invariant_of {d : Defects} (hd : d.LogRepaired) (steps : List Step) (hok : runOk d St.init steps) :
    WInv (run d St.init steps).sigs (pendOf (run d St.init steps).pend) (run d St.init steps).log :=
  run_winv hd.seed hd.entity hd.emptied hd.window steps init_winv hok

/-- **C09 (the log is a function of the content).** After any such schedule, once the batch is committed and
    the pending recomputation has run, the table is the log of the stored content: one row per
    `(room, entity, day)` that has content, with the entry count, the hash of the sorted signatures and the
    chained history hash computed from scratch. -/
theorem C09_log_of_content_of {d : Defects} (hd : d.LogRepaired) (steps : List Step) (hok : runOk d St.init steps) :
    IsLogOf (run d St.init steps).sigs (run d St.init (steps ++ [.commit, .compute])).log := by
  have hw := C09_invariant_of hd steps hok
  rw [run_append]
  simp only [run, St.step]
  refine C09_barrier_of hd ?_
  have := WInv_markAll (P' := noPending) (run d St.init steps).pend (hw.mono (fun r e d x => Or.inr x))
  exact this

/-- **C09 (equal content ⇒ equal logs, whatever order or batching produced them).** Two databases reached by
    two arbitrary schedules that store the same signatures for every `(room, entity, day)` (in any order)
    have identical tables, history hashes included. -/
theorem C09_equal_content_equal_log_of {d : Defects} (hd : d.LogRepaired) (s1 s2 : List Step)
    (h1 : runOk d St.init s1) (h2 : runOk d St.init s2)
    (hc : ∀ r e dd, ((run d St.init s1).sigs r e dd).Perm ((run d St.init s2).sigs r e dd)) :
    (run d St.init (s1 ++ [.commit, .compute])).log = (run d St.init (s2 ++ [.commit, .compute])).log :=
  ((C09_log_of_content_of hd s1 h1).congr hc).unique (C09_log_of_content_of hd s2 h2)

/-- **C09 (different content ⇒ different logs).** With the hash idealised as the identity on what it is fed,
    equal tables force equal signature multisets on every `(room, entity, day)`. -/
theorem C09_equal_log_equal_content_of {d : Defects} (hd : d.LogRepaired) (s1 s2 : List Step)
    (h1 : runOk d St.init s1) (h2 : runOk d St.init s2)
    (hl : (run d St.init (s1 ++ [.commit, .compute])).log = (run d St.init (s2 ++ [.commit, .compute])).log) :
    ∀ r e dd, ((run d St.init s1).sigs r e dd).Perm ((run d St.init s2).sigs r e dd) :=
  (C09_log_of_content_of hd s1 h1).injective (hl ▸ C09_log_of_content_of hd s2 h2)

/-- **C09 (injectivity of the specification).** Whatever produced them: two tables that are the logs of two
    contents are equal only if every `(room, entity, day)` stores the same signatures in both (as multisets), and
    two contents that agree in that sense have the same log. -/
theorem C09_logOf_injective {sigs sigs' : Content} {log log' : Log} (h : IsLogOf sigs log) (h' : IsLogOf sigs' log') :
    log = log' ↔ ∀ r e dd, (sigs r e dd).Perm (sigs' r e dd) :=
  ⟨fun e => h.injective (e ▸ h'), fun hc => (h.congr hc).unique h'⟩

theorem Defects.none_logRepaired : Defects.none.LogRepaired := ⟨rfl, rfl, rfl, rfl⟩

/-! ### … instantiated for the intended behaviour -/

/-- **C09 (recomputation barrier).** For the intended behaviour, a table satisfying the invariant with no
    mark waiting to be written is turned by `compute` into exactly the log of the stored content. -/
theorem C09_barrier {sigs : Content} {log : Log} (h : WInv sigs noPending log) :
    IsLogOf sigs (recompute Defects.none sigs log) :=
  C09_barrier_of Defects.none_logRepaired h

/-- **C09 (invariant over any schedule)**, intended behaviour. -/
theorem C09_invariant (steps : List Step) (hok : runOk Defects.none St.init steps) :
    WInv (run Defects.none St.init steps).sigs (pendOf (run Defects.none St.init steps).pend)
      (run Defects.none St.init steps).log :=
  C09_invariant_of Defects.none_logRepaired steps hok

/-- **C09 (the log is a function of the content)**, intended behaviour. -/
theorem C09_log_of_content (steps : List Step) (hok : runOk Defects.none St.init steps) :
    IsLogOf (run Defects.none St.init steps).sigs
      (run Defects.none St.init (steps ++ [.commit, .compute])).log :=
  C09_log_of_content_of Defects.none_logRepaired steps hok

/-- **C09 (equal content ⇒ equal logs, whatever order or batching produced them)**, intended behaviour. -/
theorem C09_equal_content_equal_log (s1 s2 : List Step) (h1 : runOk Defects.none St.init s1)
    (h2 : runOk Defects.none St.init s2)
    (hc : ∀ r e d, ((run Defects.none St.init s1).sigs r e d).Perm ((run Defects.none St.init s2).sigs r e d)) :
    (run Defects.none St.init (s1 ++ [.commit, .compute])).log =
      (run Defects.none St.init (s2 ++ [.commit, .compute])).log :=
  C09_equal_content_equal_log_of Defects.none_logRepaired s1 s2 h1 h2 hc

/-- **C09 (different content ⇒ different logs)**, intended behaviour. -/
theorem C09_equal_log_equal_content (s1 s2 : List Step) (h1 : runOk Defects.none St.init s1)
    (h2 : runOk Defects.none St.init s2)
    (hl : (run Defects.none St.init (s1 ++ [.commit, .compute])).log =
      (run Defects.none St.init (s2 ++ [.commit, .compute])).log) :
    ∀ r e d, ((run Defects.none St.init s1).sigs r e d).Perm ((run Defects.none St.init s2).sigs r e d) :=
  C09_equal_log_equal_content_of Defects.none_logRepaired s1 s2 h1 h2 hl

/-- **C09_partial_daily (any version of the code that reads its window before the loop).** Whatever the state of
    the table and of the cursor, every day that is MARKED and has content is recomputed to a row carrying the entry
    count and the daily hash of the content of that day; a marked day without content too when emptied days keep
    their row. Missing for the full statement: the history hash, days that were not marked although their
    content changed, and rows of emptied days (witnesses below). -/
theorem C09_partial_daily_of {d : Defects} (hl : d.lazyScan = false) (sigs : Content) (log : Log) :
    ∀ g ∈ log, ∀ r ∈ g.rows, r.dirty = true → (d.emptyDayRow = true ∨ sigs g.room g.ent r.day ≠ []) →
      ∃ g' ∈ recompute d sigs log, g'.room = g.room ∧ g'.ent = g.ent ∧
        ∃ r' ∈ g'.rows, r'.day = r.day ∧ r'.dirty = false ∧
          r'.count = (sigs g.room g.ent r.day).length ∧ r'.daily = dailyOf (sigs g.room g.ent r.day) :=
  recomputeFrom_marked_static hl sigs log Cursor.init

/-- **C09_partial_daily (the code before the repairs of #20).** Whatever the state of the table and of the cursor,
    every day that is MARKED is recomputed to a row carrying the entry count and the daily hash of the content of
    that day. (Superseded for the code as it is by the full statements below.) -/
theorem C09_partial_daily (sigs : Content) (log : Log) :
    ∀ g ∈ log, ∀ r ∈ g.rows, r.dirty = true →
      ∃ g' ∈ recompute Defects.beforeFixHistory sigs log, g'.room = g.room ∧ g'.ent = g.ent ∧
        ∃ r' ∈ g'.rows, r'.day = r.day ∧ r'.dirty = false ∧
          r'.count = (sigs g.room g.ent r.day).length ∧ r'.daily = dailyOf (sigs g.room g.ent r.day) :=
  fun g hg r hr hd => C09_partial_daily_of rfl sigs log g hg r hr hd (Or.inl rfl)

/-! ### … and for the code as it is (since the repairs `fix: the daily log chain continues from the stored hashes of
the day before the first day to recompute`, `fix: the daily log chain of an entity never continues the chain of another
entity`, `fix: a day that holds nothing any more has no daily log row`) -/

theorem Defects.asImplemented_logRepaired : Defects.asImplemented.LogRepaired := ⟨rfl, rfl, rfl, rfl⟩

/-- **C09 (recomputation barrier), the code as it is.** -/
theorem C09_barrier_asImplemented {sigs : Content} {log : Log} (h : WInv sigs noPending log) :
    IsLogOf sigs (recompute Defects.asImplemented sigs log) :=
  C09_barrier_of Defects.asImplemented_logRepaired h

/-- **C09 (invariant over any schedule), the code as it is.** -/
theorem C09_invariant_asImplemented (steps : List Step) (hok : runOk Defects.asImplemented St.init steps) :
    WInv (run Defects.asImplemented St.init steps).sigs (pendOf (run Defects.asImplemented St.init steps).pend)
      (run Defects.asImplemented St.init steps).log :=
  C09_invariant_of Defects.asImplemented_logRepaired steps hok

/-- **C09 (the log is a function of the content), the code as it is**: count, daily hash and history hash of every
    `(room, entity, day)` equal those computed from scratch over what is stored, no row for a day without content,
    after any schedule of marked writes, batches and recomputation points, once the pending recomputation has run. -/
theorem C09_log_of_content_asImplemented (steps : List Step) (hok : runOk Defects.asImplemented St.init steps) :
    IsLogOf (run Defects.asImplemented St.init steps).sigs
      (run Defects.asImplemented St.init (steps ++ [.commit, .compute])).log :=
  C09_log_of_content_of Defects.asImplemented_logRepaired steps hok

/-- **C09 (equal content ⇒ equal logs, whatever order or batching produced them), the code as it is.** -/
theorem C09_equal_content_equal_log_asImplemented (s1 s2 : List Step) (h1 : runOk Defects.asImplemented St.init s1)
    (h2 : runOk Defects.asImplemented St.init s2)
    (hc : ∀ r e d, ((run Defects.asImplemented St.init s1).sigs r e d).Perm
      ((run Defects.asImplemented St.init s2).sigs r e d)) :
    (run Defects.asImplemented St.init (s1 ++ [.commit, .compute])).log =
      (run Defects.asImplemented St.init (s2 ++ [.commit, .compute])).log :=
  C09_equal_content_equal_log_of Defects.asImplemented_logRepaired s1 s2 h1 h2 hc

/-- **C09 (different content ⇒ different logs), the code as it is.** -/
theorem C09_equal_log_equal_content_asImplemented (s1 s2 : List Step) (h1 : runOk Defects.asImplemented St.init s1)
    (h2 : runOk Defects.asImplemented St.init s2)
    (hl : (run Defects.asImplemented St.init (s1 ++ [.commit, .compute])).log =
      (run Defects.asImplemented St.init (s2 ++ [.commit, .compute])).log) :
    ∀ r e d, ((run Defects.asImplemented St.init s1).sigs r e d).Perm
      ((run Defects.asImplemented St.init s2).sigs r e d) :=
  C09_equal_log_equal_content_of Defects.asImplemented_logRepaired s1 s2 h1 h2 hl

/-- **C09 (the window of `compute` is modelled literally).** On a group whose rows are in day order (the primary key
    order, part of the invariant), the rows the model of the loop walks are exactly those the SQL text selects —
    `date >= IFNULL(max(date) before the first marked date, first marked date)`, nothing when no day is marked —
    and the rows it leaves alone are exactly the others. For every version of the code since 079e672. -/
theorem C09_window_is_sql_window {d : Defects} (hl : d.lazyScan = false) (sigs : Content) (c : Cursor) {g : Group}
    (hs : RowsSorted g.rows) :
    recomputeGroup d sigs c g =
      if (windowSql g.rows).isEmpty then (c, g)
      else ((walkRows d sigs g.room g.ent c (windowSql g.rows)).1,
            { g with rows := untouchedSql g.rows ++ (walkRows d sigs g.room g.ent c (windowSql g.rows)).2 }) :=
  recomputeGroup_sql hl sigs c hs

/-! ### witnesses: the code before the repairs of #20 did not satisfy the full statement (regression witnesses) -/

def k10 : Key := { room := 1, ent := 0, day := 0 }
def k11 : Key := { room := 1, ent := 0, day := 1 }
def k12 : Key := { room := 1, ent := 0, day := 2 }
def kp0 : Key := { room := 1, ent := 1, day := 0 }

/-- day 0 written and recomputed, then day 1 written and recomputed -/
def twoDays : List Step :=
  [.write (contentOf [(k10, 5)]) [k10], .commit, .compute,
   .write (contentOf [(k10, 5), (k11, 6)]) [k11], .commit, .compute]

/-- days 0 and 1 written in one go and recomputed together -/
def twoDaysAtOnce : List Step :=
  [.write (contentOf [(k10, 5), (k11, 6)]) [k10, k11], .commit, .compute]

/-- the schedules of the witnesses obey the marking discipline (so the theorems above apply to them) -/
example : runOk Defects.none St.init twoDays := by
  refine ⟨?_, trivial, trivial, ?_, trivial, trivial, trivial⟩
  · intro r e d h
    by_cases hk : k10 = { room := r, ent := e, day := d }
    · simp [pendOf, St.init, ← hk]
    · exfalso; apply h; simp [contentOf, St.init, hk]
  · intro r e d h
    by_cases hk : k11 = { room := r, ent := e, day := d }
    · simp [pendOf, St.step, St.init, ← hk]
    · exfalso; apply h
      show contentOf [(k10, 5), (k11, 6)] r e d = contentOf [(k10, 5)] r e d
      simp [contentOf, List.filter_cons, hk]

/-- **C09_breaks_historySeedDropped** (#20). The same content written day by day or at once: the code resets
    the chain at the unmarked seed row, so the history of day 1 is NULL in one database and chained in the other. -/
theorem C09_breaks_historySeedDropped :
    (run Defects.none St.init twoDays).sigs = (run Defects.none St.init twoDaysAtOnce).sigs ∧
    (run { Defects.none with historySeedDropped := true } St.init twoDays).log ≠
      (run { Defects.none with historySeedDropped := true } St.init twoDaysAtOnce).log ∧
    (run Defects.none St.init twoDays).log = (run Defects.none St.init twoDaysAtOnce).log := by
  refine ⟨rfl, by decide, by decide⟩

/-- **C09_breaks_entityNotCompared** (#20). Two entities of one room recomputed together: the first marked row of
    the second entity is chained to the last row of the first entity instead of starting its own chain. -/
theorem C09_breaks_entityNotCompared :
    (run { Defects.none with entityNotCompared := true } St.init
        [.write (contentOf [(k10, 5), (kp0, 6)]) [k10, kp0], .commit, .compute]).log ≠
    (run Defects.none St.init [.write (contentOf [(k10, 5), (kp0, 6)]) [k10, kp0], .commit, .compute]).log := by
  decide

/-- **C09_breaks_emptyDayRow** (#20). A day whose last row is deleted keeps a log row (count 0, no daily hash): a
    database that once held a row that day and one that never did store the same content and different logs. -/
theorem C09_breaks_emptyDayRow :
    (run { Defects.none with emptyDayRow := true } St.init
        [.write (contentOf [(k10, 5)]) [k10], .commit, .compute, .write (contentOf []) [k10], .commit, .compute]).log ≠ [] ∧
    (run Defects.none St.init
        [.write (contentOf [(k10, 5)]) [k10], .commit, .compute, .write (contentOf []) [k10], .commit, .compute]).log = [] := by
  decide

/-- **C09_breaks_lazyScan** (found by the correspondence run, fixed in /repo by 079e672 — regression witness). With the
    `SELECT` of `compute` stepped while the loop updates the table, two fresh marked days recomputed together:
    the first is returned a second time and chained with itself; recomputed one by one it is not. Same
    content, different history hashes. -/
theorem C09_breaks_lazyScan :
    (run { Defects.none with lazyScan := true } St.init twoDaysAtOnce).log ≠
      (run Defects.none St.init twoDaysAtOnce).log ∧
    (run { Defects.none with lazyScan := true } St.init twoDays).log =
      (run Defects.none St.init twoDays).log := by
  decide

/-- **C09_breaks_lazyScan_stale** (regression witness, see above). Under the lazily evaluated `SELECT` an unmarked row after the last
    marked one is never returned: when day 0 changes, the history of day 1 keeps chaining the OLD day 0. -/
theorem C09_breaks_lazyScan_stale :
    (run { Defects.none with lazyScan := true } St.init
        (twoDays ++ [.write (contentOf [(k10, 7), (k11, 6)]) [k10], .commit, .compute])).log ≠
    (run Defects.none St.init
        (twoDays ++ [.write (contentOf [(k10, 7), (k11, 6)]) [k10], .commit, .compute])).log := by
  decide

/-- the code as it is, on the same two schedules: equal content, equal tables -/
example : (run Defects.asImplemented St.init twoDays).log = (run Defects.asImplemented St.init twoDaysAtOnce).log := by
  decide

/-- the code before the three repairs of #20, all switches on, on the same two schedules: equal content,
    different tables -/
theorem C09_breaks_beforeFixHistory :
    (run Defects.beforeFixHistory St.init twoDays).log ≠ (run Defects.beforeFixHistory St.init twoDaysAtOnce).log := by
  decide

/-! ### non-vacuity: schedules that go through every branch of the repaired loop -/

/-- days 0, 1, 2 of entity 0 and day 0 of entity 1, written and recomputed day by day; then the only row of day 0
    is deleted (the FIRST day of the group is emptied: the unmarked day 1 that follows must start the chain);
    then the only row of day 1 moves to day 2 (an emptied day in the middle, after a seed row … there is none
    left, day 2 starts the chain) -/
def emptiedDays : List Step :=
  [.write (contentOf [(k10, 5)]) [k10], .commit, .compute,
   .write (contentOf [(k10, 5), (k11, 6), (kp0, 9)]) [k11, kp0], .commit, .compute,
   .write (contentOf [(k10, 5), (k11, 6), (kp0, 9), (k12, 7)]) [k12], .commit, .compute,
   .write (contentOf [(k11, 6), (kp0, 9), (k12, 7)]) [k10], .commit, .compute,
   .write (contentOf [(kp0, 9), (k12, 7), (k12, 8)]) [k11, k12], .commit, .compute]

/-- the same final content written in one batch -/
def emptiedDaysAtOnce : List Step :=
  [.write (contentOf [(kp0, 9), (k12, 7), (k12, 8)]) [kp0, k12]]

example : runOk Defects.none St.init emptiedDays := by
  refine ⟨?_, trivial, trivial, ?_, trivial, trivial, ?_, trivial, trivial, ?_, trivial, trivial, ?_, trivial, trivial,
    trivial⟩
  · exact contentOf_marks_ok [] _ _ (by decide)
  · exact contentOf_marks_ok [(k10, 5)] _ _ (by decide)
  · exact contentOf_marks_ok [(k10, 5), (k11, 6), (kp0, 9)] _ _ (by decide)
  · exact contentOf_marks_ok [(k10, 5), (k11, 6), (kp0, 9), (k12, 7)] _ _ (by decide)
  · exact contentOf_marks_ok [(k11, 6), (kp0, 9), (k12, 7)] _ _ (by decide)

example : runOk Defects.none St.init emptiedDaysAtOnce :=
  ⟨contentOf_marks_ok [] _ _ (by decide), trivial⟩

/-- … and, as `C09_equal_content_equal_log` says, both end with the same table: one row for day 2 of entity 0
    (two entries, history = daily: it is the first day left) and one for day 0 of entity 1; the emptied days 0
    and 1 have no row. Intermediate tables differ from the final one. -/
example :
    (run Defects.none St.init (emptiedDays ++ [.commit, .compute])).log =
      (run Defects.none St.init (emptiedDaysAtOnce ++ [.commit, .compute])).log ∧
    (run Defects.none St.init (emptiedDays ++ [.commit, .compute])).log =
      [{ room := 1, ent := 0, rows := [{ day := 2, count := 2, daily := some (.daily [7, 8]),
                                          hist := some (.daily [7, 8]), dirty := false }] },
       { room := 1, ent := 1, rows := [{ day := 0, count := 1, daily := some (.daily [9]),
                                          hist := some (.daily [9]), dirty := false }] }] ∧
    (run Defects.none St.init (emptiedDays.take 12)).log =
      [{ room := 1, ent := 0, rows := [{ day := 1, count := 1, daily := some (.daily [6]),
                                          hist := some (.daily [6]), dirty := false },
                                        { day := 2, count := 1, daily := some (.daily [7]),
                                          hist := some (.chain (.daily [6]) (.daily [6])), dirty := false }] },
       { room := 1, ent := 1, rows := [{ day := 0, count := 1, daily := some (.daily [9]),
                                          hist := some (.daily [9]), dirty := false }] }] := by
  decide

/-- the same for the code as it is -/
example :
    runOk Defects.asImplemented St.init emptiedDays ∧ runOk Defects.asImplemented St.init emptiedDaysAtOnce ∧
    (run Defects.asImplemented St.init (emptiedDays ++ [.commit, .compute])).log =
      (run Defects.asImplemented St.init (emptiedDaysAtOnce ++ [.commit, .compute])).log := by
  refine ⟨⟨?_, trivial, trivial, ?_, trivial, trivial, ?_, trivial, trivial, ?_, trivial, trivial, ?_, trivial, trivial,
    trivial⟩, ⟨contentOf_marks_ok [] _ _ (by decide), trivial⟩, by decide⟩
  · exact contentOf_marks_ok [] _ _ (by decide)
  · exact contentOf_marks_ok [(k10, 5)] _ _ (by decide)
  · exact contentOf_marks_ok [(k10, 5), (k11, 6), (kp0, 9)] _ _ (by decide)
  · exact contentOf_marks_ok [(k10, 5), (k11, 6), (kp0, 9), (k12, 7)] _ _ (by decide)
  · exact contentOf_marks_ok [(k11, 6), (kp0, 9), (k12, 7)] _ _ (by decide)

/-- the code before the repairs ends the same schedule with rows for the emptied days and another history -/
example :
    (run Defects.beforeFixHistory St.init (emptiedDays ++ [.commit, .compute])).log ≠
      (run Defects.beforeFixHistory St.init (emptiedDaysAtOnce ++ [.commit, .compute])).log := by
  decide

end Discret.DailyLog

namespace Discret.Sync
open Discret.DailyLog

/-! ### the writes of the replica model obey the marking discipline (intended behaviour) -/

/-- **C09 (local writes of the model).** Creation, update, room move, reference addition, reference deletion and
    row deletion, planned on the state they are applied to, with the marks of `Defects.none`: the invariant
    holds again once the marks are written. (Row ids are unique in the replica.) -/
theorem C09_model_local_write (w : World) (cur : Replica) (hn : IdsNodup cur)
    (h : WInv cur.sigs noPending cur.log) (p : Nat) (op : WOp) :
    WInv (effectOf Defects.none w cur cur p op).cur.sigs noPending
      (markAll (effectOf Defects.none w cur cur p op).marks (effectOf Defects.none w cur cur p op).cur.log) :=
  effectOf_winv rfl w hn h p op

/-- **C09 (one deletion query with several reference-deletion entries, the code as it is).** `DeletionQuery::build`
    loops over the entries of the query; every entry that removes a reference re-dates its source row. With distinct
    source rows, planned on the state they are applied to, the marks of the model of the code cover the day every
    re-dated row leaves and the day it arrives on: the invariant holds again once the marks are written. -/
theorem C09_model_unrefs (rights : Rights) (cur : Replica) (hn : IdsNodup cur)
    (h : WInv cur.sigs noPending cur.log) (p now : Nat) (es : List UnrefEntry) (hrows : (es.map (·.row)).Nodup) :
    WInv (opUnrefs Defects.asImplemented rights cur cur p now es).cur.sigs noPending
      (markAll (opUnrefs Defects.asImplemented rights cur cur p now es).marks
        (opUnrefs Defects.asImplemented rights cur cur p now es).cur.log) :=
  opUnrefs_winv rfl rights hn h p now es hrows

/-- **C09 (synchronised row of the model).** Writing a fetched row over the locally stored version (`old`, of the
    same entity) with the marks of `Defects.none` keeps the invariant and the uniqueness of row ids. -/
theorem C09_model_synchronised_row (rights : Rights) (r : Replica) (hn : IdsNodup r)
    (h : WInv r.sigs noPending r.log) (n : Node) (old : Option Node) (ho : r.findId n.id = old)
    (hent : ∀ o, old = some o → o.ent = n.ent) :
    WInv (ingestNode Defects.none rights r n old).sigs noPending (ingestNode Defects.none rights r n old).log ∧
      IdsNodup (ingestNode Defects.none rights r n old) :=
  ⟨ingestNode_winv rfl rights hn h n old ho hent, ingestNode_idsNodup rights hn n old⟩

/-- **C09 (synchronised deletion records of the model).** Applying a batch of received deletion records with the
    marks of `Defects.none` keeps the invariant. -/
theorem C09_model_synchronised_deletions (rights : Rights) (r : Replica)
    (h : WInv r.sigs noPending r.log) (ts : List NTomb) :
    WInv (applyNTombs Defects.none rights r ts).sigs noPending (applyNTombs Defects.none rights r ts).log :=
  applyNTombs_winv rfl rights h ts

/-- **C09 (recomputation of the model).** … and a recomputation then yields the log of the stored content. -/
theorem C09_model_compute (r : Replica) (h : WInv r.sigs noPending r.log) :
    IsLogOf r.sigs (recompute Defects.none r.sigs r.log) :=
  C09_barrier h

/-- **C09 (recomputation of the model, the code as it is).** -/
theorem C09_model_compute_asImplemented (r : Replica) (h : WInv r.sigs noPending r.log) :
    IsLogOf r.sigs (recompute Defects.asImplemented r.sigs r.log) :=
  C09_barrier_asImplemented h

/-- **C09 (the code as it is marks every day it touches).** Since the fixes 8123d04, 1a9cbe6, 9b21e0a and 456214b the
    three statements above hold for `Defects.asImplemented` as well: every local write, every synchronised row and
    every synchronised deletion record of the model of the code marks the days whose content it changes; with
    `C09_model_compute_asImplemented` the recomputation that follows yields the log of the stored content. -/
theorem C09_model_marks_asImplemented :
    (∀ (w : World) (cur : Replica), IdsNodup cur → WInv cur.sigs noPending cur.log → ∀ (p : Nat) (op : WOp),
      WInv (effectOf Defects.asImplemented w cur cur p op).cur.sigs noPending
        (markAll (effectOf Defects.asImplemented w cur cur p op).marks
          (effectOf Defects.asImplemented w cur cur p op).cur.log)) ∧
    (∀ (rights : Rights) (r : Replica), IdsNodup r → WInv r.sigs noPending r.log →
      ∀ (n : Node) (old : Option Node), r.findId n.id = old → (∀ o, old = some o → o.ent = n.ent) →
      WInv (ingestNode Defects.asImplemented rights r n old).sigs noPending
        (ingestNode Defects.asImplemented rights r n old).log) ∧
    (∀ (rights : Rights) (r : Replica), WInv r.sigs noPending r.log → ∀ (ts : List NTomb),
      WInv (applyNTombs Defects.asImplemented rights r ts).sigs noPending
        (applyNTombs Defects.asImplemented rights r ts).log) :=
  ⟨fun w _ hn h p op => effectOf_winv rfl w hn h p op,
   fun rights _ hn h n old ho hent => ingestNode_winv rfl rights hn h n old ho hent,
   fun rights _ h ts => applyNTombs_winv rfl rights h ts⟩

/-! ### witnesses on the replica model: writes that change a day without marking it -/

def rowOf (w : World) (p : Nat) (k : Key) : Option (Nat × Bool) :=
  (findRow (w.peer p).log k).map fun x => (x.count, x.dirty)

/-- peer 0 creates rows 1 and 2 on day 0, peer 1 pulls; on day 1 peer 0 updates row 1; peer 1 pulls again -/
def crossDayTrace : List Op :=
  [.clock 1000, .write 0 (.new 1 1 0 1 11), .write 0 (.new 2 1 0 2 12), .compute 0, .pull 1 0 1,
   .clock 86401000, .write 0 (.upd 1 3 13 none), .compute 0, .pull 1 0 1]

/-- **C09_breaks_oldDayUnmarked** (#13, fixed in /repo by 8123d04 — kept as a regression witness). With the old
    day of a synchronised cross-day update left unmarked, peer 1's day 0 still says two entries although one
    row is left on that day; with the old day marked (the code now) it says one. -/
theorem C09_breaks_oldDayUnmarked :
    let w := World.run { Defects.asImplemented with oldDayUnmarked := true } (World.init [true, true]) crossDayTrace
    rowOf w 1 k10 = some (2, false) ∧ ((w.peer 1).sigs 1 0 0).length = 1 ∧
    rowOf (World.run Defects.asImplemented (World.init [true, true]) crossDayTrace) 1 k10 = some (1, false) := by
  decide

/-- row 1 created on day 0 with a reference to row 2 and recomputed; on day 1 that reference is deleted -/
def refDeletionTrace : List Op :=
  [.clock 1000, .write 0 (.new 1 1 0 1 11), .write 0 (.new 2 1 0 2 12), .write 0 (.ref 1 2 15), .compute 0,
   .clock 86401000, .write 0 (.unref 1 2 13 14), .compute 0]

/-- **C09_breaks_refDeletionUnmarked** (#3, fixed in /repo by 9b21e0a — regression witness). The reference deletion
    re-dates and re-signs row 1 (day 0 → day 1); with its days left unmarked day 0 still counts two entries and
    row 1 is not part of what day 1 hashes; with both days marked (the code now) every day shows its content. -/
theorem C09_breaks_refDeletionUnmarked :
    let w := World.run { Defects.asImplemented with refDeletionUnmarked := true } (World.init [true]) refDeletionTrace
    let w' := World.run Defects.asImplemented (World.init [true]) refDeletionTrace
    rowOf w 0 k10 = some (2, false) ∧ ((w.peer 0).sigs 1 0 0).length = 1 ∧
    rowOf w' 0 k10 = some (1, false) ∧ ((w'.peer 0).sigs 1 0 0).length = 1 ∧
    rowOf w' 0 k11 = some (((w'.peer 0).sigs 1 0 1).length, false) := by
  decide

/-- the same without the reference: the deletion names a reference that does not exist -/
def noRefDeletionTrace : List Op :=
  [.clock 1000, .write 0 (.new 1 1 0 1 11), .write 0 (.new 2 1 0 2 12), .compute 0,
   .clock 86401000, .write 0 (.unref 1 2 13 14), .compute 0]

/-- **C09_breaks_refDeletionTouchesRowWithoutRef** (#3, fixed in /repo by 456214b and 9b21e0a — regression witness).
    Before the fixes a reference deletion that removes nothing re-dated and re-signed the source row and marked
    nothing: day 0 still counts two entries, day 1 has content and no log row at all. The code now leaves the row
    where it is. -/
theorem C09_breaks_refDeletionTouchesRowWithoutRef :
    let w := World.run { Defects.asImplemented with refDeletionUnmarked := true, refDeletionTouchesRowWithoutRef := true }
      (World.init [true]) noRefDeletionTrace
    let w' := World.run Defects.asImplemented (World.init [true]) noRefDeletionTrace
    rowOf w 0 k10 = some (2, false) ∧ ((w.peer 0).sigs 1 0 0).length = 1 ∧
    rowOf w 0 k11 = none ∧ ((w.peer 0).sigs 1 0 1).length = 1 ∧
    rowOf w' 0 k10 = some (2, false) ∧ ((w'.peer 0).sigs 1 0 0).length = 2 ∧ ((w'.peer 0).sigs 1 0 1).length = 0 := by
  decide

/-- peer 1 holds a newer version (day 1) of a row that peer 0 deletes on day 2 at its day-0 version -/
def otherVersionTrace : List Op :=
  [.clock 1000, .write 0 (.new 1 1 0 1 11), .write 0 (.new 2 1 0 2 12), .compute 0, .pull 1 0 1,
   .clock 86401000, .write 1 (.upd 1 3 13 none), .write 1 (.new 3 1 0 4 15), .compute 1,
   .clock 172801000, .write 0 (.del 1 14), .compute 0, .pull 1 0 1]

/-- **C09_breaks_syncDeletionLocalDayUnmarked** (found by the model, fixed in /repo by 1a9cbe6 — regression
    witness). A synchronised deletion record removes peer 1's day-1 version; marking only the record's day 0
    and the deletion day 2 leaves day 1 counting two entries; with the local day marked (the code now) one. -/
theorem C09_breaks_syncDeletionLocalDayUnmarked :
    let w := World.run { Defects.asImplemented with syncDeletionLocalDayUnmarked := true } (World.init [true, true])
      otherVersionTrace
    rowOf w 1 k11 = some (2, false) ∧ ((w.peer 1).sigs 1 0 1).length = 1 ∧
    rowOf (World.run Defects.asImplemented (World.init [true, true]) otherVersionTrace) 1 k11 = some (1, false) := by
  decide

end Discret.Sync

/-! ### the day of a date (`date_utils.rs`): the buckets of the daily log are the days `t / 86400000`

`Model/Date.lean` models `date` and `date_next_day` as written, chrono's representable range included; the `dates`
stream of the check runs them against the real functions (boundaries of the range, day boundaries, negative dates).
The theorems below justify the abstraction `dayOf t = t / dayMs` that every other model of the daily log uses, for
every date `t` with `InRange t` (from year −262143 to one day before the end of year 262142). -/
namespace Discret.Date

/-- **C09 (a date lies in its own day window).** `date t ≤ t < date_next_day t`, and the window is one day long. -/
theorem C09_date_window {t : Int} (h : InRange t) :
    date t ≤ t ∧ t < dateNextDay t ∧ dateNextDay t = date t + dayMs := by
  rw [dateNextDay_of_inRange h]
  refine ⟨?_, ?_, rfl⟩ <;> (rw [date_of_inRange h]; simp only [dayMs]; omega)

/-- **C09 (the SQL window of a day is the day).** For a representable date `t` and ANY `u`, `u` is selected by the window
    `date t ≤ u < date_next_day t` (daily_log.rs:221, node.rs:460,937, edge.rs:464) exactly when `u` and `t` have
    the same day number — the `dayOf` of the models; and the mark `date t` (daily_log.rs:36) identifies that day. -/
theorem C09_window_iff_same_day {t u : Int} (ht : InRange t) :
    (date t ≤ u ∧ u < dateNextDay t) ↔ dayOf u = dayOf t := by
  rw [dateNextDay_of_inRange ht, date_of_inRange ht]; simp only [dayOf, dayMs]; omega

theorem C09_date_eq_iff_same_day {t u : Int} (ht : InRange t) (hu : InRange u) :
    date t = date u ↔ dayOf t = dayOf u := by
  rw [date_of_inRange ht, date_of_inRange hu]; simp only [dayOf, dayMs]; omega

/-- **C09 (the windows partition the dates).** Two day windows are equal or disjoint: a row is counted in exactly
    one day. -/
theorem C09_windows_disjoint {t t' u : Int} (ht : InRange t) (ht' : InRange t')
    (h : date t ≤ u ∧ u < dateNextDay t) (h' : date t' ≤ u ∧ u < dateNextDay t') : date t = date t' := by
  rw [C09_window_iff_same_day ht] at h; rw [C09_window_iff_same_day ht'] at h'
  exact (C09_date_eq_iff_same_day ht ht').2 (h.symm.trans h')

/-- `date` is idempotent and monotone for EVERY input (clamped ones included): marks are stable under re-marking -/
theorem C09_date_idem (t : Int) : date (date t) = date t := by
  have hb := clamp_bounds t
  have hl := floorDay_le (clamp t)
  have hm : minMs ≤ floorDay (clamp t) := by have := floorDay_mono hb.1; rw [floorDay_min] at this; exact this
  have hc : clamp (floorDay (clamp t)) = floorDay (clamp t) := clamp_of_bounds hm (Int.le_trans hl.1 hb.2)
  simp only [date, hc, floorDay_floorDay]

theorem C09_date_mono {t u : Int} (h : t ≤ u) : date t ≤ date u := floorDay_mono (clamp_mono h)

/-- **C09 (the hypothesis is exact).** `InRange t` holds exactly when the day window of `t`, as the real functions
    compute it, contains `t` and is one day long — the harness derives its `inrange` observation from the real
    `date` / `date_next_day` this way, so the correspondence also checks the hypothesis of the theorems above. -/
theorem C09_inRange_iff_window (t : Int) :
    InRange t ↔ (date t ≤ t ∧ t < dateNextDay t ∧ dateNextDay t = date t + dayMs) := by
  constructor
  · exact C09_date_window
  · simp only [InRange, date, dateNextDay, clamp, floorDay, minMs, maxMs, dayMs]
    intro h
    repeat' split at h
    all_goals omega

/-- **C09_breaks_lastDay (boundary of the hypothesis `InRange`, stated so that it stays visible).** In the last
    representable day (year 262142-12-31) and beyond, `date_next_day` falls back to `MAX_UTC` and the window
    `[date t, date_next_day t)` is EMPTY: a row dated there is in no day of the log. No local write can carry such
    a date (`now()`); a peer's row can. Not reached by any stream of the check except `dates`. -/
theorem C09_breaks_lastDay : dateNextDay maxMs = date maxMs ∧ ¬ InRange maxMs ∧ ¬ (maxMs < dateNextDay maxMs) := by
  decide

-- non-vacuity: ordinary dates are in range, and so are the bounds the harness probes
example : InRange 0 ∧ InRange 1700000000000 ∧ InRange (-1) ∧ InRange minMs ∧ InRange (maxMs - dayMs) := by decide
example : date 1700000000123 = 1699920000000 ∧ dateNextDay 1700000000123 = 1700006400000 ∧ date (-1) = -86400000 := by decide

end Discret.Date
