import DiscretModel.Lemmas.LocalWriteFixtures
import DiscretModel.Lemmas.RoomImport
/-
C01 — Local writes are applied only with the room's rights at that time.

Models: `Model/LocalWrite.lean` (plan of the mutation tree — any depth —, right checks, write, deletions) and
`Model/RoomBuild.lean` (`validate`: room mutations), over the room decision functions of `Model/Room.lean`.
The compiled model is run against the real functions on every check (`checks/C01.py`, harness `mode=fn`).

All statements hold for every list of room definitions (any history), every database content, caller, date
and operation. "The right at that time" is `Room.can … now …`; by past stability (`Room.past_stability`)
entries dated after `now` do not change it.
-/
namespace Discret.LocalWrite
open Discret.Room

/-! ### the intended behaviour (`Defects.none`) -/

/-- **C01 (rows).** After an accepted mutation, every row that was not in the database before — created,
    changed, moved or re-signed — is the new row of a change that passed the right check: the caller holds,
    at the date of the operation, the own-rows right if it creates the row or is the author of the stored
    row, the all-rows right otherwise, in the room the row is in afterwards and in the room it was in before
    (`Authorised`). The row is signed by the caller. -/
theorem C01_rows {rooms : List Room} {db db' : Db} {caller : Key} {now : Int} {m : Mut}
    (h : mutate Defects.none rooms db caller now m = .ok db') :
    ∀ r ∈ db'.rows, r ∉ db.rows →
      ∃ c, Authorised rooms caller now c ∧ c.entity = r.entity ∧ c.roomId = r.room ∧ r.author = caller ∧
        ∀ o, c.old = some o → db.getRow r.id r.entity = some o := by
  unfold mutate at h
  split at h
  · cases h
  · rename_i cs hp
    split at h
    · cases h
    · rename_i l hv
      cases h
      intro r hr hnot
      obtain ⟨hmap, hauth⟩ := validateList_authorised (Or.inl rfl) (Or.inl rfl) hv
      rcases applyAll_rows hr with h1 | ⟨ct, hct, n, hn, rfl⟩
      · exact absurd h1 hnot
      · have hcin : ct.1 ∈ cs := by rw [← hmap]; exact List.mem_map.mpr ⟨ct, hct, rfl⟩
        have hpl := plan_planned hp ct.1 hcin
        have hne : ct.1.node ≠ none := by rw [hn]; exact fun e => by cases e
        refine ⟨ct.1, hauth ct hct hne, ?_, ?_, rfl, ?_⟩
        · exact (hpl.node n hn).1.symm
        · exact (hpl.node n hn).2.symm
        · intro o ho
          have := hpl.old o ho n hn
          simpa [(hpl.node n hn).1] using this

/-- **C01 (references).** Every reference present after an accepted mutation and not before is signed by the
    caller and stored at a row whose change passed the right check. -/
theorem C01_references {rooms : List Room} {db db' : Db} {caller : Key} {now : Int} {m : Mut}
    (h : mutate Defects.none rooms db caller now m = .ok db') :
    ∀ e ∈ db'.edges, e ∉ db.edges →
      e.author = caller ∧ ∃ c n, Authorised rooms caller now c ∧ c.node = some n ∧ e.src = n.id := by
  unfold mutate at h
  split at h
  · cases h
  · rename_i cs hp
    split at h
    · cases h
    · rename_i l hv
      cases h
      intro e he hnot
      obtain ⟨hmap, hauth⟩ := validateList_authorised (Or.inl rfl) (Or.inl rfl) hv
      rcases applyAll_edges he with h1 | ⟨ct, hct, x, hx, rfl⟩
      · exact absurd h1 hnot
      · have hcin : ct.1 ∈ cs := by rw [← hmap]; exact List.mem_map.mpr ⟨ct, hct, rfl⟩
        have hpl := plan_planned hp ct.1 hcin
        refine ⟨rfl, ?_⟩
        cases hn : ct.1.node with
        | none =>
          have := (hpl.quiet hn).2
          rw [this] at hx; cases hx
        | some n =>
          have hne : ct.1.node ≠ none := by rw [hn]; exact fun e => by cases e
          exact ⟨ct.1, n, hauth ct hct hne, hn, (hpl.src n hn).1 x hx⟩

/-- **C01 (node deletion).** An accepted deletion of a stored row needed the own-rows right (own row) or the
    all-rows right (foreign row) in the row's room at that date, and the right to edit every row that
    referenced the deleted one. -/
theorem C01_delete_node {rooms : List Room} {db db' : Db} {caller : Key} {now : Int} {handle : Nat} {entity : Ent}
    {row : Row} (hrow : db.getRow handle entity = some row)
    (h : deleteNode Defects.none rooms db caller now handle entity = .ok db') :
    (∀ rid, row.room = some rid →
      Allowed rooms caller now entity (if row.author = caller then .mutateSelf else .mutateAll) rid) ∧
    (∀ e ∈ db.edges, e.dest = handle → e.src ≠ handle → mayTouch rooms db caller now e.src = true) := by
  unfold deleteNode at h
  rw [hrow] at h
  simp only [Defects.none, Bool.not_false, Bool.true_and] at h
  split at h
  · cases h
  · rename_i hinc
    have hallb : (db.edges.filter fun e => e.dest = handle && e.src ≠ handle).all
        (fun e => mayTouch rooms db caller now e.src) = true := by
      cases hb : (db.edges.filter fun e => e.dest = handle && e.src ≠ handle).all
          (fun e => mayTouch rooms db caller now e.src) with
      | true => rfl
      | false => rw [hb] at hinc; simp at hinc
    have hall : ∀ e ∈ db.edges, e.dest = handle → e.src ≠ handle → mayTouch rooms db caller now e.src = true := by
      intro e he hd hs
      have hin : e ∈ db.edges.filter fun e => e.dest = handle && e.src ≠ handle := by
        simp [List.mem_filter, he, hd, hs]
      exact List.all_eq_true.mp hallb e hin
    refine ⟨?_, hall⟩
    intro rid hr
    rw [hr] at h
    simp only at h
    cases hroom : getRoom rooms rid with
    | none => rw [hroom] at h; cases h
    | some room =>
      rw [hroom] at h
      simp only at h
      by_cases hcan : room.can caller entity now (if row.author = caller then .mutateSelf else .mutateAll) = true
      · exact ⟨room, hroom, hcan⟩
      · simp [hcan] at h

/-- **C01 (reference deletion).** An accepted deletion of an existing reference needed, in the room of its
    source row, the own-rows right when both the reference and the row are the caller's, the all-rows right
    otherwise; the deletion of a reference that does not exist changes nothing. -/
theorem C01_delete_ref {rooms : List Room} {db db' : Db} {caller : Key} {now : Int} {handle : Nat} {entity : Ent}
    {label dest : Nat} {row : Row} (hrow : db.getRow handle entity = some row)
    (h : deleteRef Defects.none rooms db caller now handle entity label dest = .ok db') :
    (db.edges.find? (fun e => e.src = handle && e.label = label && e.dest = dest) = none → db' = db) ∧
    (∀ edge rid, db.edges.find? (fun e => e.src = handle && e.label = label && e.dest = dest) = some edge →
      row.room = some rid →
      Allowed rooms caller now entity
        (if edge.author = caller ∧ row.author = caller then .mutateSelf else .mutateAll) rid) := by
  unfold deleteRef at h
  rw [hrow] at h
  simp only [Defects.none, Bool.false_eq_true, if_false] at h
  constructor
  · intro hnone; rw [hnone] at h; cases h; rfl
  · intro edge rid hedge hr
    rw [hedge, hr] at h
    simp only at h
    cases hroom : getRoom rooms rid with
    | none => rw [hroom] at h; cases h
    | some room =>
      rw [hroom] at h
      simp only at h
      by_cases hcan : room.can caller entity now
          (if edge.author = caller ∧ row.author = caller then .mutateSelf else .mutateAll) = true
      · exact ⟨room, hroom, hcan⟩
      · simp [hcan] at h

/-- one API call: a refused operation leaves the database unchanged -/
def step (df : Defects) (rooms : List Room) (db : Db) (caller : Key) (now : Int) (m : Mut) : Db × Bool :=
  match mutate df rooms db caller now m with
  | .ok db' => (db', true)
  | .error _ => (db, false)

/-- **C01 (refusal).** A refused mutation leaves the database unchanged — with or without the defects: every
    check precedes every write. -/
theorem C01_refused_unchanged (df : Defects) (rooms : List Room) (db : Db) (caller : Key) (now : Int) (m : Mut)
    (h : (step df rooms db caller now m).2 = false) : (step df rooms db caller now m).1 = db := by
  unfold step at h ⊢
  split
  · rename_i db' hm; rw [hm] at h; cases h
  · rfl

/-! ### room mutations (`validate_room_mutation`): a definition is changed only by an admin -/

open Discret.RoomBuild in
/-- **C01 (room mutation, existing room).** The caller of an accepted mutation of an existing room is admin
    of that room at the date of the mutation, before the mutation is applied. (The code is stricter than the
    property, which would also let a group's user admin add users.) -/
theorem C01_room_mutation_existing {df : RoomBuild.Defects} {mem : Option Room} {caller : Key} {m : MutSpec} {room' : Room}
    (hnew : m.isNew = false) (h : validate df mem caller m = .ok room') :
    ∃ r, mem = some r ∧ r.isAdmin caller m.date = true := by
  unfold validate at h
  simp only [hnew, Bool.false_eq_true, if_false] at h
  cases mem with
  | none => simp at h
  | some r =>
    refine ⟨r, rfl, ?_⟩
    cases hb : r.isAdmin caller m.date with
    | true => rfl
    | false => simp [hb] at h

open Discret.RoomBuild in
/-- **C01 (room mutation, admins).** Whenever an accepted room mutation adds an admin entry, the caller is
    admin of the room as it stands after the mutation (a creator must list itself). -/
theorem C01_room_mutation_admins {df : RoomBuild.Defects} {mem : Option Room} {caller : Key} {m : MutSpec} {room' : Room}
    (hadm : m.admins ≠ []) (h : validate df mem caller m = .ok room') : room'.isAdmin caller m.date = true := by
  unfold validate at h
  simp only at h
  split at h
  · cases h
  · split at h
    · cases h
    · split at h
      · cases h
      · rename_i room2 need hgs
        -- the flag starts `true` (an admin entry is added) and only grows
        have hneed : need = true := by
          have hstart : (!m.admins.isEmpty) = true := by
            cases hm : m.admins with
            | nil => exact absurd hm hadm
            | cons _ _ => rfl
          rw [hstart] at hgs
          exact validateGroups_need_true hgs
        split at h
        · cases h
        · rename_i hc
          cases h
          rw [hneed] at hc
          simpa using hc

open Discret.RoomBuild in
/-- **C01 (room mutation, groups of other rooms).** A `sys.Authorisation` entity named by id inside a mutation of a
    room — an existing row — that is not one of THAT room's groups (the group of another room, for instance) makes
    `validate_authorisation_mutation` refuse the mutation (`NotBelongsTo`), whoever the caller is. -/
theorem C01_room_mutation_foreign_group {df : RoomBuild.Defects} {caller : Key} {d : Int} {room : Room} {g : GroupSpec}
    (hold : g.isNew = false) (habs : room.getAuth g.gid = none) :
    validateGroup df caller d room g = .error .notBelongs :=
  validateGroup_foreign hold habs

open Discret.RoomBuild in
/-- **C01 (room mutation, only the mutated room's groups).** Every group an ACCEPTED room mutation names as an existing
    one is a group of the room being mutated (as it stands when the group is reached), or a group created earlier in
    the same mutation: no entry is ever hung under the group of another room. -/
theorem C01_room_mutation_groups_belong {df : RoomBuild.Defects} {caller : Key} {d : Int} {gs : List GroupSpec}
    {r r' : Room} {need need' : Bool} (h : validateGroups df caller d r need gs = .ok (r', need')) :
    ∀ g ∈ gs, g.isNew = false → (r.getAuth g.gid).isSome = true ∨ ∃ g' ∈ gs, g'.isNew = true ∧ g'.gid = g.gid :=
  validateGroups_belongs h

open Discret.RoomBuild in
/-- **C01 (room mutation, other rooms untouched).** An accepted mutation of room `m.rid` changes neither the stored
    definition nor the in-memory definition of any OTHER room of the instance: the definition of a room changes only
    through a mutation of that room — whose caller is one of its admins (`C01_room_mutation_existing`). -/
theorem C01_room_mutation_other_rooms {df : RoomBuild.Defects} {s s' : Site} (hi : SiteInv s) {caller : Key} {n : Nat}
    {m : MutSpec} (h : s.mutate df caller n m = .ok s') {rid : Id} (hne : rid ≠ m.rid) :
    s'.getStored rid = s.getStored rid ∧ s'.getMem rid = s.getMem rid :=
  mutate_other_rooms hi h hne

/-! ### non-vacuity: a concrete instance with rooms, members of every kind and rows -/

-- an authorised nested update: member 2 (all-rows) rewrites its row 0 under its unchanged row 1
example : (mutate Defects.none rooms01 db0 2 4
    (.mk 1 false 1 none none (.arr 0 [.mk 0 false 1 none (some 7) .none]))).toBool = true := by
  decide

-- an authorised four-level creation with rooms inherited and overridden on the way down: member 3 (own-rows right
-- in room 0, all-rows right in room 1) creates rows 20, 21 in room 0 and rows 22, 23 in room 1
example : (match mutate Defects.none rooms01 db0 3 4 deepCreate with
    | .ok db' => (db'.rows.filter fun r => 20 ≤ r.id).map fun r => (r.id, r.room, r.author)
    | .error _ => []) = [(20, some 0, 3), (21, some 0, 3), (22, some 1, 3), (23, some 1, 3)] := by
  decide

-- the same tree by member 2, who has no right in room 1: refused as a whole, although the first two levels are allowed
example : (mutate Defects.none rooms01 db0 2 4 deepCreate).toBool = false ∧
    (mutate Defects.none rooms01 db0 2 4
      (.mk 20 true 1 (some 0) (some 1) (.arr 0 [.mk 21 true 1 none (some 2) .none]))).toBool = true := by
  decide

-- an authorised move: member 3 creates a row in room 0 (own-rows) and moves it to room 1
example : (mutate Defects.none rooms01
    { db0 with rows := db0.rows ++ [⟨5, 1, some 0, 3, 3, 3, 9⟩] } 3 4
    (.mk 5 false 1 (some 1) (some 7) .none)).toBool = true := by decide

/-! ### the code as it is: the full statement is false

Each witness turns ONE switch on over the intended behaviour (so that it stays valid when `Defects.asImplemented`
changes after a fix in /repo). -/

/-- **C01_breaks_subNodesSkipped (#1).** Key 5 has no right in room 0 (`can … = false`); its direct update of
    row 0 is refused; nested under the unchanged row 1 the same update is accepted and row 0 is now signed
    by key 5. With the switch off it is refused. -/
theorem C01_breaks_subNodesSkipped :
    room0.can 5 1 4 .mutateAll = false ∧ room0.can 5 1 4 .mutateSelf = false ∧
    (mutate { Defects.none with subNodesSkipped := true } rooms01 db0 5 4
      (.mk 0 false 1 none (some 66) .none)).toBool = false ∧
    authorOf (mutate { Defects.none with subNodesSkipped := true } rooms01 db0 5 4 nestedByOutsider) 0 = some 5 ∧
    (mutate Defects.none rooms01 db0 5 4 nestedByOutsider).toBool = false := by
  decide

/-- **C01_breaks_subNodesSkipped, two levels down.** The same defect reaches any depth: below the unchanged row 1
    and the unchanged row 0, the outsider 5 rewrites row 8, which is then signed by key 5. With the switch off the
    mutation is refused. -/
theorem C01_breaks_subNodesSkipped_deep :
    authorOf (mutate { Defects.none with subNodesSkipped := true } rooms01 db3 5 4 deepByOutsider) 8 = some 5 ∧
    (mutate Defects.none rooms01 db3 5 4 deepByOutsider).toBool = false := by
  decide

/-- **C01_breaks_oldRoomLookup (#2).** Member 3 has only the own-rows right in room 0 and the all-rows right
    in room 1: it cannot update the foreign row 0 in place, but it can move it to room 1 (the departing room
    is looked up with the destination id). With the switch off the move is refused. -/
theorem C01_breaks_oldRoomLookup :
    room0.can 3 1 4 .mutateAll = false ∧
    (mutate { Defects.none with oldRoomLookup := true } rooms01 db0 3 4
      (.mk 0 false 1 none (some 5) .none)).toBool = false ∧
    (mutate { Defects.none with oldRoomLookup := true } rooms01 db0 3 4
      (.mk 0 false 1 (some 1) (some 5) .none)).toBool = true ∧
    (mutate Defects.none rooms01 db0 3 4
      (.mk 0 false 1 (some 1) (some 5) .none)).toBool = false := by
  decide

/-- **C01_breaks_refDeletionResign (#3).** The outsider 5 "deletes" a reference that does not exist: row 0 is
    re-dated and re-signed by key 5. With the switch off nothing changes. -/
theorem C01_breaks_refDeletionResign :
    authorOf (deleteRef { Defects.none with refDeletionResign := true } rooms01 db0 5 4 0 1 0 1) 0 = some 5 ∧
    (match deleteRef Defects.none rooms01 db0 5 4 0 1 0 1 with
      | .ok db' => decide (db' = db0) | .error _ => false) = true := by
  decide

/-- **C01_breaks_refRightOnEdgeAuthor (#3, second half — still in /repo).** Member 3 holds the own-rows right only.
    It deletes the reference it once added at the foreign row 1: the right is judged on the reference's author
    (own reference: own-rows right suffices) and row 1, which belongs to member 2, is re-dated and re-signed by
    key 3. With the switch off the all-rows right is required and the deletion is refused. -/
theorem C01_breaks_refRightOnEdgeAuthor :
    room0.can 3 1 4 .mutateAll = false ∧
    authorOf (deleteRef { Defects.none with refRightOnEdgeAuthor := true } rooms01 db2 3 4 1 1 0 0) 1 = some 3 ∧
    (deleteRef Defects.none rooms01 db2 3 4 1 1 0 0).toBool = false := by decide

/-- **C01_breaks_incomingRefsUnchecked.** The outsider 5 deletes the room-less row 7: the reference stored at
    row 1 of room 0 — which key 5 may not edit — disappears with it. With the switch off the deletion is refused. -/
theorem C01_breaks_incomingRefsUnchecked :
    mayTouch rooms01 db1 5 4 1 = false ∧
    (match deleteNode { Defects.none with incomingRefsUnchecked := true } rooms01 db1 5 4 7 1 with
      | .ok db' => db'.edges.any (fun e => e.src = 1 && e.dest = 7) | .error _ => true) = false ∧
    (deleteNode Defects.none rooms01 db1 5 4 7 1).toBool = false := by
  decide

/-- **C01_breaks_sysRefDeletionUnguarded (#32).** Any key — here 5, unknown to the room — removes an admin
    reference of a room (entries 10 and 11, room row signed by admin 1) and becomes the author of the room
    row: an authorisation row changes outside a room mutation. With the switch off the deletion is refused.
    (Replayed on the real code: corpus/C01/sys-ref-deletion-unguarded.ops.) -/
theorem C01_breaks_sysRefDeletionUnguarded :
    deleteRoomAdminRef { Defects.none with sysRefDeletionUnguarded := true } 1 [10, 11] 5 10 = .ok (5, [11]) ∧
    deleteRoomAdminRef Defects.none 1 [10, 11] 5 10 = .error .deleteNotAllowed := ⟨rfl, rfl⟩

/-! ### the code as it is, under an explicit guard -/

/-- the mutation has none of the shapes the code mishandles: no row changes below a row of the tree that stays
    unchanged (at any depth), and no row changes room -/
def Guard (cs : List Change) : Prop :=
  (∀ c ∈ cs, c.shadowed = true → c.node = none) ∧ ∀ c ∈ cs, NoMove c

/-- **C01_partial (the code as it is).** For a mutation tree of any depth whose plan satisfies `Guard` — no entity
    whose row changes lies below an entity whose row does not (excludes #1), and no row changes room (excludes #2) —
    the code writes only rows whose change passed the right check, whatever the switches are (`df` arbitrary, in
    particular `Defects.asImplemented`). Missing with respect to the full
    statement: the nested sub-entity under an unchanged parent, room moves, reference deletions (#3),
    deletions of referenced rows, and the reference deletion on `sys.Room` (#32), all shown false above or
    by replay (`corpus/C01`). (#1, #2, the first half of #3 and #32 are fixed in /repo since; the replays stay as
    regression cases.) -/
theorem C01_partial (df : Defects) {rooms : List Room} {db db' : Db} {caller : Key} {now : Int} {m : Mut}
    {cs : List Change} (hp : plan db now m = .ok cs) (hg : Guard cs)
    (h : mutate df rooms db caller now m = .ok db') :
    ∀ r ∈ db'.rows, r ∉ db.rows →
      ∃ c, Authorised rooms caller now c ∧ c.entity = r.entity ∧ c.roomId = r.room ∧ r.author = caller := by
  unfold mutate at h
  rw [hp] at h
  simp only at h
  split at h
  · cases h
  · rename_i l hv
    cases h
    intro r hr hnot
    obtain ⟨hmap, hauth⟩ := validateList_authorised (Or.inr hg.1) (Or.inr hg.2) hv
    rcases applyAll_rows hr with h1 | ⟨ct, hct, n, hn, rfl⟩
    · exact absurd h1 hnot
    · have hcin : ct.1 ∈ cs := by rw [← hmap]; exact List.mem_map.mpr ⟨ct, hct, rfl⟩
      have hpl := plan_planned hp ct.1 hcin
      have hne : ct.1.node ≠ none := by rw [hn]; exact fun e => by cases e
      exact ⟨ct.1, hauth ct hct hne, (hpl.node n hn).1.symm, (hpl.node n hn).2.symm, rfl⟩

/-- **C01_partial_delete_node (the code as it is).** Whatever the switches are, an accepted deletion of a stored row
    needed the own-rows right (own row) or the all-rows right (foreign row) in the row's room at that date, and its
    footprint is exactly: the row itself, the references stored AT it, and the references pointing TO it — no other
    row, no other reference changes. What is missing with respect to `C01_delete_node`: the right to edit the source
    rows of the references pointing to the deleted row (`C01_breaks_incomingRefsUnchecked`; no small repair, see
    findings/C01-node-deletion-incoming-references.md). -/
theorem C01_partial_delete_node (df : Defects) {rooms : List Room} {db db' : Db} {caller : Key} {now : Int}
    {handle : Nat} {entity : Ent} {row : Row} (hrow : db.getRow handle entity = some row)
    (h : deleteNode df rooms db caller now handle entity = .ok db') :
    (∀ rid, row.room = some rid →
      Allowed rooms caller now entity (if row.author = caller then .mutateSelf else .mutateAll) rid) ∧
    db'.rows = db.rows.filter (fun r => r.id ≠ handle) ∧
    db'.edges = db.edges.filter (fun e => e.src ≠ handle && e.dest ≠ handle) := by
  unfold deleteNode at h
  rw [hrow] at h
  simp only at h
  split at h
  · cases h
  · cases hr : row.room with
    | none =>
      rw [hr] at h
      simp only at h
      cases h
      exact ⟨(by intro rid e; cases e), rfl, rfl⟩
    | some rid =>
      rw [hr] at h
      simp only at h
      cases hroom : getRoom rooms rid with
      | none => rw [hroom] at h; cases h
      | some room =>
        rw [hroom] at h
        simp only at h
        by_cases hcan : room.can caller entity now (if row.author = caller then .mutateSelf else .mutateAll) = true
        · simp only [hcan, if_true] at h
          cases h
          refine ⟨?_, rfl, rfl⟩
          intro rid' e; cases e; exact ⟨room, hroom, hcan⟩
        · simp [hcan] at h

/-- the mutated entity itself is never below an unchanged row: the first clause of `Guard` only constrains the
    sub-entities -/
theorem C01_guard_root {db : Db} {now : Int} {m : Mut} {cs : List Change} (hp : plan db now m = .ok cs) :
    ∃ top rest, cs = top :: rest ∧ top.shadowed = false := by
  obtain ⟨top, rest, h1, h2, _⟩ := plan_root hp
  exact ⟨top, rest, h1, h2⟩

-- the guard is satisfiable by a non-trivial mutation of the code as it is: member 2 updates its row 1 and,
-- nested under it, its row 0 and, below that one, its row 8 (three levels)
example : ∃ cs,
    plan db3 4 (.mk 1 false 1 none (some 8) (.arr 0 [.mk 0 false 1 none (some 7) (.arr 0 [.mk 8 false 1 none (some 6) .none])]))
      = .ok cs ∧ cs.length = 3 ∧ (cs.all fun c => c.node.isSome && !c.shadowed) = true := by
  refine ⟨_, rfl, by decide, by decide⟩

end Discret.LocalWrite
