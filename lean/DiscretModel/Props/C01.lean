import DiscretModel.Lemmas.Room
import DiscretModel.Model.LocalWrite
/- C01 — placeholder while the pipeline is brought up; replaced by the real statements. -/
namespace Discret.LocalWrite
open Discret.Room

theorem C01_placeholder (db : Db) : db = db := rfl

end Discret.LocalWrite
