import DiscretModel.Lemmas.Handshake
import DiscretModel.Lemmas.Serve
/-
C19 — Connections are trusted only after key proof; invitations are single-use.

Model: `Model/Handshake.lean` (`initialise_connection`, the token table of `PeerManager`, the meeting
token). Statements quantify over every reply of the remote side (any key, any signature, valid or
invalid peer row, no reply), every token type, every table, every later history of the table; section 4
composes the handshake with the serving side of the connection (`Model/Serve.lean`, C08).
-/
namespace Discret.Handshake

/-! ### 1. the handshake (holds for the code as it is) -/

/-- **C19 (key proof).** If the connection ends up bound to key `k`, then the remote side presented a
    valid peer row for `k` and a signature of THIS connection's challenge under `k`; for an allowed
    peer `k` is the key expected for the token; for an accepted invitation the invitation's signature
    verifies under `k`. -/
theorem C19_bound_only_after_proof (localKey : Key) (tt : TokenType) (c : Chal) (reply : Option Proof) (k : Key)
    (h : (initialise localKey tt c reply).bound = some k) :
    ∃ p, reply = some p ∧ p.key = k ∧ p.rowValid = true ∧ sigValid k (chalMsg c) p.sig = true ∧
      (∀ e, tt = .allowedPeer e → k = e) ∧
      (∀ inv, tt = .invite inv → sigValid k (inviteHash inv.id inv.app) inv.sign = true) := by
  unfold initialise at h
  cases reply with
  | none => simp [fail] at h
  | some p =>
    refine ⟨p, rfl, ?_⟩
    simp only at h
    by_cases h1 : sigValid p.key (chalMsg c) p.sig = true
    · by_cases h2 : p.rowValid = true
      · simp only [h1, h2, Bool.not_true, Bool.false_eq_true, if_false] at h
        cases tt with
        | allowedPeer e =>
          simp only at h
          by_cases h3 : e = p.key
          · have hk : p.key = k := by
              simp only [h3, ne_eq, not_true_eq_false, if_false] at h
              split at h <;> simpa using h
            subst hk
            exact ⟨rfl, h2, h1, (fun e' he => by cases he; exact h3.symm), (fun inv hinv => by cases hinv)⟩
          · simp [h3, fail] at h
        | ownedInvite id =>
          have hk : p.key = k := by simpa using h
          subst hk
          exact ⟨rfl, h2, h1, (fun e he => by cases he), (fun inv hinv => by cases hinv)⟩
        | invite inv =>
          simp only at h
          by_cases h4 : sigValid p.key (inviteHash inv.id inv.app) inv.sign = true
          · have hk : p.key = k := by simpa [h4] using h
            subst hk
            exact ⟨rfl, h2, h1, (fun e he => by cases he), (fun inv' hinv => by cases hinv; exact h4)⟩
          · simp [h4, fail] at h
      · simp [h1, h2, fail] at h
    · simp [h1, fail] at h

/-- **C19 (a failed proof yields nothing but a disconnect).** Whenever the call does not return
    `Ok(true)`, no key is bound, the connection stays as it was, nothing is sent to the remote side and
    nothing to the peer service (the caller then disconnects). -/
theorem C19_failure_yields_nothing (localKey : Key) (tt : TokenType) (c : Chal) (reply : Option Proof)
    (h : (initialise localKey tt c reply).res ≠ .ok true) :
    initialise localKey tt c reply = fail (initialise localKey tt c reply).res := by
  unfold initialise at h ⊢
  cases reply with
  | none => rfl
  | some p =>
    simp only at h ⊢
    split
    · rfl
    · split
      · rfl
      · cases tt with
        | allowedPeer e =>
          simp only at h ⊢
          split
          · rfl
          · rename_i h1 h2 h3
            simp only [h1, h2, h3, if_false, Bool.false_eq_true] at h
            split at h <;> simp at h
        | ownedInvite id => rename_i h1 h2; simp [h1, h2] at h
        | invite inv =>
          simp only at h ⊢
          split
          · rfl
          · rename_i h1 h2 h3; simp [h1, h2, h3] at h

/-- **C19 (replay).** An answer recorded on another connection — a signature over a different
    challenge — binds nothing: challenges are fresh per connection. -/
theorem C19_replayed_answer_rejected (localKey : Key) (tt : TokenType) (c c' : Chal) (p : Proof)
    (hfresh : c ≠ c') (hrec : p.sig.msg = chalMsg c') :
    (initialise localKey tt c (some p)).bound = none ∧ (initialise localKey tt c (some p)).res = .err := by
  have : sigValid p.key (chalMsg c) p.sig = false := by
    simp only [sigValid, Bool.and_eq_false_iff, beq_eq_false_iff_ne, ne_eq, chalMsg] at hrec ⊢
    right; rw [hrec]; exact fun h => hfresh h.symm
  simp [initialise, this, fail]

/-- **C19 (another allowed peer's valid key is refused).** -/
theorem C19_other_allowed_peer_refused (localKey e : Key) (c : Chal) (p : Proof) (h : p.key ≠ e) :
    (initialise localKey (.allowedPeer e) c (some p)).bound = none := by
  unfold initialise
  simp only
  split
  · rfl
  · split
    · rfl
    · simp [Ne.symm h, fail]

/-! ### 2. invitations -/

/-- **C19 (an invitation for another application is refused and leaves the table unchanged).** -/
theorem C19_foreign_application_refused (app : Nat) (t : Table) (inv : Invite) (h : inv.app ≠ app) :
    acceptInvite app t inv = none := by
  simp [acceptInvite, h]

/-- **C19 (an invitation for another application is never usable, also after a restart).** The refused
    invitation is neither in the table nor in storage: whatever the table held, if the invitation's id
    was unknown before, no token reaches it after the refusal nor after any number of restarts. -/
theorem C19_foreign_application_never_usable (app : Nat) (t : Table) (inv : Invite) (h : inv.app ≠ app)
    (hnew : reachable t inv.id = false) (n : Nat) :
    acceptInvite app t inv = none ∧
    ∀ tok key x, lookup (Nat.repeat restart n t) tok key = some x → inviteIdOf x ≠ some inv.id := by
  refine ⟨C19_foreign_application_refused app t inv h, ?_⟩
  have hr : reachable (Nat.repeat restart n t) inv.id = false := by
    induction n with
    | zero => exact hnew
    | succ n ih => simp only [Nat.repeat]; rw [reachable_restart]; exact ih
  exact fun tok key x hl => lookup_none_of_unreachable hr tok key x hl

/-- a restart neither revives a consumed invitation nor loses a pending one or an allowed peer -/
theorem C19_restart_preserves_entries (t : Table) (e : Token × TokenType) : e ∈ restart t ↔ e ∈ t := mem_restart

/-- **C19 (single use — full statement; holds for the code as it is since fix 7ec64bc).** Once
    `invite_accepted` has run for an invitation that was in the table once, under its own token, no
    token and no key reaches it any more: every later lookup returns something else or nothing. -/
theorem C19_invite_single_use (t : Table) (tt : TokenType) (id : Nat) (k : Key) (ptok : Token)
    (hid : inviteIdOf tt = some id) (hone : countInvite t id = 1)
    (hin : ∃ e ∈ t, e.1 = .derived id ∧ sameInvite tt e.2 = true) :
    ∀ tok key x, lookup (inviteAccepted Defects.asImplemented t tt k ptok) tok key = some x → inviteIdOf x ≠ some id :=
  fun tok key x hl =>
    lookup_none_of_unreachable (inviteAccepted_unreachable hid hone hin) tok key x hl

/-- **C19 (single use, for ever).** … and it stays that way through ANY later history of the table —
    further invitations created, accepted (for this or another application), consumed, any number of
    restarts — in which that invitation id is not issued again: every lookup, under every token and for
    every key, returns something else or nothing. -/
theorem C19_invite_stays_consumed (app : Nat) (t : Table) (tt : TokenType) (id : Nat) (k : Key) (ptok : Token)
    (hid : inviteIdOf tt = some id) (hone : countInvite t id = 1)
    (hin : ∃ e ∈ t, e.1 = .derived id ∧ sameInvite tt e.2 = true)
    (ops : List TOp) (hav : ∀ op ∈ ops, op.avoids id) :
    ∀ tok key x, lookup (applyOps app (inviteAccepted Defects.asImplemented t tt k ptok) ops) tok key = some x →
      inviteIdOf x ≠ some id :=
  fun tok key x hl =>
    lookup_none_of_unreachable (unreachable_applyOps ops (inviteAccepted_unreachable hid hone hin) hav) tok key x hl

/-- **C19 (only for the application it names, over any history).** Starting from the empty table (or any
    table holding only invitations of this application), after ANY sequence of table operations —
    including any number of refused submissions of invitations made for other applications and restarts —
    every accepted invitation a token resolves to names this application: a foreign invitation is never
    the token type of a handshake. -/
theorem C19_table_holds_own_application_only (app : Nat) (t : Table) (h : OwnApp app t) (ops : List TOp) :
    ∀ tok key inv, lookup (applyOps app t ops) tok key = some (.invite inv) → inv.app = app :=
  fun tok _ inv hl => ownApp_applyOps ops h (tok, .invite inv) (lookup_mem hl) inv rfl

theorem ownApp_empty (app : Nat) : OwnApp app [] := fun _ h => by cases h

/-- the hypotheses of `C19_invite_single_use` hold after `create_invite` on a table that did not know the id -/
theorem createInvite_once (t : Table) (id : Nat) (h : reachable t id = false) :
    countInvite (createInvite t id) id = 1 ∧
    ∃ e ∈ createInvite t id, e.1 = .derived id ∧ sameInvite (.ownedInvite id) e.2 = true := by
  constructor
  · have h0 : countInvite t id = 0 := by
      cases hc : countInvite t id with
      | zero => rfl
      | succ n => have := reachable_iff_count.mpr (by omega : 0 < countInvite t id); rw [h] at this; cases this
    rw [createInvite, count_append, h0]; simp [countInvite, inviteIdOf]
  · exact ⟨(.derived id, .ownedInvite id), by simp [createInvite], rfl, by simp [sameInvite]⟩

/-- **C19_fixed_inviteRemovedUnderPeerToken** (DESIGN.md §4, site 12; regression witness of fix 7ec64bc).
    Before the fix the consumed invitation was looked for under the NEW PEER's token: it stayed in the
    table under its own token, a second peer presenting the invitation's token was again treated as its
    bearer, bound and accepted — until the process restarted. The code as it is removes it. -/
theorem C19_fixed_inviteRemovedUnderPeerToken :
    let t0 := createInvite [] 5
    let tt : TokenType := .ownedInvite 5
    let t1 := inviteAccepted Defects.beforeFix t0 tt 7 (.agreed 7)
    lookup t0 (.derived 5) 7 = some tt ∧
    -- first use: peer 7 is now an allowed peer …
    lookup t1 (.agreed 7) 7 = some (.allowedPeer 7) ∧
    -- … but the invitation is still there for anybody (here key 8) who presents its token
    lookup t1 (.derived 5) 8 = some (.ownedInvite 5) ∧
    (initialise 1 (.ownedInvite 5) 42 (some ⟨8, true, ⟨8, chalMsg 42⟩⟩)).msgs =
      [.inviteAccepted (.ownedInvite 5) 8, .connected 8] ∧
    -- with the removal under the invitation's token it is gone
    lookup (inviteAccepted Defects.asImplemented t0 tt 7 (.agreed 7)) (.derived 5) 8 = none := by
  decide

/-! ### 3. meeting tokens -/

/-- **C19 (token symmetry).** Both sides of a pair derive the same token, from the commutativity of the
    key agreement (and, for the same key material on both sides, from the injectivity of `pub`). -/
theorem C19_token_symmetric (a b : Nat) : token a (pubOf b) = token b (pubOf a) := by
  unfold token
  by_cases h : pubOf b = pubOf a
  · have hab : b = a := pubOf_inj h
    subst hab; rfl
  · simp only [h, if_false, Ne.symm h]
    rw [dh_comm]

/-
"Tokens differ between distinct pairs" is NOT a theorem: the real token keeps 56 bits of a hash, so
distinct pairs can collide; the check samples real tokens and reports the number of collisions seen.
-/

/-! ### 4. the handshake composed with the serving side of the connection (C08's model) -/

section Composition
open Discret.Serve

/-- the only way the key of a connection's serving side is set: by the outcome of `initialise_connection`
    (`remote_verifying_key` and `conn_ready` are shared with `InboundQueryService`) -/
def connectOps (o : Outcome) : List Serve.Op :=
  match o.bound with
  | some k => [.auth k o.connReady]
  | none => []

/-- **C19 (the serving side knows exactly the proven key).** Whatever happens on the connection after the
    handshake — requests, clock, room-definition changes, data changes —, the key under which requests
    are served is the key bound by the handshake, hence (by `C19_bound_only_after_proof`) a key whose
    possession was proved on this connection's challenge. Holds for every description of the serving code. -/
theorem C19_serving_key_is_proven_key (d : Serve.Defects) (cd : Code) (own : Room.Key) (w₀ : World)
    (localKey : Key) (tt : TokenType) (c : Chal) (reply : Option Proof)
    (ops : List Serve.Op) (hno : ∀ op ∈ ops, op.isAuth = false) :
    (run d cd own (State.init w₀) (connectOps (initialise localKey tt c reply) ++ ops)).1.c.key =
      (initialise localKey tt c reply).bound := by
  rw [run_append, run_key ops _ hno]
  unfold connectOps
  cases (initialise localKey tt c reply).bound with
  | none => rfl
  | some k => simp [run, step, State.init, Conn.init]

/-- **C19 (a peer that fails gets nothing — also from the serving side).** If the handshake does not
    return `Ok(true)`, then after any later history of the connection no key is bound, the allowed table is
    empty and every request of every kind gets silence, a refusal or the (public) identity proof: no room
    list, no fingerprint, no data. -/
theorem C19_failed_proof_is_served_nothing (d : Serve.Defects) (cd : Code) (hg : GoodTable cd.table)
    (own : Room.Key) (w₀ : World) (hw : WInv w₀)
    (localKey : Key) (tt : TokenType) (c : Chal) (reply : Option Proof)
    (hfail : (initialise localKey tt c reply).res ≠ .ok true)
    (ops : List Serve.Op) (hno : ∀ op ∈ ops, op.isAuth = false) (q : Query) :
    let s := (run d cd own (State.init w₀) (connectOps (initialise localKey tt c reply) ++ ops)).1
    s.c.key = none ∧ s.c.allowed = [] ∧
      ((serve d cd s.w own s.c q).2 = .silent ∨ (serve d cd s.w own s.c q).2 = .refused ∨
        (serve d cd s.w own s.c q).2 = .identity) := by
  intro s
  have hb : (initialise localKey tt c reply).bound = none := by
    rw [C19_failure_yields_nothing localKey tt c reply hfail]; rfl
  have hk : s.c.key = none := by
    have := C19_serving_key_is_proven_key d cd own w₀ localKey tt c reply ops hno
    rw [hb] at this; exact this
  have hi : Inv d cd.event s := run_inv (inv_init hw) _
  exact ⟨hk, hi.unauth hk, serve_unauth hg hk (hi.unauth hk)⟩

/-- **C19 (served only after key proof).** Conversely: if, at any point of the connection's life, a request
    is answered with a room list, the hardware fingerprint or data, then the remote side had presented a
    valid peer row for a key `k` together with a signature of THIS connection's challenge under `k`, `k` is
    the key the requests are served under, and it is the expected key for an allowed-peer token / the
    signer of the invitation for an accepted invitation. -/
theorem C19_served_only_after_proof (d : Serve.Defects) (cd : Code) (hg : GoodTable cd.table)
    (own : Room.Key) (w₀ : World) (hw : WInv w₀)
    (localKey : Key) (tt : TokenType) (c : Chal) (reply : Option Proof)
    (ops : List Serve.Op) (hno : ∀ op ∈ ops, op.isAuth = false) (q : Query) :
    let s := (run d cd own (State.init w₀) (connectOps (initialise localKey tt c reply) ++ ops)).1
    (serve d cd s.w own s.c q).2 ≠ .silent → (serve d cd s.w own s.c q).2 ≠ .refused →
    (serve d cd s.w own s.c q).2 ≠ .identity →
      ∃ p, reply = some p ∧ s.c.key = some p.key ∧ p.rowValid = true ∧ sigValid p.key (chalMsg c) p.sig = true ∧
        (∀ e, tt = .allowedPeer e → p.key = e) ∧
        (∀ inv, tt = .invite inv → sigValid p.key (inviteHash inv.id inv.app) inv.sign = true) := by
  intro s h1 h2 h3
  have hkey := C19_serving_key_is_proven_key d cd own w₀ localKey tt c reply ops hno
  have hi : Inv d cd.event s := run_inv (inv_init hw) _
  cases hb : (initialise localKey tt c reply).bound with
  | none =>
    rw [hb] at hkey
    rcases serve_unauth (d := d) (cd := cd) (w := s.w) (own := own) (q := q) hg hkey (hi.unauth hkey) with h | h | h
    · exact absurd h h1
    · exact absurd h h2
    · exact absurd h h3
  | some k =>
    rw [hb] at hkey
    obtain ⟨p, hp, hpk, hrow, hsig, hexp, hinv⟩ := C19_bound_only_after_proof localKey tt c reply k hb
    subst hpk
    exact ⟨p, hp, hkey, hrow, hsig, hexp, hinv⟩

end Composition

/-! ### non-vacuity -/

-- an honest allowed peer is bound, the own key goes through the fingerprint path, an invitation needs its creator
example : (initialise 1 (.allowedPeer 2) 9 (some ⟨2, true, ⟨2, chalMsg 9⟩⟩)).bound = some 2 := by decide
example : (initialise 1 (.allowedPeer 1) 9 (some ⟨1, true, ⟨1, chalMsg 9⟩⟩)) =
    { res := .ok true, bound := some 1, connReady := false, events := [.readyFingerprint], msgs := [] } := by decide
example : (initialise 1 (.invite ⟨3, 1, ⟨2, inviteHash 3 1⟩⟩) 9 (some ⟨2, true, ⟨2, chalMsg 9⟩⟩)).bound = some 2 ∧
    (initialise 1 (.invite ⟨3, 1, ⟨2, inviteHash 3 1⟩⟩) 9 (some ⟨4, true, ⟨4, chalMsg 9⟩⟩)).bound = none := by decide
-- the single-use hypotheses are met by a table holding other invitations and peers
example : countInvite (createInvite [(.agreed 3, .allowedPeer 3), (.derived 4, .ownedInvite 4)] 5) 5 = 1 := by decide
example : token 3 (pubOf 5) = token 5 (pubOf 3) ∧ token 3 (pubOf 3) = 7 := by decide

-- a history of the table after a consumed invitation: other invitations, a foreign one (refused), restarts
example :
    let t := inviteAccepted Defects.asImplemented (createInvite [] 5) (.ownedInvite 5) 7 (.agreed 7)
    let ops : List TOp := [.create 6, .accept ⟨8, 1, ⟨2, inviteHash 8 1⟩⟩, .accept ⟨9, 2, ⟨2, inviteHash 9 2⟩⟩, .restart,
      .accepted (.ownedInvite 6) 3 (.agreed 3), .restart]
    (∀ op ∈ ops, op.avoids 5) ∧
    lookup (applyOps 1 t ops) (.derived 5) 8 = none ∧ lookup (applyOps 1 t ops) (.derived 9) 8 = none ∧
    lookup (applyOps 1 t ops) (.derived 8) 4 = some (.invite ⟨8, 1, ⟨2, inviteHash 8 1⟩⟩) ∧
    lookup (applyOps 1 t ops) (.agreed 3) 3 = some (.allowedPeer 3) ∧ lookup (applyOps 1 t ops) (.derived 6) 4 = none := by
  decide
-- the composition: an honest peer's key reaches the serving side, a wrong signature leaves it unbound
example : connectOps (initialise 1 (.allowedPeer 2) 9 (some ⟨2, true, ⟨2, chalMsg 9⟩⟩)) = [.auth 2 true] ∧
    connectOps (initialise 1 (.allowedPeer 1) 9 (some ⟨1, true, ⟨1, chalMsg 9⟩⟩)) = [.auth 1 false] ∧
    connectOps (initialise 1 (.allowedPeer 2) 9 (some ⟨2, true, ⟨3, chalMsg 9⟩⟩)) = [] := ⟨rfl, rfl, rfl⟩

end Discret.Handshake
