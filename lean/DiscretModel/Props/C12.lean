import DiscretModel.Lemmas.LocalWriteIngest
/-
C12 — Local acceptance and peer acceptance give the same verdict.

Models: `Model/LocalWrite.lean` (local path: plan, `validate_entity_mutation`, write — engine `room`, tied by
the C01/C12 runs) and `Model/Ingest.lean` (peer path: `filter_existing`, `add_nodes`, `validate_node`, … —
engine `ingest`, tied by the C02 run), over the shared room model. `Lemmas/LocalWriteIngest.lean` says how a
locally written row looks to a peer (`toInNode`: validly signed, conforming, below the size limit — both
paths apply the same predicates to the same signed row) and what the peer holds (`peerWith rooms`: the same
room definitions; `c.old`: the same previous version of the row).

All statements: every list of room definitions, every database, caller, date and operation.
-/
namespace Discret.LocalWrite
open Discret.Room

/-- **C12 (row level, both directions).** Intended behaviour on both sides. A change that writes row `n` into a
    room at date `now` — a new row, an own row, a foreign row, a row arriving from another room — and that removes no
    reference signed by somebody else gets the same verdict from the local right check as the signed row gets from
    `validate_node` on a peer that holds the same room definitions and the same previous version: accepted locally
    iff accepted by the peer. Same author (the caller signs), same entity, same rooms (the room entered and the room
    left), same date, same needed right (own-rows iff the previous author is the caller or there is no previous
    version). (A change that removes references of other authors: `C12_change_verdict`.) -/
theorem C12_row_verdict {rooms : List Room} {caller : Key} {now : Int} {c : Change} {n : Row} {rid : Id}
    (hroom : c.roomId = some rid) (hn : n.room = some rid) (he : n.entity = c.entity) (hd : n.mdate = now)
    (hold : ∀ o, c.old = some o → o.entity = c.entity ∧ o.room ≠ none)
    (hown : c.edgeDels.any (fun e => e.author != caller) = false) :
    localOk Defects.none rooms caller now c = peerOk Ingest.Defects.none rooms caller c n :=
  row_verdict_of rfl (Or.inr hown) hroom hn he hd hold

/-- **C12 (change level, both directions: row AND deletion records).** Intended behaviour on the local side, any
    switches on the peer's. A change that writes row `n` into room `rid` at date `now` and removes the references
    `c.edgeDels` is accepted locally **iff** a peer holding the same room definitions (`p.rooms = rooms`), the same
    previous version of the row and the removed references (with their authors) accepts the row (`validate_node`)
    and every deletion record the change sends (`validate_edge_deletions`: own-rows right for a reference of the
    record's author, all-rows right for somebody else's). `Normalised`: what `EntityRight::new` guarantees. -/
theorem C12_change_verdict {d : Ingest.Defects} {p : Ingest.Inst} {rooms : List Room} (hp : p.rooms = rooms)
    {caller : Key} {now : Int} {c : Change} {n : Row} {rid : Id}
    (hroom : c.roomId = some rid) (hn : n.room = some rid) (he : n.entity = c.entity) (hd : n.mdate = now)
    (hold : ∀ o, c.old = some o → o.entity = c.entity ∧ o.room ≠ none)
    (hent : DataEnt d c.entity) (hnorm : ∀ room, getRoom rooms rid = some room → Normalised room)
    (hsrc : ∀ e ∈ c.edgeDels, d.edgeDelSourceUnchecked = true ∨
      Ingest.edgeDelSourceOk p (toEdgeDel c.entity (tombOf rid caller now e)) = true)
    (hheld : ∀ e ∈ c.edgeDels,
      (p.edges.find? (Ingest.edgeMatches (toEdgeDel c.entity (tombOf rid caller now e)))).map (·.key) = some e.author) :
    localOk Defects.none rooms caller now c =
      (peerOk Ingest.Defects.none rooms caller c n &&
        c.edgeDels.all fun e => Ingest.edgeDelAccepted d p (toEdgeDel c.entity (tombOf rid caller now e))) :=
  change_verdict_none hp hroom hn he hd hold hent hnorm hsrc hheld

/-- **C12 (operation level: accepted locally ⇒ accepted by the peers).** Intended behaviour. After an accepted
    mutation, every row that was written into a room (and whose previous version, if any, was in a room) is
    accepted by every peer holding the same room definitions and that previous version. -/
theorem C12_accepted_rows_reach_peers {rooms : List Room} {db db' : Db} {caller : Key} {now : Int} {m : Mut}
    {cs : List Change} (hp : plan db now m = .ok cs)
    (h : mutate Defects.none rooms db caller now m = .ok db') :
    ∀ c ∈ cs, ∀ n rid, c.node = some n → c.roomId = some rid → n.mdate = now →
      (∀ o, c.old = some o → o.entity = c.entity ∧ o.room ≠ none) →
      peerOk Ingest.Defects.none rooms caller c n = true := by
  intro c hc n rid hn hroom hd hold
  unfold mutate at h
  rw [hp] at h
  simp only at h
  split at h
  · cases h
  · rename_i l hv
    have hpl := plan_planned hp c hc
    have hrule : localOk { Defects.none with refRemovalRightOnRowAuthor := true } rooms caller now c =
        peerOk Ingest.Defects.none rooms caller c n :=
      row_verdict_of rfl (Or.inl rfl) hroom ((hpl.node n hn).2.trans hroom) (hpl.node n hn).1 hd hold
    rw [← hrule]
    -- the local check of `c` passed
    have hne : c.node ≠ none := by rw [hn]; exact fun e => by cases e
    obtain ⟨hmap, hall⟩ := validateList_ok hv
    have : c ∈ l.map (·.1) := by rw [hmap]; exact hc
    obtain ⟨ct, hct, rfl⟩ := List.mem_map.mp this
    have ht := (hall ct hct).2 hne rfl
    have hfull : localOk Defects.none rooms caller now ct.1 = true := by unfold localOk; rw [ht]; rfl
    rw [localOk_split hroom] at hfull
    simp only [Bool.and_eq_true] at hfull
    exact hfull.1

/-- **C12 (operation level: refused by the peers ⇒ refused locally).** Intended behaviour. If a peer holding the
    same definitions and previous versions would refuse a row the mutation writes, the mutation is refused
    locally. (Contrapositive of the theorem above, stated for the reader.) -/
theorem C12_peer_refusal_is_local_refusal {rooms : List Room} {db : Db} {caller : Key} {now : Int} {m : Mut}
    {cs : List Change} (hp : plan db now m = .ok cs)
    {c : Change} (hc : c ∈ cs) {n : Row} {rid : Id} (hn : c.node = some n) (hroom : c.roomId = some rid)
    (hd : n.mdate = now) (hold : ∀ o, c.old = some o → o.entity = c.entity ∧ o.room ≠ none)
    (hpeer : peerOk Ingest.Defects.none rooms caller c n = false) :
    ∀ db', mutate Defects.none rooms db caller now m ≠ .ok db' := by
  intro db' h
  have := C12_accepted_rows_reach_peers hp h c hc n rid hn hroom hd hold
  rw [hpeer] at this; cases this

/-- **C12 (operation level: the deletion records of an accepted mutation reach the peers).** Intended behaviour.
    After an accepted mutation (a tree of any depth), every deletion record sent for a reference removed at a row of
    room `rid` is accepted by every peer holding the same room definitions and the removed reference. -/
theorem C12_accepted_records_reach_peers {d : Ingest.Defects} {p : Ingest.Inst} {rooms : List Room}
    (hp : p.rooms = rooms) {db db' : Db} {caller : Key} {now : Int} {m : Mut} {cs : List Change}
    (hpl : plan db now m = .ok cs) (h : mutate Defects.none rooms db caller now m = .ok db') :
    ∀ c ∈ cs, ∀ rid, c.node ≠ none → c.roomId = some rid → DataEnt d c.entity →
      (∀ room, getRoom rooms rid = some room → Normalised room) →
      ∀ e ∈ c.edgeDels,
        (d.edgeDelSourceUnchecked = true ∨
          Ingest.edgeDelSourceOk p (toEdgeDel c.entity (tombOf rid caller now e)) = true) →
        (p.edges.find? (Ingest.edgeMatches (toEdgeDel c.entity (tombOf rid caller now e)))).map (·.key)
          = some e.author →
        Ingest.edgeDelAccepted d p (toEdgeDel c.entity (tombOf rid caller now e)) = true := by
  intro c hc rid hne hroom hent hnorm e he hsrc hheld
  unfold mutate at h
  rw [hpl] at h
  simp only at h
  split at h
  · cases h
  · rename_i l hv
    obtain ⟨hmap, hall⟩ := validateList_ok hv
    have : c ∈ l.map (·.1) := by rw [hmap]; exact hc
    obtain ⟨ct, hct, rfl⟩ := List.mem_map.mp this
    have ht := (hall ct hct).2 hne rfl
    have hfull : localOk Defects.none rooms caller now ct.1 = true := by unfold localOk; rw [ht]; rfl
    rw [localOk_split hroom] at hfull
    simp only [Bool.and_eq_true] at hfull
    have hcan := localOk_can hroom hfull.1
    rw [edge_record_verdict hp hent hsrc hheld]
    by_cases hown : e.author = caller
    · rw [if_pos hown]
      cases hnd : needed ct.1 caller with
      | mutateSelf => rw [hnd] at hcan; exact hcan
      | mutateAll => rw [hnd] at hcan; exact canB_all_self hnorm hcan
    · rw [if_neg hown]
      rcases Bool.or_eq_true _ _ |>.mp hfull.2 with h1 | h1
      · exfalso
        have hany : ct.1.edgeDels.any (fun e => e.author != caller) = true :=
          List.any_eq_true.mpr ⟨e, he, by simpa using hown⟩
        rw [hany] at h1; cases h1
      · exact h1

/-- **C12 (operation level: the references added by an accepted mutation reach the peers).** Intended behaviour.
    After an accepted mutation (a tree of any depth), every reference it adds at a row of room `rid` is accepted by
    every peer holding the same room definitions, the written source row, and — as the local database — no reference
    with the same source, label and target. -/
theorem C12_accepted_references_reach_peers {d : Ingest.Defects} {p : Ingest.Inst} {rooms : List Room}
    (hp : p.rooms = rooms) {db db' : Db} {caller : Key} {now : Int} {m : Mut} {cs : List Change}
    (hpl : plan db now m = .ok cs) (h : mutate Defects.none rooms db caller now m = .ok db') :
    ∀ c ∈ cs, ∀ rid, c.roomId = some rid → DataEnt d c.entity →
      (∀ room, getRoom rooms rid = some room → Normalised room) →
      ∀ e ∈ c.edgeIns, e.cdate = now →
        (d.edgeSourceUnchecked = true ∨
          Ingest.edgeSourceOk p rid (toInEdge c.entity (signEdge caller e)).row = true) →
        (d.edgeReplaceUnchecked = true ∨
          p.edges.find? (Ingest.edgeKeyEq (toInEdge c.entity (signEdge caller e)).row) = none) →
        Ingest.edgeAccepted d p rid p.edges (toInEdge c.entity (signEdge caller e)) = true := by
  intro c hc rid hroom hent hnorm e he hdate hsrc hfresh
  have hne : c.node ≠ none := by
    intro hnone
    have := ((plan_planned hpl c hc).quiet hnone).2
    rw [this] at he; cases he
  unfold mutate at h
  rw [hpl] at h
  simp only at h
  split at h
  · cases h
  · rename_i l hv
    obtain ⟨hmap, hall⟩ := validateList_ok hv
    have : c ∈ l.map (·.1) := by rw [hmap]; exact hc
    obtain ⟨ct, hct, rfl⟩ := List.mem_map.mp this
    have ht := (hall ct hct).2 hne rfl
    have hfull : localOk Defects.none rooms caller now ct.1 = true := by unfold localOk; rw [ht]; rfl
    exact reference_accepted hp hroom hent hnorm hfull hdate hsrc hfresh

/-- **C12 (node deletion, both directions).** Any switches. The deletion of a stored row of room `rid` is accepted
    locally iff (with the intended behaviour: the caller may edit every row that references the deleted one, and) a
    peer holding the same room definitions and the same row accepts the deletion record. -/
theorem C12_delete_node_verdict {df : Defects} {d : Ingest.Defects} {p : Ingest.Inst} {rooms : List Room}
    (hp : p.rooms = rooms) {db : Db} {caller : Key} {now : Int} {handle : Nat} {entity : Ent} {row : Row} {rid : Id}
    (hrow : db.getRow handle entity = some row) (hr : row.room = some rid) (hent : DataEnt d entity)
    {l : Ingest.NodeRow} (hheld : Ingest.localRow p.nodes handle = some l) (hlk : l.key = row.author)
    (hle : l.ent = entity) :
    (deleteNode df rooms db caller now handle entity).toBool =
      ((df.incomingRefsUnchecked || incomingOk rooms db caller now handle) &&
        Ingest.nodeDelAccepted d p (toNodeDel (nodeTombOf rid caller now row))) :=
  delete_node_verdict hp hrow hr hent hheld hlk hle

/-- **C12 (reference deletion, both directions).** Intended behaviour on the local side. The deletion of an existing
    reference stored at a row of room `rid` is accepted locally iff a peer holding the same room definitions, the
    source row and the reference accepts the re-signed source row (`validate_node`) AND the deletion record. -/
theorem C12_delete_ref_verdict {d : Ingest.Defects} {p : Ingest.Inst} {rooms : List Room} (hp : p.rooms = rooms)
    {db : Db} {caller : Key} {now : Int} {handle : Nat} {entity : Ent} {label dest : Nat} {row : Row} {edge : EdgeRow}
    {rid : Id} (hrow : db.getRow handle entity = some row) (hr : row.room = some rid)
    (hedge : db.edges.find? (fun e => e.src = handle && e.label = label && e.dest = dest) = some edge)
    (hent : DataEnt d entity) (hnorm : ∀ room, getRoom rooms rid = some room → Normalised room)
    (hsrc : d.edgeDelSourceUnchecked = true ∨
      Ingest.edgeDelSourceOk p (toEdgeDel entity (tombOf rid caller now edge)) = true)
    (hheld : (p.edges.find? (Ingest.edgeMatches (toEdgeDel entity (tombOf rid caller now edge)))).map (·.key)
      = some edge.author) :
    (deleteRef Defects.none rooms db caller now handle entity label dest).toBool =
      (Ingest.validateNode Ingest.Defects.none (peerWith rooms []) (toInNode (resigned caller now row))
          (some (toNodeRow row)) &&
        Ingest.edgeDelAccepted d p (toEdgeDel entity (tombOf rid caller now edge))) :=
  delete_ref_verdict rfl hp hrow hr hedge hent hnorm hsrc hheld

/-! ### non-vacuity -/

-- member 2 (all-rows right in room 0) updates its row 0: accepted locally, and by the peer
example : localOk Defects.none rooms01 2 4
    { entity := 1, roomId := some 0, old := some ⟨0, 1, some 0, 2, 2, 2, 1⟩,
      node := some ⟨0, 1, some 0, 0, 2, 4, 7⟩, edgeDels := [], edgeIns := [] } = true ∧
    peerOk Ingest.Defects.none rooms01 2
    { entity := 1, roomId := some 0, old := some ⟨0, 1, some 0, 2, 2, 2, 1⟩,
      node := some ⟨0, 1, some 0, 0, 2, 4, 7⟩, edgeDels := [], edgeIns := [] } ⟨0, 1, some 0, 0, 2, 4, 7⟩ = true := by
  decide

-- member 3 (own-rows right only) updates the foreign row 0: refused locally, and by the peer
example : localOk Defects.none rooms01 3 4
    { entity := 1, roomId := some 0, old := some ⟨0, 1, some 0, 2, 2, 2, 1⟩,
      node := some ⟨0, 1, some 0, 0, 2, 4, 7⟩, edgeDels := [], edgeIns := [] } = false ∧
    peerOk Ingest.Defects.none rooms01 3
    { entity := 1, roomId := some 0, old := some ⟨0, 1, some 0, 2, 2, 2, 1⟩,
      node := some ⟨0, 1, some 0, 0, 2, 4, 7⟩, edgeDels := [], edgeIns := [] } ⟨0, 1, some 0, 0, 2, 4, 7⟩ = false := by
  decide

/-! ### the code as it is: accepted locally, refused by every peer

Each witness turns ONE local switch on over the intended behaviour. -/

/-- the peer's verdict on row `id` of the database a local operation produced, given the
    previous version `old` the peer holds -/
def peerVerdictOn (rooms : List Room) (r : Except MErr Db) (id : Nat) (old : Option Row) : Bool :=
  match r with
  | .ok db =>
    match db.rows.find? (·.id = id) with
    | some n => Ingest.validateNode Ingest.Defects.none (peerWith rooms []) (toInNode n) (old.map toNodeRow)
    | none => false
  | .error _ => false

/-- **C12_breaks_subNodesSkipped (#1).** The outsider 5 rewrites row 0 nested under the unchanged row 1: accepted
    locally; the row it produced is refused by a peer holding the same room and the previous version. The author
    sees its write; nobody else ever does. -/
theorem C12_breaks_subNodesSkipped :
    (mutate { Defects.none with subNodesSkipped := true } rooms01 db0 5 4 nestedByOutsider).toBool = true ∧
    peerVerdictOn rooms01 (mutate { Defects.none with subNodesSkipped := true } rooms01 db0 5 4 nestedByOutsider) 0
      (db0.rows.find? (·.id = 0)) = false := by decide

/-- **C12_breaks_oldRoomLookup (#2).** Member 3 moves the foreign row 0 from room 0 (own-rows right only) to room 1
    (all-rows right): accepted locally, refused by the peers, which check the departing room. -/
theorem C12_breaks_oldRoomLookup :
    (mutate { Defects.none with oldRoomLookup := true } rooms01 db0 3 4
      (.mk 0 false 1 (some 1) (some 5) .none)).toBool = true ∧
    peerVerdictOn rooms01 (mutate { Defects.none with oldRoomLookup := true } rooms01 db0 3 4
      (.mk 0 false 1 (some 1) (some 5) .none)) 0
      (db0.rows.find? (·.id = 0)) = false := by decide

/-- **C12_breaks_refDeletionResign (#3).** The outsider 5 deletes a reference that does not exist: accepted
    locally, row 0 re-signed by key 5; the peers refuse that row. -/
theorem C12_breaks_refDeletionResign :
    (deleteRef { Defects.none with refDeletionResign := true } rooms01 db0 5 4 0 1 0 1).toBool = true ∧
    peerVerdictOn rooms01 (deleteRef { Defects.none with refDeletionResign := true } rooms01 db0 5 4 0 1 0 1) 0
      (db0.rows.find? (·.id = 0)) = false := by decide

/-- **C12_breaks_refRightOnEdgeAuthor (#3, second half — still in /repo).** Member 3 (own-rows right only) deletes the
    reference it once added at row 1, which belongs to member 2: accepted locally (the right is judged on the
    reference's author); the peers refuse the re-signed row 1 (`validate_node` asks the all-rows right). With the switch
    off it is refused locally. -/
theorem C12_breaks_refRightOnEdgeAuthor :
    (deleteRef { Defects.none with refRightOnEdgeAuthor := true } rooms01 db2 3 4 1 1 0 0).toBool = true ∧
    peerVerdictOn rooms01 (deleteRef { Defects.none with refRightOnEdgeAuthor := true } rooms01 db2 3 4 1 1 0 0) 1
      (db2.rows.find? (·.id = 1)) = false ∧
    (deleteRef Defects.none rooms01 db2 3 4 1 1 0 0).toBool = false := by decide

/-- what the mutation `Person { id: 1, parents: null }` removes and records -/
def nullParents : Mut := .mk 1 false 1 none none (.null 0)

/-- **C12_breaks_refRemovalRightOnRowAuthor (found by this proof attempt; still in /repo).** Row 1 belongs to member 3,
    who holds the own-rows right only; the reference 1 → 0 stored there was added by member 2. Member 3 empties the
    field: accepted locally (the right is judged on the row's author) and the peer accepts the row; the peer refuses
    the deletion record of the reference (it is somebody else's: all-rows right) — the reference stays on every peer.
    With the switch off the mutation is refused locally.
    (Replayed on the real code: findings/C12-mutation-removes-foreign-reference.ops.) -/
theorem C12_breaks_refRemovalRightOnRowAuthor :
    (mutate { Defects.none with refRemovalRightOnRowAuthor := true } rooms01 db4 3 4 nullParents).toBool = true ∧
    peerVerdictOn rooms01 (mutate { Defects.none with refRemovalRightOnRowAuthor := true } rooms01 db4 3 4 nullParents) 1
      (db4.rows.find? (·.id = 1)) = true ∧
    Ingest.edgeDelAccepted Ingest.Defects.none (peerHolding rooms01 db4 fun _ => 1)
      (toEdgeDel 1 (tombOf 0 3 4 ⟨1, 0, 0, 2, 3⟩)) = false ∧
    (mutate Defects.none rooms01 db4 3 4 nullParents).toBool = false := by decide

-- the hypotheses of the record theorems are met by a concrete peer: it holds the rooms, row 1 in room 0 and the
-- reference with its author; member 2 (all-rows right) empties the field: accepted on both sides
example :
    (peerHolding rooms01 db4 fun _ => 1).rooms = rooms01 ∧
    DataEnt Ingest.Defects.none 1 ∧
    Ingest.edgeDelSourceOk (peerHolding rooms01 db4 fun _ => 1) (toEdgeDel 1 (tombOf 0 2 4 ⟨1, 0, 0, 2, 3⟩)) = true ∧
    ((peerHolding rooms01 db4 fun _ => 1).edges.find?
      (Ingest.edgeMatches (toEdgeDel 1 (tombOf 0 2 4 ⟨1, 0, 0, 2, 3⟩)))).map (·.key) = some 2 ∧
    (mutate Defects.none rooms01 db4 2 4 nullParents).toBool = true ∧
    Ingest.edgeDelAccepted Ingest.Defects.none (peerHolding rooms01 db4 fun _ => 1)
      (toEdgeDel 1 (tombOf 0 2 4 ⟨1, 0, 0, 2, 3⟩)) = true := by
  refine ⟨rfl, ⟨by decide, by decide⟩, by decide, by decide, by decide, by decide⟩

-- the rooms of the fixtures hold normalised rights (`Right.new`)
example : ∀ room, getRoom rooms01 0 = some room → Normalised room := by
  intro room h
  have : room = room0 := by
    have h' : getRoom rooms01 0 = some room0 := by decide
    rw [h'] at h; cases h; rfl
  subst this
  intro a ha x hx
  revert x
  revert a
  decide

/-- **C12_partial (the code as it is).** For a change that does not move the row to another room (and whose
    previous version, if any, is of the same entity and was in a room) and that removes no reference signed by
    somebody else, the local right check and `validate_node` give the same verdict whatever the switches of the two
    models are — in particular for the code as it is on both sides. What is missing with respect to the full
    statement: room moves (#2), sub-entities under an unchanged parent — which are written without any local check
    (#1) —, re-signed source rows of reference deletions (#3), references of other authors removed by a mutation of
    an own row (`C12_breaks_refRemovalRightOnRowAuthor`); and, outside this model, values that only one path refuses
    (explicit null, Json scalars: DESIGN #14). -/
theorem C12_partial (df : Defects) (d : Ingest.Defects) {rooms : List Room} {caller : Key} {now : Int}
    {c : Change} {n : Row} {rid : Id}
    (hroom : c.roomId = some rid) (hn : n.room = some rid) (he : n.entity = c.entity) (hd : n.mdate = now)
    (hold : ∀ o, c.old = some o → o.entity = c.entity ∧ o.room ≠ none) (hnm : NoMove c)
    (hown : c.edgeDels.any (fun e => e.author != caller) = false) :
    localOk df rooms caller now c = peerOk d rooms caller c n :=
  row_verdict_any df d (Or.inr hown) hroom hn he hd hold hnm

/-- **C12_partial_delete_node (the code as it is, both sides).** The local verdict on the deletion of a stored row of
    a room equals the verdict of a peer, holding the same room definitions and the same row, on the deletion record
    — for `Defects.asImplemented` on both sides. (With the intended behaviour the local side also asks for the right
    to edit the rows that reference the deleted one: `C12_delete_node_verdict`.) -/
theorem C12_partial_delete_node {p : Ingest.Inst} {rooms : List Room}
    (hp : p.rooms = rooms) {db : Db} {caller : Key} {now : Int} {handle : Nat} {entity : Ent} {row : Row} {rid : Id}
    (hrow : db.getRow handle entity = some row) (hr : row.room = some rid)
    (hent : DataEnt Ingest.Defects.asImplemented entity)
    {l : Ingest.NodeRow} (hheld : Ingest.localRow p.nodes handle = some l) (hlk : l.key = row.author)
    (hle : l.ent = entity) :
    (deleteNode Defects.asImplemented rooms db caller now handle entity).toBool =
      Ingest.nodeDelAccepted Ingest.Defects.asImplemented p (toNodeDel (nodeTombOf rid caller now row)) := by
  rw [delete_node_verdict hp hrow hr hent hheld hlk hle]
  simp [Defects.asImplemented]

/-- **C12_partial_delete_ref (the code as it is).** The local verdict on the deletion of an existing reference equals
    the peer's verdict on the deletion RECORD, whatever the other switches are; what the code as it is does not ask
    is what `validate_node` asks for the re-signed source row (`C12_breaks_refRightOnEdgeAuthor`). -/
theorem C12_partial_delete_ref {df : Defects} (hdf : df.refRightOnEdgeAuthor = true) {d : Ingest.Defects}
    {p : Ingest.Inst} {rooms : List Room} (hp : p.rooms = rooms) {db : Db} {caller : Key} {now : Int}
    {handle : Nat} {entity : Ent} {label dest : Nat} {row : Row} {edge : EdgeRow} {rid : Id}
    (hrow : db.getRow handle entity = some row) (hr : row.room = some rid)
    (hedge : db.edges.find? (fun e => e.src = handle && e.label = label && e.dest = dest) = some edge)
    (hent : DataEnt d entity)
    (hsrc : d.edgeDelSourceUnchecked = true ∨
      Ingest.edgeDelSourceOk p (toEdgeDel entity (tombOf rid caller now edge)) = true)
    (hheld : (p.edges.find? (Ingest.edgeMatches (toEdgeDel entity (tombOf rid caller now edge)))).map (·.key)
      = some edge.author) :
    (deleteRef df rooms db caller now handle entity label dest).toBool =
      Ingest.edgeDelAccepted d p (toEdgeDel entity (tombOf rid caller now edge)) :=
  delete_ref_verdict_record hdf hp hrow hr hedge hent hsrc hheld

end Discret.LocalWrite
