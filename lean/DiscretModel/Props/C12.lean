import DiscretModel.Lemmas.LocalWriteIngest
/-
C12 — Local acceptance and peer acceptance give the same verdict.

Models: `Model/LocalWrite.lean` (local path: plan, `validate_entity_mutation`, write — engine `room`, tied by
the C01/C12 runs) and `Model/Ingest.lean` (peer path: `filter_existing`, `add_nodes`, `validate_node`, … —
engine `ingest`, tied by the C02 run), over the shared room model. `Lemmas/LocalWriteIngest.lean` says how a
locally written row looks to a peer (`toInNode`: validly signed, conforming, below the size limit — both
paths apply the same predicates to the same signed row) and what the peer holds (`peerWith rooms`: the same
room definitions; `c.old`: the same previous version of the row).

All statements: every list of room definitions, every database, caller, date and operation.
-/
namespace Discret.LocalWrite
open Discret.Room

/-- **C12 (row level, both directions).** Intended behaviour on both sides. A change that writes row `n` into a
    room at date `now` — a new row, an own row, a foreign row, a row arriving from another room — gets the same
    verdict from the local right check as the signed row gets from `validate_node` on a peer that holds the same
    room definitions and the same previous version: accepted locally iff accepted by the peer. Same author
    (the caller signs), same entity, same rooms (the room entered and the room left), same date, same needed
    right (own-rows iff the previous author is the caller or there is no previous version). -/
theorem C12_row_verdict {rooms : List Room} {caller : Key} {now : Int} {c : Change} {n : Row} {rid : Id}
    (hroom : c.roomId = some rid) (hn : n.room = some rid) (he : n.entity = c.entity) (hd : n.mdate = now)
    (hold : ∀ o, c.old = some o → o.entity = c.entity ∧ o.room ≠ none) :
    localOk Defects.none rooms caller now c = peerOk Ingest.Defects.none rooms caller c n :=
  row_verdict_none hroom hn he hd hold

/-- **C12 (operation level: accepted locally ⇒ accepted by the peers).** Intended behaviour. After an accepted
    mutation, every row that was written into a room (and whose previous version, if any, was in a room) is
    accepted by every peer holding the same room definitions and that previous version. -/
theorem C12_accepted_rows_reach_peers {rooms : List Room} {db db' : Db} {caller : Key} {now : Int} {m : Mut}
    {cs : List Change} (hp : plan db now m = .ok cs)
    (h : mutate Defects.none rooms db caller now m = .ok db') :
    ∀ c ∈ cs, ∀ n rid, c.node = some n → c.roomId = some rid → n.mdate = now →
      (∀ o, c.old = some o → o.entity = c.entity ∧ o.room ≠ none) →
      peerOk Ingest.Defects.none rooms caller c n = true := by
  intro c hc n rid hn hroom hd hold
  unfold mutate at h
  rw [hp] at h
  simp only at h
  split at h
  · cases h
  · rename_i l hv
    have hpl := plan_planned hp c hc
    rw [← row_verdict_none hroom ((hpl.node n hn).2.trans hroom) (hpl.node n hn).1 hd hold]
    -- the local check of `c` passed
    have hne : c.node ≠ none := by rw [hn]; exact fun e => by cases e
    obtain ⟨hmap, hall⟩ := validateList_ok hv
    have : c ∈ l.map (·.1) := by rw [hmap]; exact hc
    obtain ⟨ct, hct, rfl⟩ := List.mem_map.mp this
    have ht := (hall ct hct).2 hne rfl
    unfold localOk
    rw [ht]; rfl

/-- **C12 (operation level: refused by the peers ⇒ refused locally).** Intended behaviour. If a peer holding the
    same definitions and previous versions would refuse a row the mutation writes, the mutation is refused
    locally. (Contrapositive of the theorem above, stated for the reader.) -/
theorem C12_peer_refusal_is_local_refusal {rooms : List Room} {db : Db} {caller : Key} {now : Int} {m : Mut}
    {cs : List Change} (hp : plan db now m = .ok cs)
    {c : Change} (hc : c ∈ cs) {n : Row} {rid : Id} (hn : c.node = some n) (hroom : c.roomId = some rid)
    (hd : n.mdate = now) (hold : ∀ o, c.old = some o → o.entity = c.entity ∧ o.room ≠ none)
    (hpeer : peerOk Ingest.Defects.none rooms caller c n = false) :
    ∀ db', mutate Defects.none rooms db caller now m ≠ .ok db' := by
  intro db' h
  have := C12_accepted_rows_reach_peers hp h c hc n rid hn hroom hd hold
  rw [hpeer] at this; cases this

/-! ### non-vacuity -/

-- member 2 (all-rows right in room 0) updates its row 0: accepted locally, and by the peer
example : localOk Defects.none rooms01 2 4
    { entity := 1, roomId := some 0, old := some ⟨0, 1, some 0, 2, 2, 2, 1⟩,
      node := some ⟨0, 1, some 0, 0, 2, 4, 7⟩, edgeDels := [], edgeIns := [] } = true ∧
    peerOk Ingest.Defects.none rooms01 2
    { entity := 1, roomId := some 0, old := some ⟨0, 1, some 0, 2, 2, 2, 1⟩,
      node := some ⟨0, 1, some 0, 0, 2, 4, 7⟩, edgeDels := [], edgeIns := [] } ⟨0, 1, some 0, 0, 2, 4, 7⟩ = true := by
  decide

-- member 3 (own-rows right only) updates the foreign row 0: refused locally, and by the peer
example : localOk Defects.none rooms01 3 4
    { entity := 1, roomId := some 0, old := some ⟨0, 1, some 0, 2, 2, 2, 1⟩,
      node := some ⟨0, 1, some 0, 0, 2, 4, 7⟩, edgeDels := [], edgeIns := [] } = false ∧
    peerOk Ingest.Defects.none rooms01 3
    { entity := 1, roomId := some 0, old := some ⟨0, 1, some 0, 2, 2, 2, 1⟩,
      node := some ⟨0, 1, some 0, 0, 2, 4, 7⟩, edgeDels := [], edgeIns := [] } ⟨0, 1, some 0, 0, 2, 4, 7⟩ = false := by
  decide

/-! ### the code as it is: accepted locally, refused by every peer

Each witness turns ONE local switch on over the intended behaviour. -/

/-- the peer's verdict on row `id` of the database a local operation produced, given the
    previous version `old` the peer holds -/
def peerVerdictOn (rooms : List Room) (r : Except MErr Db) (id : Nat) (old : Option Row) : Bool :=
  match r with
  | .ok db =>
    match db.rows.find? (·.id = id) with
    | some n => Ingest.validateNode Ingest.Defects.none (peerWith rooms []) (toInNode n) (old.map toNodeRow)
    | none => false
  | .error _ => false

/-- **C12_breaks_subNodesSkipped (#1).** The outsider 5 rewrites row 0 nested under the unchanged row 1: accepted
    locally; the row it produced is refused by a peer holding the same room and the previous version. The author
    sees its write; nobody else ever does. -/
theorem C12_breaks_subNodesSkipped :
    (mutate { Defects.none with subNodesSkipped := true } rooms01 db0 5 4 nestedByOutsider).toBool = true ∧
    peerVerdictOn rooms01 (mutate { Defects.none with subNodesSkipped := true } rooms01 db0 5 4 nestedByOutsider) 0
      (db0.rows.find? (·.id = 0)) = false := by decide

/-- **C12_breaks_oldRoomLookup (#2).** Member 3 moves the foreign row 0 from room 0 (own-rows right only) to room 1
    (all-rows right): accepted locally, refused by the peers, which check the departing room. -/
theorem C12_breaks_oldRoomLookup :
    (mutate { Defects.none with oldRoomLookup := true } rooms01 db0 3 4
      (.mk 0 false 1 (some 1) (some 5) .none)).toBool = true ∧
    peerVerdictOn rooms01 (mutate { Defects.none with oldRoomLookup := true } rooms01 db0 3 4
      (.mk 0 false 1 (some 1) (some 5) .none)) 0
      (db0.rows.find? (·.id = 0)) = false := by decide

/-- **C12_breaks_refDeletionResign (#3).** The outsider 5 deletes a reference that does not exist: accepted
    locally, row 0 re-signed by key 5; the peers refuse that row. -/
theorem C12_breaks_refDeletionResign :
    (deleteRef { Defects.none with refDeletionResign := true } rooms01 db0 5 4 0 1 0 1).toBool = true ∧
    peerVerdictOn rooms01 (deleteRef { Defects.none with refDeletionResign := true } rooms01 db0 5 4 0 1 0 1) 0
      (db0.rows.find? (·.id = 0)) = false := by decide

/-- **C12_partial (the code as it is).** For a change that does not move the row to another room (and whose
    previous version, if any, is of the same entity and was in a room), the local right check and `validate_node`
    give the same verdict whatever the switches of the two models are — in particular for the code as it is on
    both sides. What is missing with respect to the full statement: room moves (#2), sub-entities under an
    unchanged parent — which are written without any local check (#1) —, re-signed source rows of reference
    deletions (#3); and, outside this model, values that only one path refuses (explicit null, Json scalars:
    DESIGN #14). -/
theorem C12_partial (df : Defects) (d : Ingest.Defects) {rooms : List Room} {caller : Key} {now : Int}
    {c : Change} {n : Row} {rid : Id}
    (hroom : c.roomId = some rid) (hn : n.room = some rid) (he : n.entity = c.entity) (hd : n.mdate = now)
    (hold : ∀ o, c.old = some o → o.entity = c.entity ∧ o.room ≠ none) (hnm : NoMove c) :
    localOk df rooms caller now c = peerOk d rooms caller c n :=
  row_verdict_any df d hroom hn he hd hold hnm

end Discret.LocalWrite
