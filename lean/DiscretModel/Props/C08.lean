import DiscretModel.Lemmas.Serve
import DiscretModel.Gen.ServeTable
/-
C08 — A peer is served data only for rooms it is a member of.

Model: `Model/Serve.lean` interpreting the request table REGENERATED from
`peer_outbound_service.rs` by translator T1 (`Gen/ServeTable.lean`), over the shared room model.
All statements quantify over every sequence of operations of a connection (handshake, requests of
every kind with arbitrary identifiers, clock, room-definition changes, data changes), of any length.
-/
namespace Discret.Serve
open Discret.Room Discret.Serve.Gen

/-! ### 0. the table read from the source on this run -/

/-- **T1 obligation.** Every data-bearing request kind is guarded by `allowed_room.contains(room)`
    with the database read inside the guarded branch and on the guarded room; `RoomList` by
    `key proven ∧ connection ready`; the fingerprint by `key = own key`; every variant of `enum Query`
    has exactly one arm. A request kind that forgets its check breaks this theorem. -/
theorem C08_table_guards :
    GoodTable serveTable ∧
    (∀ e ∈ serveTable, e.kind ≠ .proveIdentity → e.kind ≠ .hardwareFingerprint → e.kind ≠ .roomList →
      e.guard = .allowedContainsRoom ∧ e.guardedRoomIsQueried = true) ∧
    (∀ e ∈ serveTable, e.kind = .roomList → e.guard = .keyProvenAndReady) ∧
    (∀ k ∈ queryKinds, (serveTable.filter (·.kind = k)).length = 1) ∧
    (∀ e ∈ serveTable, e.kind ∈ queryKinds) := by
  decide

theorem good : GoodTable serveTable := C08_table_guards.1

/-- the state of a connection after any sequence of operations, started on any consistent world -/
def reach (d : Defects) (own : Key) (w₀ : World) (ops : List Op) : State :=
  (run d serveTable own (State.init w₀) ops).1

/-! ### 1. the full statement, for a serving side that re-checks membership (`Defects.none`) -/

/-- **C08 (full).** After any history of the connection, a data-bearing answer names a room of which
    the authenticated key is a member NOW, and contains only rows of that room (the member list is
    made of room-less peer rows); a room list contains only rooms the key is a member of now. -/
theorem C08_full (own : Key) (w₀ : World) (ops : List Op) (q : Query) :
    let s := reach Defects.none own w₀ ops
    (∀ r items, (serve Defects.none serveTable s.w own s.c q).2 = .data r items →
      (∃ k, s.c.key = some k ∧ memberNow s.w k r = true) ∧
      ∀ it ∈ items, it.room = some r ∨ (q.kind = .peersForRoom ∧ it.room = none)) ∧
    (∀ rooms, (serve Defects.none serveTable s.w own s.c q).2 = .roomList rooms →
      ∃ k, s.c.key = some k ∧ ∀ r ∈ rooms, ∃ room ∈ s.w.rooms, room.id = r ∧ room.isUserValidAt k s.w.now = true) := by
  intro s
  constructor
  · intro r items h
    obtain ⟨hq, _, hit, hm⟩ := serve_data_sound good h
    exact ⟨hm rfl, hit ▸ fetch_room s.w q r hq⟩
  · intro rooms h
    obtain ⟨k, hk, _, hr⟩ := serve_roomList_sound good h
    refine ⟨k, hk, fun r hrm => ?_⟩
    subst hr
    simp only [roomsForPeer, List.mem_map, List.mem_filter] at hrm
    obtain ⟨room, ⟨hmem, hv⟩, rfl⟩ := hrm
    exact ⟨room, hmem, rfl, hv⟩

/-! ### 2. the code as it is -/

/-- **C08 (before authentication).** Whatever happened before, a connection that has proved no key
    has an empty allowed table and every request gets silence, a refusal or the identity proof —
    never data, never a room list. Holds for the code as it is. -/
theorem C08_unauthenticated (d : Defects) (own : Key) (w₀ : World) (hw : WInv w₀) (ops : List Op) (q : Query) :
    let s := reach d own w₀ ops
    s.c.key = none →
      s.c.allowed = [] ∧
      ((serve d serveTable s.w own s.c q).2 = .silent ∨ (serve d serveTable s.w own s.c q).2 = .refused ∨
        (serve d serveTable s.w own s.c q).2 = .identity) := by
  intro s hk
  have hi : Inv d s := run_inv (inv_init hw) ops
  exact ⟨hi.unauth hk, serve_unauth good hk (hi.unauth hk)⟩

/-- **C08_partial.** For the code as it is, after any history: every data-bearing answer names a room
    of the allowed table and contains only rows of that room; every room of the allowed table was
    admitted for the proven key `k` at a time `t ≤ now` at which `k` was a VALID member according to
    the definition of the room then in force (room list, or definition-change event since fix
    81b6434). What is missing with respect to the full statement: membership NOW — a room is never
    revoked on a live connection (witness below). -/
theorem C08_partial (own : Key) (w₀ : World) (hw : WInv w₀) (ops : List Op) (q : Query) :
    let s := reach Defects.asImplemented own w₀ ops
    (∀ r ∈ s.c.allowed, ∃ k, s.c.key = some k ∧ ∃ p ∈ s.w.history, ∃ t, p.2.id = r ∧ p.1 ≤ t ∧ t ≤ s.w.now ∧
        p.2.isUserValidAt k t = true) ∧
    (∀ r items, (serve Defects.asImplemented serveTable s.w own s.c q).2 = .data r items →
      r ∈ s.c.allowed ∧ ∀ it ∈ items, it.room = some r ∨ (q.kind = .peersForRoom ∧ it.room = none)) ∧
    (∀ rooms, (serve Defects.asImplemented serveTable s.w own s.c q).2 = .roomList rooms →
      ∃ k, s.c.key = some k ∧ s.c.ready = true ∧ rooms = roomsForPeer s.w k) := by
  intro s
  have hi : Inv Defects.asImplemented s := run_inv (inv_init hw) ops
  refine ⟨fun r hr => ?_, fun r items h => ?_, fun rooms h => serve_roomList_sound good h⟩
  · obtain ⟨k, hk, p, hp, t, h1, h2, h3, h4⟩ := hi.admitted r hr
    refine ⟨k, hk, p, hp, t, h1, h2, h3, ?_⟩
    rcases h4 with h | ⟨h, _⟩
    · exact h
    · cases h
  · obtain ⟨hq, hc, hit, _⟩ := serve_data_sound good h
    exact ⟨by simpa using hc, hit ▸ fetch_room s.w q r hq⟩

/-- the weaker statement that held before fix 81b6434 (`has_user` on the event path): admission by a
    valid membership *or* by merely being named in a user list -/
theorem C08_partial_beforeFix (own : Key) (w₀ : World) (hw : WInv w₀) (ops : List Op) :
    let s := reach Defects.beforeFix own w₀ ops
    ∀ r ∈ s.c.allowed, ∃ k, s.c.key = some k ∧ ∃ p ∈ s.w.history, ∃ t, p.2.id = r ∧ p.1 ≤ t ∧ t ≤ s.w.now ∧
      (p.2.isUserValidAt k t = true ∨ p.2.hasUser k = true) := by
  intro s r hr
  have hi : Inv Defects.beforeFix s := run_inv (inv_init hw) ops
  obtain ⟨k, hk, p, hp, t, h1, h2, h3, h4⟩ := hi.admitted r hr
  exact ⟨k, hk, p, hp, t, h1, h2, h3, h4.imp id (·.2)⟩

/-! ### 3. witnesses: the full statement fails for the code (DESIGN.md §4, site 25) -/

def O : Key := 1   -- the serving instance's own key, admin of every room
def K : Key := 2   -- the requester

def roomV1 : Room :=   -- room 7: K is a user of group 70 since date 10
  { id := 7, mdate := 10, admins := [⟨O, 10, true⟩],
    auths := [{ id := 70, mdate := 10, users := [⟨K, 10, true⟩], rights := [], userAdmins := [] }] }
def roomV2 : Room :=   -- … disabled at date 30
  { roomV1 with auths := [{ id := 70, mdate := 10, users := [⟨K, 10, true⟩, ⟨K, 30, false⟩], rights := [], userAdmins := [] }] }
def roomDisabledOnly : Room :=   -- room 8: K only ever appears as a DISABLED user
  { id := 8, mdate := 10, admins := [⟨O, 10, true⟩],
    auths := [{ id := 80, mdate := 10, users := [⟨K, 10, false⟩], rights := [], userAdmins := [] }] }

def addRows (w : World) : World :=
  { w with rows := [⟨1, some 7, 1, 15⟩, ⟨2, some 8, 1, 15⟩, ⟨3, some 9, 1, 15⟩], logDays := [(7, 0), (8, 0)] }

/-- **C08_breaks_allowedNeverRevoked.** A member lists its rooms, is disabled at date 30, and at date
    40 — on the same connection — still receives the rows of the room (and a refusal for a room it
    never belonged to). -/
theorem C08_breaks_allowedNeverRevoked :
    let ops : List Op := [.advance 10, .install roomV1, .world addRows, .auth K true, .advance 20,
      .query .roomList, .advance 30, .install roomV2, .advance 40]
    let s := reach Defects.asImplemented O World.empty ops
    memberNow s.w K 7 = false ∧
    (serve Defects.asImplemented serveTable s.w O s.c (.nodes 7 [1, 2, 3])).2 = .data 7 [⟨some 7, 1⟩] ∧
    (serve Defects.asImplemented serveTable s.w O s.c (.nodes 9 [1, 2, 3])).2 = .refused ∧
    (serve Defects.none serveTable (reach Defects.none O World.empty ops).w O
      (reach Defects.none O World.empty ops).c (.nodes 7 [1, 2, 3])).2 = .refused := by
  decide

/-- **C08_fixed_hasUserCountsDisabled (regression witness, fix 81b6434).** A key that was never a
    valid member of room 8 (its only entry is a disabled one) was admitted by the definition-change
    event and served by the code BEFORE the fix; the code as it is refuses. -/
theorem C08_fixed_hasUserCountsDisabled :
    let ops : List Op := [.advance 5, .auth K true, .advance 10, .install roomDisabledOnly, .world addRows, .advance 20]
    let s := reach Defects.beforeFix O World.empty ops
    let s' := reach Defects.asImplemented O World.empty ops
    (∀ u ∈ roomDisabledOnly.admins ++ roomDisabledOnly.auths.flatMap (fun a => a.users ++ a.userAdmins),
      u.key = K → u.enabled = false) ∧
    (serve Defects.beforeFix serveTable s.w O s.c .roomList).2 = .roomList [] ∧
    (serve Defects.beforeFix serveTable s.w O s.c (.nodes 8 [2])).2 = .data 8 [⟨some 8, 2⟩] ∧
    (serve Defects.asImplemented serveTable s'.w O s'.c (.nodes 8 [2])).2 = .refused := by
  decide

/-! ### non-vacuity -/

example : WInv World.empty := ⟨fun _ h => (by cases h), fun _ h => (by cases h)⟩

-- a reachable authenticated state with a non-empty allowed table, a served request and a refused one
example :
    let s := reach Defects.asImplemented O World.empty
      [.advance 10, .install roomV1, .world addRows, .auth K true, .advance 20, .query .roomList]
    s.c.key = some K ∧ s.c.allowed = [7] ∧
    (serve Defects.asImplemented serveTable s.w O s.c (.roomDailyNodes 7 1 0)).2 = .data 7 [⟨some 7, 1⟩] ∧
    (serve Defects.asImplemented serveTable s.w O s.c (.roomLog 8)).2 = .refused := by decide

-- before authentication the same requests give nothing
example :
    let s := reach Defects.asImplemented O World.empty [.advance 10, .install roomV1, .world addRows]
    (serve Defects.asImplemented serveTable s.w O s.c (.nodes 7 [1])).2 = .refused ∧
    (serve Defects.asImplemented serveTable s.w O s.c .roomList).2 = .silent ∧
    (serve Defects.asImplemented serveTable s.w O s.c .proveIdentity).2 = .identity := by decide

end Discret.Serve
