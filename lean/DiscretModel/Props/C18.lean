import DiscretModel.Lemmas.EventsApi
/-
C18 — Every committed change is announced.

Model: `Model/Events.lean`. Writer level: marks, passes, emitted events, for ANY batching of ANY sequence
of changes and recompute requests (no bound on rooms, entities, days, batch sizes or lengths).
API level: what every entry point writes and marks, for any operation sequence over any number of sites.
A cell is `(room, entity, day)`.
-/
namespace Discret.Events

/-! ### writer level: any sequence, any batching -/

/-- **C18 (a pass reports exactly the entries it found marked, and unmarks them).** -/
theorem C18_pass_reports_exactly_the_marked (k : Ent → Bool) (w : W) :
    (commit k w [.pass]).events = w.events ++ [w.marks.filter fun c => k c.ent] ∧
    (commit k w [.pass]).marks = [] := by
  simp [commit, runItems, passW]

/-- **C18 (after a pass no mark remains).** Whatever precedes it in its batch, the database holds no
    mark right after a pass item (the marks of the batch's own changes are written at the end of the batch). -/
theorem C18_after_a_pass_no_mark_remains (k : Ent → Bool) (pre : List Item) :
    ∀ (w : W) (p : List Cell), (runItems k w p (pre ++ [.pass])).1.marks = [] := by
  induction pre with
  | nil => intro w p; simp [runItems, passW]
  | cons it rest ih =>
    intro w p
    cases it with
    | write m => simpa [runItems] using ih w (p ++ m)
    | pass => simpa [runItems] using ih (passW k w) p

/-- **C18 (invariant, any sequence and any batching).** Take any history of batches, any batch `b` of
    it and any change in `b`. Every cell that change marks (whose entity name resolves) is, after any
    continuation `post`, either still marked or in an event emitted AFTER the batch of the change. -/
theorem C18_invariant (k : Ent → Bool) (w0 : W) (pre : List (List Item)) (b : List Item)
    (post : List (List Item)) (m : List Cell) (c : Cell)
    (hw : Item.write m ∈ b) (hc : c ∈ m) (hk : k c.ent = true) :
    ∃ late, (run k w0 (pre ++ b :: post)).events = (run k w0 (pre ++ [b])).events ++ late ∧
      (c ∈ (run k w0 (pre ++ b :: post)).marks ∨ ∃ e ∈ late, c ∈ e) := by
  have e1 : run k w0 (pre ++ b :: post) = run k (commit k (run k w0 pre) b) post := by
    rw [run_append]; rfl
  have e2 : run k w0 (pre ++ [b]) = commit k (run k w0 pre) b := by
    rw [run_append]; rfl
  obtain ⟨_, _, _, _, a4, _, _⟩ := commit_spec k (run k w0 pre) b
  obtain ⟨l, b1, b2, _, _⟩ := run_spec k post (commit k (run k w0 pre) b)
  rw [e1, e2]
  exact ⟨l, b1, b2 c (a4 m hw c hc) hk⟩

/-- **C18 (a recompute requested after the acknowledgement announces the change).** If some later batch
    contains a recompute item — which is what the API guarantees by sending the request after the
    acknowledgement, hence after the commit of the change's batch — the cell is in an event emitted
    after the change and no later than that pass. -/
theorem C18_change_followed_by_event (k : Ent → Bool) (w0 : W) (pre : List (List Item)) (b : List Item)
    (post : List (List Item)) (m : List Cell) (c : Cell)
    (hw : Item.write m ∈ b) (hc : c ∈ m) (hk : k c.ent = true)
    (hreq : ∃ b' ∈ post, Item.pass ∈ b') :
    ∃ late, (run k w0 (pre ++ b :: post)).events = (run k w0 (pre ++ [b])).events ++ late ∧
      ∃ e ∈ late, c ∈ e := by
  have e1 : run k w0 (pre ++ b :: post) = run k (commit k (run k w0 pre) b) post := by
    rw [run_append]; rfl
  have e2 : run k w0 (pre ++ [b]) = commit k (run k w0 pre) b := by
    rw [run_append]; rfl
  obtain ⟨_, _, _, _, a4, _, _⟩ := commit_spec k (run k w0 pre) b
  obtain ⟨l, b1, _, b3, _⟩ := run_spec k post (commit k (run k w0 pre) b)
  rw [e1, e2]
  exact ⟨l, b1, b3 hreq c (a4 m hw c hc) hk⟩

/-- **C18 (batched together or concurrent: nothing is lost, nothing is invented).** From a database
    without marks, for EVERY schedule in which each change's batch is followed by a later batch with a
    recompute item, the set of announced cells is exactly the set of cells marked by the changes. In
    particular it does not depend on how the changes and requests were batched or interleaved. -/
theorem C18_any_schedule_announces_exactly_the_marked (k : Ent → Bool) (evs0 : List (List Cell))
    (bs : List (List Item)) (h : Requested bs) :
    ∃ late, (run k { marks := [], events := evs0 } bs).events = evs0 ++ late ∧
      ∀ c, (∃ e ∈ late, c ∈ e) ↔ (k c.ent = true ∧ ∃ b ∈ bs, ∃ m, Item.write m ∈ b ∧ c ∈ m) := by
  obtain ⟨late, h1, _, _, h4⟩ := run_spec k bs { marks := [], events := evs0 }
  refine ⟨late, h1, ?_⟩
  intro c
  constructor
  · rintro ⟨e, he, hce⟩
    obtain ⟨hk, h'⟩ := h4 e he c hce
    rcases h' with h' | h'
    · cases h'
    · exact ⟨hk, h'⟩
  · rintro ⟨hk, b, hb, m, hm, hcm⟩
    obtain ⟨pre, post, rfl⟩ := List.append_of_mem hb
    obtain ⟨l2, e2, e, he, hce⟩ :=
      C18_change_followed_by_event k { marks := [], events := evs0 } pre b post m c hm hcm hk (h.at m hm)
    obtain ⟨l1, e1, _⟩ := run_spec k (pre ++ [b]) { marks := [], events := evs0 }
    rw [h1, e1, List.append_assoc] at e2
    have : late = l1 ++ l2 := List.append_cancel_left e2
    exact ⟨e, by rw [this]; exact List.mem_append.mpr (Or.inr he), hce⟩

/-! ### API level: any operation sequence -/

/-- **C18 (every change is followed by its event) — full statement, intended behaviour.**
    With `Defects.none`, in ANY state, for EVERY operation (local mutation, deletion, reference change,
    stream, room mutation, ingestion of a room from another site, concurrent mix): every cell whose
    stored content gains a row version or a tombstone is in a data-changed event that the operation
    itself triggers (and, for a stream, that comes after its mutations reached the writer). -/
theorem C18_every_change_is_announced (st : State) (hd : st.d = Defects.none) (op : Op)
    (st' : State) (evs : List Ev) (g : List Cell) (h : step st op = (st', .obs evs g)) :
    ∀ c, c ∈ g → Announced evs c := by
  obtain ⟨si, s1, acts, hp, rfl, rfl, _⟩ := step_obs h
  have hw : WR acts := plan_WR st op si s1 acts (Or.inl (by rw [hd]; exact ⟨rfl, rfl⟩)) hp
  exact execActs_announces acts s1 hw

/-- the same along every run from the initial state, for any number of sites -/
theorem C18_every_change_is_announced_run (n : Nat) (ops : List Op) :
    ∀ out, out ∈ (runOps (init Defects.none n) ops).2 → ∀ evs g, out = .obs evs g →
      ∀ c, c ∈ g → Announced evs c := by
  have key : ∀ (ops : List Op) (st : State), st.d = Defects.none →
      ∀ out, out ∈ (runOps st ops).2 → ∀ evs g, out = .obs evs g → ∀ c, c ∈ g → Announced evs c := by
    intro ops
    induction ops with
    | nil => intro st _ out h; cases h
    | cons op rest ih =>
      intro st hd out h evs g ho c hc
      simp only [runOps] at h
      rcases List.mem_cons.mp h with h | h
      · subst ho
        exact C18_every_change_is_announced st hd op (step st op).1 evs g (by rw [h]) c hc
      · exact ih (step st op).1 (by rw [step_d]; exact hd) out h evs g ho c hc
  exact key ops (init Defects.none n) rfl

/-- **C18_partial — the code before the fixes (and any combination of the switches).** Same conclusion
    under the decidable guard `opGuard`: the operation is neither a reference deletion naming a reference that
    does not exist at the site, nor a stream closed before its acknowledgements. Stated for
    `Defects.beforeFixes`; the proof does not use the hypothesis (it holds whatever the switches are).
    `/repo` now has both fixes (456214b + 9b21e0a, e303771): `Defects.asImplemented = Defects.none`
    and the full statement `C18_every_change_is_announced` applies to the code's model. -/
theorem C18_partial (st : State) (_hd : st.d = Defects.beforeFixes) (op : Op) (hg : opGuard st op = true)
    (st' : State) (evs : List Ev) (g : List Cell) (h : step st op = (st', .obs evs g)) :
    ∀ c, c ∈ g → Announced evs c := by
  obtain ⟨si, s1, acts, hp, rfl, rfl, _⟩ := step_obs h
  exact execActs_announces acts s1 (plan_WR st op si s1 acts (Or.inr hg) hp)

/-! ### room definitions -/

/-- **C18 (a room-definition change is followed by a room-modified event carrying the validated room).**
    An accepted room mutation (here: one more user entry in room `r` at its owning site) produces a
    room-modified event; the definition it carries is the one validation computed from the installed
    definition (`old` with one more entry, dated now), and it is the definition installed afterwards. -/
theorem C18_room_change_announced_with_the_validated_room (st : State) (s : Nat) (r : Room)
    (st' : State) (evs : List Ev) (g : List Cell) (h : step st (.roomadd s r) = (st', .obs evs g)) :
    ∃ site old, st.sites[s]? = some site ∧ findDef r site.defs = some old ∧
      let validated : RoomDef := { room := r, entries := old.entries + 1, dtick := st.tick }
      Ev.roomEv validated ∈ evs ∧
      (st'.sites[s]?.bind fun x => findDef r x.defs) = some validated := by
  obtain ⟨si, s1, acts, hp, rfl, rfl, hsites⟩ := step_obs h
  simp only [plan, siteOf] at hp
  cases hs : st.sites[s]? with
  | none => simp [hs] at hp
  | some site =>
    simp only [hs, localOp] at hp
    cases hf : findDef r site.defs with
    | none => simp [hf] at hp
    | some old =>
      simp only [hf] at hp
      split at hp
      · simp only [Option.map_some, Option.some.injEq, Prod.mk.injEq] at hp
        obtain ⟨rfl, rfl, rfl⟩ := hp
        refine ⟨site, old, rfl, hf, ?_, ?_⟩
        · exact execActs_roomEv _ _ List.mem_cons_self _
        · rw [hsites, getElem?_setSite s _ _ site hs]
          simp only [Option.bind_some, execActs_defs]
          exact findDef_setDef { room := r, entries := old.entries + 1, dtick := st.tick } site.defs
      · simp at hp

/-- the same for a room definition imported from another site: the event carries the imported
    definition, which is the one installed -/
theorem C18_imported_room_announced (dst : Site) (r : Room) (rd : RoomDef) (hr : rd.room = r)
    (hl : pullLoads dst r rd = true) :
    Act.roomEv rd ∈ (pullStart dst r rd).acts ∧ findDef r (pullStart dst r rd).dst.defs = some rd := by
  unfold pullStart
  simp only [hl, ↓reduceIte, List.mem_singleton, true_and]
  subst hr
  exact findDef_setDef rd dst.defs

/-- the code's model is the intended one since the fixes -/
theorem C18_asImplemented_is_none : Defects.asImplemented = Defects.none := rfl

/-! ### where the code broke the full statement before the fixes (regression witnesses) -/

def c (r e d : Nat) : Cell := { room := r, ent := e, day := d }

/-- **C18_breaks_refdelUnmarked** (`deletion.rs:91-93`, candidate 3). A reference deletion naming a
    reference that does not exist re-dates and re-signs the source row (the content of (room 1, Person,
    day 1) gains a row version) and marks nothing: the event triggered by the operation is empty, and a
    further recompute finds nothing to report — the change is never announced. -/
theorem C18_breaks_refdelUnmarked :
    (runOps (init Defects.beforeFixes 1)
      [.room 0 1, .new 0 1 1 0, .new 0 2 1 0, .day 1, .refdel 0 1 2, .flush 0]).2.drop 4
      = [.obs [.data []] [c 1 0 1], .obs [.data []] []] := by decide

/-- with the switch off (the code since 456214b) the same history leaves the row untouched: nothing to announce -/
theorem C18_fixed_refdelUnmarked :
    (runOps (init Defects.none 1)
      [.room 0 1, .new 0 1 1 0, .new 0 2 1 0, .day 1, .refdel 0 1 2, .flush 0]).2.drop 4
      = [.obs [.data []] [], .obs [.data []] []] := by decide

/-- **C18_breaks_streamCloseEarly** (`graph_database.rs:331-339`). The recompute of a stream is requested
    when the stream is closed; the mutations still travel through the reader thread and the
    authorisation service, so the pass runs first, reports nothing, and the marks of the stream stay
    until some later operation requests a recompute (here: the flush). -/
theorem C18_breaks_streamCloseEarly :
    (runOps (init Defects.beforeFixes 1)
      [.room 0 1, .stream 0 .early [(1, 1, 0), (2, 1, 1)], .flush 0]).2.drop 1
      = [.obs [.data [], .mark] [c 1 0 0, c 1 1 0], .obs [.data [c 1 0 0, c 1 1 0]] []] := by decide

theorem C18_fixed_streamCloseEarly :
    (runOps (init Defects.none 1)
      [.room 0 1, .stream 0 .early [(1, 1, 0), (2, 1, 1)], .flush 0]).2.drop 1
      = [.obs [.mark, .data [c 1 0 0, c 1 1 0]] [c 1 0 0, c 1 1 0], .obs [.data []] []] := by decide

/-- **C18_breaks_unknownEntityDropped** (`graph_database.rs:226-230`). A marked entry whose entity short
    name does not resolve is left out of the event although its mark is cleared: neither marked nor
    announced. (Not reachable through the entry points exercised by the harness: every ingestion path
    refuses unknown short names and a data model cannot drop an entity; kept because the branch exists.) -/
theorem C18_breaks_unknownEntityDropped :
    let w := run (fun e => e != 7) { marks := [], events := [] } [[.write [c 1 7 0]], [.pass]]
    w.marks = [] ∧ w.events = [[]] := by decide

/-! ### non-vacuity -/

-- a concurrent schedule meeting `Requested`: two changes batched together with the request of an
-- earlier change, their own requests in later batches
example : Requested [[.write [c 1 0 0]], [.write [c 1 0 1], .pass, .write [c 2 1 1]], [.pass], [.pass]] := by
  refine ⟨fun _ => ⟨_, List.mem_cons_self, List.mem_cons_of_mem _ List.mem_cons_self⟩, ?_, ?_, ?_, trivial⟩
  · exact fun _ => ⟨[.pass], List.mem_cons_self, List.mem_cons_self⟩
  · exact fun _ => ⟨[.pass], List.mem_cons_self, List.mem_cons_self⟩
  · rintro ⟨m, hm⟩; cases hm; rename_i h; cases h

-- … and what it announces: the pass batched with the two later changes does not see their marks
example : (run allKnown { marks := [], events := [] }
      [[.write [c 1 0 0]], [.write [c 1 0 1], .pass, .write [c 2 1 1]], [.pass], [.pass]]).events
    = [[c 1 0 0], [c 1 0 1, c 2 1 1], []] := by decide

-- a two-site history: site 1 imports room 1, site 0 creates, moves day, deletes; site 1 ingests the
-- tombstone and announces the deletion day, the day of the deleted version and the day of the version it held
-- (marks are a set in the database; the model keeps duplicates)
example : (runOps (init Defects.asImplemented 2)
      [.room 0 1, .pull 1 0 1, .new 0 1 1 0, .pull 1 0 1, .day 2, .del 0 1, .pull 1 0 1]).2.drop 6
    = [.obs [.data [c 1 0 2, c 1 0 0, c 1 0 0]] [c 1 0 2]] := by decide

-- the guard of `C18_partial` holds for a reference deletion of an existing reference (reachable state)
example : opGuard (runOps (init Defects.asImplemented 1)
      [.room 0 1, .new 0 1 1 0, .new 0 2 1 0, .ref 0 1 2]).1 (.refdel 0 1 2) = true := by decide

-- an accepted room-definition change in a reachable state
example : (step (runOps (init Defects.asImplemented 1) [.room 0 1]).1 (.roomadd 0 1)).2
    = .obs [.roomEv { room := 1, entries := 1, dtick := 1 }, .data []] [] := by decide

end Discret.Events
