import DiscretModel.Lemmas.Lock
import DiscretModel.Lemmas.LockFair
import DiscretModel.Model.LockOld
import DiscretModel.Lemmas.LockConn
/-
C20 — Room synchronisation locks: exclusive, bounded, never lost.

Model: `Model/Lock.lean` (the `RoomLockService` actor, literal), `Model/LockConn.lean` (the
connection side). All statements quantify over every operation sequence, every number of peers
and rooms, every limit — no bound.
-/
namespace Discret.Lock

/-- every state reached from the initial one -/
theorem run_inv {max : Nat} {s : State} (hi : Inv max s) (ops : List Op) : Inv max (run s ops).1 := by
  induction ops generalizing s with
  | nil => exact hi
  | cons op ops ih => simp only [run]; exact ih (step_inv hi op)

theorem run_noMissed {max : Nat} {s : State} (hi : Inv max s) (hn : NoMissed s) (ops : List Op) :
    NoMissed (run s ops).1 := by
  induction ops generalizing s with
  | nil => exact hn
  | cons op ops ih => simp only [run]; exact ih (step_inv hi op) (step_noMissed hi hn op)

/-- **C20 (bounded, bookkeeping).** In every reachable state the locked rooms are pairwise
    distinct, `locked + available = max` (so at most `max` rooms are locked and the counter never
    underflows), the pending map has one entry per queued peer and the queue has no duplicates. -/
theorem C20_invariants (max : Nat) (ops : List Op) :
    let s := (run (init max) ops).1
    s.locked.Nodup ∧ s.locked.length + s.avail = max ∧ s.locked.length ≤ max ∧
      s.queue.Nodup ∧ (keys s.reqs).Nodup ∧ ∀ p, p ∈ s.queue ↔ p ∈ keys s.reqs := by
  have h := run_inv (inv_init max) ops
  exact ⟨h.lockedNodup, h.count, by have := h.count; omega, h.queueNodup, h.keysNodup, h.queueKeys⟩

/-- grant of room `r` at step `i` of a run -/
def grantedAt (outs : List (List (Ch × Room))) (i : Nat) (r : Room) : Prop :=
  ∃ g, outs[i]? = some g ∧ ∃ ch, (ch, r) ∈ g

theorem run_outs_cons (s : State) (op : Op) (ops : List Op) :
    (run s (op :: ops)).2 = (step s op).2 :: (run (step s op).1 ops).2 := by
  simp [run]

/-- while `r` is locked, a grant of `r` needs an `unlock r` at or before that step -/
theorem run_held {max : Nat} {s : State} (hi : Inv max s) {r : Room} (hr : r ∈ s.locked)
    (ops : List Op) (j : Nat) (hg : grantedAt (run s ops).2 j r) :
    ∃ k, k ≤ j ∧ ops[k]? = some (.unlock r) := by
  induction ops generalizing s j with
  | nil => obtain ⟨g, hg, _⟩ := hg; simp [run] at hg
  | cons op ops ih =>
    by_cases hop : op = .unlock r
    · exact ⟨0, Nat.zero_le _, by simp [hop]⟩
    · rw [grantedAt, run_outs_cons] at hg
      obtain ⟨g, hg, ch, hm⟩ := hg
      cases j with
      | zero =>
        simp only [List.getElem?_cons_zero, Option.some.injEq] at hg
        subst hg
        have := ((step_grants hi op).2 _ hm).1
        rcases this with h | h
        · exact absurd hr h
        · exact absurd h hop
      | succ j =>
        simp only [List.getElem?_cons_succ] at hg
        obtain ⟨k, hk, hu⟩ :=
          ih (step_inv hi op) (step_locked_stays hi op hr hop) j ⟨g, hg, ch, hm⟩
        exact ⟨k + 1, by omega, by simpa using hu⟩

/-- **C20 (exclusive).** Between two grants of the same room there is an `Unlock` of that room:
    the service never hands a room to a second requester while the first grant is outstanding.
    One step never grants the same room twice either. Unconditional, for every sequence. -/
theorem C20_grant_separated (max : Nat) (ops : List Op) (i j : Nat) (r : Room) (hij : i < j)
    (hgi : grantedAt (run (init max) ops).2 i r) (hgj : grantedAt (run (init max) ops).2 j r) :
    ∃ k, i < k ∧ k ≤ j ∧ ops[k]? = some (.unlock r) := by
  have key : ∀ (s : State), Inv max s → ∀ (ops : List Op) (i j : Nat), i < j →
      grantedAt (run s ops).2 i r → grantedAt (run s ops).2 j r →
      ∃ k, i < k ∧ k ≤ j ∧ ops[k]? = some (.unlock r) := by
    intro s hi ops
    induction ops generalizing s with
    | nil => intro i j _ hgi; obtain ⟨g, hg, _⟩ := hgi; simp [run] at hg
    | cons op ops ih =>
      intro i j hij hgi hgj
      rw [grantedAt, run_outs_cons] at hgi hgj
      obtain ⟨gi, hgi, chi, hmi⟩ := hgi
      obtain ⟨gj, hgj, chj, hmj⟩ := hgj
      cases j with
      | zero => omega
      | succ j =>
        simp only [List.getElem?_cons_succ] at hgj
        cases i with
        | zero =>
          simp only [List.getElem?_cons_zero, Option.some.injEq] at hgi
          subst hgi
          have hl := ((step_grants hi op).2 _ hmi).2.1
          obtain ⟨k, hk, hu⟩ := run_held (step_inv hi op) hl ops j ⟨gj, hgj, chj, hmj⟩
          exact ⟨k + 1, by omega, by omega, by simpa using hu⟩
        | succ i =>
          simp only [List.getElem?_cons_succ] at hgi
          obtain ⟨k, hk1, hk2, hu⟩ :=
            ih (step s op).1 (step_inv hi op) i j (by omega) ⟨gi, hgi, chi, hmi⟩ ⟨gj, hgj, chj, hmj⟩
          exact ⟨k + 1, by omega, by omega, by simpa using hu⟩
  exact key (init max) (inv_init max) ops i j hij hgi hgj

theorem C20_one_grant_per_room_per_step (max : Nat) (ops : List Op) (op : Op) :
    ((step (run (init max) ops).1 op).2.map Prod.snd).Nodup :=
  (step_grants (run_inv (inv_init max) ops) op).1

/-- **C20 (never lost: no missed wake-up).** In every reachable state, if a slot is available then
    every pending room of every waiting peer is currently locked: nobody waits for a free room
    while capacity is spare. -/
theorem C20_no_missed_wakeup (max : Nat) (ops : List Op) :
    let s := (run (init max) ops).1
    0 < s.avail → ∀ p req, (p, req) ∈ s.reqs → ∀ r ∈ req.rooms, r ∈ s.locked := by
  intro s hpos
  have h := run_noMissed (inv_init max) (Or.inr (by intro p req hm; cases hm)) ops
  rcases h with h | h
  · exact absurd h (Nat.pos_iff_ne_zero.mp hpos)
  · exact h

/-- **C20 (never lost: progress).** Releasing a room that a peer with a live receiver is waiting
    for produces a grant in the very same step. -/
theorem C20_unlock_progress (max : Nat) (ops : List Op) (r : Room) (p : Peer) (req : Req) :
    let s := (run (init max) ops).1
    r ∈ s.locked → (p, req) ∈ s.reqs → req.ch ∉ s.dead → r ∈ req.rooms →
    (step s (.unlock r)).2 ≠ [] := by
  intro s hr hm hl hw
  exact unlock_progress (run_inv (inv_init max) ops) hr hm hl hw

/-- **C20 (grants go to live receivers, for rooms that are free).** -/
theorem C20_grant_sound (max : Nat) (ops : List Op) (op : Op) :
    let s := (run (init max) ops).1
    ∀ g ∈ (step s op).2, (g.2 ∉ s.locked ∨ op = .unlock g.2) ∧ g.2 ∈ (step s op).1.locked ∧ g.1 ∉ s.dead :=
  (step_grants (run_inv (inv_init max) ops) op).2

/-- **C20 (once per request, dropped only when the receiver is gone).** One turn of a peer: what
    was pending is, as a multiset, the grant plus what remains — unless the receiver is gone. -/
theorem C20_pending_accounting (locked : List Room) (live : Bool) (rooms rooms' : List Room)
    (g : Option Room) (h : roomLoop locked live rooms.length rooms = (rooms', g)) :
    rooms.Perm (g.toList ++ rooms') ∨ live = false := by
  cases live with
  | false => exact Or.inr rfl
  | true => exact Or.inl (roomLoop_live_perm h)

/-- **C20 (head of line, the part of "eventually granted" that holds).** The peer at the back of
    the queue whose receiver is live and which has a free pending room is granted a room by the next
    acquisition round. -/
theorem C20_head_of_line_partial (s : State) (p : Peer) (q : List Peer) (req : Req)
    (hq : s.queue = p :: q) (hl : lookup p s.reqs = some req) (hlive : req.ch ∉ s.dead)
    (hfree : ∃ r ∈ req.rooms, r ∉ s.locked) :
    ∃ s' r, acquire s = (s', some (req.ch, r)) :=
  acquire_head_of_line hq hl hlive hfree

/-! ### fairness of the queue (code as fixed): bounded bypass, hence no starvation

`rank q p` is the number of peers visited before `p`. A waiting peer never loses its place, and
it gains one every time a released room it wants (live receiver) goes to somebody else: it can be
overtaken at most `rank` times — fewer than there are peers in the queue — before it is at the
back of the queue, where `C20_head_of_line_partial` serves it first. -/

/-- **C20 (a waiting peer keeps its place).** -/
theorem C20_waiting_peer_keeps_its_place (max : Nat) (ops : List Op) (op : Op) (p : Peer) (req : Req) :
    let s := (run (init max) ops).1
    (p, req) ∈ s.reqs → p ∈ (step s op).1.queue → (∀ g ∈ (step s op).2, g.1 ≠ req.ch) →
    (∀ rooms ch, op ≠ .request p rooms ch) →
    rank (step s op).1.queue p ≤ rank s.queue p := by
  intro s hm hq hnot hop
  exact step_rank_le (run_inv (inv_init max) ops) op hm hq hnot hop

/-- **C20 (being overtaken costs the others a place).** -/
theorem C20_bypass_gains_a_place (max : Nat) (ops : List Op) (r0 : Room) (p : Peer) (req : Req)
    (ch : Ch) (r : Room) :
    let s := (run (init max) ops).1
    r0 ∈ s.locked → (p, req) ∈ s.reqs → p ∈ (step s (.unlock r0)).1.queue →
    (ch, r) ∈ (step s (.unlock r0)).2 → req.ch ≠ ch → req.ch ∉ s.dead → r ∈ req.rooms →
    rank (step s (.unlock r0)).1.queue p < rank s.queue p := by
  intro s hr0 hm hq hg hch hlive hw
  exact unlock_bypass_rank_lt (run_inv (inv_init max) ops) hr0 hm hq hg hch hlive hw

/-- peer `p` waits on channel `c` throughout `ops`: it has a pending request before every step,
    does not re-request, and nothing is granted on its channel -/
def Waits (c : Ch) : State → List Op → Peer → Prop
  | s, [], p => ∃ req, (p, req) ∈ s.reqs ∧ req.ch = c
  | s, op :: ops, p =>
    (∃ req, (p, req) ∈ s.reqs ∧ req.ch = c) ∧ (∀ rooms ch, op ≠ .request p rooms ch) ∧
      (∀ g ∈ (step s op).2, g.1 ≠ c) ∧ Waits c (step s op).1 ops p

/-- a release of a room that `p` wants, with a live receiver, served somebody else -/
def Bypassed (s : State) (op : Op) (p : Peer) : Prop :=
  ∃ r0 req ch r, op = .unlock r0 ∧ r0 ∈ s.locked ∧ (p, req) ∈ s.reqs ∧ req.ch ∉ s.dead ∧
    (ch, r) ∈ (step s op).2 ∧ req.ch ≠ ch ∧ r ∈ req.rooms

open Classical in
/-- how many times `p` is bypassed along `ops` -/
noncomputable def bypassCount : State → List Op → Peer → Nat
  | _, [], _ => 0
  | s, op :: ops, p => (if Bypassed s op p then 1 else 0) + bypassCount (step s op).1 ops p

theorem waits_head {c : Ch} {s : State} {ops : List Op} {p : Peer} (h : Waits c s ops p) :
    ∃ req, (p, req) ∈ s.reqs ∧ req.ch = c := by
  cases ops with
  | nil => exact h
  | cons op ops => exact h.1

theorem bounded_bypass {max : Nat} {c : Ch} {s : State} (hi : Inv max s) (ops : List Op) (p : Peer)
    (hw : Waits c s ops p) :
    bypassCount s ops p + rank (run s ops).1.queue p ≤ rank s.queue p := by
  induction ops generalizing s with
  | nil => simp [bypassCount, run]
  | cons op ops ih =>
    obtain ⟨⟨req, hm, hc⟩, hop, hnot, hrest⟩ := hw
    have hi1 := step_inv hi op
    obtain ⟨req1, hm1, _⟩ := waits_head hrest
    have hq1 : p ∈ (step s op).1.queue := mem_queue_of_mem_reqs hi1 hm1
    have hle := step_rank_le hi op hm hq1 (by intro g hg; rw [hc]; exact hnot g hg) hop
    have hih := ih hi1 hrest
    simp only [bypassCount, run]
    split
    · rename_i hb
      obtain ⟨r0, req', ch, r, e, hr0, hm', hlive, hg, hch, hwant⟩ := hb
      subst e
      have : req' = req := mem_uniq hi.keysNodup hm' hm
      subst this
      have hlt := unlock_bypass_rank_lt hi hr0 hm' hq1 hg hch hlive hwant
      omega
    · omega

/-- **C20 (eventually granted: bounded bypass).** Along any continuation of any reachable state,
    a peer that keeps waiting is overtaken — a released room it wants, with a live receiver,
    granted to somebody else — at most as many times as there were peers before it in the queue,
    i.e. fewer times than the queue is long. Together with `C20_no_missed_wakeup`,
    `C20_unlock_progress` and `C20_head_of_line_partial` this is what "every requested room is
    eventually granted as long as granted rooms are released" means for the service. -/
theorem C20_bounded_bypass (max : Nat) (pre ops : List Op) (p : Peer) (c : Ch) :
    let s := (run (init max) pre).1
    Waits c s ops p → bypassCount s ops p ≤ rank s.queue p ∧ rank s.queue p < s.queue.length := by
  intro s hw
  have hi : Inv max s := run_inv (inv_init max) pre
  have hb := bounded_bypass hi ops p hw
  refine ⟨by omega, ?_⟩
  obtain ⟨req, hm, _⟩ := waits_head hw
  have hq : p ∈ s.queue := mem_queue_of_mem_reqs hi hm
  clear hb hw
  generalize s.queue = q at hq
  induction q with
  | nil => cases hq
  | cons x t ih =>
    simp only [rank, List.length_cons]
    split
    · omega
    · rename_i hne
      rcases List.mem_cons.mp hq with e | e
      · exact absurd e.symm hne
      · have := ih e; omega

/-! ### starvation in the code BEFORE `fix: a waiting peer keeps its place in the lock queue`

(`Model/LockOld.lean`.) A waiting peer that was visited while its rooms were locked, in a pass that
ended with a grant to a peer visited after it, was re-queued at the FRONT of the queue: every peer
that arrived later overtook it. The schedule below returns to the same state, so it could be
repeated for ever: every granted room is released, room 1 is released and granted again in every
round, and peer 1 — live receiver, waiting for room 1 since before — never got it. Replayed on the
real actor of that time (`corpus/C20/starvation-requeue-front.ops`). -/

def starvePre : List Op :=
  [.request 3 [1] 3, .request 4 [2] 4,          -- rooms 1 and 2 are held (limit 2)
   .request 1 [1] 1,                             -- peer 1 waits for room 1
   .request 2 [2] 2, .request 3 [1] 3,           -- later arrivals: peer 2 waits for 2, peer 3 for 1
   .unlock 2, .unlock 1]

def starveCycle : List Op :=
  [.request 2 [2] 2, .request 3 [1] 3, .unlock 2, .unlock 1]

def cycles : Nat → List Op
  | 0 => []
  | n + 1 => starveCycle ++ cycles n

theorem runOld_append (s : State) (a b : List Op) :
    LockOld.run s (a ++ b) =
      ((LockOld.run (LockOld.run s a).1 b).1, (LockOld.run s a).2 ++ (LockOld.run (LockOld.run s a).1 b).2) := by
  induction a generalizing s with
  | nil => simp [LockOld.run]
  | cons op a ih => simp only [List.cons_append, LockOld.run, ih, List.cons_append]

theorem C20_breaks_starvation_round :
    let s := (LockOld.run (init 2) starvePre).1
    (1, ({ rooms := [1], ch := 1 } : Req)) ∈ s.reqs ∧ 1 ∉ s.dead ∧
    (LockOld.run s starveCycle).1 = s ∧
    (LockOld.run s starveCycle).2 = [[], [], [(2, 2)], [(3, 1)]] := by decide

/-- (code before the fix) for EVERY number of rounds: same state again, and no grant ever goes to
    peer 1's channel -/
theorem C20_breaks_starvation (n : Nat) :
    let s := (LockOld.run (init 2) starvePre).1
    (LockOld.run s (cycles n)).1 = s ∧ ∀ g ∈ (LockOld.run s (cycles n)).2, ∀ x ∈ g, x.1 ≠ 1 := by
  intro s
  induction n with
  | zero => simp [cycles, LockOld.run]
  | succ n ih =>
    have h := C20_breaks_starvation_round
    simp only at h
    obtain ⟨_, _, h3, h4⟩ := h
    simp only [cycles, runOld_append]
    rw [h3]
    refine ⟨ih.1, ?_⟩
    intro g hg
    rcases List.mem_append.mp hg with hg | hg
    · rw [h4] at hg
      intro x hx
      simp only [List.mem_cons, List.not_mem_nil, or_false] at hg
      rcases hg with hg | hg | hg | hg <;> subst hg <;> simp at hx <;> subst hx <;> decide
    · exact ih.2 g hg

/-- the same schedule on the code as fixed: peer 1 is served as soon as room 1 is released -/
theorem C20_starvation_fixed :
    (run (init 2) starvePre).2 = [[(3, 1)], [(4, 2)], [], [], [], [(2, 2)], [(1, 1)]] := by decide

/-! ### non-vacuity: concrete reachable states meeting the hypotheses -/

example : (run (init 1) [.request 1 [5, 6] 1, .request 2 [5, 6] 2, .unlock 6]).2
    = [[(1, 6)], [], [(1, 5)]] := by decide

-- two grants of room 6 (steps 0 and 4) with the unlock of 6 at step 2 in between
example : grantedAt (run (init 1) [.request 1 [5, 6] 1, .request 2 [6] 2, .unlock 6, .unlock 5, .unlock 6]).2 0 6 ∧
    grantedAt (run (init 1) [.request 1 [5, 6] 1, .request 2 [6] 2, .unlock 6, .unlock 5, .unlock 6]).2 3 6 := by
  constructor
  · exact ⟨[(1, 6)], by decide, 1, by decide⟩
  · exact ⟨[(2, 6)], by decide, 2, by decide⟩

-- a reachable state with spare capacity and a non-empty pending list (all of it locked)
example : let s := (run (init 2) [.request 1 [5] 1, .request 2 [5] 2]).1
    0 < s.avail ∧ s.reqs ≠ [] := by decide

-- progress premises are satisfiable
example : let s := (run (init 2) [.request 1 [5] 1, .request 2 [5] 2]).1
    5 ∈ s.locked ∧ (2, ({ rooms := [5], ch := 2 } : Req)) ∈ s.reqs ∧ 2 ∉ s.dead := by decide

end Discret.Lock

namespace Discret.LockConn
open Discret.Lock

/-! ### system level: connections using the service (`Model/LockConn.lean`)

"At most one connection synchronises a room at a time" needs every `Unlock r` to come from the
current holder, once. The connection code before `fix: release each room lock exactly once when a
connection ends` did not guarantee that (DESIGN.md §4, site 26; replayed on the real
`LocalPeerService` by engine `lockconn`, corpus/C20/conn-double-unlock.ops). -/

/-- **C20_breaks_doubleUnlock (code before the fix).** Connection 0 synchronises room 7 and its loop
    ends: `cleanup` unlocks 7 while the task is still running; the room goes to connection 1; the
    task of connection 0 then finishes and unlocks 7 *again*, which releases connection 1's lock;
    connection 2 is granted room 7 while connection 1 is still synchronising it. -/
def doubleUnlockTrace : List SOp :=
  [.conn 0, .conn 1, .conn 2,
   .request 0 [7], .recv 0, .task 0 0,        -- conn 0 synchronises room 7
   .request 1 [7], .request 2 [7],            -- conn 1 and 2 wait for it
   .close 0,                                   -- loop of conn 0 ends
   .recv 1, .task 1 0,                         -- (before the fix) conn 1 synchronises room 7
   .task 0 0,                                  -- conn 0's task ends and unlocks 7
   .recv 2, .task 2 0]

theorem C20_breaks_doubleUnlock :
    syncing (srun Defects.beforeFix (sinit 1) doubleUnlockTrace) 7 = [1, 2] := by decide

/-- the same schedule on the code as fixed: nobody else gets the room while connection 0's task runs -/
theorem C20_doubleUnlock_fixed :
    syncing (srun Defects.none (sinit 1) doubleUnlockTrace) 7 = [] ∧
    syncing (srun Defects.none (sinit 1) (doubleUnlockTrace ++ [.recv 1, .task 1 0])) 7 = [1] := by decide

/-- **C20_breaks_grantInFlightAtClose (code before the fix).** A grant sent to a connection whose
    loop ends before receiving it is never released: the room stays locked with no holder. -/
def grantInFlightTrace : List SOp := [.conn 0, .conn 1, .request 0 [7], .close 0, .request 1 [7]]

theorem C20_breaks_grantInFlightAtClose :
    orphaned (srun Defects.beforeFix (sinit 1) grantInFlightTrace) 7 = true := by decide

theorem C20_grantInFlight_fixed :
    orphaned (srun Defects.none (sinit 1) grantInFlightTrace) 7 = false ∧
    ((srun Defects.none (sinit 1) grantInFlightTrace).conns.map (·.inbox)) = [[], [7]] := by decide

/-! ### system level, code as fixed: exclusive, bounded, never lost — for every schedule

The composed system: any number of connections, each with its inbox of grants, its tasks in their
three phases, `close` at any moment; every interleaving of `conn / request / recv / task / close`
(no party outside the model talks to the lock service). No bound on anything. -/

/-- **C20 (system-level exclusivity).** In every reachable state no room is being synchronised —
    or about to be — by two connections, nor twice by one connection. -/
theorem C20_system_exclusive (max : Nat) (ops : List SOp) (hops : ops.all noRaw = true) :
    let s := srun Defects.none (sinit max) ops
    (∀ (i j : Nat) (ci cj : Conn) (r : Room) (pi pj : Nat), s.conns[i]? = some ci → s.conns[j]? = some cj →
        (r, pi) ∈ ci.tasks → pi < 2 → (r, pj) ∈ cj.tasks → pj < 2 → i = j) ∧
    (∀ (i : Nat) (c : Conn), s.conns[i]? = some c → ((c.tasks.filter fun t => t.2 < 2).map Prod.fst).Nodup) := by
  intro s
  have hj := srun_J (J_init max) ops hops
  constructor
  · intro i j ci cj r pi pj hci hcj hti hpi htj hpj
    refine hj.disj i j ci cj r hci hcj ?_ ?_
    · rw [active_eq]; apply List.mem_append_right
      exact List.mem_map.mpr ⟨(r, pi), List.mem_filter.mpr ⟨hti, by simpa using hpi⟩, rfl⟩
    · rw [active_eq]; apply List.mem_append_right
      exact List.mem_map.mpr ⟨(r, pj), List.mem_filter.mpr ⟨htj, by simpa using hpj⟩, rfl⟩
  · intro i c hc
    have := hj.nodup i c hc
    rw [active_eq] at this
    exact (List.nodup_append.mp this).2.1

/-- **C20 (system-level: bounded and never lost).** In every reachable state at most `max` rooms are
    locked; every room a connection is responsible for is locked; and every locked room has a
    connection responsible for releasing it — a grant in the inbox of an OPEN connection or a task
    that has not yet sent its `Unlock` (a closed connection has an empty inbox). So a connection
    that ends keeps nothing but its running tasks, each of which unlocks when it ends. -/
theorem C20_system_no_lock_lost (max : Nat) (ops : List SOp) (hops : ops.all noRaw = true) :
    let s := srun Defects.none (sinit max) ops
    s.svc.locked.length ≤ max ∧
    (∀ (i : Nat) (c : Conn) (r : Room), s.conns[i]? = some c → r ∈ active c → r ∈ s.svc.locked) ∧
    (∀ r ∈ s.svc.locked, ∃ (i : Nat) (c : Conn), s.conns[i]? = some c ∧ r ∈ active c) ∧
    (∀ (i : Nat) (c : Conn), s.conns[i]? = some c → c.closed = true → c.inbox = []) := by
  intro s
  have hj := srun_J (J_init max) ops hops
  refine ⟨by have h := hj.inv.count; exact h ▸ Nat.le_add_right _ _, hj.ownLocked, fun r hr => hj.lockedOwned r hr (by simp), ?_⟩
  intro i c hc hcl
  exact (hj.closedOk i c hc hcl).1

-- non-vacuity: the fixed-code traces above are reachable states covered by the theorems
example : doubleUnlockTrace.all noRaw = true ∧ grantInFlightTrace.all noRaw = true := by decide

end Discret.LockConn
