import DiscretModel.Model.Admission
import DiscretModel.Model.Peg
import DiscretModel.Gen.Grammar
import DiscretModel.Gen.FrameSites
/-
C14 — no input crashes, wedges or confuses an instance.

What a theorem carries here (DESIGN.md §6 C14): four finite or table-shaped clauses. Everything that
executes requests on the real code is exploration (see checks/C14.py), not proof.
  (1) the admission matrix: admitted ⇒ the binding step has a defined result;
  (2) key / signature import is total; thread pools and panicking requests;
  (3) over the grammars regenerated from the .pest files (T3): identifiers the grammar accepts and the
      storage engine refuses as bare aliases;
  (4) over the table of `read_u32()` sites regenerated from endpoint.rs (T5): every frame length is
      bounded before it sizes an allocation.
-/
namespace Discret.Adm

/-- The admission and key-import theorems stated for `Defects.none` are about the code as implemented
    (after e10cc1c and 8e31124): the two steps only look at these two switches. -/
theorem C14_code_is_intended :
    Defects.asImplemented.jsonNullPanics = false ∧ Defects.asImplemented.emptyKeyPanics = false ∧
    Defects.asImplemented.dateRangePanics = false ∧ Defects.asImplemented.unboundedFirstFrame = false ∧
    (∀ ft pv, bind Defects.asImplemented ft pv = bind Defects.none ft pv) ∧
    (∀ first len, importVerifyingKey Defects.asImplemented first len = importVerifyingKey Defects.none first len) :=
  ⟨rfl, rfl, rfl, rfl, fun _ _ => rfl, fun _ _ => rfl⟩

/-! ### (1) the admission matrix -/

theorem allPV_complete : ∀ pv : PV, pv ∈ allPV
  | .bool => by decide | .int => by decide | .float => by decide | .floatNaN => by decide
  | .str false false => by decide | .str false true => by decide
  | .str true false => by decide | .str true true => by decide
  | .binary false => by decide | .binary true => by decide | .null => by decide

theorem allFT_complete : ∀ ft : FT, ft ∈ allFT
  | .bool => by decide | .float => by decide | .b64 => by decide | .int => by decide | .str => by decide | .json => by decide

/-- **C14 (admitted ⇒ bound), intended behaviour.** For every field type, nullability, value class and
    both ways of giving the value: what `validate_params` / the mutation parser admit, the binding step
    stores or refuses with an error — it never panics. -/
theorem C14_admitted_values_bind (src : Src) (ft : FT) (nullable : Bool) (pv : PV)
    (_h : admission src ft nullable pv = .admitted) : bind Defects.none ft pv ≠ .panic := by
  have key : ∀ ft ∈ allFT, ∀ pv ∈ allPV, bind Defects.none ft pv ≠ .panic := by decide
  exact key ft (allFT_complete ft) pv (allPV_complete pv)

/-- the cells of the matrix where the code as implemented admits a value and then panics -/
def badCells (d : Defects) : List (Src × FT × Bool × PV) :=
  (allSrc.flatMap fun s => allFT.flatMap fun ft => [false, true].flatMap fun n => allPV.map fun pv => (s, ft, n, pv)).filter
    fun c => admission c.1 c.2.1 c.2.2.1 c.2.2.2 == .admitted && bind d c.2.1 c.2.2.2 == .panic

/-- **C14_breaks_jsonNullPanics** (mutation_query.rs:286-297, candidate #6, confirmed on the real code:
    corpus/C14/json_null.ops). Exactly two cells are bad: a null parameter and the literal `null` on a
    nullable `Json` field are admitted and `value.as_string().unwrap()` panics the reader thread. -/
theorem C14_breaks_jsonNullPanics :
    badCells Defects.beforeFixes = [(.var, .json, true, .null), (.lit, .json, true, .null)] ∧
    badCells Defects.none = [] := by decide

/-- **C14_partial** (the code before the fix). Outside the two cells above an admitted value never panics. -/
theorem C14_partial (src : Src) (ft : FT) (nullable : Bool) (pv : PV)
    (_h : admission src ft nullable pv = .admitted) (hg : ¬ (ft = .json ∧ pv = .null)) :
    bind Defects.beforeFixes ft pv ≠ .panic := by
  have key : ∀ ft ∈ allFT, ∀ pv ∈ allPV, ¬ (ft = .json ∧ pv = .null) →
      (admission .var ft true pv = .admitted ∨ admission .lit ft true pv = .admitted ∨ True) →
      bind Defects.beforeFixes ft pv ≠ .panic ∨ ¬ (admission src ft nullable pv = .admitted) := by
    cases src <;> cases nullable <;> decide
  rcases key ft (allFT_complete ft) pv (allPV_complete pv) hg (Or.inr (Or.inr trivial)) with h | h
  · exact h
  · exact absurd _h h

/-- **C14 (an admitted parameter stays bound).** For every variable type of a system field and every value
    class: when `validate_params` admits the value it puts a value back into the parameter map, so the binding
    step (`params.get(var).unwrap()`) finds it; hence no request naming a system field panics, in a mutation or in
    a filter (`id`, `room_id` — the only nullable binary —, `cdate`, `mdate`, `_entity`, `_json`, `_binary`,
    `verifying_key`, `_signature`). -/
theorem C14_admitted_parameter_stays_bound :
    (∀ vt ∈ allVT, ∀ pv ∈ allPV, (validateParam vt pv).1 = .admitted → (validateParam vt pv).2.isSome = true) ∧
    (∀ c ∈ [Ctx.mutation, Ctx.filter], ∀ f ∈ allSysFields, ∀ pv ∈ allPV, sysRequest c f pv ≠ .panic) ∧
    sysRequest .mutation .roomId .null = .defined ∧ sysRequest .filter .roomId .null = .defined ∧
    sysRequest .mutation .id .null = .refused .notNullable := by decide

/-! ### (2) key and signature import, thread pools -/

/-- **C14 (key import is total), intended behaviour** -/
theorem C14_key_import_total (first : Option Nat) (len : Nat) :
    importVerifyingKey Defects.none first len ≠ .panic := by
  unfold importVerifyingKey
  cases first with
  | none => simp [Defects.none]
  | some b =>
    simp only [Defects.none, Bool.false_eq_true, if_false]
    by_cases h1 : (len != 33) = true <;> by_cases h2 : (b != keyTypeEd25519) = true <;> simp [h1, h2]

/-- **C14_breaks_emptyKeyPanics** (security.rs:78-83, candidate #7, confirmed: corpus/C14/empty_key.ops):
    the empty byte string panics; every other input is answered (`C14_key_partial`). -/
theorem C14_breaks_emptyKeyPanics : importVerifyingKey Defects.beforeFixes none 0 = .panic := by decide

theorem C14_key_partial (b len : Nat) : importVerifyingKey Defects.beforeFixes (some b) len ≠ .panic := by
  unfold importVerifyingKey
  simp only [Defects.beforeFixes, if_true]
  by_cases h1 : (len != 33) = true <;> by_cases h2 : (b != keyTypeEd25519) = true <;> simp [h1, h2]

/-- the signature import checks the length first: it has no panicking outcome at all -/
theorem C14_signature_import_total (len : Nat) : importSignature len = .errLength ↔ len ≠ 64 := by
  unfold importSignature
  by_cases h : len = 64 <;> simp [h]

/-- **C14 (a pool survives fewer panics than it has threads).** With `threads` plain OS threads, each
    panicking request removing one for good, the pool still answers after `k` such requests iff the
    requests do not panic or `k < threads` — so `threads` null parameters (resp. empty keys) wedge an
    instance (resp. the verifier) as implemented, and none does with the fixes. -/
theorem C14_pool_liveness (panics : Bool) (threads k : Nat) :
    poolAlive panics threads k = true ↔ (panics = false ∨ k < threads) := by
  unfold poolAlive
  cases panics <;> simp <;> omega

/-! ### dates taken from a peer's request -/

/-- **C14 (day bounds are total), intended behaviour** -/
theorem C14_day_bounds_total (t : Int) : dayBoundsPanics Defects.none t = false := by
  simp [dayBoundsPanics, Defects.none]

/-- **C14_breaks_dateRangePanics** (date_utils.rs:16-30, found by the serve engine, confirmed:
    corpus/C14/date_out_of_range.ops). `i64::MAX`, `i64::MIN`, the last representable instant (its next day
    overflows) and one past each end of chrono's range panic the reader thread that computes the day bounds. -/
theorem C14_breaks_dateRangePanics :
    ∀ t ∈ [(9223372036854775807 : Int), -9223372036854775808, 8210266876799999, 8210266876800000, -8334601228800001],
      dayBoundsPanics Defects.beforeFixes t = true := by decide

/-- **C14_date_partial** (the code before e1bf202): a date inside chrono's range whose next day is inside too never panics -/
theorem C14_date_partial (t : Int) (h : dateInRange t = true) : dayBoundsPanics Defects.beforeFixes t = false := by
  simp [dayBoundsPanics, h]

/-! ### (3) identifiers: the grammar against the storage engine -/

open Discret.Peg in
set_option maxRecDepth 100000 in
/-- **C14 (reserved words are identifiers for the grammar).** Over the query grammar regenerated from
    `query.pest`: `group`, `order`, `index`, `table`, `select`, `from`, `where`, and the digit-first `1x`
    are accepted by the rule `identifier` (which is also the rule of aliases), and the storage engine does
    not accept them as bare aliases (`bareAliasOk`, the table re-validated on the engine by every run):
    candidate #29, confirmed on the real code (corpus/C14/sql_keywords.ops). `name1` is accepted by both. -/
theorem C14_identifier_admits_reserved_words :
    (∀ w ∈ [['g','r','o','u','p'], ['o','r','d','e','r'], ['i','n','d','e','x'], ['t','a','b','l','e'],
            ['s','e','l','e','c','t'], ['f','r','o','m'], ['w','h','e','r','e'], ['1','x'], ['G','r','o','u','p']],
      matchesAll Gen.queryGrammar 60 Gen.query_identifier w = some true ∧ bareAliasOk w = false) ∧
    (matchesAll Gen.queryGrammar 60 Gen.query_identifier ['n','a','m','e','1'] = some true ∧
      bareAliasOk ['n','a','m','e','1'] = true) ∧
    matchesAll Gen.queryGrammar 60 Gen.query_identifier ['a',' ','b'] = some false := by
  decide

/-- every reserved word of the table is refused as a bare alias, in any ASCII case of its first letter -/
theorem C14_reserved_words_refused : ∀ w ∈ reservedAlias, bareAliasOk w = false := by decide

/-! ### (4) frame lengths read from the wire (T5) -/

/-- **C14 (first frame is bounded), intended behaviour**: a frame longer than `max_buffer_size` is refused -/
theorem C14_first_frame_bounded (len maxBuffer : Nat) (h : maxBuffer < len) :
    firstFrameAccepted Defects.none len maxBuffer = false := by
  simp [firstFrameAccepted, Defects.none]; omega

/-- **C14_breaks_unboundedFirstFrame** (endpoint.rs:353-355, candidate #29, confirmed on the real code with a
    QUIC client on localhost: corpus/C14/first_frame.ops): the acceptor keeps a connection whose first frame
    announces 1 GiB with a 1 MiB buffer limit (and the process grows by that much before any authentication). -/
theorem C14_breaks_unboundedFirstFrame : firstFrameAccepted Defects.beforeFixes 0x40000000 0x100000 = true := by decide

/-- **C14 (every frame length is bounded).** Over the table of `read_u32()` sites regenerated from
    endpoint.rs (T5): each of the five lengths read from the wire is compared with a bound, and the reader
    leaves, before the length sizes an allocation or a slice (full statement since 10c32e2; before it the
    first frame of an accepted connection was the exception, see `C14_breaks_unboundedFirstFrame`). -/
theorem C14_frames_bounded :
    (∀ s ∈ Gen.frameSites, s.bounded = true ∧ s.use ≠ "?") ∧ Gen.frameSites.length = 5 := by decide

/-! ### non-vacuity -/

-- admitted cells exist for every field type, and refused ones too
example : admission .var .json true (.str false true) = .admitted ∧ bind Defects.none .json (.str false true) = .stored ∧
    admission .var .b64 false (.str false true) = .invalidBase64 ∧ admission .lit .int false .float = .invalidFieldType := by decide

example : importVerifyingKey Defects.none (some 1) 33 = .reachesDalek ∧
    importVerifyingKey Defects.none none 0 = .errKeyLength := by decide

example : poolAlive true 4 3 = true ∧ poolAlive true 4 4 = false := by decide

example : dateInRange 0 = true ∧ dateInRange 1700000000000 = true ∧ dateInRange (-8334601228800000) = true ∧
    dateInRange (8210266876799999 - 86400000) = true := by decide

end Discret.Adm
