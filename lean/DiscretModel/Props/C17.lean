import DiscretModel.Lemmas.FtsRun
/-
C17 — Full-text search returns exactly the rows whose current text matches.

Model: `Model/Fts.lean` (index = set of (slot, word); the maintenance rule of `Node::write`; slots assigned
as SQLite assigns rowids; search = rows joined on slot with the index). Statements quantify over every
history, any number of sites, rows, words and model versions — no bound.
-/
namespace Discret.Fts

/-- **C17 — full statement, intended behaviour (`Defects.none`).** After ANY history of creations, updates
    changing or removing text, deletions (followed or not by creations that reuse the slot), model versions
    toggling indexing and ingestions of new rows or newer versions, on EVERY site, for every entity the
    engine indexes and every word: the search returns exactly the rows whose current text contains the word. -/
theorem C17_search_exact (n : Nat) (ops : List Op) :
    ∀ s, s ∈ (runOps (init Defects.none n) ops).1.sites →
      ∀ e, s.indexOn e = true → ∀ t, search s e t = matching s e t := by
  intro s hs e he t
  have := runOps_ginv ops (init Defects.none n) (ginv_init _ _) (Or.inl ⟨rfl, rfl⟩)
  exact search_eq_matching (this.1 s hs) e he t

/-- **C17 (search placed on a nested field), intended behaviour.** After any history, a search placed on the
    sub-selection `kids` of `Doc` returns, under every parent, exactly the children whose current text contains the
    word — the child's text, never the parent's. -/
theorem C17_nested_search_exact (n : Nat) (ops : List Op) :
    ∀ s, s ∈ (runOps (init Defects.none n) ops).1.sites →
      s.indexOn 0 = true → ∀ t, nsearch s t = nmatching s t := by
  intro s hs he t
  have := runOps_ginv ops (init Defects.none n) (ginv_init _ _) (Or.inl ⟨rfl, rfl⟩)
  exact nsearch_eq_nmatching (this.1 s hs) he t

/-- **C17 (which entities): with `Defects.none`, "the engine indexes `e`" is "the model version in force
    declares an index for `e`"**, on every site after any history. -/
theorem C17_flag_follows_model (n : Nat) (ops : List Op) :
    ∀ s, s ∈ (runOps (init Defects.none n) ops).1.sites → s.indexOn = declaredOn s.declared := by
  have key : ∀ (ops : List Op) (st : State), st.d.toggleIgnored = false → (∀ s, s ∈ st.sites → FlagOK s) →
      ∀ s, s ∈ (runOps st ops).1.sites → FlagOK s := by
    intro ops
    induction ops with
    | nil => intro st _ h; exact h
    | cons op rest ih =>
      intro st hd h
      simp only [runOps]
      exact ih (step st op).1 (by rw [step_d]; exact hd) (step_flag st hd h op)
  apply key ops (init Defects.none n) rfl
  intro s hs
  rw [(List.mem_replicate.mp hs).2]
  rfl

/-- **C17_partial — the code as implemented.** For histories made of local creations, local updates
    (changing or removing text), model versions and searches — on any number of sites, but without
    deletions and without ingestion — the search is exact for every entity the engine indexes.
    Missing for the full statement: deletions (stale entries in a reusable slot), ingested rows and
    versions (written with indexing off), and index flags changed by a later model version (ignored):
    witnesses below. -/
theorem C17_partial (n : Nat) (ops : List Op) (hg : ∀ op, op ∈ ops → op.localOnly = true) :
    ∀ s, s ∈ (runOps (init Defects.asImplemented n) ops).1.sites →
      ∀ e, s.indexOn e = true → ∀ t, search s e t = matching s e t := by
  intro s hs e he t
  have := runOps_ginv ops (init Defects.asImplemented n) (ginv_init _ _) (Or.inr hg)
  exact search_eq_matching (this.1 s hs) e he t

/-- the nested search under the same guard as `C17_partial` (references between local rows included) -/
theorem C17_nested_partial (n : Nat) (ops : List Op) (hg : ∀ op, op ∈ ops → op.localOnly = true) :
    ∀ s, s ∈ (runOps (init Defects.asImplemented n) ops).1.sites →
      s.indexOn 0 = true → ∀ t, nsearch s t = nmatching s t := by
  intro s hs he t
  have := runOps_ginv ops (init Defects.asImplemented n) (ginv_init _ _) (Or.inr hg)
  exact nsearch_eq_nmatching (this.1 s hs) he t

/-! ### where the code as implemented breaks the full statement (each confirmed on the real engine) -/

/-- what a site answers / should answer for entity `e` and word `t` -/
def probe (st : State) (e : Ent) (t : Word) : List (List Nat × List Nat) :=
  st.sites.map fun s => (search s e t, matching s e t)

/-- **C17_breaks_deleteLeavesIndex** (`node.rs:297-301`, candidates 24 and 31). Row 1 ("w5") is deleted,
    its index entry stays; row 2 ("w6") is created in the slot SQLite hands out again; the engine accepts the
    second entry for the slot (no constraint error), so searching "w5" returns row 2: a stale hit. -/
theorem C17_breaks_deleteLeavesIndex :
    probe (runOps (init Defects.asImplemented 1) [.new 0 1 0 [5], .del 0 1, .new 0 2 0 [6]]).1 0 5
      = [([2], [])] := by decide

theorem C17_fixed_deleteLeavesIndex :
    probe (runOps (init Defects.none 1) [.new 0 1 0 [5], .del 0 1, .new 0 2 0 [6]]).1 0 5 = [([], [])] := by
  decide

/-- **C17_breaks_ingestUnindexed (insert)** (`node.rs:538-568`). A row received from a peer is written
    with indexing off: site 1 holds row 1 ("w5") and does not find it. -/
theorem C17_breaks_ingestUnindexed_insert :
    probe (runOps (init Defects.asImplemented 2) [.new 0 1 0 [5], .pull 1 0]).1 0 5
      = [([1], [1]), ([], [1])] := by decide

/-- **C17_breaks_ingestUnindexed (update)**. Site 0 indexed row 1 as "w5"; the newer version "w6" made
    on site 1 comes back through synchronisation without touching the index: on site 0 "w5" still finds
    the row (stale) and "w6" does not (missed). -/
theorem C17_breaks_ingestUnindexed_update :
    let st := (runOps (init Defects.asImplemented 2) [.new 0 1 0 [5], .pull 1 0, .upd 1 1 [6], .pull 0 1]).1
    (probe st 0 5).head? = some ([1], []) ∧ (probe st 0 6).head? = some ([], [1]) := by decide

theorem C17_fixed_ingestUnindexed :
    let st := (runOps (init Defects.none 2) [.new 0 1 0 [5], .pull 1 0, .upd 1 1 [6], .pull 0 1]).1
    probe st 0 5 = [([], []), ([], [])] ∧ probe st 0 6 = [([1], [1]), ([1], [1])] := by decide

/-- **C17_breaks_toggleIgnored** (`data_model_parser.rs`, `Entity::update`). `Note` (entity 1) starts
    without index; model version 2 declares one; the engine keeps the old flag, so rows of `Note` —
    even those written afterwards — are never found. -/
theorem C17_breaks_toggleIgnored :
    let st := (runOps (init Defects.asImplemented 1) [.model 0 2, .new 0 1 1 [5]]).1
    (st.sites.map fun s => declaredOn s.declared 1) = [true] ∧ probe st 1 5 = [([], [1])] := by decide

theorem C17_fixed_toggleIgnored :
    probe (runOps (init Defects.none 1) [.new 0 1 1 [5], .model 0 2, .new 0 2 1 [5, 6]]).1 1 5
      = [([1, 2], [1, 2])] := by decide

/-! ### non-vacuity -/

-- the engine indexes `Doc` (entity 0) from the start, on every site
example : ((init Defects.asImplemented 2).sites.map fun s => s.indexOn 0) = [true, true] := by decide

-- a history meeting the guard of `C17_partial`, with rows that match, rows that stopped matching and a removed text
example : (∀ op, op ∈ [Op.new 0 1 0 [5, 6], .new 0 2 0 [6], .upd 0 1 [7], .clr 0 2, .new 0 3 0 [6, 7], .model 0 1]
      → op.localOnly = true) ∧
    (runOps (init Defects.asImplemented 1)
      [.new 0 1 0 [5, 6], .new 0 2 0 [6], .upd 0 1 [7], .clr 0 2, .new 0 3 0 [6, 7], .model 0 1, .qall 0]).2.getLast?
      = some (.all [(0, 6, [3]), (0, 7, [1, 3])]) := by
  constructor
  · intro op h; simp only [List.mem_cons, List.not_mem_nil, or_false] at h
    rcases h with h | h | h | h | h | h <;> subst h <;> rfl
  · decide

-- nested search: parent 1 ("w5") references children 2 ("w6") and 3 ("w5 w7"); the parent's own text is not what counts
example : ((runOps (init Defects.asImplemented 1)
      [.new 0 1 0 [5], .new 0 2 0 [6], .new 0 3 0 [5, 7], .link 0 1 2, .link 0 1 3, .link 0 2 1, .qn 0 5, .qn 0 6]).2.drop 6)
    = [.nhits [(1, [3]), (2, [1])], .nhits [(1, [2])]] := by decide

-- a history with everything, intended behaviour: deletion + slot reuse, ingestion both ways, a toggle
example : probe (runOps (init Defects.none 2)
      [.new 0 1 0 [5], .new 0 2 0 [6], .del 0 2, .new 0 3 0 [7], .pull 1 0, .upd 1 1 [6, 5], .pull 0 1,
       .model 0 1, .model 0 0]).1 0 6 = [([1], [1]), ([1], [1])] := by decide

end Discret.Fts
