import DiscretModel.Lemmas.FtsRun
import DiscretModel.Lemmas.FtsSound
import DiscretModel.Lemmas.FtsJson
/-
C17 — Full-text search returns exactly the rows whose current text matches.

Model: `Model/Fts.lean` (index = set of (slot, word) + one document record per indexed slot; the maintenance rule of
`Node::write`; slots assigned as SQLite assigns rowids; search = rows joined on slot with the index; the text of a
row = `extract_json` of its JSON). Statements quantify over every history, any number of sites, rows, words and
model versions — no bound.

How the statements are organised: ONE theorem, `C17_full_of`, for any setting `d` of the switches that describe
where the code leaves the intended behaviour, over the histories the code handles with that setting
(`admissibleRun`, `flagSafeRun`: decidable, computed along the run). Its instances:
`Defects.none` — every history is admissible: the full statement (`C17_search_exact`, `C17_flag_follows_model`);
`Defects.asImplemented` — /repo as it is (`C17_asImplemented`): each repair of /repo turns one switch off and
thereby enlarges the class of histories, without any change to the theorem.
-/
namespace Discret.Fts

/-- **C17 for any setting of the switches — searches on the entities the engine indexes.** After any history
    made of operations the code handles with the switches `d` (`Op.admissible`: deletions once the deletion
    follows the index, ingestions once synchronised rows are indexed, model versions that change the flag of an
    entity without re-indexing only while that entity has no row at the site), on every site, for every entity the
    engine indexes and every word: the search returns exactly the rows whose current text contains the word. -/
theorem C17_search_exact_of (d : Defects) (n : Nat) (ops : List Op)
    (ha : admissibleRun (init d n) ops = true) :
    ∀ s, s ∈ (runOps (init d n) ops).1.sites →
      ∀ e, s.indexOn e = true → ∀ t, search s e t = matching s e t := by
  intro s hs e he t
  have := runOps_ginv ops (init d n) (ginv_init _ _) (fun _ => noTombs_init _ _) ha
  exact search_eq_matching (this.1 s hs) e he t

/-- the same for a search placed on the nested field `kids` of `Doc` -/
theorem C17_nested_search_exact_of (d : Defects) (n : Nat) (ops : List Op)
    (ha : admissibleRun (init d n) ops = true) :
    ∀ s, s ∈ (runOps (init d n) ops).1.sites →
      s.indexOn 0 = true → ∀ t, nsearch s t = nmatching s t := by
  intro s hs he t
  have := runOps_ginv ops (init d n) (ginv_init _ _) (fun _ => noTombs_init _ _) ha
  exact nsearch_eq_nmatching (this.1 s hs) he t

/-- **no search fails** along such a history: the engine never meets an index entry without its document record
    (SQLite would answer "database disk image is malformed" instead of a result set) -/
theorem C17_search_answers_of (d : Defects) (n : Nat) (ops : List Op)
    (ha : admissibleRun (init d n) ops = true) :
    ∀ s, s ∈ (runOps (init d n) ops).1.sites → ∀ t, poisoned s t = false := by
  intro s hs t
  have := runOps_ginv ops (init d n) (ginv_init _ _) (fun _ => noTombs_init _ _) ha
  exact not_poisoned (this.1 s hs) t

/-- **C17 for any setting of the switches — the full statement**: for every entity the model version in force
    DECLARES indexed (not only those the engine happens to index), after any history the code handles
    (`admissibleRun`) and whose model versions the engine's flags follow (`flagSafeRun`: any version once
    `Entity::update` copies the flag). -/
theorem C17_full_of (d : Defects) (n : Nat) (ops : List Op)
    (ha : admissibleRun (init d n) ops = true) (hf : flagSafeRun (init d n) ops = true) :
    ∀ s, s ∈ (runOps (init d n) ops).1.sites →
      ∀ e, declaredOn s.declared e = true → ∀ t, search s e t = matching s e t := by
  intro s hs e he t
  have hflag : s.indexOn = declaredOn s.declared := runOps_flag ops (init d n) (flagOK_init _ _) hf s hs
  exact C17_search_exact_of d n ops ha s hs e (by rw [hflag]; exact he) t

/-- **C17 — full statement, intended behaviour (`Defects.none`)**: the instance of `C17_search_exact_of` with
    every switch off, where EVERY history is admissible. After ANY history of creations, updates
    changing or removing text, deletions (followed or not by creations that reuse the slot), model versions
    toggling indexing and ingestions of new rows or newer versions, on EVERY site, for every entity the
    engine indexes and every word: the search returns exactly the rows whose current text contains the word. -/
theorem C17_search_exact (n : Nat) (ops : List Op) :
    ∀ s, s ∈ (runOps (init Defects.none n) ops).1.sites →
      ∀ e, s.indexOn e = true → ∀ t, search s e t = matching s e t :=
  C17_search_exact_of Defects.none n ops (admissibleRun_none ops _ rfl)

/-- **C17 (search placed on a nested field), intended behaviour.** After any history, a search placed on the
    sub-selection `kids` of `Doc` returns, under every parent, exactly the children whose current text contains the
    word — the child's text, never the parent's. -/
theorem C17_nested_search_exact (n : Nat) (ops : List Op) :
    ∀ s, s ∈ (runOps (init Defects.none n) ops).1.sites →
      s.indexOn 0 = true → ∀ t, nsearch s t = nmatching s t :=
  C17_nested_search_exact_of Defects.none n ops (admissibleRun_none ops _ rfl)

/-- **C17 (which entities): with `Defects.none`, "the engine indexes `e`" is "the model version in force
    declares an index for `e`"**, on every site after any history. -/
theorem C17_flag_follows_model (n : Nat) (ops : List Op) :
    ∀ s, s ∈ (runOps (init Defects.none n) ops).1.sites → s.indexOn = declaredOn s.declared :=
  runOps_flag ops (init Defects.none n) (flagOK_init _ _) (flagSafeRun_of_followed ops _ rfl)

/-- the two together: **with every switch off the full statement holds after every history** (corollary of
    `C17_full_of`) -/
theorem C17_full_none (n : Nat) (ops : List Op) :
    ∀ s, s ∈ (runOps (init Defects.none n) ops).1.sites →
      ∀ e, declaredOn s.declared e = true → ∀ t, search s e t = matching s e t :=
  C17_full_of Defects.none n ops (admissibleRun_none ops _ rfl) (flagSafeRun_of_followed ops _ rfl)

/-- **C17 — /repo as it is (`Defects.asImplemented`)**: the full statement over the histories the code handles.
    With the switches as they stand in `Model/Fts.lean` the guards read: no deletion, no ingestion, no model
    version that changes a declaration. Each repair proposed in `findings/C17-*.patch` turns one switch off
    (`.verif.patch`) and the same theorem then covers deletions (locally and through synchronised deletion
    records, with reuse of the slot) / ingestion of new rows and newer versions / every model version that
    changes the flag of an entity while it has no row at the site. What stays excluded after the three repairs:
    a model version that switches the index of an entity on or off while rows of it exist (nothing is re-indexed:
    `C17_breaks_toggleNoReindex`). -/
theorem C17_asImplemented (n : Nat) (ops : List Op)
    (ha : admissibleRun (init Defects.asImplemented n) ops = true)
    (hf : flagSafeRun (init Defects.asImplemented n) ops = true) :
    ∀ s, s ∈ (runOps (init Defects.asImplemented n) ops).1.sites →
      ∀ e, declaredOn s.declared e = true → ∀ t, search s e t = matching s e t :=
  C17_full_of Defects.asImplemented n ops ha hf

/-- **C17_partial — the code as implemented, entities the ENGINE indexes.** For histories made of local creations,
    local updates (changing or removing text), model versions and searches — on any number of sites, but without
    deletions and without ingestion — the search is exact for every entity the engine indexes.
    The second hypothesis is void as long as `Entity::update` ignores later flags (`Or.inl rfl`); once it copies
    them, a model version must not change the flag of an entity that has rows (`admissibleRun`).
    Missing for the full statement: see `C17_asImplemented` and the witnesses below. -/
theorem C17_partial (n : Nat) (ops : List Op) (hg : ∀ op, op ∈ ops → op.localOnly = true)
    (hm : Defects.asImplemented.toggleIgnored = true ∨ admissibleRun (init Defects.asImplemented n) ops = true) :
    ∀ s, s ∈ (runOps (init Defects.asImplemented n) ops).1.sites →
      ∀ e, s.indexOn e = true → ∀ t, search s e t = matching s e t := by
  apply C17_search_exact_of
  rcases hm with hm | hm
  · exact admissibleRun_of_localOnly ops _ hm hg
  · exact hm

/-- the nested search under the same guard as `C17_partial` (references between local rows included) -/
theorem C17_nested_partial (n : Nat) (ops : List Op) (hg : ∀ op, op ∈ ops → op.localOnly = true)
    (hm : Defects.asImplemented.toggleIgnored = true ∨ admissibleRun (init Defects.asImplemented n) ops = true) :
    ∀ s, s ∈ (runOps (init Defects.asImplemented n) ops).1.sites →
      s.indexOn 0 = true → ∀ t, nsearch s t = nmatching s t := by
  apply C17_nested_search_exact_of
  rcases hm with hm | hm
  · exact admissibleRun_of_localOnly ops _ hm hg
  · exact hm

/-! ### the half that needs no guard on the history -/

/-- **C17_no_stale_hit_of — "no stale text matches", after EVERY history.** Once a row that goes takes its index
    entries with it (`deleteLeavesIndex` off: local deletions and synchronised deletion records) and `Node::write`
    removes the previous text exactly when the row is in the index (`deleteUnguarded` off) — and WHATEVER the other
    switches are: synchronised rows indexed or not, later model versions ignored or followed, with or without rows —
    after any history, on every site, for every entity (indexed or not) and every word: every row the search returns
    has the word in its current text, and the search answers (it never meets an index entry without its document
    record). What can still go wrong then is only the other half: a row whose text matches is not returned. -/
theorem C17_no_stale_hit_of (d : Defects) (hd1 : d.deleteLeavesIndex = false) (hd2 : d.deleteUnguarded = false)
    (n : Nat) (ops : List Op) :
    ∀ s, s ∈ (runOps (init d n) ops).1.sites → ∀ e t,
      (∀ k, k ∈ search s e t → k ∈ matching s e t) ∧ poisoned s t = false := by
  intro s hs e t
  have := runOps_w ops (init d n) hd1 hd2 (allW_init d n) s hs
  exact ⟨search_sub_matching this e t, not_poisoned_w this t⟩

/-- **C17_no_stale_hit_partial — /repo as it is.** The instance for `Defects.asImplemented`: its two hypotheses are
    statements about the switches in `Model/Fts.lean` — false today (both defects are present: the theorem says
    nothing yet), `rfl` once the repairs `C17-delete-previous-text-when-indexed` and `C17-deleted-row-leaves-index`
    are in /repo and their `.verif.patch`es applied. `_partial`: half of the property (no stale hit, no failing
    search), for every history; the other half is `C17_asImplemented`, for admissible histories. -/
theorem C17_no_stale_hit_partial (hd1 : Defects.asImplemented.deleteLeavesIndex = false)
    (hd2 : Defects.asImplemented.deleteUnguarded = false) (n : Nat) (ops : List Op) :
    ∀ s, s ∈ (runOps (init Defects.asImplemented n) ops).1.sites → ∀ e t,
      (∀ k, k ∈ search s e t → k ∈ matching s e t) ∧ poisoned s t = false :=
  C17_no_stale_hit_of Defects.asImplemented hd1 hd2 n ops

/-! ### the text of a row -/

/-- **`extract_json`** (`node.rs:1004-1025`): the indexed text of a row is the strings of its JSON value at any
    depth — array elements and object VALUES, never keys, never numbers, booleans or null — in the order of the
    value, each followed by one space. -/
theorem C17_text_is_the_strings (j : Json) :
    extractJson j = (strings j).flatMap fun s => s ++ [' '] := extractJson_eq j

/-! ### where the code breaks the full statement (each confirmed on the real engine)

The witnesses are stated on `Defects.beforeFix` (the code before the repairs of `findings/C17-*.patch`), and for
each switch on the setting where ONLY that switch is on. -/

/-- what a site answers / should answer for entity `e` and word `t` -/
def probe (st : State) (e : Ent) (t : Word) : List (List Nat × List Nat) :=
  st.sites.map fun s => (search s e t, matching s e t)

def onlyDelete : Defects := { Defects.none with deleteLeavesIndex := true }
def onlyIngest : Defects := { Defects.none with ingestUnindexed := true }
def onlyToggle : Defects := { Defects.none with toggleIgnored := true }
/-- the four repairs made: what stays of `Defects.beforeFix` -/
def afterFixes : Defects := { Defects.none with toggleNoReindex := true }

/-- **C17_breaks_deleteLeavesIndex** (`node.rs:297-301`, candidates 24 and 31). Row 1 ("w5") is deleted,
    its index entry stays; row 2 ("w6") is created in the slot SQLite hands out again; the engine accepts the
    second entry for the slot (no constraint error), so searching "w5" returns row 2: a stale hit. -/
theorem C17_breaks_deleteLeavesIndex :
    probe (runOps (init Defects.beforeFix 1) [.new 0 1 0 [5], .del 0 1, .new 0 2 0 [6]]).1 0 5 = [([2], [])] ∧
    probe (runOps (init onlyDelete 1) [.new 0 1 0 [5], .del 0 1, .new 0 2 0 [6]]).1 0 5 = [([2], [])] := by
  decide

/-- the same through a synchronised deletion record: site 1 holds row 1 in its highest slot, receives the
    deletion, then creates row 2 in that slot -/
theorem C17_breaks_deleteLeavesIndex_synchronised :
    probe (runOps (init onlyDelete 2) [.new 0 1 0 [5], .pull 1 0, .del 0 1, .pull 1 0, .new 1 2 0 [6]]).1 0 5
      = [([], []), ([2], [])] := by decide

theorem C17_fixed_deleteLeavesIndex :
    probe (runOps (init Defects.none 1) [.new 0 1 0 [5], .del 0 1, .new 0 2 0 [6]]).1 0 5 = [([], [])] ∧
    probe (runOps (init Defects.none 2) [.new 0 1 0 [5], .pull 1 0, .del 0 1, .pull 1 0, .new 1 2 0 [6]]).1 0 5
      = [([], []), ([], [])] := by
  decide

/-- **C17_breaks_ingestUnindexed (insert)** (`node.rs:538-568`). A row received from a peer is written
    with indexing off: site 1 holds row 1 ("w5") and does not find it. -/
theorem C17_breaks_ingestUnindexed_insert :
    probe (runOps (init Defects.beforeFix 2) [.new 0 1 0 [5], .pull 1 0]).1 0 5 = [([1], [1]), ([], [1])] ∧
    probe (runOps (init onlyIngest 2) [.new 0 1 0 [5], .pull 1 0]).1 0 5 = [([1], [1]), ([], [1])] := by decide

/-- **C17_breaks_ingestUnindexed (update)**. Site 0 indexed row 1 as "w5"; the newer version "w6" made
    on site 1 comes back through synchronisation without touching the index: on site 0 "w5" still finds
    the row (stale) and "w6" does not (missed). With that switch alone (`Node::write` looking before it deletes) the
    version takes the old entry away: "w6" is missed, "w5" is no longer found. -/
theorem C17_breaks_ingestUnindexed_update :
    let st := (runOps (init Defects.beforeFix 2) [.new 0 1 0 [5], .pull 1 0, .upd 1 1 [6], .pull 0 1]).1
    let st' := (runOps (init onlyIngest 2) [.new 0 1 0 [5], .pull 1 0, .upd 1 1 [6], .pull 0 1]).1
    (probe st 0 5).head? = some ([1], []) ∧ (probe st 0 6).head? = some ([], [1]) ∧
    (probe st' 0 5).head? = some ([], []) ∧ (probe st' 0 6).head? = some ([], [1]) := by decide

theorem C17_fixed_ingestUnindexed :
    let st := (runOps (init Defects.none 2) [.new 0 1 0 [5], .pull 1 0, .upd 1 1 [6], .pull 0 1]).1
    probe st 0 5 = [([], []), ([], [])] ∧ probe st 0 6 = [([1], [1]), ([1], [1])] := by decide

/-- **C17_breaks_toggleIgnored** (`data_model_parser.rs`, `Entity::update`). `Note` (entity 1) starts
    without index; model version 2 declares one; the engine keeps the old flag, so rows of `Note` —
    even those written afterwards — are never found. -/
theorem C17_breaks_toggleIgnored :
    let st := (runOps (init Defects.beforeFix 1) [.model 0 2, .new 0 1 1 [5]]).1
    let st' := (runOps (init onlyToggle 1) [.model 0 2, .new 0 1 1 [5]]).1
    (st.sites.map fun s => declaredOn s.declared 1) = [true] ∧ probe st 1 5 = [([], [1])] ∧
    (st'.sites.map fun s => declaredOn s.declared 1) = [true] ∧ probe st' 1 5 = [([], [1])] := by decide

theorem C17_fixed_toggleIgnored :
    probe (runOps (init Defects.none 1) [.new 0 1 1 [5], .model 0 2, .new 0 2 1 [5, 6]]).1 1 5
      = [([1, 2], [1, 2])] ∧
    -- the repair of /repo (the flag is copied): rows written after the version that declares the index are found
    probe (runOps (init afterFixes 1) [.model 0 2, .new 0 1 1 [5]]).1 1 5 = [([1], [1])] := by decide

/-- **C17_breaks_toggleNoReindex — what the four repairs leave.** `Entity::update` copies the flag and nothing
    else: (1) row 1 of `Note`, written while `Note` was declared without index, is not found once version 2
    declares one; (2) row 1 indexed as "w5", rewritten as "w6" while the index was declared off, is not found by
    "w6" once the index is declared again (nor by "w5": the rewrite took the old entry away — without the guard in
    `Node::write` it would still be found by "w5"). Missed rows only, never a stale hit: `C17_no_stale_hit_of`. -/
theorem C17_breaks_toggleNoReindex :
    probe (runOps (init afterFixes 1) [.new 0 1 1 [5], .model 0 2]).1 1 5 = [([], [1])] ∧
    (let st := (runOps (init afterFixes 1) [.model 0 2, .new 0 1 1 [5], .model 0 0, .upd 0 1 [6], .model 0 2]).1
     probe st 1 5 = [([], [])] ∧ probe st 1 6 = [([], [1])]) ∧
    (let st := (runOps (init { afterFixes with deleteUnguarded := true } 1)
        [.model 0 2, .new 0 1 1 [5], .model 0 0, .upd 0 1 [6], .model 0 2]).1
     probe st 1 5 = [([1], [])] ∧ probe st 1 6 = [([], [1])]) := by decide

/-- **C17_breaks_deleteUnguarded — why `Node::write` must look before it deletes.** On its own the switch breaks
    nothing; together with another source of disagreement between the index and the rows it turns a wrong answer
    into no answer, or keeps a stale one:
    (1) with the deletion repaired and flags that follow the model: row 1 is indexed as "w2", rewritten as "w3" while
    `Doc` is declared without index (the entry "w2" stays), then deleted — the 'delete' names "w3", the document
    record goes, the entry "w2" stays: every search for "w2" FAILS from then on; with the guard the rewrite
    removes the entry and nothing fails;
    (2) with synchronised rows unindexed: the version "w6" received for row 1 (indexed as "w5") leaves "w5" in the
    index (stale hit); with the guard the entry goes with the version (the row is then missed, not wrongly found). -/
theorem C17_breaks_deleteUnguarded :
    ((runOps (init { afterFixes with deleteUnguarded := true } 1)
        [.new 0 1 0 [2], .model 0 1, .upd 0 1 [3], .del 0 1]).1.sites.map fun s => poisoned s 2) = [true] ∧
    ((runOps (init afterFixes 1)
        [.new 0 1 0 [2], .model 0 1, .upd 0 1 [3], .del 0 1]).1.sites.map fun s => poisoned s 2) = [false] ∧
    (probe (runOps (init { onlyIngest with deleteUnguarded := true } 2)
        [.new 0 1 0 [5], .pull 1 0, .upd 1 1 [6], .pull 0 1]).1 0 5).head? = some ([1], []) ∧
    (probe (runOps (init onlyIngest 2)
        [.new 0 1 0 [5], .pull 1 0, .upd 1 1 [6], .pull 0 1]).1 0 5).head? = some ([], []) := by decide

/-! ### non-vacuity -/

-- the engine indexes `Doc` (entity 0) from the start, on every site
example : ((init Defects.asImplemented 2).sites.map fun s => s.indexOn 0) = [true, true] := by decide

-- a history meeting the guards of `C17_asImplemented` and `C17_partial` whatever repairs have been made, with rows
-- that match, rows that stopped matching and a removed text
example : (∀ op, op ∈ [Op.new 0 1 0 [5, 6], .new 0 2 0 [6], .upd 0 1 [7], .clr 0 2, .new 0 3 0 [6, 7], .model 0 0]
      → op.localOnly = true) ∧
    admissibleRun (init Defects.asImplemented 1)
      [.new 0 1 0 [5, 6], .new 0 2 0 [6], .upd 0 1 [7], .clr 0 2, .new 0 3 0 [6, 7], .model 0 0] = true ∧
    flagSafeRun (init Defects.asImplemented 1)
      [.new 0 1 0 [5, 6], .new 0 2 0 [6], .upd 0 1 [7], .clr 0 2, .new 0 3 0 [6, 7], .model 0 0] = true ∧
    (runOps (init Defects.asImplemented 1)
      [.new 0 1 0 [5, 6], .new 0 2 0 [6], .upd 0 1 [7], .clr 0 2, .new 0 3 0 [6, 7], .model 0 0, .qall 0]).2.getLast?
      = some (.all [(0, 6, some [3]), (0, 7, some [1, 3])]) := by
  refine ⟨?_, by decide, by decide, by decide⟩
  intro op h; simp only [List.mem_cons, List.not_mem_nil, or_false] at h
  rcases h with h | h | h | h | h | h <;> subst h <;> rfl

-- `C17_partial` with model versions that the engine ignores (the code before the flag repair)
example : admissibleRun (init Defects.beforeFix 1)
      [.new 0 1 0 [5, 6], .new 0 2 1 [6], .model 0 3, .upd 0 1 [7], .model 0 1, .new 0 3 0 [6, 7]] = true := by decide

-- the classes of histories each repair adds (`Defects.beforeFix` with one, two, three switches turned off):
-- (a) deletions, locally, with reuse of the slot
example : admissibleRun (init { Defects.beforeFix with deleteLeavesIndex := false } 1)
      [.new 0 1 0 [5], .new 0 2 0 [6], .del 0 2, .new 0 3 0 [7], .del 0 1, .upd 0 3 [5, 7]] = true ∧
    probe (runOps (init { Defects.beforeFix with deleteLeavesIndex := false } 1)
      [.new 0 1 0 [5], .new 0 2 0 [6], .del 0 2, .new 0 3 0 [7], .del 0 1, .upd 0 3 [5, 7]]).1 0 5 = [([3], [3])] := by
  decide

-- (b) ingestion of new rows and of newer versions, both ways
example : admissibleRun (init { Defects.beforeFix with ingestUnindexed := false } 2)
      [.new 0 1 0 [5], .new 0 2 0 [6], .pull 1 0, .upd 1 1 [6, 7], .new 1 3 0 [5], .pull 0 1] = true ∧
    probe (runOps (init { Defects.beforeFix with ingestUnindexed := false } 2)
      [.new 0 1 0 [5], .new 0 2 0 [6], .pull 1 0, .upd 1 1 [6, 7], .new 1 3 0 [5], .pull 0 1]).1 0 6
      = [([2, 1], [2, 1]), ([2, 1], [2, 1])] := by decide

-- (a)+(b) synchronised deletion records, the slot reused by a synchronised row
example : admissibleRun (init { Defects.beforeFix with deleteLeavesIndex := false, ingestUnindexed := false } 2)
      [.new 0 1 0 [5], .pull 1 0, .del 0 1, .new 0 2 0 [6], .pull 1 0] = true ∧
    probe (runOps (init { Defects.beforeFix with deleteLeavesIndex := false, ingestUnindexed := false } 2)
      [.new 0 1 0 [5], .pull 1 0, .del 0 1, .new 0 2 0 [6], .pull 1 0]).1 0 5 = [([], []), ([], [])] := by decide

-- (c) a model version that declares an index for an entity that has no row yet, then rows of it, everything else too
example : admissibleRun (init afterFixes 2)
      [.new 0 1 0 [5], .model 0 2, .new 0 2 1 [5, 6], .model 1 2, .pull 1 0, .del 0 1, .upd 1 2 [6], .pull 0 1,
       .model 1 2] = true ∧
    flagSafeRun (init afterFixes 2)
      [.new 0 1 0 [5], .model 0 2, .new 0 2 1 [5, 6], .model 1 2, .pull 1 0, .del 0 1, .upd 1 2 [6], .pull 0 1,
       .model 1 2] = true ∧
    probe (runOps (init afterFixes 2)
      [.new 0 1 0 [5], .model 0 2, .new 0 2 1 [5, 6], .model 1 2, .pull 1 0, .del 0 1, .upd 1 2 [6], .pull 0 1]).1 1 6
      = [([2], [2]), ([2], [2])] := by decide

-- and a model version the guard refuses after the repairs: `Note` gets an index while row 1 of it exists
example : admissibleRun (init afterFixes 1) [.new 0 1 1 [5], .model 0 2] = false := by decide

-- `C17_no_stale_hit_of` on a history outside every guard, with the two repairs it needs and every other defect present
-- (unindexed synchronised rows, ignored model versions): rows are missed (site 1: row 1), none is wrongly found
example : admissibleRun (init { Defects.beforeFix with deleteLeavesIndex := false, deleteUnguarded := false } 2)
      [.new 0 1 0 [5], .new 0 2 0 [6], .pull 1 0, .upd 1 2 [7], .pull 0 1, .del 0 1, .new 0 3 0 [6], .model 0 3] = false ∧
    probe (runOps (init { Defects.beforeFix with deleteLeavesIndex := false, deleteUnguarded := false } 2)
      [.new 0 1 0 [5], .new 0 2 0 [6], .pull 1 0, .upd 1 2 [7], .pull 0 1, .del 0 1, .new 0 3 0 [6], .model 0 3]).1 0 6
      = [([3], [3]), ([], [])] ∧
    probe (runOps (init { Defects.beforeFix with deleteLeavesIndex := false, deleteUnguarded := false } 2)
      [.new 0 1 0 [5], .new 0 2 0 [6], .pull 1 0, .upd 1 2 [7], .pull 0 1, .del 0 1, .new 0 3 0 [6], .model 0 3]).1 0 5
      = [([], []), ([], [1])] := by decide

-- nested search: parent 1 ("w5") references children 2 ("w6") and 3 ("w5 w7"); the parent's own text is not what counts
example : ((runOps (init Defects.asImplemented 1)
      [.new 0 1 0 [5], .new 0 2 0 [6], .new 0 3 0 [5, 7], .link 0 1 2, .link 0 1 3, .link 0 2 1, .qn 0 5, .qn 0 6]).2.drop 6)
    = [.nhits [(1, [3]), (2, [1])], .nhits [(1, [2])]] := by decide

-- a history with everything, intended behaviour: deletion + slot reuse, ingestion both ways, a toggle
example : probe (runOps (init Defects.none 2)
      [.new 0 1 0 [5], .new 0 2 0 [6], .del 0 2, .new 0 3 0 [7], .pull 1 0, .upd 1 1 [6, 5], .pull 0 1,
       .model 0 1, .model 0 0]).1 0 6 = [([1], [1]), ([1], [1])] := by decide

-- `extract_json` on `{"a":"x","b":[1,"y",{"k":"z"},null],"c":true}`: keys, numbers, booleans and null give nothing
example : extractJson (.obj (.cons ['a'] (.str ['x']) (.cons ['b']
      (.arr (.cons (.num 1) (.cons (.str ['y']) (.cons (.obj (.cons ['k'] (.str ['z']) .nil)) (.cons .null .nil)))))
      (.cons ['c'] (.bool true) .nil)))) = "x y z ".toList := by decide

end Discret.Fts
