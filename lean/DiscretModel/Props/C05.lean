import DiscretModel.Lemmas.QueryOrder
/-
C05 — Query results equal a direct evaluation of the query over the data.

`Model/Query.lean` is the direct evaluation: `eval` is written from the meaning of the language and never
mentions SQL. The statement "the SQL compiler of `query.rs` implements `eval`" is NOT a theorem here — it
would need a formal semantics of the SQLite subset the compiler targets. It is decided on every run by the
differential tie (`checks/C05.py`: generated data models, data sets and queries; the compiled evaluator and
the real engine must return the same JSON).

What is proved are laws of the evaluator that make it a specification one can read — limits are `take`/`drop`,
filters are `List.filter` and commute, the result order is a sort — and the paging property, for every data
set, every query of the covered subset, every page size: no bound anywhere.
-/
namespace Discret.Query

/-! ## The evaluator is a readable specification -/

/-- **`first n` / `skip k` are `take` / `drop`** of the ordered list of selected rows (`first 0` = no limit). -/
theorem C05_limit_is_take_drop (d : Defects) (s : Schema) (data : Data) (fuel : Nat) (key : String) (q : Query)
    (cands : List Row) :
    evalRows d s data (fuel + 1) key q cands true =
      if q.first = 0 then (evalRows d s data (fuel + 1) key q cands false).drop q.skip
      else ((evalRows d s data (fuel + 1) key q cands false).drop q.skip).take q.first := by
  rw [evalRows_limited, limit_eq]

/-- **Filters are `List.filter`**: a row is selected (limits and cursors aside) iff it is a candidate of the
    query's entity, every mandatory sub-selection selects something for it, and it satisfies every filter. -/
theorem C05_selected_iff (d : Defects) (s : Schema) (data : Data) (fuel : Nat) (key : String) (q : Query)
    (cands : List Row) (r : Row) :
    r ∈ evalRows d s data (fuel + 1) key (fullQuery q) cands false ↔
      r ∈ cands ∧ r.ent = q.ent ∧ (∀ sel ∈ q.sels, subPresent d s data fuel key r sel = true) ∧
        ∀ f ∈ q.filters, holds d s data fuel key (fullQuery q) r f = true := by
  rw [evalRows_fullQuery, mem_sortBy, List.mem_filter]
  simp only [Bool.and_eq_true, decide_eq_true_eq, List.all_eq_true]
  constructor
  · rintro ⟨h1, ⟨h2, h3⟩, h4⟩; exact ⟨h1, h2, h3, h4⟩
  · rintro ⟨h1, h2, h3, h4⟩; exact ⟨h1, ⟨h2, h3⟩, h4⟩

/-- **Filters commute**: the order in which the filters are written does not matter. -/
theorem C05_filters_commute (d : Defects) (s : Schema) (data : Data) (fuel : Nat) (key : String)
    (ent : Nat) (sels : List Sel) (fs gs : List Filter) (os : List Order) (first skip : Nat) (af bf : List Val)
    (cands : List Row) (lim : Bool) :
    evalRows d s data (fuel + 1) key (Query.mk ent sels (fs ++ gs) os first skip af bf) cands lim =
    evalRows d s data (fuel + 1) key (Query.mk ent sels (gs ++ fs) os first skip af bf) cands lim := by
  have hq : ∀ r, holds d s data fuel key (Query.mk ent sels (fs ++ gs) os first skip af bf) r =
      holds d s data fuel key (Query.mk ent sels (gs ++ fs) os first skip af bf) r :=
    fun r => funext fun flt => holds_query_irrel ..
  have hp : ∀ r, (fs ++ gs).all (holds d s data fuel key (Query.mk ent sels (fs ++ gs) os first skip af bf) r) =
      (gs ++ fs).all (holds d s data fuel key (Query.mk ent sels (gs ++ fs) os first skip af bf) r) := by
    intro r; rw [hq r, List.all_append, List.all_append, Bool.and_comm]
  simp only [evalRows, Query.ent, Query.sels, Query.filters, Query.orders, Query.after, Query.before,
    Query.first, Query.skip, hp]
  rfl

/-! ## Paging -/

/-- **C05 (paging).** Take any query with at least one order key, any data set, any page size `n ≥ 1`.
    If the order-key tuples of the rows the query selects are pairwise different (the keys are injective on the
    matching rows) and — for the code as it is — no key of a selected row is absent, then iterating
    `first n, after(keys of the last row)` from the start yields the selected rows in result order, each exactly
    once. (The result is sorted by construction of `eval`, so different keys are strictly increasing:
    `rows_sorted`, `rows_strict_of_distinct`.) -/
theorem C05_paging (d : Defects) (s : Schema) (data : Data) (fuel : Nat) (key : String) (q : Query)
    (cands : List Row) (n : Nat) (hn : 1 ≤ n) (ho : q.orders ≠ [])
    (hdistinct : (evalRows d s data (fuel + 1) key (fullQuery q) cands false).Pairwise fun a b =>
      tupleSame q.orders (keysOf d s q.ent q.orders a) (keysOf d s q.ent q.orders b) = false)
    (hpresent : d.cursorDropsAbsentKeys = true →
      ∀ r ∈ evalRows d s data (fuel + 1) key (fullQuery q) cands false,
        ∀ k ∈ keysOf d s q.ent q.orders r, k ≠ Val.null) :
    (queryPages d s data fuel key q cands n
      ((evalRows d s data (fuel + 1) key (fullQuery q) cands false).length + 1) []).flatten =
      evalRows d s data (fuel + 1) key (fullQuery q) cands false := by
  rw [queryPages_eq_pages d s data fuel key q cands n hn ho hpresent _ [] (Or.inl rfl)]
  exact Paging.pages_from_start _ _ (tupleLt_asymm q.orders) n hn _
    (rows_strict_of_distinct d s data fuel key q cands hdistinct)

/-- for the intended behaviour absent keys are no obstacle: pairwise different key tuples suffice -/
theorem C05_paging_intended (s : Schema) (data : Data) (fuel : Nat) (key : String) (q : Query)
    (cands : List Row) (n : Nat) (hn : 1 ≤ n) (ho : q.orders ≠ [])
    (hdistinct : (evalRows Defects.none s data (fuel + 1) key (fullQuery q) cands false).Pairwise fun a b =>
      tupleSame q.orders (keysOf Defects.none s q.ent q.orders a) (keysOf Defects.none s q.ent q.orders b) = false) :
    (queryPages Defects.none s data fuel key q cands n
      ((evalRows Defects.none s data (fuel + 1) key (fullQuery q) cands false).length + 1) []).flatten =
      evalRows Defects.none s data (fuel + 1) key (fullQuery q) cands false :=
  C05_paging Defects.none s data fuel key q cands n hn ho hdistinct (fun h => absurd h (by decide))

/-- **The result is sorted**: in result order the key tuples never decrease. -/
theorem C05_result_sorted (d : Defects) (s : Schema) (data : Data) (fuel : Nat) (key : String) (q : Query)
    (cands : List Row) :
    (evalRows d s data (fuel + 1) key (fullQuery q) cands false).Pairwise fun a b =>
      tupleLt q.orders (keysOf d s q.ent q.orders b) (keysOf d s q.ent q.orders a) = false := by
  have := rows_sorted d s data fuel key q cands
  apply List.Pairwise.imp _ this
  intro a b h
  simpa [tupleLe] using h

/-! ## Counter-examples of the unguarded statement -/

def exSchema : Schema := [[{ kind := .int, nullable := false, dflt := none }, { kind := .int, nullable := true, dflt := none }]]
def exQuery (desc : Bool) : Query :=
  Query.mk 0 [.scalar "f0" 0, .scalar "f1" 1] [] [{ name := "f1", onAlias := false, fld := 1, desc }] 0 0 [] []

/-- two rows with the same order key -/
def tiedData : Data :=
  [{ id := 1, ent := 0, vals := [(0, .int 1), (1, .int 7)], refs := [] },
   { id := 2, ent := 0, vals := [(0, .int 2), (1, .int 7)], refs := [] }]

/-- **Ties** (candidate #28): with two rows that tie on every order key, paging by 1 returns the first row and
    then nothing — the second row is never visited. True of the code and of any cursor made of the order keys
    alone, hence the injectivity hypothesis of `C05_paging`. -/
theorem C05_breaks_pagingTies :
    (evalRows Defects.asImplemented exSchema tiedData 1 "E0" (fullQuery (exQuery false)) tiedData false).length = 2 ∧
    (queryPages Defects.asImplemented exSchema tiedData 0 "E0" (exQuery false) tiedData 1 3 []).flatten.length = 1 ∧
    (queryPages Defects.none exSchema tiedData 0 "E0" (exQuery false) tiedData 1 3 []).flatten.length = 1 := by
  decide

/-- a row whose order key is absent, and one where it is present -/
def absentData : Data :=
  [{ id := 1, ent := 0, vals := [(0, .int 1)], refs := [] },
   { id := 2, ent := 0, vals := [(0, .int 2), (1, .int 7)], refs := [] }]

/-- **Absent keys** (candidate #28): ordering descending puts the row without a key last; the code's `after`
    drops it, so paging never visits it. With the intended behaviour every row is visited. -/
theorem C05_breaks_cursorDropsAbsentKeys :
    (queryPages Defects.asImplemented exSchema absentData 0 "E0" (exQuery true) absentData 1 3 []).flatten.map (·.id) = [2] ∧
    (queryPages Defects.none exSchema absentData 0 "E0" (exQuery true) absentData 1 3 []).flatten.map (·.id) = [2, 1] := by
  decide

/-- `parents { parents { … } }`: row 3 references row 2 which references row 1 through field 1 -/
def chainSchema : Schema := [[{ kind := .int, nullable := false, dflt := none }, { kind := .arr 0, nullable := true, dflt := none }]]
def chainData : Data :=
  [{ id := 1, ent := 0, vals := [(0, .int 1)], refs := [] },
   { id := 2, ent := 0, vals := [(0, .int 2)], refs := [(1, [1])] },
   { id := 3, ent := 0, vals := [(0, .int 3)], refs := [(1, [2])] }]
def chainQuery (innerKey : String) : Query :=
  Query.mk 0 [.scalar "f0" 0,
    .sub "f1" 1 false (Query.mk 0 [.scalar "f0" 0,
      .sub innerKey 1 false (Query.mk 0 [.scalar "f0" 0] [] [] 0 0 [] [])] [] [] 0 0 [] [])]
    [{ onAlias := false, fld := 0, op := .eq, value := .int 3, isParam := false }] [] 0 0 [] []

/-- what the grandparents level of row 3 contains -/
def grand (d : Defects) (innerKey : String) : List J :=
  match eval d chainSchema chainData 8 "E0" (chainQuery innerKey) with
  | [.obj [_, (_, .arr [.obj [_, (_, .arr l)]])]] => l
  | _ => []

/-- **Nested sub-selections with the same key.** `f1 { f1 { … } }` loses the inner level in the code (the
    grandparent is not returned) while `f1 { gp: f1 { … } }` returns it; the intended behaviour returns it in
    both cases. -/
theorem C05_breaks_sameKeyShadowsParent :
    (grand Defects.asImplemented "f1").length = 0 ∧ (grand Defects.asImplemented "gp").length = 1 ∧
    (grand Defects.none "f1").length = 1 := by
  decide

def jInt : J → Option Int
  | .int i => some i
  | _ => none

def nineTen : List Row :=
  [{ id := 1, ent := 0, vals := [(0, .int 9)], refs := [] }, { id := 2, ent := 0, vals := [(0, .int 10)], refs := [] }]

/-- Regression witness (fixed by 4f128e8): **`min`/`max` compared texts** — over the stored values 9 and 10 the
    code before the fix returned `max` = 9 and `min` = 10 (the JSON texts "9" and "10" were compared);
    the code as it is gives 10 and 9. -/
theorem C05_breaks_minMaxCompareText :
    jInt (aggValue Defects.beforeFixes .max 0 nineTen) = some 9 ∧
    jInt (aggValue Defects.beforeFixes .min 0 nineTen) = some 10 ∧
    jInt (aggValue Defects.asImplemented .max 0 nineTen) = some 10 ∧
    jInt (aggValue Defects.asImplemented .min 0 nineTen) = some 9 := by
  decide

/-- Regression witness (fixed by a7dcc50): `skip 1` without `first` was refused before the fix, not any more. -/
theorem C05_breaks_skipWithoutFirst :
    refused Defects.beforeFixes exSchema 2 (Query.mk 0 [.scalar "f0" 0] [] [] 0 1 [] []) true = true ∧
    refused Defects.asImplemented exSchema 2 (Query.mk 0 [.scalar "f0" 0] [] [] 0 1 [] []) true = false := by
  decide

/-! ## The hypotheses of `C05_paging` are satisfiable by a non-trivial state -/

def distinctData : Data :=
  [{ id := 1, ent := 0, vals := [(0, .int 1), (1, .int 9)], refs := [] },
   { id := 2, ent := 0, vals := [(0, .int 2), (1, .int 7)], refs := [] },
   { id := 3, ent := 0, vals := [(0, .int 3), (1, .int 8)], refs := [] }]

example :
    (evalRows Defects.asImplemented exSchema distinctData 1 "E0" (fullQuery (exQuery false)) distinctData false).map (·.id) = [2, 3, 1] ∧
    ((queryPages Defects.asImplemented exSchema distinctData 0 "E0" (exQuery false) distinctData 2 4 []).map fun p => p.map (·.id))
      = [[2, 3], [1]] := by
  decide

example : (evalRows Defects.asImplemented exSchema distinctData 1 "E0" (fullQuery (exQuery false)) distinctData false).Pairwise
    (fun a b => tupleSame (exQuery false).orders (keysOf Defects.asImplemented exSchema 0 (exQuery false).orders a)
      (keysOf Defects.asImplemented exSchema 0 (exQuery false).orders b) = false) := by
  decide

end Discret.Query
