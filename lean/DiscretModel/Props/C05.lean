import DiscretModel.Lemmas.QueryOrder
import DiscretModel.Lemmas.SqlCompile
import DiscretModel.Lemmas.SqlCompileSub
import DiscretModel.Lemmas.SqlCompileAgg
/-
C05 — Query results equal a direct evaluation of the query over the data.

`Model/Query.lean` is the direct evaluation: `eval` is written from the meaning of the language and never
mentions SQL. The statement "the SQL compiler of `query.rs` implements `eval`" is NOT a theorem here — it
would need a formal semantics of the SQLite subset the compiler targets. It is decided on every run by the
differential tie (`checks/C05.py`: generated data models, data sets and queries; the compiled evaluator and
the real engine must return the same JSON).

What is proved are laws of the evaluator that make it a specification one can read — limits are `take`/`drop`,
filters are `List.filter` and commute, the result order is a sort — and the paging property, for every data
set, every query of the covered subset, every page size: no bound anywhere.
-/
namespace Discret.Query

/-! ## The evaluator is a readable specification -/

/-- **`first n` / `skip k` are `take` / `drop`** of the ordered list of selected rows (`first 0` = no limit). -/
theorem C05_limit_is_take_drop (d : Defects) (s : Schema) (data : Data) (fuel : Nat) (key : String) (q : Query)
    (cands : List Row) :
    evalRows d s data (fuel + 1) key q cands true =
      if q.first = 0 then (evalRows d s data (fuel + 1) key q cands false).drop q.skip
      else ((evalRows d s data (fuel + 1) key q cands false).drop q.skip).take q.first := by
  rw [evalRows_limited, limit_eq]

/-- **Filters are `List.filter`**: a row is selected (limits and cursors aside) iff it is a candidate of the
    query's entity, every mandatory sub-selection selects something for it, and it satisfies every filter. -/
theorem C05_selected_iff (d : Defects) (s : Schema) (data : Data) (fuel : Nat) (key : String) (q : Query)
    (cands : List Row) (r : Row) :
    r ∈ evalRows d s data (fuel + 1) key (fullQuery q) cands false ↔
      r ∈ cands ∧ r.ent = q.ent ∧ (∀ sel ∈ q.sels, subPresent d s data fuel key r sel = true) ∧
        ∀ f ∈ q.filters, holds d s data fuel key (fullQuery q) r f = true := by
  rw [evalRows_fullQuery, mem_sortBy, List.mem_filter]
  simp only [Bool.and_eq_true, decide_eq_true_eq, List.all_eq_true]
  constructor
  · rintro ⟨h1, ⟨h2, h3⟩, h4⟩; exact ⟨h1, h2, h3, h4⟩
  · rintro ⟨h1, h2, h3, h4⟩; exact ⟨h1, ⟨h2, h3⟩, h4⟩

/-- **Filters commute**: the order in which the filters are written does not matter. -/
theorem C05_filters_commute (d : Defects) (s : Schema) (data : Data) (fuel : Nat) (key : String)
    (ent : Nat) (sels : List Sel) (fs gs : List Filter) (os : List Order) (first skip : Nat) (af bf : List Val)
    (cands : List Row) (lim : Bool) :
    evalRows d s data (fuel + 1) key (Query.mk ent sels (fs ++ gs) os first skip af bf) cands lim =
    evalRows d s data (fuel + 1) key (Query.mk ent sels (gs ++ fs) os first skip af bf) cands lim := by
  have hq : ∀ r, holds d s data fuel key (Query.mk ent sels (fs ++ gs) os first skip af bf) r =
      holds d s data fuel key (Query.mk ent sels (gs ++ fs) os first skip af bf) r :=
    fun r => funext fun flt => holds_query_irrel ..
  have hp : ∀ r, (fs ++ gs).all (holds d s data fuel key (Query.mk ent sels (fs ++ gs) os first skip af bf) r) =
      (gs ++ fs).all (holds d s data fuel key (Query.mk ent sels (gs ++ fs) os first skip af bf) r) := by
    intro r; rw [hq r, List.all_append, List.all_append, Bool.and_comm]
  simp only [evalRows, Query.ent, Query.sels, Query.filters, Query.orders, Query.after, Query.before,
    Query.first, Query.skip, hp]
  rfl

/-! ## Paging -/

/-- **C05 (paging).** Take any query with at least one order key, any data set, any page size `n ≥ 1`.
    If the order-key tuples of the rows the query selects are pairwise different (the keys are injective on the
    matching rows) and — for the code as it is — no key of a selected row is absent, then iterating
    `first n, after(keys of the last row)` from the start yields the selected rows in result order, each exactly
    once. (The result is sorted by construction of `eval`, so different keys are strictly increasing:
    `rows_sorted`, `rows_strict_of_distinct`.) -/
theorem C05_paging (d : Defects) (s : Schema) (data : Data) (fuel : Nat) (key : String) (q : Query)
    (cands : List Row) (n : Nat) (hn : 1 ≤ n) (ho : q.orders ≠ [])
    (hdistinct : (evalRows d s data (fuel + 1) key (fullQuery q) cands false).Pairwise fun a b =>
      tupleSame q.orders (keysOf d s q.ent q.orders a) (keysOf d s q.ent q.orders b) = false)
    (hpresent : d.cursorDropsAbsentKeys = true →
      ∀ r ∈ evalRows d s data (fuel + 1) key (fullQuery q) cands false,
        ∀ k ∈ keysOf d s q.ent q.orders r, k ≠ Val.null) :
    (queryPages d s data fuel key q cands n
      ((evalRows d s data (fuel + 1) key (fullQuery q) cands false).length + 1) []).flatten =
      evalRows d s data (fuel + 1) key (fullQuery q) cands false := by
  rw [queryPages_eq_pages d s data fuel key q cands n hn ho hpresent _ [] (Or.inl rfl)]
  exact Paging.pages_from_start _ _ (tupleLt_asymm q.orders) n hn _
    (rows_strict_of_distinct d s data fuel key q cands hdistinct)

/-- for the intended behaviour absent keys are no obstacle: pairwise different key tuples suffice -/
theorem C05_paging_intended (s : Schema) (data : Data) (fuel : Nat) (key : String) (q : Query)
    (cands : List Row) (n : Nat) (hn : 1 ≤ n) (ho : q.orders ≠ [])
    (hdistinct : (evalRows Defects.none s data (fuel + 1) key (fullQuery q) cands false).Pairwise fun a b =>
      tupleSame q.orders (keysOf Defects.none s q.ent q.orders a) (keysOf Defects.none s q.ent q.orders b) = false) :
    (queryPages Defects.none s data fuel key q cands n
      ((evalRows Defects.none s data (fuel + 1) key (fullQuery q) cands false).length + 1) []).flatten =
      evalRows Defects.none s data (fuel + 1) key (fullQuery q) cands false :=
  C05_paging Defects.none s data fuel key q cands n hn ho hdistinct (fun h => absurd h (by decide))

/-- **The result is sorted**: in result order the key tuples never decrease. -/
theorem C05_result_sorted (d : Defects) (s : Schema) (data : Data) (fuel : Nat) (key : String) (q : Query)
    (cands : List Row) :
    (evalRows d s data (fuel + 1) key (fullQuery q) cands false).Pairwise fun a b =>
      tupleLt q.orders (keysOf d s q.ent q.orders b) (keysOf d s q.ent q.orders a) = false := by
  have := rows_sorted d s data fuel key q cands
  apply List.Pairwise.imp _ this
  intro a b h
  simpa [tupleLe] using h

/-! ## Counter-examples of the unguarded statement -/

def exSchema : Schema := [[{ kind := .int, nullable := false, dflt := none }, { kind := .int, nullable := true, dflt := none }]]
def exQuery (desc : Bool) : Query :=
  Query.mk 0 [.scalar "f0" 0, .scalar "f1" 1] [] [{ name := "f1", onAlias := false, fld := 1, desc }] 0 0 [] []

/-- two rows with the same order key -/
def tiedData : Data :=
  [{ id := 1, ent := 0, vals := [(0, .int 1), (1, .int 7)], refs := [] },
   { id := 2, ent := 0, vals := [(0, .int 2), (1, .int 7)], refs := [] }]

/-- **Ties** (candidate #28): with two rows that tie on every order key, paging by 1 returns the first row and
    then nothing — the second row is never visited. True of the code and of any cursor made of the order keys
    alone, hence the injectivity hypothesis of `C05_paging`. -/
theorem C05_breaks_pagingTies :
    (evalRows Defects.asImplemented exSchema tiedData 1 "E0" (fullQuery (exQuery false)) tiedData false).length = 2 ∧
    (queryPages Defects.asImplemented exSchema tiedData 0 "E0" (exQuery false) tiedData 1 3 []).flatten.length = 1 ∧
    (queryPages Defects.none exSchema tiedData 0 "E0" (exQuery false) tiedData 1 3 []).flatten.length = 1 := by
  decide

/-- a row whose order key is absent, and one where it is present -/
def absentData : Data :=
  [{ id := 1, ent := 0, vals := [(0, .int 1)], refs := [] },
   { id := 2, ent := 0, vals := [(0, .int 2), (1, .int 7)], refs := [] }]

/-- **Absent keys** (candidate #28): ordering descending puts the row without a key last; the code's `after`
    drops it, so paging never visits it. With the intended behaviour every row is visited. -/
theorem C05_breaks_cursorDropsAbsentKeys :
    (queryPages Defects.asImplemented exSchema absentData 0 "E0" (exQuery true) absentData 1 3 []).flatten.map (·.id) = [2] ∧
    (queryPages Defects.none exSchema absentData 0 "E0" (exQuery true) absentData 1 3 []).flatten.map (·.id) = [2, 1] := by
  decide

/-- `parents { parents { … } }`: row 3 references row 2 which references row 1 through field 1 -/
def chainSchema : Schema := [[{ kind := .int, nullable := false, dflt := none }, { kind := .arr 0, nullable := true, dflt := none }]]
def chainData : Data :=
  [{ id := 1, ent := 0, vals := [(0, .int 1)], refs := [] },
   { id := 2, ent := 0, vals := [(0, .int 2)], refs := [(1, [1])] },
   { id := 3, ent := 0, vals := [(0, .int 3)], refs := [(1, [2])] }]
def chainQuery (innerKey : String) : Query :=
  Query.mk 0 [.scalar "f0" 0,
    .sub "f1" 1 false (Query.mk 0 [.scalar "f0" 0,
      .sub innerKey 1 false (Query.mk 0 [.scalar "f0" 0] [] [] 0 0 [] [])] [] [] 0 0 [] [])]
    [{ onAlias := false, fld := 0, op := .eq, value := .int 3, isParam := false }] [] 0 0 [] []

/-- what the grandparents level of row 3 contains -/
def grand (d : Defects) (innerKey : String) : List J :=
  match eval d chainSchema chainData 8 "E0" (chainQuery innerKey) with
  | [.obj [_, (_, .arr [.obj [_, (_, .arr l)]])]] => l
  | _ => []

/-- **Nested sub-selections with the same key.** `f1 { f1 { … } }` loses the inner level in the code (the
    grandparent is not returned) while `f1 { gp: f1 { … } }` returns it; the intended behaviour returns it in
    both cases. -/
theorem C05_breaks_sameKeyShadowsParent :
    (grand Defects.asImplemented "f1").length = 0 ∧ (grand Defects.asImplemented "gp").length = 1 ∧
    (grand Defects.none "f1").length = 1 := by
  decide

def jInt : J → Option Int
  | .int i => some i
  | _ => none

def nineTen : List Row :=
  [{ id := 1, ent := 0, vals := [(0, .int 9)], refs := [] }, { id := 2, ent := 0, vals := [(0, .int 10)], refs := [] }]

/-- Regression witness (fixed by 4f128e8): **`min`/`max` compared texts** — over the stored values 9 and 10 the
    code before the fix returned `max` = 9 and `min` = 10 (the JSON texts "9" and "10" were compared);
    the code as it is gives 10 and 9. -/
theorem C05_breaks_minMaxCompareText :
    jInt (aggValue Defects.beforeFixes .max 0 nineTen) = some 9 ∧
    jInt (aggValue Defects.beforeFixes .min 0 nineTen) = some 10 ∧
    jInt (aggValue Defects.asImplemented .max 0 nineTen) = some 10 ∧
    jInt (aggValue Defects.asImplemented .min 0 nineTen) = some 9 := by
  decide

/-- Regression witness (fixed by a7dcc50): `skip 1` without `first` was refused before the fix, not any more. -/
theorem C05_breaks_skipWithoutFirst :
    refused Defects.beforeFixes exSchema 2 (Query.mk 0 [.scalar "f0" 0] [] [] 0 1 [] []) true = true ∧
    refused Defects.asImplemented exSchema 2 (Query.mk 0 [.scalar "f0" 0] [] [] 0 1 [] []) true = false := by
  decide

/-! ## The hypotheses of `C05_paging` are satisfiable by a non-trivial state -/

def distinctData : Data :=
  [{ id := 1, ent := 0, vals := [(0, .int 1), (1, .int 9)], refs := [] },
   { id := 2, ent := 0, vals := [(0, .int 2), (1, .int 7)], refs := [] },
   { id := 3, ent := 0, vals := [(0, .int 3), (1, .int 8)], refs := [] }]

example :
    (evalRows Defects.asImplemented exSchema distinctData 1 "E0" (fullQuery (exQuery false)) distinctData false).map (·.id) = [2, 3, 1] ∧
    ((queryPages Defects.asImplemented exSchema distinctData 0 "E0" (exQuery false) distinctData 2 4 []).map fun p => p.map (·.id))
      = [[2, 3], [1]] := by
  decide

example : (evalRows Defects.asImplemented exSchema distinctData 1 "E0" (fullQuery (exQuery false)) distinctData false).Pairwise
    (fun a b => tupleSame (exQuery false).orders (keysOf Defects.asImplemented exSchema 0 (exQuery false).orders a)
      (keysOf Defects.asImplemented exSchema 0 (exQuery false).orders b) = false) := by
  decide

end Discret.Query

/-! ## The SQL compiler computes the evaluator (single-entity fragment)

`Model/SqlGen.lean` is a literal model of the SQL text generation of `query.rs` for one entity selection
(scalar and `id` selections with defaults and aliases, filters, `order_by`, `first`/`skip`, `before`/`after`):
`compile` builds the statement as a small tree, `render` prints it, and on every run of the check the printed text
and the bound values are compared byte for byte with what `PreparedQueries::build` / `build_query_params`
produce. `Model/SqlSem.lean` says what SQLite computes for such a tree on a `_node` table (trusted; the rows it
predicts are compared with the real engine's on every run). The theorem below closes the gap between the two for
the code as it is (`Defects.asImplemented`): the deviations of the code (`order-ignores-default`,
`explicit-null-hides-default`, `bool-default-returned-as-number`, `null-param-filter-no-match`, cursors that
drop absent keys) are consequences of the generated SQL under that semantics, not assumptions. -/
namespace Discret.SqlCompile
open Discret.Query Discret.SqlGen Discret.SqlSem

/-- **C05 (compiler, single-entity fragment).** For every data model `s`, every data set, every query `q` of the
    fragment (`inFragment`: scalar / `id` selections with distinct keys, filters with any operator on aliases and
    fields with literal, `null` or variable values, any `order_by`, literal `first` / `skip`, `before` or `after`),
    every naming of entities and fields by the data model that is injective, every naming `vn` of the filters'
    variables and every parameter set `env` giving each variable the value the query was evaluated with:

    running the generated statement (`SqlSem.run`) on the `_node` table that stores the data set returns exactly
    the list of JSON objects the reference evaluator computes for the code as it is — same objects, same order.

    Equality is equality of lists. Where the language defines no order (no `order_by`, or rows that tie on every
    key) both sides keep the order of the data set / of the table scan; as the statement holds for every `data`,
    it holds for whatever scan order the engine uses, provided its sort is stable (that part is `SqlSem`, trusted,
    and compared with the real engine modulo permutations inside tie groups). -/
theorem C05_compile_correct (nm : Names) (s : Schema) (data : Data) (q : Query) (vn : Nat → String)
    (env : String → Val) (fuel : Nat) (rootKey : String)
    (hfrag : inFragment s q = true)
    (hent : ∀ a b, nm.entShort a = nm.entShort b → a = b)
    (hfld : ∀ a b, nm.fieldShort q.ent a = nm.fieldShort q.ent b → a = b)
    (henv : ∀ i f, q.filters[i]? = some f → f.isParam = true → env (vn i) = f.value) :
    SqlSem.run (encode nm data) (compile nm s vn q) env =
      Query.eval Defects.asImplemented s data (fuel + 2) rootKey q :=
  compile_correct nm s data q vn env fuel rootKey hfrag hent hfld henv

/-- a query of the fragment is never refused by the engine (`refused` only concerns `skip` without `first`, fixed,
    and sub-selections) -/
theorem C05_fragment_not_refused (s : Schema) (q : Query) (fuel : Nat) (h : inFragment s q = true) :
    refused Defects.asImplemented s fuel q true = false := by
  obtain ⟨hsels, _⟩ := inFragment_parts h
  cases fuel with
  | zero => rfl
  | succ k =>
    simp only [refused, Defects.asImplemented, Bool.false_and, Bool.false_or, List.any_eq_false]
    intro sel hsel
    have := hsels sel hsel
    cases sel <;> simp_all [selOk]

/-- the WHERE clause of the generated statement keeps exactly the rows of the entity that satisfy every filter and
    the cursor (the clause-level statement behind `C05_compile_correct`) -/
theorem C05_compile_where (nm : Names) (s : Schema) (q : Query) (vn : Nat → String) (env : String → Val)
    (hfrag : inFragment s q = true)
    (hent : ∀ a b, nm.entShort a = nm.entShort b → a = b)
    (hfld : ∀ a b, nm.fieldShort q.ent a = nm.fieldShort q.ent b → a = b)
    (henv : ∀ i f, q.filters[i]? = some f → f.isParam = true → env (vn i) = f.value) (r : Row) :
    whereHolds (compile nm s vn q) (bindVal env (compile nm s vn q).binds) (encodeRow nm r) =
      (decide (r.ent = q.ent) && q.filters.all (filterHolds Defects.asImplemented s q.ent r) &&
        cursorHolds Defects.asImplemented q.orders q.after q.before
          (keysOf Defects.asImplemented s q.ent q.orders r)) := by
  have := whereHolds_spec env nm s vn q [] [] hfrag hent hfld henv r
  rw [List.append_nil] at this
  exact this

/-! ### the hypotheses are satisfiable by a non-trivial instance, and the printed text is the code's -/

def xs (n : Nat) : String := String.ofList (List.replicate n 'x')

theorem xs_inj (a b : Nat) (h : xs a = xs b) : a = b := by
  have := congrArg String.length h
  simpa [xs] using this

def nmEx : Names := { table := "P", entShort := fun i => xs (i + 1), fieldShort := fun _ j => xs (j + 1) }

def schemaEx : Schema :=
  [[{ kind := .int, nullable := false, dflt := none }, { kind := .str, nullable := false, dflt := some (.str ['a', 'b']) },
    { kind := .bool, nullable := true, dflt := none }]]

/-- `P(a != $p0, f2 = null, order_by(a desc, f0 asc), first 2, after("b")) { f0 a: f1 id }` -/
def queryEx : Query :=
  Query.mk 0 [.scalar "f0" 0, .scalar "a" 1, .id "id"]
    [{ onAlias := true, fld := 1, op := .ne, value := .str ['z'], isParam := true, name := "a" },
     { onAlias := false, fld := 2, op := .eq, value := .null, isParam := false, name := "f2" }]
    [{ name := "a", onAlias := true, fld := 1, desc := true }, { name := "f0", onAlias := false, fld := 0, desc := false }]
    2 0 [.str ['b']] []

def dataEx : Data :=
  [{ id := 1, ent := 0, vals := [(0, .int 1), (1, .str ['a'])], refs := [] },
   { id := 2, ent := 0, vals := [(0, .int 2)], refs := [] },
   { id := 3, ent := 0, vals := [(0, .int 3), (1, .str ['z'])], refs := [] },
   { id := 4, ent := 0, vals := [(0, .int 4), (2, .bool true)], refs := [] },
   { id := 5, ent := 0, vals := [(0, .int 5), (1, .str ['a', 'b']), (2, .null)], refs := [] }]

example : inFragment schemaEx queryEx = true := by decide

example : ∀ a b, nmEx.entShort a = nmEx.entShort b → a = b := fun a b h => by
  have := xs_inj _ _ h; omega

example : ∀ a b, nmEx.fieldShort queryEx.ent a = nmEx.fieldShort queryEx.ent b → a = b := fun a b h => by
  have := xs_inj _ _ h; omega

/-- rows 2 and 5 are selected (the default "ab" of row 2 sorts after the cursor "b" descending, rows 1 and 3 are
    filtered out or before the cursor, row 4 stores f2), in that order -/
example :
    (SqlSem.run (encode nmEx dataEx) (compile nmEx schemaEx (fun _ => "p0") queryEx) (fun _ => .str ['z'])).map
      (fun j => String.ofList (jsonChars 8 j)) =
      ["{\"f0\":2,\"a\":\"ab\",\"id\":2}", "{\"f0\":5,\"a\":\"ab\",\"id\":5}"] := by
  decide

example : (compile nmEx schemaEx (fun _ => "p0") queryEx).binds =
    [.text ['a', 'b'], .var "p0", .text ['a', 'b'], .text ['b']] := by decide

set_option maxRecDepth 4000 in
/-- the clauses of that statement as `query.rs` writes them (the whole text is compared byte for byte with
    `SingleQuery.sql_query` on every run of the check) -/
example :
    renderEnd 1 (compile nmEx schemaEx (fun _ => "p0") queryEx) =
      "AND \n    CASE\n        WHEN ?3 != ?2 THEN value->>'$.a' != ?2 OR value->>'$.a' is null \n        ELSE value->>'$.a' != ?2 \n    END AND\n    _json->>'$.xxx' is null AND \n    (value->>'$.a' < ?4) \n    ORDER BY value->>'$.a' desc , _json->>'$.x' asc " ∧
    renderFields "P" 1 (compile nmEx schemaEx (fun _ => "p0") queryEx).proj =
      "json_object(\n    'f0',_json->'$.x',\n    'a',Ifnull(_json->'$.xx',?1),\n    'id', base64_encode(P.id))" ∧
    renderLimit (compile nmEx schemaEx (fun _ => "p0") queryEx).limit (compile nmEx schemaEx (fun _ => "p0") queryEx).offset =
      "LIMIT 2" := by
  refine ⟨?_, ?_, ?_⟩ <;> decide

/-! ### one level of sub-selections through reference fields -/

/-- **C05 (compiler, one level of sub-selections).** `Model/SqlGenSub.lean` extends the model of the SQL generator to
    selections whose fields include sub-selections through entity and array reference fields
    (`get_sub_entity_query`, `get_sub_group_array`, `get_exists_query`), each sub-selection being a query of the
    single-entity fragment with its own filters, `order_by`, `first` / `skip`, cursors; `nullable(key)` and nullable
    reference fields make a sub-selection optional. `Model/SqlSemSub.lean` adds the `_edge` join, scalar
    sub-queries, `json_group_array` and `EXISTS` to the trusted SQL semantics.

    For every data model, every data set whose ids are keys (`dataOk`), every such query (`inFragment1`; the keys of
    the sub-selections differ from the alias of the root selection, which excludes the known shadowing defect),
    injective short names and parameters as the query was evaluated with: running the generated statement on the
    `_node` and `_edge` tables that store the data set returns exactly the list of JSON objects the reference
    evaluator computes for the code as it is, nested arrays and objects included, in the same order. -/
theorem C05_compile_correct_sub (nm : Names) (s : Schema) (data : Data) (q : Query) (vn0 : Nat → String)
    (vn : Nat → Nat → String) (env : String → Val) (fuel : Nat)
    (hfrag : inFragment1 s nm.table q = true)
    (hdata : dataOk data = true)
    (hent : ∀ a b, nm.entShort a = nm.entShort b → a = b)
    (hfld : ∀ e a b, nm.fieldShort e a = nm.fieldShort e b → a = b)
    (henv0 : ∀ i f, q.filters[i]? = some f → f.isParam = true → env (vn0 i) = f.value)
    (henvS : ∀ k key fld opt sq, q.sels[k]? = some (.sub key fld opt sq) →
      ∀ i f, sq.filters[i]? = some f → f.isParam = true → env (vn k i) = f.value) :
    SqlSem.run1 (encodeDb nm data) (compile1 nm s vn0 vn q) env =
      Query.eval Defects.asImplemented s data (fuel + 4) nm.table q :=
  compile1_correct nm s data q vn0 vn env fuel hfrag hdata hent hfld henv0 henvS

/-- persons (entity 0: name, pets: [1], home: 2 nullable) and pets (entity 1: name, age default 1), houses (2) -/
def schemaSub : Schema :=
  [[{ kind := .str, nullable := false, dflt := none }, { kind := .arr 1, nullable := false, dflt := none },
    { kind := .ref 2, nullable := true, dflt := none }],
   [{ kind := .str, nullable := false, dflt := none }, { kind := .int, nullable := false, dflt := some (.int 1) }],
   [{ kind := .str, nullable := false, dflt := none }]]

/-- `P { name pets(age >= $p0, order_by(age desc), first 2) { name age } home { name } }` -/
def querySub : Query :=
  Query.mk 0 [.scalar "name" 0,
    .sub "pets" 1 false (Query.mk 1 [.scalar "name" 0, .scalar "age" 1]
      [{ onAlias := false, fld := 1, op := .ge, value := .int 1, isParam := true, name := "age" }]
      [{ name := "age", onAlias := false, fld := 1, desc := true }] 2 0 [] []),
    .sub "home" 2 false (Query.mk 2 [.scalar "name" 0] [] [] 0 0 [] [])]
    [] [] 0 0 [] []

def dataSub : Data :=
  [{ id := 1, ent := 1, vals := [(0, .str ['r', 'e', 'x']), (1, .int 7)], refs := [] },
   { id := 2, ent := 1, vals := [(0, .str ['t', 'o', 'm'])], refs := [] },
   { id := 3, ent := 1, vals := [(0, .str ['z', 'o', 'e']), (1, .int 3)], refs := [] },
   { id := 4, ent := 2, vals := [(0, .str ['h'])], refs := [] },
   { id := 5, ent := 0, vals := [(0, .str ['a', 'n', 'n'])], refs := [(1, [1, 2, 3]), (2, [4])] },
   { id := 6, ent := 0, vals := [(0, .str ['b', 'o', 'b'])], refs := [(1, [2])] },
   { id := 7, ent := 0, vals := [(0, .str ['c', 'y'])], refs := [] }]

example : inFragment1 schemaSub nmEx.table querySub = true := by decide
example : dataOk dataSub = true := by decide
example : ∀ e a b, nmEx.fieldShort e a = nmEx.fieldShort e b → a = b := fun _ a b h => by
  have := xs_inj _ _ h; omega

/-- ann has three pets of which the two oldest are returned (tom's age is unset: the stored row lacks it, so it sorts
    last and shows the default), bob's only pet lacks an age and the filter `age >= 1` uses the default; cy has no pet
    and is dropped by the mandatory sub-selection; bob has no home (nullable field): `null` -/
example :
    (SqlSem.run1 (encodeDb nmEx dataSub) (compile1 nmEx schemaSub (fun _ => "x") (fun _ _ => "p0") querySub)
        (fun _ => .int 1)).map (fun j => String.ofList (jsonChars 20 j)) =
      ["{\"name\":\"ann\",\"pets\":[{\"name\":\"rex\",\"age\":7},{\"name\":\"zoe\",\"age\":3}],\"home\":{\"name\":\"h\"}}",
       "{\"name\":\"bob\",\"pets\":[{\"name\":\"tom\",\"age\":1}],\"home\":null}"] := by
  decide

/-! ### aggregate queries at the root -/

/-- **C05 (compiler, aggregate queries).** `Model/SqlGenAgg.lean` models the SQL generated for a selection of
    group-by scalar fields next to `count()`, `min(f)`, `max(f)` (`get_fields` for aggregates, `get_group_by`,
    `get_having_filters`), `Model/SqlSemAgg.lean` adds GROUP BY, the aggregate functions, bare columns and HAVING to the
    trusted SQL semantics. For every data model, every query of the aggregate fragment (`inFragmentA`: group fields
    without default and aggregates under distinct keys, WHERE filters on fields with literal / `null` / variable
    values, HAVING filters on aggregate aliases with non-`null` values, `order_by` on selected group fields and on
    aliases, no `first` / `skip` / cursors — the evaluator has none for grouped queries) and every data set in which
    the fields under `min` / `max` store numbers or texts only (`aggDataOk`): the generated statement returns exactly
    the evaluator's list of group rows, in the same order (groups that no `order_by` separates keep the order of their
    first row in the data set on both sides). `avg` / `sum` (floats) are outside the evaluator and the theorem. -/
theorem C05_compile_correct_agg (nm : Names) (s : Schema) (data : Data) (q : Query) (vn : Nat → String)
    (env : String → Val) (fuel : Nat) (rootKey : String)
    (hfrag : inFragmentA s q = true) (hdata : aggDataOk q data = true)
    (hent : ∀ a b, nm.entShort a = nm.entShort b → a = b)
    (hfld : ∀ a b, nm.fieldShort q.ent a = nm.fieldShort q.ent b → a = b)
    (henv : ∀ i f, q.filters[i]? = some f → f.isParam = true → env (vn i) = f.value) :
    SqlSem.runA (encode nm data) (compileA nm s vn q) env = Query.eval Defects.asImplemented s data fuel rootKey q :=
  compileA_correct nm s data q vn env fuel rootKey hfrag hdata hent hfld henv

/-- `P(f0 > 0, cnt >= $p0, order_by(f2 asc)) { f2 cnt: count() top: max(f0) }` over `schemaEx` / `dataEx` -/
def queryAgg : Query :=
  Query.mk 0 [.scalar "f2" 2, .agg "cnt" .count 0, .agg "top" .max 0]
    [{ onAlias := false, fld := 0, op := .gt, value := .int 0, isParam := false, name := "f0" },
     { onAlias := true, fld := 0, op := .ge, value := .int 1, isParam := true, name := "cnt" }]
    [{ name := "f2", onAlias := false, fld := 2, desc := false }] 0 0 [] []

example : inFragmentA schemaEx queryAgg = true ∧ aggDataOk queryAgg dataEx = true := by decide

/-- rows 1-3 store no `f2`, row 5 an explicit `null`: one group of four (NULL key, first), row 4 a group of its own -/
example :
    (SqlSem.runA (encode nmEx dataEx) (compileA nmEx schemaEx (fun _ => "p0") queryAgg) (fun _ => .int 1)).map
      (fun j => String.ofList (jsonChars 8 j)) =
      ["{\"f2\":null,\"cnt\":4,\"top\":5}", "{\"f2\":true,\"cnt\":1,\"top\":4}"] := by
  decide

end Discret.SqlCompile
