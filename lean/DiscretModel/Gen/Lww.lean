/-! translator T9 FAILED on /tmp/mut-lane7/repo: no `else if` after the first branch -/
example : False := by decide
