import DiscretModel.Model.Proto
import DiscretModel.Model.Peg
import DiscretModel.Model.Admission
import DiscretModel.Gen.Grammar
/-
C14 ops of the `schema` model driver (all stateless):
  peg g=<dataModel|query|mutation|deletion> r=<rule name> s=<hex of the UTF-8 text>
        -> "m <n>" (n characters matched) | "reject" | "fuel"
  adm t=<B|F|X|I|S|J> n=<0|1> src=<var|lit> v=<bool|int|float|nan|str00|str01|str10|str11|bin0|bin1|null>
        -> "refused:<Verdict>" | "bound:<stored|InvalidFloat|Json|panic>"
  sysadm c=<mut|filter> f=<system field> v=<value class>   -> "refused:<Verdict>" | "defined" | "panic"
  key first=<byte or -> len=<n>     -> "KeyType" | "KeyLength" | "dalek" | "panic"
  sig len=<n>                        -> "SigLength" | "dalek"
  alias a=<hex identifier>           -> "reject" (not an identifier for the grammar) | "ok" | "sqlerr"
  req k=<dataModel|query|mutation|deletion> s=<hex>   -> "accept" | "reject" | "fuel"   (top rule, whole input)
  vpool n=<threads> k=<empty-key messages>   -> "alive" | "dead"     (signature verification pool)
  rpool n=<parallelism> k=<null Json params>  -> "alive" | "dead"     (reader pool of an instance)
  frame1 len=<n> max=<max_buffer_size>          -> "open grown=<0|1>" | "closed"   (first frame of an accepted QUIC connection)
  dateq n=<parallelism> k=<requests> d=<date>  -> "alive" | "dead"     (daily-nodes request with a peer-supplied date)
  frame t=<type> b=<hex> , invite b=<hex>     -> "explored"           (byte-level exploration, no verdict)
  dlock n=<parallelism> k=<daily-log requests>  -> "explored"          (timing-dependent actor/writer deadlock, no verdict)
-/
open Discret Discret.Proto Discret.Peg

namespace SchemaC14

def hexVal (c : Char) : Option Nat :=
  if '0' ≤ c ∧ c ≤ '9' then some (c.toNat - 48)
  else if 'a' ≤ c ∧ c ≤ 'f' then some (c.toNat - 87)
  else if 'A' ≤ c ∧ c ≤ 'F' then some (c.toNat - 55)
  else none

def hexBytes : List Char → Option (List UInt8)
  | [] => some []
  | [_] => none
  | a :: b :: rest =>
    match hexVal a, hexVal b, hexBytes rest with
    | some x, some y, some r => some (UInt8.ofNat (x * 16 + y) :: r)
    | _, _, _ => none

def hexString (s : String) : Option String :=
  (hexBytes s.toList).bind fun bs => String.fromUTF8? (ByteArray.mk bs.toArray)

def grammarOf (g : String) : Option (Grammar × Nat) :=
  match g with
  | "dataModel" => some (Gen.dataModelGrammar, Gen.dataModelTop)
  | "query" => some (Gen.queryGrammar, Gen.queryTop)
  | "mutation" => some (Gen.mutationGrammar, Gen.mutationTop)
  | "deletion" => some (Gen.deletionGrammar, Gen.deletionTop)
  | _ => none

def fuelFor (n : Nat) : Nat := 400 + 60 * n

def kv' (toks : List String) (k : String) : Option String :=
  toks.findSome? fun t =>
    match t.splitOn "=" with
    | a :: rest => if a = k && !rest.isEmpty then some ("=".intercalate rest) else none
    | _ => none

def ftOf : String → Option Adm.FT
  | "B" => some .bool | "F" => some .float | "X" => some .b64 | "I" => some .int | "S" => some .str | "J" => some .json
  | _ => none

def pvOf : String → Option Adm.PV
  | "bool" => some .bool | "int" => some .int | "float" => some .float | "nan" => some .floatNaN
  | "str00" => some (.str false false) | "str01" => some (.str false true)
  | "str10" => some (.str true false) | "str11" => some (.str true true)
  | "bin0" => some (.binary false) | "bin1" => some (.binary true) | "null" => some .null
  | _ => none

def verdictStr : Adm.Verdict → String
  | .admitted => "admitted" | .notNullable => "NotNullable" | .conflictingParameterType => "ConflictingParameterType"
  | .invalidBase64 => "InvalidBase64" | .invalidJson => "InvalidJson" | .invalidFieldType => "InvalidFieldType"
  | .invalidQuery => "InvalidQuery" | .notALiteral => "not-a-literal"

def boundStr : Adm.Bound → String
  | .stored => "stored" | .errInvalidFloat => "InvalidFloat" | .errJson => "Json" | .panic => "panic"

def step (d : Adm.Defects) (line : String) : Option String :=
  let toks := tokens line
  match toks with
  | "peg" :: rest =>
    match (kv' rest "g").bind grammarOf, kv' rest "r", (kv' rest "s").bind hexString with
    | some (g, _), some r, some s =>
      match ruleIndex g r with
      | none => some "bad-op"
      | some i =>
        some (match run g (fuelFor s.length) i s.toList with
              | none => "fuel"
              | some none => "reject"
              | some (some n) => s!"m {n}")
    | _, _, _ => some "bad-op"
  | "req" :: rest =>
    match (kv' rest "k").bind grammarOf, (kv' rest "s").bind hexString with
    | some (g, top), some s =>
      some (match matchesAll g (fuelFor s.length) top s.toList with
            | none => "fuel"
            | some true => "accept"
            | some false => "reject")
    | _, _ => some "bad-op"
  | "adm" :: rest =>
    match (kv' rest "t").bind ftOf, nat? rest "n", kv' rest "src", (kv' rest "v").bind pvOf with
    | some ft, some n, some src, some pv =>
      if n > 1 then some "bad-op" else
      match (match src with | "var" => some Adm.Src.var | "lit" => some Adm.Src.lit | _ => none) with
      | none => some "bad-op"
      | some sr =>
        some (match Adm.request d sr ft (n == 1) pv with
              | (.admitted, some b) => "bound:" ++ boundStr b
              | (v, _) => "refused:" ++ verdictStr v)
    | _, _, _, _ => some "bad-op"
  | "sysadm" :: rest =>
    let fld : Option Adm.SysField := match kv' rest "f" with
      | some "id" => some .id | some "room_id" => some .roomId | some "cdate" => some .cdate | some "mdate" => some .mdate
      | some "_entity" => some .entity | some "_json" => some .json | some "_binary" => some .binary
      | some "verifying_key" => some .verifyingKey | some "_signature" => some .signature | _ => none
    let ctx : Option Adm.Ctx := match kv' rest "c" with
      | some "mut" => some .mutation | some "filter" => some .filter | _ => none
    match ctx, fld, (kv' rest "v").bind pvOf with
    | some c, some f, some pv =>
      some (match Adm.sysRequest c f pv with
            | .refused v => "refused:" ++ verdictStr v
            | .defined => "defined"
            | .panic => "panic")
    | _, _, _ => some "bad-op"
  | "key" :: rest =>
    match kv' rest "first", nat? rest "len" with
    | some f, some len =>
      let fb := if f = "-" then some none else f.toNat?.map some
      match fb with
      | none => some "bad-op"
      | some first =>
        if (first.isNone && len != 0) || (first.isSome && len == 0) then some "bad-op" else
        some (match Adm.importVerifyingKey d first len with
              | .errKeyType => "KeyType" | .errKeyLength => "KeyLength" | .reachesDalek => "dalek" | .panic => "panic")
    | _, _ => some "bad-op"
  | "sig" :: rest =>
    match nat? rest "len" with
    | some len => some (match Adm.importSignature len with | .errLength => "SigLength" | .reachesDalek => "dalek")
    | none => some "bad-op"
  | "alias" :: rest =>
    match (kv' rest "a").bind hexString with
    | some a =>
      let g := Gen.queryGrammar
      match matchesAll g (fuelFor a.length) Gen.query_identifier a.toList with
      | none => some "fuel"
      | some false => some "reject"
      | some true =>
        some (match Adm.aliasOutcome a.toList with
              | .invalidName => "err:InvalidName" | .ok => "ok" | .sqlError => "sqlerr")
    | none => some "bad-op"
  | "vpool" :: rest =>
    match nat? rest "n", nat? rest "k" with
    | some n, some k => if n == 0 || n > 8 || k > 32 then some "bad-op" else
        some (if Adm.poolAlive d.emptyKeyPanics n k then "alive" else "dead")
    | _, _ => some "bad-op"
  | "rpool" :: rest =>
    match nat? rest "n", nat? rest "k" with
    | some n, some k => if n == 0 || n > 8 || k > 16 then some "bad-op" else
        some (if Adm.poolAlive d.jsonNullPanics n k then "alive" else "dead")
    | _, _ => some "bad-op"
  | "dateq" :: rest =>
    match nat? rest "n", nat? rest "k", int? rest "d" with
    | some n, some k, some t => if n == 0 || n > 8 || k > 16 then some "bad-op" else
        some (if Adm.poolAlive (Adm.dayBoundsPanics d t) n k then "alive" else "dead")
    | _, _, _ => some "bad-op"
  | "frame1" :: rest =>
    match nat? rest "len", nat? rest "max" with
    | some len, some mx => if len > 0x48000000 || mx ≥ 0x10000000 then some "bad-op" else
        some (if Adm.firstFrameAccepted d len mx then s!"open grown={if len ≥ 0x10000000 then 1 else 0}" else "closed")
    | _, _ => some "bad-op"
  | "dlock" :: rest =>
    match nat? rest "n", nat? rest "k" with
    | some n, some k => if n == 0 || n > 8 || k > 64 then some "bad-op" else some "explored"
    | _, _ => some "bad-op"
  | "frame" :: rest =>
    match kv' rest "t", (kv' rest "b").bind fun b => hexBytes b.toList with
    | some _, some _ => some "explored"
    | _, _ => some "bad-op"
  | "invite" :: rest =>
    match (kv' rest "b").bind fun b => hexBytes b.toList with
    | some _ => some "explored"
    | none => some "bad-op"
  | _ => none

end SchemaC14
