import DiscretModel.Model.Proto
import DiscretModel.Model.Value
import DiscretModel.Model.Query
import DiscretModel.Model.SqlSem
import DiscretModel.Model.SqlSemSub
import DiscretModel.Model.SqlSemAgg
/-
Model driver for engine `query` (exe `dmodel_query`), same op files as `dv-query run`.

C04 (`e=c04`):
  case id=<n> e=c04 ty=<String|Integer|Boolean|Float|Base64|Json> nul=<0|1> pos=<param|lit|default>
       fpos=<param|lit> place=<top|ref|arr> sel=<name|alias> via=<conn|svc>
  val v=<Value> [l=<cps>] [fl=<cps>] d=<Value;…> [adm=…] [free=1]
  Value = N | S<cps> | I<int> | B0 | B1 | F<bits>:<typed cps>:<display cps>
  -> st=… raw=… res=… ret=… sib=… oth=… flt=… sql=… fsql=…   (see harness/query/src/c04.rs)
C05 (`e=c05`): see harness/query/src/c05.rs for the op lines (`ent fld build row upgrade q qs qe qf qo ql qa qn
run pages`); `run` prints `res=[…]` (canonical rows: the evaluator's order, rows that tie on every visible
order key sorted by their text) or `err:sql`, `pages` the successive pages of `first n, after(last)`.
`sqlck` prints the statement of the compiler model (`SqlGen.render (compile q)` / `render1 (compile1 q)`), its bound
values and the rows `SqlSem.run` / `run1` predicts on the modelled tables; `sqltbl` / `sqledge` print those tables.
anything else -> bad-op
-/
open Discret Discret.Proto Discret.Value

namespace QDriver

def decCps (s : String) : Option (List Char) :=
  if s = "" then some []
  else (s.splitOn ",").mapM fun t => t.toNat?.map Char.ofNat

def encCps (s : List Char) : String := joinWith "," (s.map fun c => toString c.toNat)

def fnv (s : List Char) : UInt64 :=
  s.foldl (fun h c => (h ^^^ c.toNat.toUInt64) * 0x100000001b3) 0xcbf29ce484222325

def encShort (s : List Char) : String :=
  if s.length ≤ 300 then encCps s else s!"H{s.length}:{(fnv s).toNat}"

def hexUp (n : Nat) : Char := if n < 10 then Char.ofNat (48 + n) else Char.ofNat (55 + n)

def pct (s : String) : String :=
  String.ofList (s.toUTF8.toList.flatMap fun b =>
    let n := b.toNat
    if (48 ≤ n ∧ n ≤ 57) ∨ (65 ≤ n ∧ n ≤ 90) ∨ (97 ≤ n ∧ n ≤ 122) then [Char.ofNat n]
    else ['%', hexUp (n / 16), hexUp (n % 16)])

/-- a value as written on an op line -/
inductive V
  | null | str (s : List Char) | int (i : Int) | bool (b : Bool) | float (bits : Nat) (typed disp : List Char)

def parseV (t : String) : Option V :=
  match t.toList with
  | ['N'] => some .null
  | 'S' :: r => (decCps (String.ofList r)).map V.str
  | 'I' :: r => (String.ofList r).toInt?.map V.int
  | ['B', '0'] => some (.bool false)
  | ['B', '1'] => some (.bool true)
  | 'F' :: r =>
    match (String.ofList r).splitOn ":" with
    | [b, ty, di] =>
      match b.toNat?, decCps ty, decCps di with
      | some b, some ty, some di => some (.float b ty di)
      | _, _, _ => none
    | _ => none
  | _ => none

def parseVs (s : String) : Option (List V) :=
  if s = "" then some [] else (s.splitOn ";").mapM parseV

structure Case where
  ty : FieldTy
  nul : Bool
  pos : String
  fpos : String
  place : String
  alias : Bool
  svc : Bool

def parseTy : String → Option FieldTy
  | "String" => some .string | "Integer" => some .integer | "Boolean" => some .boolean
  | "Float" => some .float | "Base64" => some .base64 | "Json" => some .json | _ => none

def parseCase (toks : List String) : Option Case := do
  let ty ← (kv? toks "ty").bind parseTy
  let nul ← kv? toks "nul"
  let pos ← kv? toks "pos"
  let fpos ← kv? toks "fpos"
  let place ← kv? toks "place"
  let sel ← kv? toks "sel"
  let via ← kv? toks "via"
  if !(["param", "lit", "default"].contains pos) then none
  if !(["param", "lit"].contains fpos) then none
  if !(["top", "ref", "arr"].contains place) then none
  if !(["name", "alias"].contains sel) then none
  if !(["conn", "svc"].contains via) then none
  if !(["0", "1"].contains nul) then none
  if pos = "default" ∧ nul = "1" then none
  some { ty, nul := nul = "1", pos, fpos, place, alias := sel = "alias", svc := via = "svc" }

/-- the value as the engine's `ParamValue` for a field of type `ty` -/
def toScalar (ty : FieldTy) : V → Scalar
  | .null => .null
  | .str s => if ty = .json then .json s else .str s
  | .int i => .int i
  | .bool b => .bool b
  | .float b _ d => .float b d

def stringy (ty : FieldTy) : Bool := ty = .string ∨ ty = .base64 ∨ ty = .json

def obsScalar : Scalar → String
  | .null => "N"
  | .bool b => if b then "B1" else "B0"
  | .int i => s!"I{i}"
  | .str s => "S" ++ encShort s
  | .float b _ => s!"F{b}"
  | .json _ => "Jsame"

def litOfScalar : Scalar → Lit
  | .null => .null
  | .bool b => .bool b
  | .int i => .int i
  | .str s => .str s
  | .float _ d => .float d
  | .json t => .str t

/-- SQLite's rendering of a default value inside `json_object` (`Ifnull(NULL, default)`):
    a bound text is quoted and escaped (same escapes as serde_json), `true`/`false` are the integers 1/0 -/
def sqlDefaultJson : Scalar → List Char
  | .str s => '"' :: (escape s ++ ['"'])
  | .json t => '"' :: (escape t ++ ['"'])
  | .bool b => if b then ['1'] else ['0']
  | .int i => printInt i
  | .null => "null".toList
  | .float _ _ => "<float>".toList

def D := Defects.asImplemented

def fieldA : FieldM := { name := "a", short := "32", dflt := none, isSystem := false }
def fieldT : FieldM := { name := "t", short := "32", dflt := none, isSystem := false }
def fieldId : FieldM := { name := "id", short := "id", dflt := none, isSystem := true }

def fieldV (dflt : Option Scalar) : FieldM :=
  match dflt with
  | some dv => { name := "v", short := "34", dflt := some (litOfScalar dv), isSystem := false }
  | none => { name := "v", short := "33", dflt := none, isSystem := false }

def fieldB (isDefault : Bool) : FieldM :=
  { name := "b", short := if isDefault then "33" else "34", dflt := none, isSystem := false }

def selectQ (c : Case) (dflt : Option Scalar) : TopQ :=
  let isD := c.pos = "default"
  let vkey := if c.alias then "w" else "v"
  let pf : List SelField := [{ key := "a", field := fieldA }, { key := vkey, field := fieldV dflt }, { key := "b", field := fieldB isD }]
  let idf : Filter := { name := "id", op := "=", value := .var "id", selected := false, field := fieldId }
  if c.place = "top" then
    { table := "P", eshort := "0", fields := pf.map QField.scalar, filters := [idf] }
  else
    let key := if c.place = "ref" then "p" else "ps"
    { table := "Q", eshort := "0",
      fields := [.scalar { key := "t", field := fieldT },
                 .sub { key, label := "33", eshort := "1", fields := pf, filters := [], isArray := c.place = "arr", nullable := false }],
      filters := [idf] }

def secondClause (c : Case) : Bool := c.fpos = "lit" && stringy c.ty

def filterQ (c : Case) (dflt : Option Scalar) (x : FVal) : TopQ :=
  let vname := if c.alias then "w" else "v"
  let pf : List SelField :=
    if c.alias then [{ key := "a", field := fieldA }, { key := "w", field := fieldV dflt }] else [{ key := "a", field := fieldA }]
  let f1 : Filter := { name := vname, op := "=", value := x, selected := c.alias, field := fieldV dflt }
  let f2 : Filter := { name := "a", op := ">=", value := .var "a", selected := false, field := fieldA }
  let fs := if secondClause c then [f1, f2] else [f1]
  if c.place = "top" then
    { table := "P", eshort := "0", fields := pf.map QField.scalar, filters := fs }
  else
    let key := if c.place = "ref" then "p" else "ps"
    { table := "Q", eshort := "0",
      fields := [.scalar { key := "t", field := fieldT },
                 .sub { key, label := "33", eshort := "1", fields := pf, filters := fs, isArray := c.place = "arr", nullable := false }],
      filters := [] }

/-- the text bound to the slot that variable `x` received, when that slot belongs to a literal
    (`build_query_params` binds the literal's text there and ignores the parameter) -/
def slotTakenByLiteral (ps : Params) (x : String) : Option (List Char) :=
  match findSlot D x.toList ps 1 with
  | some i => match ps[i - 1]? with
    | some (true, txt) => some txt
    | _ => none
  | none => none

def failLine (e : Err) : String := s!"st=err:{e.name} raw=- res=- ret=- sib=- oth=- flt=- sql=- fsql=-"

def qs (s : String) : List Char := s.toList

def observe (c : Case) (v : V) (l fl : Option (List Char)) (ds : List V) (free : Bool) : String :=
  let ty := c.ty
  let isD := c.pos = "default"
  let vS := toScalar ty v
  -- the target row: stored value of v (none = key absent) and the field's default
  let put : Except Err (Option Scalar × Option Scalar) :=
    if c.pos = "param" then (admitParam ty c.nul vS).map fun s => (some s, none)
    else match l with
      | none => .error .parse
      | some tok =>
        if isD then (parseTok D ty false vS tok).map fun dv => (none, some dv)
        else (parseTok D ty c.nul vS tok).map fun s => (some s, none)
  match put with
  | .error e => failLine e
  | .ok (stored, dflt) =>
    let freeExpected := D.defaultSpliced && isD && stringy ty &&
      (match dflt with
       | some (.str s) | some (.json s) => s.any fun ch => ch = '\'' || ch.toNat = 0
       | _ => false)
    if free != freeExpected then "bad-op" else
    let opq := ty = .float ∨ ty = .json
    let x : List Char := match stored with
      | some s => reemit (jsonText s)
      | none => sqlDefaultJson (dflt.getD .null)
    let raw : String :=
      if c.svc ∨ opq then "-"
      else if isD then encShort (qs "{\"32\":7,\"33\":\"sib\"}")
      else encShort (qs "{\"32\":7,\"33\":" ++ x ++ qs ",\"34\":\"sib\"}")
    let vkey := if c.alias then "w" else "v"
    let row := qs "{\"a\":7,\"" ++ qs vkey ++ qs "\":" ++ x ++ qs ",\"b\":\"sib\"}"
    let resT : List Char :=
      if c.place = "top" then qs "{\n\"P\":[" ++ row ++ qs "]\n}"
      else if c.place = "ref" then qs "{\n\"Q\":[{\"t\":7,\"p\":" ++ row ++ qs "}]\n}"
      else qs "{\n\"Q\":[{\"t\":7,\"ps\":[" ++ row ++ qs "]}]\n}"
    -- `id = $id`: when the slot of `$id` belongs to a default text, the row is compared with that text: no row
    let selQ := selectQ c dflt
    let idLost := (slotTakenByLiteral (compile D selQ).1 "id").isSome
    let resT := if idLost then (if c.place = "top" then qs "{\n\"P\":[]\n}" else qs "{\n\"Q\":[]\n}") else resT
    let res := if opq then "-" else encShort resT
    let ret : String :=
      if idLost then "norow"
      else if ty = .float then (if isD then "*" else obsScalar vS)
      else if ty = .json then
        (match stored with
         | some s => obsScalar s
         | none => match readJson x with | some s => obsScalar s | none => "X")
      else match readJson x with
        | some s => obsScalar s
        | none => "X"
    -- the equality filter
    let fnul := if isD then false else c.nul
    let fval : Except Err (FilterVal × FVal) :=
      if c.fpos = "param" then (admitParam ty fnul vS).map fun s => (FilterVal.param s, FVal.var "f")
      else match fl with
        | none => .error .parse
        | some tok =>
          -- `build_filter`: a string literal is refused on a Json field (only `null` is typed)
          (parseTok D ty fnul vS tok).bind fun s =>
            match s with
            | .json _ => .error .type
            | s => .ok (FilterVal.lit s, FVal.lit (litOfScalar s))
    let maskFlt := ty = .json ∨ free ∨ ty = .float
    let decoys : List (Nat × Scalar) :=
      (ds.zipIdx).filterMap fun (dv, k) =>
        match admitParam ty fnul (toScalar ty dv) with
        | .ok s => some (100 + k, s)
        | .error _ => none
    let flt : String :=
      if maskFlt then "*"
      else match fval with
        | .error e => s!"err:{e.name}"
        | .ok (f, x) =>
          -- `a >= $a` with $a = 0 holds for every row, unless the slot of `$a` carries a literal's text
          -- (an integer is never >= a text in SQLite)
          let second := !(secondClause c) || (slotTakenByLiteral (compile D (filterQ c dflt x)).1 "a").isNone
          let t := (if filterMatches D dflt stored f && second then [7] else []) ++
            (decoys.filter fun (_, s) => filterMatches D dflt (some s) f && second).map (·.1)
          joinWith "," (t.map toString)
    let sql := if c.svc then "-" else pct (render (sqlTokens D selQ))
    let fsql :=
      if c.svc then "-"
      else match fval with
        | .ok (_, x) => pct (render (sqlTokens D (filterQ c dflt x)))
        | .error e =>
          -- a refused parameter is detected when the query runs (the statement exists); a refused literal when it is parsed
          if c.fpos = "param" then (let _ := e; pct (render (sqlTokens D (filterQ c dflt (.var "f"))))) else "-"
    let sib := if idLost then "-" else "ok"
    s!"st=ok raw={raw} res={res} ret={ret} sib={sib} oth=same flt={flt} sql={sql} fsql={fsql}"

/-! ## C05 -/
namespace Q5
open Discret.Query

def D5 := Discret.Query.Defects.asImplemented

structure FieldS where
  kind : FKind
  nullable : Bool
  dflt : Option Val
  late : Bool
  thenDflt : Option Val := none     -- a nullable field that becomes `default v` in the upgraded model

inductive SelN
  | scalar (key : String) (fld : Nat)
  | id (key : String)
  | agg (key : String) (fn : AggFn) (fld : Nat)
  | json (key : String) (fld : Nat) (path : List PathSeg)
  | sub (key : String) (fld : Nat) (child : Nat)

structure Node where
  ent : Nat
  alias : Option String := none
  sels : List SelN := []
  filters : List Discret.Query.Filter := []
  orders : List Order := []
  first : Nat := 0
  skip : Nat := 0
  after : List Val := []
  before : List Val := []
  optional : List String := []

structure Case5 where
  ns : Bool
  ents : List (List FieldS) := []
  built : Bool := false
  upgraded : Bool := false
  rows : List Row := []
  nodes : List (Nat × Node) := []

def toVal : QDriver.V → Option Val
  | .null => some .null
  | .str s => some (.str s)
  | .int i => some (.int i)
  | .bool b => some (.bool b)
  | .float _ _ _ => none

def parseVal (t : String) : Option Val := (QDriver.parseV t).bind toVal

/-- the field as the current model version declares it -/
def currentField (c : Case5) (f : FieldS) : FieldDef :=
  match f.thenDflt with
  | some v => if c.upgraded then { kind := f.kind, nullable := false, dflt := some v }
              else { kind := f.kind, nullable := f.nullable, dflt := f.dflt }
  | none => { kind := f.kind, nullable := f.nullable, dflt := f.dflt }

def schemaOf (c : Case5) : Schema :=
  c.ents.map fun e => e.map (currentField c)

def getNode (c : Case5) (n : Nat) : Option Node := Discret.Query.lookup n c.nodes

def setNode (c : Case5) (n : Nat) (nd : Node) : Case5 :=
  { c with nodes := (n, nd) :: c.nodes.filter (·.1 ≠ n) }

def entName (c : Case5) (i : Nat) : String := if c.ns then s!"app.E{i}" else s!"E{i}"

/-- `j:x|j:x…` -/
def parsePairs (s : String) : Option (List (Nat × String)) :=
  if s = "" then some []
  else (s.splitOn "|").mapM fun t =>
    match t.splitOn ":" with
    | [j, x] => j.toNat?.map fun j => (j, x)
    | _ => none

def buildQuery (c : Case5) : Nat → Nat → Option Query
  | 0, _ => none
  | fuel + 1, n => do
    let nd ← getNode c n
    let sels ← nd.sels.mapM fun sn =>
      match sn with
      | .scalar key fld => some (Sel.scalar key fld)
      | .id key => some (Sel.id key)
      | .agg key fn fld => some (Sel.agg key fn fld)
      | .json key fld path => some (Sel.json key fld path)
      | .sub key fld child => (buildQuery c fuel child).map fun q => Sel.sub key fld (nd.optional.contains key) q
    some (Query.mk nd.ent sels nd.filters nd.orders nd.first nd.skip nd.after nd.before)

def cps (s : List Char) : String := joinWith "." (s.map fun ch => toString ch.toNat)

/-! a reader of the minified JSON texts of the op files (no escapes, no spaces) -/
def spanDigits : List Char → List Char × List Char
  | [] => ([], [])
  | ch :: t => if ch.isDigit then let r := spanDigits t; (ch :: r.1, r.2) else ([], ch :: t)

def spanStr : List Char → Option (List Char × List Char)
  | [] => none
  | '"' :: t => some ([], t)
  | ch :: t => (spanStr t).map fun r => (ch :: r.1, r.2)

mutual
  def pJson : Nat → List Char → Option (J × List Char)
    | 0, _ => none
    | fuel + 1, s =>
      match s with
      | 'n' :: 'u' :: 'l' :: 'l' :: t => some (.null, t)
      | 't' :: 'r' :: 'u' :: 'e' :: t => some (.bool true, t)
      | 'f' :: 'a' :: 'l' :: 's' :: 'e' :: t => some (.bool false, t)
      | '"' :: t => (spanStr t).map fun r => (.str r.1, r.2)
      | '[' :: ']' :: t => some (.arr [], t)
      | '[' :: t => (pItems fuel t).map fun r => (.arr r.1, r.2)
      | '{' :: '}' :: t => some (.obj [], t)
      | '{' :: t => (pFields fuel t).map fun r => (.obj r.1, r.2)
      | '-' :: t =>
        let r := spanDigits t
        (String.ofList r.1).toNat?.map fun n => (.int (-(n : Int)), r.2)
      | t =>
        let r := spanDigits t
        (String.ofList r.1).toNat?.map fun n => (.int n, r.2)
  def pItems : Nat → List Char → Option (List J × List Char)
    | 0, _ => none
    | fuel + 1, s =>
      match pJson fuel s with
      | some (v, ',' :: t) => (pItems fuel t).map fun r => (v :: r.1, r.2)
      | some (v, ']' :: t) => some ([v], t)
      | _ => none
  def pFields : Nat → List Char → Option (List (String × J) × List Char)
    | 0, _ => none
    | fuel + 1, s =>
      match s with
      | '"' :: t =>
        match spanStr t with
        | some (k, ':' :: t2) =>
          (match pJson fuel t2 with
           | some (v, ',' :: t3) => (pFields fuel t3).map fun r => ((String.ofList k, v) :: r.1, r.2)
           | some (v, '}' :: t3) => some ([(String.ofList k, v)], t3)
           | _ => none)
        | _ => none
      | _ => none
end

def parseJson (s : List Char) : Option J :=
  match pJson 64 s with
  | some (j, []) => some j
  | _ => none

/-- `k/m:1/o`, `@2` (index at the root), `$` (the whole value) -/
def parsePath (s : String) : Option (List PathSeg) :=
  if s = "$" then some []
  else ((s.splitOn "/").mapM fun (seg : String) =>
    if seg.toList.head? = some '@' then (String.ofList (seg.toList.drop 1)).toNat?.map fun i => [PathSeg.idx i]
    else match seg.splitOn ":" with
      | [k] => if k = "" then none else some [PathSeg.key k]
      | [k, i] => i.toNat?.map fun i => [PathSeg.key k, PathSeg.idx i]
      | _ => none).map List.flatten

mutual
  def canonJson : Nat → J → String
    | 0, _ => "?"
    | fuel + 1, j =>
      match j with
      | .null => "N"
      | .bool b => if b then "B1" else "B0"
      | .int i => s!"I{i}"
      | .str s => "S" ++ cps s
      | .id n => s!"#{n}"
      | .obj fs => "J{" ++ joinWith ";" (canonJsonFields fuel fs) ++ "}"
      | .arr l => "A[" ++ joinWith "," (canonJsonItems fuel l) ++ "]"
  def canonJsonFields : Nat → List (String × J) → List String
    | 0, _ => []
    | _, [] => []
    | fuel + 1, (k, v) :: rest => (k ++ "=" ++ canonJson fuel v) :: canonJsonFields fuel rest
  def canonJsonItems : Nat → List J → List String
    | 0, _ => []
    | _, [] => []
    | fuel + 1, v :: rest => canonJson fuel v :: canonJsonItems fuel rest
end

def canonScalar : J → String
  | .null => "N"
  | .bool b => if b then "B1" else "B0"
  | .int i => s!"I{i}"
  | .str s => "S" ++ cps s
  | .id n => s!"#{n}"
  | _ => "?"

def insertStr (x : String) : List String → List String
  | [] => [x]
  | y :: t => if x ≤ y then x :: y :: t else y :: insertStr x t

def sortStr (l : List String) : List String := l.foldr insertStr []

def fieldOf (j : J) (k : String) : Option J :=
  match j with
  | .obj fs => (fs.find? (·.1 = k)).map (·.2)
  | _ => none

/-- runs of consecutive rows with equal visible order keys, each sorted by text -/
def normRuns : List (List String × String) → List String → Option (List String) → List String → List String
  | [], run, _, acc => acc ++ sortStr run
  | (k, t) :: rest, run, cur, acc =>
    if cur = some k then normRuns rest (run ++ [t]) cur acc
    else normRuns rest [t] (some k) (acc ++ sortStr run)

mutual
  def canonRow (c : Case5) : Nat → Query → J → String
    | 0, _, _ => "?"
    | fuel + 1, q, row =>
      let parts := q.sels.map fun sel =>
        match sel with
        | .scalar key _ => key ++ "=" ++ (match fieldOf row key with | some x => canonJson 64 x | none => "absent")
        | .id key => key ++ "=" ++ (match fieldOf row key with | some x => canonScalar x | none => "absent")
        | .agg key _ _ => key ++ "=" ++ (match fieldOf row key with | some x => canonScalar x | none => "absent")
        | .json key _ _ => key ++ "=" ++ (match fieldOf row key with | some x => canonJson 64 x | none => "absent")
        | .sub key _ _ sq =>
          key ++ "=" ++ (match fieldOf row key with
            | some (.arr items) => "[" ++ joinWith "," (canonRows c fuel sq items) ++ "]"
            | some .null => "N"
            | some (.obj fs) => canonRow c fuel sq (.obj fs)
            | some _ => "?shape"
            | none => "absent")
      "{" ++ joinWith ";" parts ++ "}"

  def canonRows (c : Case5) : Nat → Query → List J → List String
    | 0, _, _ => []
    | fuel + 1, q, items =>
      let visible := (q.orders.filter fun o => q.sels.any fun sel =>
        match sel with | .scalar key _ => key = o.name | .agg key _ _ => key = o.name | _ => false).map (·.name)
      let rows := items.map fun r =>
        (visible.map fun k => match fieldOf r k with | some x => canonScalar x | none => "", canonRow c fuel q r)
      normRuns rows [] none []
end

def FUEL : Nat := 8

def rootKey (c : Case5) (nd : Node) : String :=
  match nd.alias with
  | some a => a
  | none => (entName c nd.ent).replace "." "$"

/-- the result of the root query with `first`/`after` possibly overridden (paging) -/
def runQuery (c : Case5) (over : Option (Nat × List Val)) : Except String (Query × List J) :=
  match getNode c 0, buildQuery c FUEL 0 with
  | some nd, some q =>
    let q := match over with
      | some (n, cur) => Query.mk q.ent q.sels q.filters q.orders n 0 cur []
      | none => q
    if refused D5 (schemaOf c) FUEL q true then .error "err:sql"
    else .ok (q, eval D5 (schemaOf c) c.rows FUEL (rootKey c nd) q)
  | _, _ => .error "bad-op"

def cursorOf (q : Query) (last : J) : Option (List Val) :=
  q.orders.mapM fun o =>
    match fieldOf last o.name with
    | some (.int i) => some (.int i)
    | some (.str s) => some (.str s)
    | some (.bool b) => some (.bool b)
    | _ => none

/-- `EntityQuery::finalize`: a cursor value must have the type of its order field -/
def cursorTyped (c : Case5) (q : Query) (cur : List Val) : Bool :=
  (q.orders.zip cur).all fun (o, v) =>
    match fieldDef (schemaOf c) q.ent o.fld, v with
    | some fd, .int _ => fd.kind = .int
    | some fd, .str _ => fd.kind = .str
    | some fd, .bool _ => fd.kind = .bool
    | _, _ => false

def pagesLoop (c : Case5) (n : Nat) : Nat → List Val → List String → String × String
  | 0, _, acc => (joinWith "/" acc, "")
  | fuel + 1, cur, acc =>
    match (match buildQuery c FUEL 0 with
           | some q0 => if cursorTyped c q0 cur then runQuery c (some (n, cur)) else .error "err:pagingtype"
           | none => .error "bad-op") with
    | .error e => (joinWith "/" acc, e)
    | .ok (q, items) =>
      if items.isEmpty then (joinWith "/" acc, "")
      else
        let acc := acc ++ [joinWith "," (canonRows c FUEL q items)]
        match items.getLast? with
        | none => (joinWith "/" acc, "")
        | some last =>
          match cursorOf q last with
          | some cur' => pagesLoop c n fuel cur' acc
          | none => (joinWith "/" acc, "nullcursor")

def parseCmp : String → Option Cmp
  | "eq" => some .eq | "ne" => some .ne | "lt" => some .lt | "le" => some .le | "gt" => some .gt | "ge" => some .ge
  | _ => none

def step (c : Case5) (kind : String) (toks : List String) : Case5 × String :=
  match kind with
  | "ent" =>
    match nat? toks "k" with
    | some k =>
      if k = c.ents.length && ["none", "empty", "nofts"].contains ((kv? toks "opt").getD "none") then
        ({ c with ents := c.ents ++ [[]] }, "ok")
      else (c, "bad-op")
    | none => (c, "bad-op")
  | "fld" =>
    match nat? toks "e", nat? toks "k", kv? toks "ty", kv? toks "mod" with
    | some e, some k, some ty, some md =>
      match c.ents[e]? with
      | none => (c, "bad-op")
      | some fs =>
        let dv := (kv? toks "dv").bind parseVal
        let th := (kv? toks "then").bind parseVal
        let dvBad := ((kv? toks "dv").isSome && dv.isNone) || ((kv? toks "then").isSome && (th.isNone || md ≠ "n" || !(["I", "S", "B"].contains ty)))
        let kind : Option FKind := match ty with
          | "I" => some .int | "S" => some .str | "B" => some .bool | "J" => some .json
          | "R" => (nat? toks "to").map FKind.ref
          | "A" => (nat? toks "to").map FKind.arr
          | _ => none
        match kind with
        | some kd =>
          if k ≠ fs.length ∨ dvBad ∨ !(["r", "n", "d"].contains md) ∨ ((md = "d") ≠ dv.isSome) then (c, "bad-op")
          else
            let f : FieldS := { kind := kd, nullable := md = "n", dflt := dv, late := (kv? toks "late") = some "1", thenDflt := th }
            ({ c with ents := c.ents.set e (fs ++ [f]) }, "ok")
        | none => (c, "bad-op")
    | _, _, _, _ => (c, "bad-op")
  | "build" => ({ c with built := true }, "ok")
  | "upgrade" => ({ c with upgraded := true }, "ok")
  | "row" =>
    match nat? toks "id", nat? toks "e", parsePairs ((kv? toks "v").getD ""), parsePairs ((kv? toks "r").getD ""),
          (parsePairs ((kv? toks "j").getD "")).bind (fun js => js.mapM fun (j, x) => ((QDriver.decCps x).bind parseJson).map fun v => (j, v)) with
    | some id, some e, some vs, some rs, some jsons =>
      match c.ents[e]? with
      | none => (c, "bad-op")
      | some fs =>
        if !c.built then (c, "err:nodb") else
        match vs.mapM (fun (j, x) => (parseVal x).map fun v => (j, v)),
              rs.mapM (fun (j, x) => ((x.splitOn ".").filter (· ≠ "")).mapM String.toNat? |>.map fun ids => (j, ids)) with
        | some vals, some refs =>
          -- references must point to existing rows
          if refs.any (fun (_, ids) => ids.any fun t => !(c.rows.any (·.id = t))) then (c, "bad-op") else
          -- `fill_not_nullable`: a field with a default that is part of the current model version is stored
          let filled := (fs.zipIdx.filterMap fun (f, j) =>
            match (currentField c f).dflt with
            | some dv => if (!f.late || c.upgraded) && !(vals.any (·.1 = j)) then some (j, dv) else none
            | none => none)
          let refs := refs.filter fun (j, ids) => !ids.isEmpty &&
            (match fs[j]? with | some f => (match f.kind with | .ref _ => true | .arr _ => true | _ => false) | none => false)
          let refs := refs.map fun (j, ids) =>
            match fs[j]? with
            | some f => (match f.kind with | .ref _ => (j, ids.take 1) | _ => (j, ids))
            | none => (j, ids)
          let row : Row := { id, ent := e, vals := vals ++ filled, refs, jsons }
          ({ c with rows := c.rows ++ [row] }, "ok")
        | _, _ => (c, "bad-op")
    | _, _, _, _, _ => (c, "bad-op")
  | "q" =>
    match nat? toks "n", nat? toks "ent" with
    | some n, some e =>
      if e < c.ents.length then
        let c := if n = 0 then { c with nodes := [] } else c
        (setNode c n { ent := e, alias := kv? toks "alias" }, "ok")
      else (c, "bad-op")
    | _, _ => (c, "bad-op")
  | "qs" =>
    match nat? toks "n", kv? toks "key", kv? toks "f" with
    | some n, some key, some f =>
      match getNode c n with
      | some nd =>
        if f = "id" then (setNode c n { nd with sels := nd.sels ++ [.id key] }, "ok")
        else match f.toNat? with
          | some j => (setNode c n { nd with sels := nd.sels ++ [.scalar key j] }, "ok")
          | none => (c, "bad-op")
      | none => (c, "bad-op")
    | _, _, _ => (c, "bad-op")
  | "qj" =>
    match nat? toks "n", kv? toks "key", nat? toks "f", (kv? toks "path").bind parsePath with
    | some n, some key, some f, some path =>
      match getNode c n with
      | some nd => (setNode c n { nd with sels := nd.sels ++ [.json key f path] }, "ok")
      | none => (c, "bad-op")
    | _, _, _, _ => (c, "bad-op")
  | "qg" =>
    match nat? toks "n", kv? toks "key", kv? toks "fn", nat? toks "f" with
    | some n, some key, some fn, some f =>
      let fn? : Option AggFn := match fn with | "count" => some .count | "min" => some .min | "max" => some .max | _ => none
      match getNode c n, fn? with
      | some nd, some fn => (setNode c n { nd with sels := nd.sels ++ [.agg key fn f] }, "ok")
      | _, _ => (c, "bad-op")
    | _, _, _, _ => (c, "bad-op")
  | "qe" =>
    match nat? toks "n", kv? toks "key", nat? toks "f", nat? toks "child" with
    | some n, some key, some f, some ch =>
      match getNode c n, getNode c ch with
      | some nd, some _ =>
        if ch = n then (c, "bad-op") else (setNode c n { nd with sels := nd.sels ++ [.sub key f ch] }, "ok")
      | _, _ => (c, "bad-op")
    | _, _, _, _ => (c, "bad-op")
  | "qf" =>
    match nat? toks "n", kv? toks "name", kv? toks "sel", nat? toks "f", (kv? toks "op").bind parseCmp,
          (kv? toks "v").bind parseVal with
    | some n, some name, some sel, some f, some op, some v =>
      match getNode c n with
      | some nd =>
        let jp := (kv? toks "jpath").bind parsePath
        if (kv? toks "jpath").isSome && jp.isNone then (c, "bad-op") else
        let flt : Discret.Query.Filter := { onAlias := sel = "1", fld := f, op, value := v, isParam := (kv? toks "var") = some "1",
                                            name, onRef := (kv? toks "ref") = some "1", jpath := jp }
        (setNode c n { nd with filters := nd.filters ++ [flt] }, "ok")
      | none => (c, "bad-op")
    | _, _, _, _, _, _ => (c, "bad-op")
  | "qo" =>
    match nat? toks "n", kv? toks "name", kv? toks "sel", nat? toks "f", kv? toks "dir" with
    | some n, some name, some sel, some f, some dir =>
      match getNode c n with
      | some nd =>
        if dir ≠ "asc" ∧ dir ≠ "desc" then (c, "bad-op") else
        let o : Order := { name, onAlias := sel = "1", fld := f, desc := dir = "desc" }
        (setNode c n { nd with orders := nd.orders ++ [o] }, "ok")
      | none => (c, "bad-op")
    | _, _, _, _, _ => (c, "bad-op")
  | "ql" =>
    match nat? toks "n", nat? toks "first", nat? toks "skip" with
    | some n, some f, some sk =>
      match getNode c n with
      | some nd => (setNode c n { nd with first := f, skip := sk }, "ok")
      | none => (c, "bad-op")
    | _, _, _ => (c, "bad-op")
  | "qa" =>
    match nat? toks "n", kv? toks "kind", kv? toks "v" with
    | some n, some k, some v =>
      match getNode c n, (v.splitOn "|").mapM parseVal with
      | some nd, some vals =>
        if k = "after" then (setNode c n { nd with after := vals }, "ok")
        else if k = "before" then (setNode c n { nd with before := vals }, "ok")
        else (c, "bad-op")
      | _, _ => (c, "bad-op")
    | _, _, _ => (c, "bad-op")
  | "qn" =>
    match nat? toks "n", kv? toks "key" with
    | some n, some key =>
      match getNode c n with
      | some nd => (setNode c n { nd with optional := nd.optional ++ [key] }, "ok")
      | none => (c, "bad-op")
    | _, _ => (c, "bad-op")
  | "run" =>
    if !c.built then (c, "err:nodb") else
    match runQuery c none with
    | .ok (q, items) => (c, "res=[" ++ joinWith "," (canonRows c FUEL q items) ++ "]")
    | .error e => (c, e)
  | "pages" =>
    match nat? toks "n" with
    | some n =>
      if n = 0 then (c, "bad-op")
      else if (kv? toks "amb") = some "1" then (c, "pages=*")
      else
        let (txt, note) := pagesLoop c n 60 [] []
        (c, "pages=" ++ txt ++ (if note = "" then "" else " note=" ++ note))
    | none => (c, "bad-op")
  | _ => (c, "bad-op")

/-! ### the SQL compiler model (`Model/SqlGen.lean`, `Model/SqlSem.lean`): ops `sqlck`, `sqltbl` -/
open Discret.SqlGen Discret.SqlSem in
/-- position of field `j` among the fields of its entity as the data model numbers them: the fields of the first
    model version in order, then the fields added later in order (`Entity::insert_field`: 32 + position) -/
def fieldRank (fs : List FieldS) (j : Nat) : Nat :=
  match fs[j]? with
  | some f =>
    if f.late then (fs.filter (!·.late)).length + ((fs.take j).filter (·.late)).length
    else ((fs.take j).filter (!·.late)).length
  | none => fs.length + j

open Discret.SqlGen Discret.SqlSem in
def namesOf (c : Case5) (table : String) : Names :=
  { table,
    entShort := fun i => if c.ns then s!"1.{i}" else s!"{i}",
    fieldShort := fun e j => toString (32 + fieldRank ((c.ents[e]?).getD []) j) }

/-- the variable of the i-th filter: the harness numbers the variables `p0, p1, …` in filter order -/
def varName (fs : List Discret.Query.Filter) (i : Nat) : String :=
  s!"p{((fs.take i).filter (·.isParam)).length}"

def showSqlVal : Discret.SqlSem.SqlVal → String
  | .null => "N"
  | .int i => s!"I{i}"
  | .text s => "S" ++ QDriver.encCps s

def showVal : Val → String
  | .null => "N"
  | .int i => s!"I{i}"
  | .bool b => if b then "B1" else "B0"
  | .str s => "S" ++ cps s

/-- number of variable filters of a query (the harness numbers the variables `p0, p1, …`: the filters of a
    selection first, then those of its sub-selections in order) -/
def varCount (q : Query) : Nat := (q.filters.filter (·.isParam)).length

/-- the variable of the i-th filter of the sub-selection at position `j` of the root selection list -/
def subVarName (q : Query) (j i : Nat) : String :=
  let before := (q.sels.take j).foldl (fun acc sel =>
    match sel with
    | .sub _ _ _ sq => acc + varCount sq
    | _ => acc) (varCount q)
  match q.sels[j]? with
  | some (.sub _ _ _ sq) => s!"p{before + ((sq.filters.take i).filter (·.isParam)).length}"
  | _ => "p?"

open Discret.SqlGen Discret.SqlSem in
def stepSql (c : Case5) (kind : String) : String :=
  match kind with
  | "sqlck" =>
    if !c.built then "err:nodb" else
    match getNode c 0, buildQuery c FUEL 0 with
    | some nd, some q =>
      let s := schemaOf c
      let nm := namesOf c (rootKey c nd)
      let badCursor (q : Query) : Bool := !(cursorTyped c q q.after && cursorTyped c q q.before)
      let nullVar (q : Query) : Bool := q.filters.any (fun f => f.isParam && f.value == .null &&
          !((fieldDef s q.ent f.fld).map (·.nullable)).getD false)
      let subs : List Query := q.sels.filterMap fun sel => match sel with | .sub _ _ _ sq => some sq | _ => none
      if !(inFragment s q || inFragment1 s nm.table q || inFragmentA s q) then "notfragment"
      else if badCursor q || subs.any badCursor then "err:pagingtype"
      else if nullVar q || subs.any nullVar then "err:notnull"
      else
        let vn := varName q.filters
        let vals : List (String × Val) :=
          (q.filters.zipIdx.filterMap fun (f, i) => if f.isParam then some (vn i, f.value) else none) ++
          (q.sels.zipIdx.flatMap fun (sel, j) =>
            match sel with
            | .sub _ _ _ sq => sq.filters.zipIdx.filterMap fun (f, i) => if f.isParam then some (subVarName q j i, f.value) else none
            | _ => [])
        let env : String → Val := fun x => match vals.find? (·.1 == x) with | some (_, v) => v | none => .null
        if inFragmentA s q then
          let stmt := compileA nm s vn q
          let par := (List.range stmt.binds.length).map fun i => showSqlVal (bindVal env stmt.binds (i + 1))
          let rows := runA (encode nm c.rows) stmt env
          "sql=" ++ QDriver.pct (renderA stmt) ++ " par=" ++ (if par.isEmpty then "-" else joinWith ";" par) ++
            " rows=[" ++ joinWith "," (canonRows c FUEL q rows) ++ "]"
        else if inFragment s q then
          let stmt := compile nm s vn q
          let par := (List.range stmt.binds.length).map fun i => showSqlVal (bindVal env stmt.binds (i + 1))
          let rows := run (encode nm c.rows) stmt env
          "sql=" ++ QDriver.pct (render stmt) ++ " par=" ++ (if par.isEmpty then "-" else joinWith ";" par) ++
            " rows=[" ++ joinWith "," (canonRows c FUEL q rows) ++ "]"
        else
          let stmt := compile1 nm s vn (subVarName q) q
          let par := (List.range stmt.binds.length).map fun i => showSqlVal (bindVal env stmt.binds (i + 1))
          let rows := run1 (encodeDb nm c.rows) stmt env
          "sql=" ++ QDriver.pct (render1 stmt) ++ " par=" ++ (if par.isEmpty then "-" else joinWith ";" par) ++
            " rows=[" ++ joinWith "," (canonRows c FUEL q rows) ++ "]"
    | _, _ => "bad-op"
  | "sqledge" =>
    if !c.built then "err:nodb" else
    let nm := namesOf c ""
    let es := (encodeEdges nm c.rows).map fun e => s!"{e.src}>{e.label}>{e.dest}"
    "edges=" ++ joinWith "|" (sortStr es)
  | "sqltbl" =>
    if !c.built then "err:nodb" else
    let nm := namesOf c ""
    let scalarShorts (e : Nat) : List String :=
      (((c.ents[e]?).getD []).zipIdx.filter fun (f, _) =>
        match f.kind with | .int | .str | .bool => true | _ => false).map fun (_, j) => nm.fieldShort e j
    let rows := (c.rows.map fun r =>
      let t := encodeRow nm r
      let items := (t.json.filter fun kv => (scalarShorts r.ent).contains kv.1).map fun kv => kv.1 ++ "=" ++ showVal kv.2
      (r.id, s!"{r.id}:{t.entity}:" ++ "{" ++ joinWith ";" (sortStr items) ++ "}"))
    "tbl=" ++ joinWith "|" ((rows.foldr (fun x acc => insertRow x acc) []).map (·.2))
  | _ => "bad-op"
where
  insertRow (x : Nat × String) : List (Nat × String) → List (Nat × String)
    | [] => [x]
    | y :: t => if x.1 ≤ y.1 then x :: y :: t else y :: insertRow x t

end Q5

/-! ## C04, update stream (`e=c04u`) -/
structure UCase where
  tys : List FieldTy
  nul : List Bool
  row : Option RowVals := none

def parseTyChar : String → Option FieldTy
  | "I" => some .integer | "F" => some .float | "B" => some .boolean | "S" => some .string | "X" => some .base64
  | _ => none

def obsRow (row : RowVals) : String := joinWith ";" ((readRow row).map obsScalar)

def stepU (u : UCase) (kind : String) (toks : List String) : UCase × String :=
  match kind with
  | "new" =>
    if u.row.isSome then (u, "bad-op") else
    let ts := ((kv? toks "v").getD "").splitOn ";"
    if ts.length ≠ u.tys.length then (u, "bad-op") else
    let vals : Option (List (Option Scalar)) := (ts.zip u.tys).mapM fun (t, ty) =>
      if t = "-" then some none else (parseV t).map fun v => some (toScalar ty v)
    match vals with
    | none => (u, "bad-op")
    | some vs =>
      -- `validate_params` for each given field; an omitted field must be nullable
      let errs := ((vs.zip u.tys).zip u.nul).filterMap fun ((v, ty), n) =>
        match v with
        | some x => (match admitParam ty n x with | .error e => some e | .ok _ => none)
        | none => if n then none else some Err.notnull
      match errs with
      | e :: _ => (u, s!"st=err:{e.name}")
      | [] => ({ u with row := some vs }, s!"st=ok row={obsRow vs} oth=same")
  | "upd" =>
    match u.row with
    | none => (u, "bad-op")
    | some row =>
      let ts := (((kv? toks "set").getD "").splitOn ";").filter (· ≠ "")
      let sets : Option (List (Nat × Scalar)) := ts.mapM fun t =>
        match t.splitOn ":" with
        | j :: rest =>
          (match j.toNat?, parseV (joinWith ":" rest) with
           | some j, some v => (u.tys[j]?).map fun ty => (j, toScalar ty v)
           | _, _ => none)
        | _ => none
      match sets with
      | none => (u, "bad-op")
      | some sets =>
        let errs := sets.filterMap fun (j, v) =>
          match admitParam (u.tys[j]?.getD .string) (u.nul[j]?.getD false) v with | .error e => some e | .ok _ => none
        match errs with
        | e :: _ => (u, s!"st=err:{e.name}")
        | [] =>
          let row' := applyUpdate row sets
          ({ u with row := some row' }, s!"st=ok row={obsRow row'} oth=same")
  | _ => (u, "bad-op")

structure St where
  c04 : Option Case := none
  c04u : Option UCase := none
  c05 : Option Q5.Case5 := none

def stepLine (s : St) (line : String) : St × String :=
  let toks := tokens line
  match toks with
  | "case" :: rest =>
    match nat? rest "id", kv? rest "e" with
    | some i, some "c04" =>
      match parseCase rest with
      | some c => ({ c04 := some c }, s!"case {i}")
      | none => ({}, "bad-op")
    | some i, some "c04u" =>
      let tys := (((kv? rest "tys").getD "").splitOn ",").mapM parseTyChar
      let nul := ((kv? rest "nul").getD "").splitOn ","
      (match tys with
       | some tys =>
         if tys.isEmpty || tys.length ≠ nul.length ||
            !(["none", "empty", "nofts"].contains ((kv? rest "opt").getD "none")) then ({}, "bad-op")
         else ({ c04u := some { tys, nul := nul.map (· = "1") } }, s!"case {i}")
       | none => ({}, "bad-op"))
    | some i, some "c05" => ({ c05 := some { ns := (kv? rest "ns") = some "1" } }, s!"case {i}")
    | _, _ => ({}, "bad-op")
  | "val" :: rest =>
    match s.c04, (kv? rest "v").bind parseV with
    | some c, some v =>
      let l := (kv? rest "l").bind decCps
      let fl := (kv? rest "fl").bind decCps
      let bad := ((kv? rest "l").isSome && l.isNone) || ((kv? rest "fl").isSome && fl.isNone)
      match parseVs ((kv? rest "d").getD "") with
      | some ds => if bad then (s, "bad-op") else (s, observe c v l fl ds ((kv? rest "free") = some "1"))
      | none => (s, "bad-op")
    | _, _ => (s, "bad-op")
  | "new" :: rest =>
    match s.c04u with
    | some u => let (u', o) := stepU u "new" rest; ({ s with c04u := some u' }, o)
    | none => (s, "bad-op")
  | "upd" :: rest =>
    match s.c04u with
    | some u => let (u', o) := stepU u "upd" rest; ({ s with c04u := some u' }, o)
    | none => (s, "bad-op")
  | "sqlck" :: _ =>
    match s.c05 with
    | some c => (s, Q5.stepSql c "sqlck")
    | none => (s, "bad-op")
  | "sqltbl" :: _ =>
    match s.c05 with
    | some c => (s, Q5.stepSql c "sqltbl")
    | none => (s, "bad-op")
  | "sqledge" :: _ =>
    match s.c05 with
    | some c => (s, Q5.stepSql c "sqledge")
    | none => (s, "bad-op")
  | kind :: rest =>
    if ["ent", "fld", "build", "upgrade", "row", "q", "qs", "qe", "qg", "qj", "qf", "qo", "ql", "qa", "qn", "run", "pages"].contains kind then
      match s.c05 with
      | some c => let (c', o) := Q5.step c kind rest; ({ s with c05 := some c' }, o)
      | none => (s, "bad-op")
    else (s, "bad-op")
  | _ => (s, "bad-op")

end QDriver

def main : IO Unit := do
  loop (← IO.getStdin) (← IO.getStdout) QDriver.stepLine {}
