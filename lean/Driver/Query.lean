import DiscretModel.Model.Proto
import DiscretModel.Model.Value
/-
Model driver for engine `query` (exe `dmodel_query`), same op files as `dv-query run`.

C04 (`e=c04`):
  case id=<n> e=c04 ty=<String|Integer|Boolean|Float|Base64|Json> nul=<0|1> pos=<param|lit|default>
       fpos=<param|lit> place=<top|ref|arr> sel=<name|alias> via=<conn|svc>
  val v=<Value> [l=<cps>] [fl=<cps>] d=<Value;…> [adm=…] [free=1]
  Value = N | S<cps> | I<int> | B0 | B1 | F<bits>:<typed cps>:<display cps>
  -> st=… raw=… res=… ret=… sib=… oth=… flt=… sql=… fsql=…   (see harness/query/src/c04.rs)
anything else -> bad-op
-/
open Discret Discret.Proto Discret.Value

namespace QDriver

def decCps (s : String) : Option (List Char) :=
  if s = "" then some []
  else (s.splitOn ",").mapM fun t => t.toNat?.map Char.ofNat

def encCps (s : List Char) : String := joinWith "," (s.map fun c => toString c.toNat)

def fnv (s : List Char) : UInt64 :=
  s.foldl (fun h c => (h ^^^ c.toNat.toUInt64) * 0x100000001b3) 0xcbf29ce484222325

def encShort (s : List Char) : String :=
  if s.length ≤ 300 then encCps s else s!"H{s.length}:{(fnv s).toNat}"

def hexUp (n : Nat) : Char := if n < 10 then Char.ofNat (48 + n) else Char.ofNat (55 + n)

def pct (s : String) : String :=
  String.ofList (s.toUTF8.toList.flatMap fun b =>
    let n := b.toNat
    if (48 ≤ n ∧ n ≤ 57) ∨ (65 ≤ n ∧ n ≤ 90) ∨ (97 ≤ n ∧ n ≤ 122) then [Char.ofNat n]
    else ['%', hexUp (n / 16), hexUp (n % 16)])

/-- a value as written on an op line -/
inductive V
  | null | str (s : List Char) | int (i : Int) | bool (b : Bool) | float (bits : Nat) (typed disp : List Char)

def parseV (t : String) : Option V :=
  match t.toList with
  | ['N'] => some .null
  | 'S' :: r => (decCps (String.ofList r)).map V.str
  | 'I' :: r => (String.ofList r).toInt?.map V.int
  | ['B', '0'] => some (.bool false)
  | ['B', '1'] => some (.bool true)
  | 'F' :: r =>
    match (String.ofList r).splitOn ":" with
    | [b, ty, di] =>
      match b.toNat?, decCps ty, decCps di with
      | some b, some ty, some di => some (.float b ty di)
      | _, _, _ => none
    | _ => none
  | _ => none

def parseVs (s : String) : Option (List V) :=
  if s = "" then some [] else (s.splitOn ";").mapM parseV

structure Case where
  ty : FieldTy
  nul : Bool
  pos : String
  fpos : String
  place : String
  alias : Bool
  svc : Bool

def parseTy : String → Option FieldTy
  | "String" => some .string | "Integer" => some .integer | "Boolean" => some .boolean
  | "Float" => some .float | "Base64" => some .base64 | "Json" => some .json | _ => none

def parseCase (toks : List String) : Option Case := do
  let ty ← (kv? toks "ty").bind parseTy
  let nul ← kv? toks "nul"
  let pos ← kv? toks "pos"
  let fpos ← kv? toks "fpos"
  let place ← kv? toks "place"
  let sel ← kv? toks "sel"
  let via ← kv? toks "via"
  if !(["param", "lit", "default"].contains pos) then none
  if !(["param", "lit"].contains fpos) then none
  if !(["top", "ref", "arr"].contains place) then none
  if !(["name", "alias"].contains sel) then none
  if !(["conn", "svc"].contains via) then none
  if !(["0", "1"].contains nul) then none
  if pos = "default" ∧ nul = "1" then none
  some { ty, nul := nul = "1", pos, fpos, place, alias := sel = "alias", svc := via = "svc" }

/-- the value as the engine's `ParamValue` for a field of type `ty` -/
def toScalar (ty : FieldTy) : V → Scalar
  | .null => .null
  | .str s => if ty = .json then .json s else .str s
  | .int i => .int i
  | .bool b => .bool b
  | .float b _ d => .float b d

def stringy (ty : FieldTy) : Bool := ty = .string ∨ ty = .base64 ∨ ty = .json

def obsScalar : Scalar → String
  | .null => "N"
  | .bool b => if b then "B1" else "B0"
  | .int i => s!"I{i}"
  | .str s => "S" ++ encShort s
  | .float b _ => s!"F{b}"
  | .json _ => "Jsame"

def litOfScalar : Scalar → Lit
  | .null => .null
  | .bool b => .bool b
  | .int i => .int i
  | .str s => .str s
  | .float _ d => .float d
  | .json t => .str t

/-- SQLite's rendering of a default value inside `json_object` (`Ifnull(NULL, default)`):
    a bound text is quoted and escaped (same escapes as serde_json), `true`/`false` are the integers 1/0 -/
def sqlDefaultJson : Scalar → List Char
  | .str s => '"' :: (escape s ++ ['"'])
  | .json t => '"' :: (escape t ++ ['"'])
  | .bool b => if b then ['1'] else ['0']
  | .int i => printInt i
  | .null => "null".toList
  | .float _ _ => "<float>".toList

def D := Defects.asImplemented

def fieldA : FieldM := { name := "a", short := "32", dflt := none, isSystem := false }
def fieldT : FieldM := { name := "t", short := "32", dflt := none, isSystem := false }
def fieldId : FieldM := { name := "id", short := "id", dflt := none, isSystem := true }

def fieldV (dflt : Option Scalar) : FieldM :=
  match dflt with
  | some dv => { name := "v", short := "34", dflt := some (litOfScalar dv), isSystem := false }
  | none => { name := "v", short := "33", dflt := none, isSystem := false }

def fieldB (isDefault : Bool) : FieldM :=
  { name := "b", short := if isDefault then "33" else "34", dflt := none, isSystem := false }

def selectQ (c : Case) (dflt : Option Scalar) : TopQ :=
  let isD := c.pos = "default"
  let vkey := if c.alias then "w" else "v"
  let pf : List SelField := [{ key := "a", field := fieldA }, { key := vkey, field := fieldV dflt }, { key := "b", field := fieldB isD }]
  let idf : Filter := { name := "id", op := "=", value := .var "id", selected := false, field := fieldId }
  if c.place = "top" then
    { table := "P", eshort := "0", fields := pf.map QField.scalar, filters := [idf] }
  else
    let key := if c.place = "ref" then "p" else "ps"
    { table := "Q", eshort := "0",
      fields := [.scalar { key := "t", field := fieldT },
                 .sub { key, label := "33", eshort := "1", fields := pf, filters := [], isArray := c.place = "arr", nullable := false }],
      filters := [idf] }

def secondClause (c : Case) : Bool := c.fpos = "lit" && stringy c.ty

def filterQ (c : Case) (dflt : Option Scalar) (x : FVal) : TopQ :=
  let vname := if c.alias then "w" else "v"
  let pf : List SelField :=
    if c.alias then [{ key := "a", field := fieldA }, { key := "w", field := fieldV dflt }] else [{ key := "a", field := fieldA }]
  let f1 : Filter := { name := vname, op := "=", value := x, selected := c.alias, field := fieldV dflt }
  let f2 : Filter := { name := "a", op := ">=", value := .var "a", selected := false, field := fieldA }
  let fs := if secondClause c then [f1, f2] else [f1]
  if c.place = "top" then
    { table := "P", eshort := "0", fields := pf.map QField.scalar, filters := fs }
  else
    let key := if c.place = "ref" then "p" else "ps"
    { table := "Q", eshort := "0",
      fields := [.scalar { key := "t", field := fieldT },
                 .sub { key, label := "33", eshort := "1", fields := pf, filters := fs, isArray := c.place = "arr", nullable := false }],
      filters := [] }

/-- the text bound to the slot that variable `x` received, when that slot belongs to a literal
    (`build_query_params` binds the literal's text there and ignores the parameter) -/
def slotTakenByLiteral (ps : Params) (x : String) : Option (List Char) :=
  match findSlot D x.toList ps 1 with
  | some i => match ps[i - 1]? with
    | some (true, txt) => some txt
    | _ => none
  | none => none

def failLine (e : Err) : String := s!"st=err:{e.name} raw=- res=- ret=- sib=- oth=- flt=- sql=- fsql=-"

def qs (s : String) : List Char := s.toList

def observe (c : Case) (v : V) (l fl : Option (List Char)) (ds : List V) (free : Bool) : String :=
  let ty := c.ty
  let isD := c.pos = "default"
  let vS := toScalar ty v
  -- the target row: stored value of v (none = key absent) and the field's default
  let put : Except Err (Option Scalar × Option Scalar) :=
    if c.pos = "param" then (admitParam ty c.nul vS).map fun s => (some s, none)
    else match l with
      | none => .error .parse
      | some tok =>
        if isD then (parseTok D ty false vS tok).map fun dv => (none, some dv)
        else (parseTok D ty c.nul vS tok).map fun s => (some s, none)
  match put with
  | .error e => failLine e
  | .ok (stored, dflt) =>
    let freeExpected := isD && stringy ty &&
      (match dflt with
       | some (.str s) | some (.json s) => s.any fun ch => ch = '\'' || ch.toNat = 0
       | _ => false)
    if free != freeExpected then "bad-op" else
    let opq := ty = .float ∨ ty = .json
    let x : List Char := match stored with
      | some s => reemit (jsonText s)
      | none => sqlDefaultJson (dflt.getD .null)
    let raw : String :=
      if c.svc ∨ opq then "-"
      else if isD then encShort (qs "{\"32\":7,\"33\":\"sib\"}")
      else encShort (qs "{\"32\":7,\"33\":" ++ x ++ qs ",\"34\":\"sib\"}")
    let vkey := if c.alias then "w" else "v"
    let row := qs "{\"a\":7,\"" ++ qs vkey ++ qs "\":" ++ x ++ qs ",\"b\":\"sib\"}"
    let resT : List Char :=
      if c.place = "top" then qs "{\n\"P\":[" ++ row ++ qs "]\n}"
      else if c.place = "ref" then qs "{\n\"Q\":[{\"t\":7,\"p\":" ++ row ++ qs "}]\n}"
      else qs "{\n\"Q\":[{\"t\":7,\"ps\":[" ++ row ++ qs "]}]\n}"
    -- `id = $id`: when the slot of `$id` belongs to a default text, the row is compared with that text: no row
    let selQ := selectQ c dflt
    let idLost := (slotTakenByLiteral (compile D selQ).1 "id").isSome
    let resT := if idLost then (if c.place = "top" then qs "{\n\"P\":[]\n}" else qs "{\n\"Q\":[]\n}") else resT
    let res := if opq then "-" else encShort resT
    let ret : String :=
      if idLost then "norow"
      else if ty = .float then (if isD then "*" else obsScalar vS)
      else if ty = .json then
        (match stored with
         | some s => obsScalar s
         | none => match readJson x with | some s => obsScalar s | none => "X")
      else match readJson x with
        | some s => obsScalar s
        | none => "X"
    -- the equality filter
    let fnul := if isD then false else c.nul
    let fval : Except Err (FilterVal × FVal) :=
      if c.fpos = "param" then (admitParam ty fnul vS).map fun s => (FilterVal.param s, FVal.var "f")
      else match fl with
        | none => .error .parse
        | some tok =>
          -- `build_filter`: a string literal is refused on a Json field (only `null` is typed)
          (parseTok D ty fnul vS tok).bind fun s =>
            match s with
            | .json _ => .error .type
            | s => .ok (FilterVal.lit s, FVal.lit (litOfScalar s))
    let maskFlt := ty = .json ∨ free ∨ (ty = .float ∧ (isD ∨ c.fpos = "lit"))
    let decoys : List (Nat × Scalar) :=
      (ds.zipIdx).filterMap fun (dv, k) =>
        match admitParam ty fnul (toScalar ty dv) with
        | .ok s => some (100 + k, s)
        | .error _ => none
    let flt : String :=
      if maskFlt then "*"
      else match fval with
        | .error e => s!"err:{e.name}"
        | .ok (f, x) =>
          -- `a >= $a` with $a = 0 holds for every row, unless the slot of `$a` carries a literal's text
          -- (an integer is never >= a text in SQLite)
          let second := !(secondClause c) || (slotTakenByLiteral (compile D (filterQ c dflt x)).1 "a").isNone
          let t := (if filterMatches D dflt stored f && second then [7] else []) ++
            (decoys.filter fun (_, s) => filterMatches D dflt (some s) f && second).map (·.1)
          joinWith "," (t.map toString)
    let sql := if c.svc then "-" else pct (render (sqlTokens D selQ))
    let fsql :=
      if c.svc then "-"
      else match fval with
        | .ok (_, x) => pct (render (sqlTokens D (filterQ c dflt x)))
        | .error e =>
          -- a refused parameter is detected when the query runs (the statement exists); a refused literal when it is parsed
          if c.fpos = "param" then (let _ := e; pct (render (sqlTokens D (filterQ c dflt (.var "f"))))) else "-"
    let sib := if idLost then "-" else "ok"
    s!"st=ok raw={raw} res={res} ret={ret} sib={sib} oth=same flt={flt} sql={sql} fsql={fsql}"

structure St where
  c04 : Option Case := none

def stepLine (s : St) (line : String) : St × String :=
  let toks := tokens line
  match toks with
  | "case" :: rest =>
    match nat? rest "id", kv? rest "e" with
    | some i, some "c04" =>
      match parseCase rest with
      | some c => ({ s with c04 := some c }, s!"case {i}")
      | none => ({ s with c04 := none }, "bad-op")
    | _, _ => ({ s with c04 := none }, "bad-op")
  | "val" :: rest =>
    match s.c04, (kv? rest "v").bind parseV with
    | some c, some v =>
      let l := (kv? rest "l").bind decCps
      let fl := (kv? rest "fl").bind decCps
      let bad := ((kv? rest "l").isSome && l.isNone) || ((kv? rest "fl").isSome && fl.isNone)
      match parseVs ((kv? rest "d").getD "") with
      | some ds => if bad then (s, "bad-op") else (s, observe c v l fl ds ((kv? rest "free") = some "1"))
      | none => (s, "bad-op")
    | _, _ => (s, "bad-op")
  | _ => (s, "bad-op")

end QDriver

def main : IO Unit := do
  loop (← IO.getStdin) (← IO.getStdout) QDriver.stepLine {}
