import DiscretModel.Model.Proto
import DiscretModel.Model.Events
import DiscretModel.Model.Fts
/-
Model driver for engine `events` (C18; C17 is added as a second interpreter selected by `eng=`).
  case id=<n> eng=ev sites=<k> subs=<k>        -> "case <n>"
  day add=<k>                                   -> "ok"
  room|roomadd|new|upd|nop|ref|unref|del|refdel|stream|pull|flush|mix …  (see harness/events/src/ev.rs)
      -> "skip" | "ok ev <events> | g <cells>"
anything else -> "bad-op"
-/
open Discret Discret.Proto Discret.Events

def cellLt (a b : Cell) : Bool :=
  a.room < b.room || (a.room = b.room && (a.ent < b.ent || (a.ent = b.ent && a.day < b.day)))

def insertSorted (c : Cell) : List Cell → List Cell
  | [] => [c]
  | h :: t => if c = h then h :: t else if cellLt c h then c :: h :: t else h :: insertSorted c t

def sortCells (l : List Cell) : List Cell := l.foldl (fun acc c => insertSorted c acc) []

def fmtCells (l : List Cell) : String :=
  joinWith "," ((sortCells l).map fun c => s!"{c.room}.{c.ent}.{c.day}")

def digest (nsites : Nat) (d : RoomDef) : String :=
  s!"a{nsites}g1u{nsites + d.entries}v0r1"

def fmtEv (nsites : Nat) : Ev → String
  | .data cells => s!"D[{fmtCells cells}]"
  | .roomEv d => s!"R{d.room}:{digest nsites d}="
  | .mark => "W"

def trimRight (s : String) : String :=
  String.ofList (s.toList.reverse.dropWhile (· = ' ')).reverse

def fmtObs (nsites : Nat) (evs : List Ev) (gained : List Cell) : String :=
  let e := joinWith " " (evs.map (fmtEv nsites))
  let head := if e = "" then "ok ev |" else s!"ok ev {e} |"
  trimRight s!"{head} g {fmtCells gained}"

/-- aggregated observation of a concurrent mix: per room the number of room events and the last
    definition; the number of data events and the union of their cells -/
def fmtMix (nsites : Nat) (evs : List Ev) (gained : List Cell) : String :=
  let roomEvs := evs.filterMap fun e => match e with
    | .roomEv d => some d
    | _ => none
  let datas := evs.filterMap fun e => match e with
    | .data c => some c
    | _ => none
  let roomIds := (roomEvs.map (·.room)).foldl (fun acc r => if acc.contains r then acc else acc ++ [r]) []
  let sortedRooms := (sortCells (roomIds.map fun r => { room := r, ent := 0, day := 0 })).map (·.room)
  let rparts := sortedRooms.map fun r =>
    let mine := roomEvs.filter (·.room = r)
    match mine.getLast? with
    | some d => s!"R{r}x{mine.length}:{digest nsites d}="
    | none => ""
  let dpart := s!"Dx{datas.length}[{fmtCells datas.flatten}]"
  trimRight s!"ok ev {joinWith " " (rparts ++ [dpart])} | g {fmtCells gained}"

structure EvState where
  nsites : Nat
  st : State

inductive DState where
  | ev (s : EvState)
  | fts (s : Fts.State)

/-! ### C17 interpreter (`eng=fts`), see harness/events/src/fts.rs -/

def parseWords (s : String) : Option (List Nat) :=
  ((s.splitOn "+").filter (· ≠ "")).mapM String.toNat?

def parseFtsOp (toks : List String) : Option Fts.Op :=
  match toks with
  | "model" :: rest => do
    let v ← nat? rest "v"
    if v ≥ 4 then none else some (.model (← nat? rest "s") v)
  | "new" :: rest => do
    let e ← nat? rest "e"
    if e ≥ 2 then none
    else some (.new (← nat? rest "s") (← nat? rest "n") e (← parseWords ((kv? rest "w").getD "")))
  | "newx" :: rest => do
    -- a row created without any text field: no text
    let e ← nat? rest "e"
    if e ≥ 2 then none else some (.newx (← nat? rest "s") (← nat? rest "n") e)
  | "upd" :: rest => do some (.upd (← nat? rest "s") (← nat? rest "n") (← parseWords ((kv? rest "w").getD "")))
  | "clr" :: rest => do some (.clr (← nat? rest "s") (← nat? rest "n"))
  | "del" :: rest => do some (.del (← nat? rest "s") (← nat? rest "n"))
  | "pull" :: rest => do some (.pull (← nat? rest "s") (← nat? rest "from"))
  | "q" :: rest => do
    let e ← nat? rest "e"
    if e ≥ 2 then none else some (.q (← nat? rest "s") e (← nat? rest "t"))
  | "qall" :: rest => do some (.qall (← nat? rest "s"))
  | "link" :: rest => do some (.link (← nat? rest "s") (← nat? rest "n") (← nat? rest "m"))
  | "qn" :: rest => do some (.qn (← nat? rest "s") (← nat? rest "t"))
  | "qnall" :: rest => do some (.qnall (← nat? rest "s"))
  | _ => none

def fmtNats (l : List Nat) : String := joinWith "," (l.map toString)

def fmtFtsOut : Fts.Out → String
  | .ok => "ok"
  | .skip => "skip"
  | .hits rows => trimRight s!"hits {fmtNats rows}"
  | .failed => "err:sql"
  | .all res => trimRight s!"all {joinWith ";" (res.map fun x =>
      match x.2.2 with
      | some rows => s!"{x.1}:{x.2.1}:{fmtNats rows}"
      | none => s!"{x.1}:{x.2.1}:err:sql")}"
  | .nhits res => trimRight s!"nhits {joinWith ";" (res.map fun x => s!"{x.1}:{fmtNats x.2}")}"
  | .nall res => trimRight s!"nall {joinWith ";" (res.map fun x =>
      s!"{x.1}={joinWith "/" (x.2.map fun y => s!"{y.1}:{fmtNats y.2}")}")}"

/-! `xj j=<json>`: the text `extract_json` gives for a JSON value (spaces travel as `+`, in and out);
    `slots s=`: the storage slot of every row (relative to the slots in use when the case starts);
    `docs s=`: the slots that have a document record in the index -/

def takeStr : List Char → List Char → Option (List Char × List Char)
  | acc, '"' :: rest => some (acc.reverse, rest)
  | _, '\\' :: _ => none
  | acc, c :: rest => takeStr (c :: acc) rest
  | _, [] => none

def takeDigits : List Char → List Char → List Char × List Char
  | acc, c :: rest => if c.isDigit then takeDigits (c :: acc) rest else (acc.reverse, c :: rest)
  | acc, [] => (acc.reverse, [])

def pNumber (cs : List Char) : Option (Fts.Json × List Char) :=
  let (neg, cs1) := match cs with
    | '-' :: r => (true, r)
    | _ => (false, cs)
  let (ds, rest) := takeDigits [] cs1
  if ds.isEmpty then none
  else (String.ofList ds).toNat?.map fun k => (.num (if neg then -(k : Int) else (k : Int)), rest)

mutual
def pValue : Nat → List Char → Option (Fts.Json × List Char)
  | 0, _ => none
  | _ + 1, '"' :: rest => (takeStr [] rest).map fun x => (.str x.1, x.2)
  | _ + 1, '[' :: ']' :: rest => some (.arr .nil, rest)
  | f + 1, '[' :: rest => (pItems f rest).map fun x => (.arr x.1, x.2)
  | _ + 1, '{' :: '}' :: rest => some (.obj .nil, rest)
  | f + 1, '{' :: rest => (pFields f rest .nil).map fun x => (.obj x.1, x.2)
  | _ + 1, 't' :: 'r' :: 'u' :: 'e' :: rest => some (.bool true, rest)
  | _ + 1, 'f' :: 'a' :: 'l' :: 's' :: 'e' :: rest => some (.bool false, rest)
  | _ + 1, 'n' :: 'u' :: 'l' :: 'l' :: rest => some (.null, rest)
  | _ + 1, cs => pNumber cs
def pItems : Nat → List Char → Option (Fts.JList × List Char)
  | 0, _ => none
  | f + 1, cs =>
    match pValue f cs with
    | some (v, ',' :: r) => (pItems f r).map fun x => (.cons v x.1, x.2)
    | some (v, ']' :: r) => some (.cons v .nil, r)
    | _ => none
/-- fields are inserted in the order of the text, as `serde_json` fills its `BTreeMap` -/
def pFields : Nat → List Char → Fts.JFields → Option (Fts.JFields × List Char)
  | 0, _, _ => none
  | f + 1, '"' :: cs, acc =>
    match takeStr [] cs with
    | some (k, ':' :: r) =>
      match pValue f r with
      | some (v, ',' :: r2) => pFields f r2 (Fts.JFields.insert k v acc)
      | some (v, '}' :: r2) => some (Fts.JFields.insert k v acc, r2)
      | _ => none
    | _ => none
  | _ + 1, _, _ => none
end

def parseJson (s : String) : Option Fts.Json :=
  let cs := s.toList.map fun c => if c = '+' then ' ' else c
  match pValue (cs.length + 1) cs with
  | some (j, []) => some j
  | _ => none

def fmtText (cs : List Char) : String :=
  trimRight s!"text {String.ofList (cs.map fun c => if c = ' ' then '+' else c)}"

def insertSlotPair (x : Nat × Nat) : List (Nat × Nat) → List (Nat × Nat)
  | [] => [x]
  | h :: t => if x.1 ≤ h.1 then x :: h :: t else h :: insertSlotPair x t

def dedupSorted : List Nat → List Nat
  | a :: b :: t => if a = b then dedupSorted (b :: t) else a :: dedupSorted (b :: t)
  | l => l

/-- the observation-only operations of `eng=fts` that are not steps of the model -/
def ftsProbe (st : Fts.State) (toks : List String) : Option String :=
  match toks with
  | "xj" :: rest =>
    match (kv? rest "j").bind parseJson with
    | some j => some (fmtText (Fts.extractJson j))
    | none => some "bad-op"
  | "slots" :: rest =>
    match nat? rest "s" with
    | none => some "bad-op"
    | some si =>
      match st.sites[si]? with
      | none => some "skip"
      | some s =>
        let l := (s.rows.map fun r => (r.n, r.slot)).foldl (fun acc x => insertSlotPair x acc) []
        some (trimRight s!"slots {joinWith "," (l.map fun x => s!"{x.1}:{x.2}")}")
  | "docs" :: rest =>
    match nat? rest "s" with
    | none => some "bad-op"
    | some si =>
      match st.sites[si]? with
      | none => some "skip"
      | some s => some (trimRight s!"docs {fmtNats (dedupSorted (Fts.sortNat s.docs))}")
  | _ => none

def parseRows (s : String) : Option (List (Nat × Room × Ent)) :=
  (s.splitOn ",").mapM fun t =>
    match (t.splitOn ":").mapM String.toNat? with
    | some [n, r, e] => some (n, r, e)
    | _ => none

def subKv (toks : List String) (k : String) : Option Nat :=
  toks.findSome? fun t =>
    match t.splitOn ":" with
    | [a, b] => if a = k then b.toNat? else none
    | _ => none

def parseSub (s : String) : Option Sub :=
  match s.splitOn "," with
  | "new" :: rest =>
    match subKv rest "n", subKv rest "r", subKv rest "e" with
    | some n, some r, some e => some (.new n r e)
    | _, _, _ => none
  | "upd" :: rest => (subKv rest "n").map .upd
  | "del" :: rest => (subKv rest "n").map .del
  | "roomadd" :: rest => (subKv rest "r").map .roomadd
  | "stream" :: rest =>
    -- rows:10.1.0+11.1.1
    (rest.findSome? fun t =>
      match t.splitOn ":" with
      | ["rows", v] =>
        (v.splitOn "+").mapM fun x =>
          match (x.splitOn ".").mapM String.toNat? with
          | some [n, r, e] => some (n, r, e)
          | _ => none
      | _ => none).bind fun rows => if rows.isEmpty then none else some (.stream rows)
  | _ => none

def parseOp (toks : List String) : Option Op :=
  match toks with
  | "day" :: rest => (nat? rest "add").map .day
  | "room" :: rest => do some (.room (← nat? rest "s") (← nat? rest "r"))
  | "roomadd" :: rest => do some (.roomadd (← nat? rest "s") (← nat? rest "r"))
  | "new" :: rest => do some (.new (← nat? rest "s") (← nat? rest "n") (← nat? rest "r") (← nat? rest "e"))
  | "upd" :: rest =>
    match kv? rest "r" with
    | none => do some (.upd (← nat? rest "s") (← nat? rest "n") none)
    | some _ => do some (.upd (← nat? rest "s") (← nat? rest "n") (some (← nat? rest "r")))
  | "nop" :: rest => do some (.nop (← nat? rest "s") (← nat? rest "n"))
  | "ref" :: rest => do some (.ref (← nat? rest "s") (← nat? rest "n") (← nat? rest "m"))
  | "unref" :: rest => do some (.unref (← nat? rest "s") (← nat? rest "n"))
  | "del" :: rest => do some (.del (← nat? rest "s") (← nat? rest "n"))
  | "refdel" :: rest => do some (.refdel (← nat? rest "s") (← nat? rest "n") (← nat? rest "m"))
  | "flush" :: rest => do some (.flush (← nat? rest "s"))
  | "pull" :: rest => do some (.pull (← nat? rest "s") (← nat? rest "from") (← nat? rest "r"))
  | "stream" :: rest => do
    let mode ← match kv? rest "mode" with
      | some "acked" => some Mode.acked
      | some "early" => some Mode.early
      | some "dropped" => some Mode.acked      -- the caller drops the result receiver: same obligations as `acked`
      | _ => none
    let rows ← (kv? rest "rows").bind parseRows
    if rows.isEmpty then none else some (.stream (← nat? rest "s") mode rows)
  | "mix" :: rest => do
    let subs ← match kv? rest "ops" with
      | some s => ((s.splitOn ";").filter (· ≠ "")).mapM parseSub
      | none => none
    let pull ← match kv? rest "pull" with
      | none => some none
      | some v =>
        match (v.splitOn ":").mapM String.toNat? with
        | some [t, r] => some (some (t, r))
        | _ => none
    some (.mix (← nat? rest "s") subs pull)
  | _ => none

def stepLine (ds : Option DState) (line : String) : Option DState × String :=
  let toks := tokens line
  match toks with
  | "case" :: rest =>
    let n := match nat? rest "sites" with
      | some k => if k < 1 then 1 else if k > 2 then 2 else k
      | none => 1
    -- `fixed=a,b`: switches of `Defects.asImplemented` turned off (to replay against a repaired tree)
    let fixed := ((kv? rest "fixed").getD "").splitOn ","
    let dEv : Defects :=
      { refdelUnmarked := Defects.asImplemented.refdelUnmarked && !fixed.contains "refdel",
        streamCloseEarly := Defects.asImplemented.streamCloseEarly && !fixed.contains "stream" }
    let dFts : Fts.Defects :=
      { deleteLeavesIndex := Fts.Defects.asImplemented.deleteLeavesIndex && !fixed.contains "delete",
        ingestUnindexed := Fts.Defects.asImplemented.ingestUnindexed && !fixed.contains "ingest",
        toggleIgnored := Fts.Defects.asImplemented.toggleIgnored && !fixed.contains "toggle",
        toggleNoReindex := Fts.Defects.asImplemented.toggleNoReindex,
        deleteUnguarded := Fts.Defects.asImplemented.deleteUnguarded && !fixed.contains "guard" }
    match nat? rest "id", kv? rest "eng" with
    | some i, some "ev" => (some (.ev { nsites := n, st := init dEv n }), s!"case {i}")
    | some i, some "fts" => (some (.fts (Fts.init dFts n)), s!"case {i}")
    | _, _ => (none, "bad-op")
  | _ =>
    match ds with
    | none => (none, "bad-op")
    | some (.fts st) =>
      match ftsProbe st toks with
      | some out => (ds, out)
      | none =>
        match parseFtsOp toks with
        | none => (ds, "bad-op")
        | some op =>
          let r := Fts.step st op
          (some (.fts r.1), fmtFtsOut r.2)
    | some (.ev d) =>
      match parseOp toks with
      | none => (ds, "bad-op")
      | some op =>
        let r := step d.st op
        let out := match r.2 with
          | .ok => "ok"
          | .skip => "skip"
          | .obs evs g =>
            match op with
            | .mix _ _ _ => fmtMix d.nsites evs g
            | .pull _ _ _ =>
              -- `ok+def`: the room definition was imported
              if evs.any (fun e => match e with | .roomEv _ => true | _ => false) then
                "ok+def" ++ (fmtObs d.nsites evs g).drop 2
              else fmtObs d.nsites evs g
            | _ => fmtObs d.nsites evs g
        (some (.ev { d with st := r.1 }), out)

def main : IO Unit := do
  loop (← IO.getStdin) (← IO.getStdout) stepLine none
