import DiscretModel.Model.Proto
import DiscretModel.Model.Writer
import DiscretModel.Model.Pipeline
/-
Model driver for engine `writer` (C13 and C16), same line protocol as `dv-writer run`.

C13:
  case id=<n>                                   -> "case <n>"   (state := Writer.init)
  batch msgs=<m>,<m>,… [fault=<p>] [crash=<p>]  -> "acks=… rows=… tombs=… aux=… log=… wedged=…"
  recompute                                     -> "rows=… tombs=… aux=… log=… wedged=…"
C16:
  case id=<n> prop=c16 …                        see `Driver/Writer.lean` section C16 below
anything else -> "bad-op"
-/
open Discret Discret.Proto

namespace WriterDriver
open Discret.Writer

def insertBy {α : Type} (lt : α → α → Bool) (x : α) : List α → List α
  | [] => [x]
  | h :: t => if lt h x then h :: insertBy lt x t else x :: h :: t

def sortBy {α : Type} (lt : α → α → Bool) (l : List α) : List α := l.foldr (insertBy lt) []

def natOf? (s : String) : Option Nat := s.toNat?

def splitPair? (s : String) (sep : String) : Option (Nat × Nat) :=
  match s.splitOn sep with
  | [a, b] => match a.toNat?, b.toNat? with
    | some x, some y => some (x, y)
    | _, _ => none
  | _ => none

/-- one message token of the op file -/
def msg? (tok : String) : Option Msg :=
  match tok.splitOn "." with
  | [k, d, body] =>
    match d.toNat? with
    | none => none
    | some day =>
      if k = "pm" ∨ k = "ps" ∨ k = "pn" then
        match (body.splitOn "+").mapM (fun kv => splitPair? kv "-") with
        | some kvs =>
          some { kind := if k = "pm" then .mutation else if k = "ps" then .mutationStream else .nodes,
                 stmts := kvs.map fun (a, b) => .put a b day }
        | none => none
      else if k = "dl" ∨ k = "dn" then
        match (body.splitOn "+").mapM String.toNat? with
        | some ks =>
          some { kind := if k = "dl" then .deletion else .deleteNodes,
                 stmts := ks.map fun a => .del a day (k = "dl") }
        | none => none
      else none
  | [k, body] =>
    if k = "ed" then (splitPair? body "-").map fun (a, b) => { kind := .edges, stmts := [.aux (.edge a b)] }
    else if k = "rm" then body.toNat?.map fun i => { kind := .roomMutation, stmts := [.aux (.room i)] }
    else if k = "rs" then body.toNat?.map fun i => { kind := .roomMutationStream, stmts := [.aux (.room i)] }
    else if k = "wr" then body.toNat?.map fun i => { kind := .write, stmts := [.aux (.conf i)] }
    else none
  | ["rc"] => some { kind := .computeDailyLog, stmts := [.recompute] }
  | _ => none

def stmtIndex (ms : List Msg) (i j : Nat) : Nat :=
  match ms[i]? with
  | some m => if j < m.stmts.length then j else m.stmts.length - 1
  | none => j

def fault? (ms : List Msg) (s : String) : Option (Option Fault) :=
  match s.splitOn "." with
  | ["none"] => some none
  | ["begin"] => some (some .begin)
  | ["marks"] => some (some .marks)
  | ["commit"] => some (some .commit)
  | ["commithook"] => some (some .commitRolledBack)
  | ["sqlmarks", j] => j.toNat?.map fun _ => some .marks
  | ["stmt", i, j] => match i.toNat?, j.toNat? with
    | some i, some j => some (some (.stmt i (stmtIndex ms i j)))
    | _, _ => none
  | _ => none

def crash? (s : String) : Option CrashPoint :=
  match s.splitOn "." with
  | ["marks"] => some .beforeMarks
  | ["commit"] => some .beforeCommit
  | ["acommit"] => some .afterCommit
  | ["ack"] => some .beforeAck
  | ["sqlmarks", j] => j.toNat?.map .inMarks
  | ["gb", i] => i.toNat?.map .beforeGroup
  | ["ga", i] => i.toNat?.map .afterGroup
  | ["stmt", i, j] => match i.toNat?, j.toNat? with
    | some i, some j => some (.inGroup i j)
    | _, _ => none
  | _ => none

def auxStr : Aux → String
  | .edge a b => s!"e{a}-{b}"
  | .room i => s!"r{i}"
  | .conf i => s!"w{i}"

def dumpStr (s : Sys) : String :=
  let rows := sortBy (fun (a b : Row) => a.key < b.key ∨ (a.key = b.key ∧ (a.val < b.val ∨ (a.val = b.val ∧ a.day < b.day)))) s.db.rows
  let tombs := sortBy (fun (a b : Key × Day) => a.1 < b.1 ∨ (a.1 = b.1 ∧ a.2 < b.2)) s.db.tombs
  let aux := sortBy (fun (a b : String) => a < b) (s.db.aux.map auxStr)
  let log := sortBy (fun (a b : LogEntry) => a.day < b.day) s.db.log
  "rows=" ++ joinWith "," (rows.map fun r => s!"{r.key}:{r.val}:{r.day}") ++
  " tombs=" ++ joinWith "," (tombs.map fun t => s!"{t.1}:{t.2}") ++
  " aux=" ++ joinWith "," aux ++
  " log=" ++ joinWith "," (log.map fun e => if e.dirty then s!"{e.day}:?" else s!"{e.day}:{e.count}") ++
  " wedged=" ++ (if s.conn.txn.isSome then "1" else "0")

def ackStr (ms : List Msg) (acks : List Ack) : String :=
  String.ofList ((ms.zip acks).map fun (m, a) =>
    if m.kind = .computeDailyLog then 's' else match a with | .ok => 'o' | .err => 'e')

def T : Table := Table.ofGen
def D : Defects := Defects.asImplemented

def step13 (s : Sys) (toks : List String) : Sys × String :=
  match toks with
  | "batch" :: rest =>
    match kv? rest "msgs" with
    | none => (s, "bad-op")
    | some m =>
      match ((m.splitOn ",").filter (· ≠ "")).mapM msg? with
      | none => (s, "bad-op")
      | some [] => (s, "bad-op")
      | some ms =>
        if !ms.all (fun m => m.validB T) then (s, "bad-op") else
        match kv? rest "crash" with
        | some c =>
          match crash? c with
          | none => (s, "bad-op")
          | some cp =>
            if s.conn.txn.isSome then
              let (s', acks) := processBatch T D s ms none
              (s', "acks=" ++ ackStr ms acks ++ " " ++ dumpStr s' ++ " crash-not-fired")
            else
              let (db', _) := crashBatch T s.db ms cp
              let s' := restart db'
              (s', "acks=" ++ String.ofList (ms.map fun _ => '-') ++ " " ++ dumpStr s')
        | none =>
          match fault? ms ((kv? rest "fault").getD "none") with
          | none => (s, "bad-op")
          | some f =>
            let (s', acks) := processBatch T D s ms f
            (s', "acks=" ++ ackStr ms acks ++ " " ++ dumpStr s')
  | ["recompute"] =>
    let (s', _) := processBatch T D s [{ kind := .computeDailyLog, stmts := [.recompute] }] none
    (s', dumpStr s')
  | _ => (s, "bad-op")

end WriterDriver

namespace PipelineDriver
open Discret.Pipeline

/- C16:
  mut i=<i> key=<k> [set=<f>:<v>,…] [room=<n>] [add=<k>,…] [pet=<k>|null]  -> "mut <i>"   (i = number of mutations declared so far)
  r i=<i>   -> "read ok" | "read err"        v i=<i> -> "val ok"        w i=<i>,… -> "acks=o…" (the whole validated queue)
  state     -> "rows=<k>:<room>:<mdate>:<f>=<v>;… refs=<src>><label>:<dest>,…"   (rows 1..4)
  stream n=<K> -> "stream done" (public-API run of the harness; nothing to predict)
-/
structure St where
  ops : List Op
  st : Discret.Pipeline.St

def St.empty : St := ⟨[], start init⟩

def startCase (_ : List String) : Option St := some St.empty

def pairs? (s : String) : Option (List (Nat × Nat)) :=
  ((s.splitOn ",").filter (· ≠ "")).mapM fun fv =>
    match fv.splitOn ":" with
    | [a, b] => match a.toNat?, b.toNat? with
      | some x, some y => some (x, y)
      | _, _ => none
    | _ => none

def op? (toks : List String) : Option Op :=
  match nat? toks "key" with
  | none => none
  | some key =>
    let sets := match kv? toks "set" with
      | some s => pairs? s
      | none => some []
    let room := match kv? toks "room" with
      | some r => r.toNat?.map some
      | none => some none
    let adds := match kv? toks "add" with
      | some a => ((a.splitOn ",").filter (· ≠ "")).mapM String.toNat?
      | none => some []
    let pet : Option (Option (Option Nat)) := match kv? toks "pet" with
      | some "null" => some (some none)
      | some p => p.toNat?.map fun k => some (some k)
      | none => some none
    match sets, room, adds, pet with
    | some sets, some room, some adds, some pet =>
      if sets.all (fun fv => fv.1 = 1 ∨ fv.1 = 2) ∧ (room = none ∨ room = some 1 ∨ room = some 2) then
        some { key := key, sets := sets, room := room, adds := adds, pet := pet }
      else none
    | _, _, _, _ => none

def insertBy {α : Type} (lt : α → α → Bool) (x : α) : List α → List α
  | [] => [x]
  | h :: t => if lt h x then h :: insertBy lt x t else x :: h :: t

def stateStr (db : Db) : String :=
  let keys := [1, 2, 3, 4]
  let rows := keys.filterMap fun k => (db.rows k).map fun r =>
    s!"{k}:{r.room}:{r.mdate}:" ++ joinWith ";" (r.vals.map fun fv => s!"{fv.1}={fv.2}")
  let refs := keys.flatMap fun k =>
    ((db.refs k).foldr (insertBy fun (a b : Nat × Nat) => a.1 < b.1 ∨ (a.1 = b.1 ∧ a.2 < b.2)) []).map
      fun r => s!"{k}>{r.1}:{r.2}"
  "rows=" ++ joinWith "," rows ++ " refs=" ++ joinWith "," refs

def step (s : St) (toks : List String) : St × String :=
  match toks with
  | "mut" :: rest =>
    match nat? rest "i", op? rest with
    | some i, some op => if i = s.ops.length then ({ s with ops := s.ops ++ [op] }, s!"mut {i}") else (s, "bad-op")
    | _, _ => (s, "bad-op")
  | ["r", a] =>
    match nat? [a] "i" with
    | none => (s, "bad-op")
    | some i =>
      match s.ops[i]? with
      | none => (s, "bad-op")
      | some op =>
        if s.st.pend.any (fun e => e.1 = i) || s.st.done.any (fun e => e.1 = i) then (s, "bad-op")
        else
          let st' := Discret.Pipeline.step s.ops s.st (.r i)
          match read s.st.db op (s.st.clock + 1) with
          | some _ => ({ s with st := st' }, "read ok")
          | none => ({ s with st := { st' with err := false } }, "read err")
  | ["v", a] =>
    match nat? [a] "i" with
    | none => (s, "bad-op")
    | some i =>
      if s.st.pend.any (fun e => e.1 = i) && !s.st.queue.contains i then
        ({ s with st := Discret.Pipeline.step s.ops s.st (.v i) }, "val ok")
      else (s, "bad-op")
  | ["w", a] =>
    match natList? [a] "i" with
    | none => (s, "bad-op")
    | some [] => (s, "bad-op")
    | some l =>
      if l = s.st.queue then
        let st' := l.foldl (fun st i => Discret.Pipeline.step s.ops st (.w i)) s.st
        if st'.err then (s, "bad-op") else ({ s with st := st' }, "acks=" ++ String.ofList (l.map fun _ => 'o'))
      else (s, "bad-op")
  | ["state"] => (s, stateStr s.st.db)
  | ["stream", a] => match nat? [a] "n" with
    | some _ => (s, "stream done")
    | none => (s, "bad-op")
  | _ => (s, "bad-op")

end PipelineDriver

structure DState where
  mode : Nat                       -- 0 = no case yet, 13, 16
  w : Discret.Writer.Sys
  p : PipelineDriver.St

def stepLine (s : DState) (line : String) : DState × String :=
  let toks := tokens line
  match toks with
  | "case" :: rest =>
    match nat? rest "id" with
    | none => (s, "bad-op")
    | some i =>
      match kv? rest "prop" with
      | some "c16" =>
        match PipelineDriver.startCase rest with
        | some p => ({ s with mode := 16, p := p }, s!"case {i}")
        | none => (s, "bad-op")
      | some _ => (s, "bad-op")
      | none => ({ s with mode := 13, w := Discret.Writer.init }, s!"case {i}")
  | _ =>
    if s.mode = 13 then
      let (w, o) := WriterDriver.step13 s.w toks
      ({ s with w := w }, o)
    else if s.mode = 16 then
      let (p, o) := PipelineDriver.step s.p toks
      ({ s with p := p }, o)
    else (s, "bad-op")

def main : IO Unit := do
  loop (← IO.getStdin) (← IO.getStdout) stepLine
    { mode := 0, w := Discret.Writer.init, p := PipelineDriver.St.empty }
