import DiscretModel.Model.Proto
import DiscretModel.Model.Ingest
import DiscretModel.Model.RoomNode
/-
Model driver for engine `ingest` (C02, C07). Ids are logical numbers; a room is named by the id of its row.

room definition under construction (all answer `q`):
  room id=<n> t=<int> by=<k>
  radmin room=<n> id=<n> k=<k> en=<0|1> t=<int> by=<k>
  rauth  room=<n> id=<n> t=<int> by=<k>
  rright room=<n> g=<n> id=<n> e=<ent> ms=<0|1> ma=<0|1> t=<int> by=<k>
  ruser | ruadmin room=<n> g=<n> id=<n> k=<k> en=<0|1> t=<int> by=<k>
  install room=<n>                      -> ok | err:<class> | panic
general candidates (C07; all answer `q`): a pool of signed rows and references, then lists
  srow [p=<pool key, default id>] id= ent= c= m= by= body=user|right|name|none [k= en=] [e= ms= ma=] [v=] [sig=]
  sedge n= src= se= l= dst= c= by= [sig=]
  cand room=<row id> admins=<ids> aedges=<edge numbers> auths=<ids> authedges=<edge numbers>
  cauth room= id=<row id> rights= redges= users= uedges= uadmins= uaedges=
  probe room=<n> dates=<d,…>            -> probe live=<matrix|none> stored=<matrix|none|err>
  dump                                  -> dump N=… E=… ND=… ED=…
records of the remote peer (all answer `q`):
  node id= r= e= c= m= k= v= js=<shape> sig=<0|1> sg=<n> [ad=<int> asg=<n>]
  edge src= se= l= dst= c= k= sig=
  ndel r= id= e= m= d= k= sig=
  edel r= src= se= l= dst= c= d= k= sig=
  sync r=<n>                            -> sync res=… nrej=… erej=… N=… E=… ND=… ED=…
  rsync r=<n>  (real synchronise_day)   -> rsync res=ok|err N=… E=… ND=… ED=…
anything else -> bad-op
-/
open Discret Discret.Proto Discret.Ingest

namespace IngestDriver

structure St where
  inst : Inst
  defs : List RoomNode.RoomNode          -- room definitions under construction
  sysIds : List Nat                      -- ids of rows written by `install` (their signature rank is unknown)
  batch : Batch
  rowPool : List (Nat × RoomNode.SRow)   -- signed rows a candidate can be assembled from, by pool key (`p=`, default the row id)
  edgePool : List (Nat × RoomNode.PEdge)
  dI : Defects                           -- switches in force for this case (`case id=… off=a,b` turns some off)
  dR : RoomNode.Defects

def St.init : St :=
  { inst := Inst.empty, defs := [], sysIds := [], batch := { edgeDels := [], nodeDels := [], nodes := [], edges := [] },
    rowPool := [], edgePool := [], dI := Defects.asImplemented, dR := RoomNode.Defects.asImplemented }

def bool? (toks : List String) (k : String) : Option Bool :=
  match nat? toks k with
  | some 0 => some false
  | some 1 => some true
  | _ => none

/-- JSON shapes the harness can build: code, conforms, oversized, passes `Node::verify` -/
def shape? : String → Option (Nat × Bool × Bool × Bool)
  | "ok" => some (0, true, false, true)
  | "none" => some (1, false, false, true)
  | "extra" => some (2, true, false, true)
  | "null" => some (3, false, false, true)
  | "wrongtype" => some (4, false, false, true)
  | "missing" => some (5, false, false, true)
  | "big" => some (6, true, true, true)
  | "notobj" => some (7, false, false, false)
  | "badjson" => some (8, false, false, false)
  | "ukey" => some (9, false, false, true)
  | _ => none

def lexLe : List Int → List Int → Bool
  | [], _ => true
  | _ :: _, [] => false
  | a :: as, b :: bs => if a < b then true else if b < a then false else lexLe as bs

def insertSorted (x : List Int) : List (List Int) → List (List Int)
  | [] => [x]
  | h :: t => if lexLe x h then x :: h :: t else h :: insertSorted x t

def sortRows (l : List (List Int)) : List (List Int) := l.foldr insertSorted []

def fmtRows (l : List (List Int)) : String :=
  joinWith "," ((sortRows l).map fun r => joinWith ":" (r.map fun (i : Int) => if i = -1 then "-" else toString i))

def optNat (o : Option Nat) : Int := match o with | some n => (n : Int) | none => -1

def dump (s : Inst) : String :=
  let n := s.nodes.map fun x => [(x.id : Int), optNat x.room, x.ent, x.cdate, x.mdate, x.key, x.val]
  let e := s.edges.map fun x => [(x.src : Int), x.srcEnt, x.label, x.dst, x.cdate, x.key]
  let nd := s.nodeLog.map fun x => [(x.room : Int), x.id, x.ent, x.mdate, x.ddate, x.key]
  let ed := s.edgeLog.map fun x => [(x.room : Int), x.src, x.srcEnt, x.dst, x.label, x.cdate, x.ddate, x.key]
  s!"N={fmtRows n} E={fmtRows e} ND={fmtRows nd} ED={fmtRows ed}"

def fmtIds (l : List Nat) : String :=
  joinWith "," ((sortRows (l.map fun (x : Nat) => [Int.ofNat x])).map fun r => joinWith ":" (r.map toString))

def stageName : Stage → String
  | .edgeDels => "edel" | .nodeDels => "ndel" | .nodes => "nodes" | .edges => "edges"

def fmtOutcome : Outcome → String
  | .done nr er => s!"res=ok nrej={fmtIds nr} erej={fmtIds er}"
  | .sigError st => s!"res=sig@{stageName st} nrej= erej="
  | .unknownRoom => "res=unknownroom nrej= erej="

def updDef (defs : List RoomNode.RoomNode) (room : Nat) (f : RoomNode.RoomNode → RoomNode.RoomNode) :
    Option (List RoomNode.RoomNode) :=
  if defs.any (·.node.id = room) then some (defs.map fun d => if d.node.id = room then f d else d) else none

def updAuth (defs : List RoomNode.RoomNode) (room g : Nat) (f : RoomNode.AuthNode → RoomNode.AuthNode) :
    Option (List RoomNode.RoomNode) :=
  match defs.find? (·.node.id = room) with
  | some d =>
    if d.authNodes.any (·.node.id = g) then
      updDef defs room fun d => { d with authNodes := d.authNodes.map fun a => if a.node.id = g then f a else a }
    else none
  | none => none

def sysRow (id ent : Nat) (t : Int) (by_ : Nat) (body : RoomNode.Body) : RoomNode.SRow :=
  { id, ent, room := none, cdate := t, mdate := t, author := by_, body, sigOk := true }

def sysEdge (src srcEnt label dst : Nat) (t : Int) (by_ : Nat) : RoomNode.PEdge :=
  { src, srcEnt, label, dst, cdate := t, author := by_, sigOk := true }

def rowOf (old : List NodeRow) (n : RoomNode.SRow) : NodeRow :=
  let r : NodeRow := { id := n.id, room := n.room, ent := n.ent, cdate := n.cdate, mdate := n.mdate, key := n.author,
                       sg := 0, val := n.body.tag }
  -- the signature rank of a row that was in the table before is kept
  match old.find? fun o => { o with sg := 0 } = r with
  | some o => o
  | none => r

def srowOf (x : NodeRow) : RoomNode.SRow :=
  { id := x.id, ent := x.ent, room := x.room, cdate := x.cdate, mdate := x.mdate, author := x.key,
    body := RoomNode.Body.ofTag x.val, sigOk := true }

def edgeOf (e : RoomNode.PEdge) : EdgeRow :=
  { src := e.src, srcEnt := e.srcEnt, label := e.label, dst := e.dst, cdate := e.cdate, key := e.author }

def pedgeOf (e : EdgeRow) : RoomNode.PEdge :=
  { src := e.src, srcEnt := e.srcEnt, label := e.label, dst := e.dst, cdate := e.cdate, author := e.key, sigOk := true }

def storeOf (i : Inst) : RoomNode.RStore :=
  { rooms := i.rooms, nodes := i.nodes.map srowOf, edges := i.edges.map pedgeOf }

def defIds (d : RoomNode.RoomNode) : List Nat :=
  [d.node.id] ++ d.adminNodes.map (·.id) ++ d.authNodes.flatMap fun a =>
    [a.node.id] ++ a.rightNodes.map (·.id) ++ a.userNodes.map (·.id) ++ a.userAdminNodes.map (·.id)

def errName : RoomNode.RErr → String
  | .signature => "signature" | .inconsistent => "inconsistent" | .parse => "parse"
  | .room _ => "history" | .notAuthorised => "notauthorised" | .mutated => "mutated" | .noHistory => "nohistory"

/-- `verify_room_node` + `add_room_node` -/
def install (st : St) (room : Nat) : St × String :=
  match st.defs.find? (·.node.id = room) with
  | none => (st, "bad-op")
  | some d =>
    match RoomNode.accept st.dR (storeOf st.inst) d with
    | .err e => (st, "err:" ++ errName e)
    | .panic => (st, "panic")
    | .ok s' =>
      let inst := { st.inst with rooms := s'.rooms, nodes := s'.nodes.map (rowOf st.inst.nodes),
                                 edges := s'.edges.map edgeOf }
      ({ st with inst, sysIds := st.sysIds ++ defIds d, defs := st.defs.filter (·.node.id ≠ room) }, "ok")

def bit (b : Bool) : String := if b then "1" else "0"

/-- decisions of a room definition for keys 0-5 at the given dates -/
def matrix (r : RoomNode.RoomT) (dates : List Int) : String :=
  joinWith "," (dates.flatMap fun d => (List.range 6).map fun k =>
    s!"{d}:{k}:" ++ bit (r.isAdmin k d) ++ bit (r.isUserValidAt k d) ++ bit (r.auths.any (·.canAdminUsers k d)) ++
      String.join ((List.range 3).map fun e =>
        bit (r.can k (e + 1) d .mutateSelf) ++ bit (r.can k (e + 1) d .mutateAll)))

def probe (st : St) (room : Nat) (dates : List Int) : String :=
  let live := match st.inst.rooms.find? (·.id = room) with
    | some r => matrix r dates
    | none => "none"
  let stored := match RoomNode.readBack st.dR.newestFirstRead (storeOf st.inst) room with
    | none => "none"
    | some rn =>
      match rn.parse with
      | .ok r => matrix r dates
      | .error _ => "err"
  s!"probe live={live} stored={stored}"

def intList? (toks : List String) (k : String) : Option (List Int) :=
  match kv? toks k with
  | none => none
  | some "" => some []
  | some s => (s.splitOn ",").mapM String.toInt?

def natListOr (toks : List String) (k : String) : Option (List Nat) :=
  match kv? toks k with
  | none => some []
  | some "" => some []
  | some s => (s.splitOn ",").mapM String.toNat?

def pickRows (pool : List (Nat × RoomNode.SRow)) (ids : List Nat) : Option (List RoomNode.SRow) :=
  ids.mapM fun i => (pool.find? (·.1 = i)).map (·.2)

def pickEdges (pool : List (Nat × RoomNode.PEdge)) (ns : List Nat) : Option (List RoomNode.PEdge) :=
  ns.mapM fun i => (pool.find? (·.1 = i)).map (·.2)

def body? (toks : List String) : Option RoomNode.Body :=
  match kv? toks "body" with
  | some "user" =>
    match nat? toks "k", bool? toks "en" with
    | some k, some en => if k < 8 then some (.user k en) else none
    | _, _ => none
  | some "right" =>
    match nat? toks "e", bool? toks "ms", bool? toks "ma" with
    | some e, some ms, some ma => if e ≤ 3 || e = 8 then some (.right e ms ma) else none
    | _, _, _ => none
  | some "name" => (nat? toks "v").bind fun v => if v < 1000 then some (.other v) else none
  | some "none" => some .none
  | _ => none

/-- the same-millisecond tie-break of `filter_existing` compares signature bytes; the rank of the
    signatures made inside the instance (rows written by `install`) is not an input of the case -/
def tieOnSysRow (st : St) : Bool :=
  st.batch.nodes.any fun n =>
    st.sysIds.contains n.row.id &&
    match localRow st.inst.nodes n.row.id with
    | some l => l.sg = 0 && n.annDate = l.mdate
    | none => false

def stepLine (st : St) (line : String) : St × String :=
  let toks := tokens line
  match toks with
  | "case" :: rest =>
    match nat? rest "id" with
    | some i =>
      -- `off=<switch,…>` / `on=<switch,…>` relative to `asImplemented`: the case is meant for a /repo with
      -- the corresponding fix applied / reverse-applied
      let off := ((kv? rest "off").getD "").splitOn ","
      let onl := ((kv? rest "on").getD "").splitOn ","
      let sw (n : String) (cur : Bool) : Bool := (cur || onl.contains n) && !off.contains n
      let a := Defects.asImplemented
      let r := RoomNode.Defects.asImplemented
      let dI : Defects :=
        { edgeSourceUnchecked := sw "edgeSource" a.edgeSourceUnchecked,
          edgeReplaceUnchecked := sw "edgeReplace" a.edgeReplaceUnchecked,
          entityChangeUnchecked := sw "entityChange" a.entityChangeUnchecked,
          roomlessReplaceUnchecked := sw "roomlessReplace" a.roomlessReplaceUnchecked,
          delRoomUnchecked := sw "delRoom" a.delRoomUnchecked,
          delEntityUnchecked := sw "delEntity" a.delEntityUnchecked,
          edgeDelSourceUnchecked := sw "edgeDelSource" a.edgeDelSourceUnchecked,
          jsonAbsentUnchecked := sw "jsonAbsent" a.jsonAbsentUnchecked,
          authEntityUnchecked := sw "authEntity" a.authEntityUnchecked,
          announcedDeletedRequested := sw "announcedDeleted" a.announcedDeletedRequested }
      let dR : RoomNode.Defects :=
        { placingEdgeUnchecked := sw "placingEdge" r.placingEdgeUnchecked,
          placingAuthorUnchecked := sw "placingAuthor" r.placingAuthorUnchecked,
          roomRowUnchecked := sw "roomRow" r.roomRowUnchecked,
          newGroupUserAdminUnchecked := sw "newGroupUserAdmin" r.newGroupUserAdminUnchecked,
          newestFirstRead := sw "newestFirstRead" r.newestFirstRead,
          duplicateIdsUnchecked := sw "duplicateIds" r.duplicateIdsUnchecked }
      ({ St.init with dI, dR }, s!"case {i}")
    | none => (st, "bad-op")
  | "room" :: rest =>
    match nat? rest "id", int? rest "t", nat? rest "by" with
    | some id, some t, some b =>
      if st.defs.any (·.node.id = id) then (st, "bad-op")
      else
        let d : RoomNode.RoomNode :=
          { node := sysRow id 100 t b (.other 0), adminEdges := [], adminNodes := [], authEdges := [], authNodes := [] }
        ({ st with defs := st.defs ++ [d] }, "q")
    | _, _, _ => (st, "bad-op")
  | "radmin" :: rest =>
    match nat? rest "room", nat? rest "id", nat? rest "k", bool? rest "en", int? rest "t", nat? rest "by" with
    | some room, some id, some k, some en, some t, some b =>
      match updDef st.defs room fun d =>
        { d with adminNodes := d.adminNodes ++ [sysRow id 102 t b (.user k en)],
                 adminEdges := d.adminEdges ++ [sysEdge room 100 32 id t b] } with
      | some defs => ({ st with defs }, "q")
      | none => (st, "bad-op")
    | _, _, _, _, _, _ => (st, "bad-op")
  | "rauth" :: rest =>
    match nat? rest "room", nat? rest "id", int? rest "t", nat? rest "by" with
    | some room, some id, some t, some b =>
      let a : RoomNode.AuthNode :=
        { node := sysRow id 101 t b (.other 1), rightEdges := [], rightNodes := [], userEdges := [], userNodes := [],
          userAdminEdges := [], userAdminNodes := [], needUpdate := true }
      match updDef st.defs room fun d =>
        { d with authNodes := d.authNodes ++ [a], authEdges := d.authEdges ++ [sysEdge room 100 33 id t b] } with
      | some defs => ({ st with defs }, "q")
      | none => (st, "bad-op")
    | _, _, _, _ => (st, "bad-op")
  | "rright" :: rest =>
    match nat? rest "room", nat? rest "g", nat? rest "id", nat? rest "e", bool? rest "ms", bool? rest "ma",
          int? rest "t", nat? rest "by" with
    | some room, some g, some id, some e, some ms, some ma, some t, some b =>
      match updAuth st.defs room g fun a =>
        { a with rightNodes := a.rightNodes ++ [sysRow id 103 t b (.right e ms ma)],
                 rightEdges := a.rightEdges ++ [sysEdge g 101 33 id t b] } with
      | some defs => ({ st with defs }, "q")
      | none => (st, "bad-op")
    | _, _, _, _, _, _, _, _ => (st, "bad-op")
  | "ruser" :: rest =>
    match nat? rest "room", nat? rest "g", nat? rest "id", nat? rest "k", bool? rest "en", int? rest "t", nat? rest "by" with
    | some room, some g, some id, some k, some en, some t, some b =>
      match updAuth st.defs room g fun a =>
        { a with userNodes := a.userNodes ++ [sysRow id 102 t b (.user k en)],
                 userEdges := a.userEdges ++ [sysEdge g 101 34 id t b] } with
      | some defs => ({ st with defs }, "q")
      | none => (st, "bad-op")
    | _, _, _, _, _, _, _ => (st, "bad-op")
  | "ruadmin" :: rest =>
    match nat? rest "room", nat? rest "g", nat? rest "id", nat? rest "k", bool? rest "en", int? rest "t", nat? rest "by" with
    | some room, some g, some id, some k, some en, some t, some b =>
      match updAuth st.defs room g fun a =>
        { a with userAdminNodes := a.userAdminNodes ++ [sysRow id 102 t b (.user k en)],
                 userAdminEdges := a.userAdminEdges ++ [sysEdge g 101 35 id t b] } with
      | some defs => ({ st with defs }, "q")
      | none => (st, "bad-op")
    | _, _, _, _, _, _, _ => (st, "bad-op")
  | "srow" :: rest =>
    match nat? rest "id", nat? rest "ent", int? rest "c", int? rest "m", nat? rest "by", body? rest with
    | some id, some ent, some c, some m, some b, some body =>
      if b < 8 && (ent ≤ 3 && 1 ≤ ent || 100 ≤ ent && ent ≤ 103) then
        let sig := (bool? rest "sig").getD true
        let row : RoomNode.SRow := { id, ent, room := none, cdate := c, mdate := m, author := b, body, sigOk := sig }
        let pk := (nat? rest "p").getD id
        ({ st with rowPool := st.rowPool.filter (·.1 ≠ pk) ++ [(pk, row)] }, "q")
      else (st, "bad-op")
    | _, _, _, _, _, _ => (st, "bad-op")
  | "sedge" :: rest =>
    match nat? rest "n", nat? rest "src", nat? rest "se", nat? rest "l", nat? rest "dst", int? rest "c", nat? rest "by" with
    | some n, some src, some se, some l, some dst, some c, some b =>
      if b < 8 && (se ≤ 3 && 1 ≤ se || 100 ≤ se && se ≤ 103) && 1 ≤ l then
        let sig := (bool? rest "sig").getD true
        let e : RoomNode.PEdge := { src, srcEnt := se, label := l, dst, cdate := c, author := b, sigOk := sig }
        ({ st with edgePool := st.edgePool.filter (·.1 ≠ n) ++ [(n, e)] }, "q")
      else (st, "bad-op")
    | _, _, _, _, _, _, _ => (st, "bad-op")
  | "cand" :: rest =>
    match nat? rest "room", natListOr rest "admins", natListOr rest "aedges", natListOr rest "auths", natListOr rest "authedges" with
    | some room, some admins, some aedges, some auths, some authedges =>
      match (st.rowPool.find? (·.1 = room)).map (·.2), pickRows st.rowPool admins, pickEdges st.edgePool aedges,
            pickRows st.rowPool auths, pickEdges st.edgePool authedges with
      | some node, some an, some ae, some gn, some ge =>
        let d : RoomNode.RoomNode :=
          { node, adminEdges := ae, adminNodes := an, authEdges := ge,
            authNodes := gn.map fun g => { node := g, rightEdges := [], rightNodes := [], userEdges := [], userNodes := [],
                                           userAdminEdges := [], userAdminNodes := [], needUpdate := true } }
        ({ st with defs := st.defs.filter (·.node.id ≠ room) ++ [d] }, "q")
      | _, _, _, _, _ => (st, "bad-op")
    | _, _, _, _, _ => (st, "bad-op")
  | "cauth" :: rest =>
    match nat? rest "room", nat? rest "id", natListOr rest "rights", natListOr rest "redges", natListOr rest "users",
          natListOr rest "uedges", natListOr rest "uadmins", natListOr rest "uaedges" with
    | some room, some id, some rights, some redges, some users, some uedges, some uadmins, some uaedges =>
      match pickRows st.rowPool rights, pickEdges st.edgePool redges, pickRows st.rowPool users,
            pickEdges st.edgePool uedges, pickRows st.rowPool uadmins, pickEdges st.edgePool uaedges with
      | some rn, some re, some un, some ue, some an, some ae =>
        match updAuth st.defs room id fun a =>
          { a with rightNodes := rn, rightEdges := re, userNodes := un, userEdges := ue, userAdminNodes := an,
                   userAdminEdges := ae } with
        | some defs => ({ st with defs }, "q")
        | none => (st, "bad-op")
      | _, _, _, _, _, _ => (st, "bad-op")
    | _, _, _, _, _, _, _, _ => (st, "bad-op")
  | "dump" :: _ => (st, s!"dump {dump st.inst}")
  | "probe" :: rest =>
    match nat? rest "room", intList? rest "dates" with
    | some room, some dates => (st, probe st room dates)
    | _, _ => (st, "bad-op")
  | "install" :: rest =>
    match nat? rest "room" with
    | some room => install st room
    | none => (st, "bad-op")
  | "node" :: rest =>
    match nat? rest "id", nat? rest "r", nat? rest "e", int? rest "c", int? rest "m", nat? rest "k", nat? rest "v",
          (kv? rest "js").bind shape?, bool? rest "sig", nat? rest "sg" with
    | some id, some r, some e, some c, some m, some k, some v, some (code, conf, big, ver), some sig, some sg =>
      -- shape `ukey` is the JSON of a sys.UserAuth row (key v, enabled): it conforms to that entity only
      let conf := if code = 9 then decide (e = 102) else conf
      let row : NodeRow := { id, room := some r, ent := e, cdate := c, mdate := m, key := k, sg,
                             val := if code = 1 then 1000 else if code = 9 then 1000000 + 2 * (v % 8) + 1 else v + 1000 * code }
      let ad := (int? rest "ad").getD m
      let asg := (nat? rest "asg").getD sg
      let n : InNode := { row, annDate := ad, annSg := asg, sigOk := sig && ver, conforms := conf, jsonAbsent := code = 1, big }
      ({ st with batch := { st.batch with nodes := st.batch.nodes ++ [n] } }, "q")
    | _, _, _, _, _, _, _, _, _, _ => (st, "bad-op")
  | "edge" :: rest =>
    match nat? rest "src", nat? rest "se", nat? rest "l", nat? rest "dst", int? rest "c", nat? rest "k", bool? rest "sig" with
    | some src, some se, some l, some dst, some c, some k, some sig =>
      let e : InEdge := { row := { src, srcEnt := se, label := l, dst, cdate := c, key := k }, sigOk := sig }
      ({ st with batch := { st.batch with edges := st.batch.edges ++ [e] } }, "q")
    | _, _, _, _, _, _, _ => (st, "bad-op")
  | "ndel" :: rest =>
    match nat? rest "r", nat? rest "id", nat? rest "e", int? rest "m", int? rest "d", nat? rest "k", bool? rest "sig" with
    | some r, some id, some e, some m, some d, some k, some sig =>
      let x : InNodeDel := { entry := { room := r, id, ent := e, mdate := m, ddate := d, key := k }, sigOk := sig }
      ({ st with batch := { st.batch with nodeDels := st.batch.nodeDels ++ [x] } }, "q")
    | _, _, _, _, _, _, _ => (st, "bad-op")
  | "edel" :: rest =>
    match nat? rest "r", nat? rest "src", nat? rest "se", nat? rest "l", nat? rest "dst", int? rest "c", int? rest "d",
          nat? rest "k", bool? rest "sig" with
    | some r, some src, some se, some l, some dst, some c, some d, some k, some sig =>
      let x : InEdgeDel :=
        { entry := { room := r, src, srcEnt := se, dst, label := l, cdate := c, ddate := d, key := k }, sigOk := sig }
      ({ st with batch := { st.batch with edgeDels := st.batch.edgeDels ++ [x] } }, "q")
    | _, _, _, _, _, _, _, _, _ => (st, "bad-op")
  | "rsync" :: rest =>
    -- the same day through the real `synchronise_day`: the caller only learns Ok / Err
    match nat? rest "r" with
    | some r =>
      if tieOnSysRow st then ({ st with batch := St.init.batch }, "bad-op")   -- the batch is consumed
      else
        let res := syncDay st.dI st.inst r st.batch
        let cls := match res.2 with | .done _ _ => "ok" | _ => "err"
        ({ st with inst := res.1, batch := St.init.batch }, s!"rsync res={cls} {dump res.1}")
    | none => (st, "bad-op")
  | "sync" :: rest =>
    match nat? rest "r" with
    | some r =>
      if tieOnSysRow st then ({ st with batch := St.init.batch }, "bad-op")   -- the batch is consumed
      else
        let res := syncDay st.dI st.inst r st.batch
        ({ st with inst := res.1, batch := St.init.batch }, s!"sync {fmtOutcome res.2} {dump res.1}")
    | none => (st, "bad-op")
  | _ => (st, "bad-op")

end IngestDriver

def main : IO Unit := do
  loop (← IO.getStdin) (← IO.getStdout) IngestDriver.stepLine IngestDriver.St.init
