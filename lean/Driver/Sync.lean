import DiscretModel.Model.Proto
import DiscretModel.Model.Sync
import DiscretModel.Model.Date
/-
Model driver for engine `sync` (same op file as `dv-sync run`, see harness/sync/src/main.rs).
Every op line answers `<result> | <dump of every peer>`; malformed lines answer `bad-op`.
Hashes are printed as `h<n>` in order of first appearance in the case, exactly as the harness numbers
the real hash bytes.
-/
open Discret Discret.Proto Discret.DailyLog Discret.Sync

structure St where
  w : World
  inCase : Bool
  hashes : List Hash
  d : Defects

def lex2 (a b : Nat × Nat) : Bool := a.1 < b.1 || (a.1 = b.1 && a.2 < b.2)

def indexOf (h : Hash) : List Hash → Nat → Option Nat
  | [], _ => none
  | x :: t, i => if x = h then some i else indexOf h t (i + 1)

def hashStr (hs : List Hash) : Option Hash → List Hash × String
  | none => (hs, "-")
  | some h =>
    match indexOf h hs 0 with
    | some i => (hs, s!"h{i}")
    | none => (hs ++ [h], s!"h{hs.length}")

/-- ascending non-empty days of a group in the content of a replica -/
def contentDays (r : Replica) (room ent : Nat) : List Nat :=
  let ds := (r.ntombs.filter fun t => t.room = room && t.ent = ent).map (fun t => dayOf t.ddate) ++
            (r.etombs.filter fun t => t.room = room && ent = 0).map (fun t => dayOf t.ddate) ++
            (r.nodes.filter fun n => n.room = room && n.ent = ent).map (fun n => dayOf n.mdate)
  (sortBy (· < ·) ds).eraseDups

def chkOf (spec : List DayRow) (r : DayRow) : String :=
  if r.dirty then "-"
  else match spec.find? (·.day = r.day) with
    | none => "e"
    | some s =>
      let x := (if s.count ≠ r.count then "n" else "") ++ (if s.daily ≠ r.daily then "d" else "") ++
               (if s.hist ≠ r.hist then "h" else "")
      if x = "" then "ok" else x

def renderLog (hs : List Hash) (r : Replica) : List Hash × String :=
  let groupsOfContent : List (Nat × Nat) :=
    [(1, 0), (1, 1), (2, 0), (2, 1)]
  let flat := sortBy (fun (a b : FlatRow) => lexL [a.room, a.ent, a.row.day] [b.room, b.ent, b.row.day]) (flatten r.log)
  let (hs1, rows) := flat.foldl (fun (acc : List Hash × List String) (x : FlatRow) =>
    let spec := specRows r.sigs x.room x.ent (contentDays r x.room x.ent)
    let (h1, ds) := hashStr acc.1 x.row.daily
    let (h2, hh) := hashStr h1 x.row.hist
    (h2, acc.2 ++ [s!"{x.room}:{x.ent}:{x.row.day}:{x.row.count}:{ds}:{hh}:{if x.row.dirty then 1 else 0}:{chkOf spec x.row}"]))
    (hs, [])
  let missing := groupsOfContent.flatMap fun (g : Nat × Nat) =>
    ((contentDays r g.1 g.2).filter fun d => (findRow r.log { room := g.1, ent := g.2, day := d }).isNone).map
      fun d => s!"{g.1}:{g.2}:{d}:missing"
  (hs1, joinWith ";" (rows ++ missing))

def renderReplica (hs : List Hash) (i : Nat) (r : Replica) : List Hash × String :=
  let ns := (sortBy (fun (a b : Node) => a.id < b.id) r.nodes).map fun n =>
    s!"{n.id}:{n.room}:{n.ent}:{n.cdate}:{n.mdate}:{n.author}:{n.val}:{n.sig}"
  let es := (sortBy (fun (a b : Edge) => lex2 (a.src, a.dest) (b.src, b.dest)) r.edges).map fun e =>
    s!"{e.src}:{e.dest}:{e.cdate}:{e.author}"
  let ds := (sortBy (fun (a b : NTomb) => lexL [a.id, a.ddate, a.author, a.sig] [b.id, b.ddate, b.author, b.sig]) r.ntombs).map
    fun t => s!"{t.id}:{t.room}:{t.ent}:{t.mdate}:{t.ddate}:{t.author}:{t.sig}"
  let xs := (sortBy (fun (a b : ETomb) => lexL [a.src, a.dest, a.ddate, a.author, a.sig] [b.src, b.dest, b.ddate, b.author, b.sig]) r.etombs).map
    fun t => s!"{t.src}:{t.dest}:{t.room}:{t.cdate}:{t.ddate}:{t.author}:{t.sig}"
  let (hs1, l) := renderLog hs r
  (hs1, "p" ++ toString i ++ "{N[" ++ joinWith ";" ns ++ "] E[" ++ joinWith ";" es ++ "] D[" ++ joinWith ";" ds ++
        "] X[" ++ joinWith ";" xs ++ "] L[" ++ l ++ "]}")

def renderWorld (hs : List Hash) (w : World) : List Hash × String :=
  let (hs1, parts, _) := w.visible.foldl (fun (acc : List Hash × List String × Nat) (r : Replica) =>
    let (h, s) := renderReplica acc.1 acc.2.2 r
    (h, acc.2.1 ++ [s], acc.2.2 + 1)) (hs, [], 0)
  (hs1, joinWith " " parts)

def answer (s : St) (w : World) (res : String) : St × String :=
  let (hs, d) := renderWorld s.hashes w
  ({ s with w := w, hashes := hs }, res ++ " | " ++ d)

/-- `rights=a,s,l grant=T`: `a` all rows from the start, `s` own rows only, `l` own rows, all rows from date `T` -/
def parseRights (toks : List String) (n : Nat) : Option Rights :=
  match kv? toks "rights" with
  | none => some (List.replicate n (some 0))
  | some v =>
    let parts := v.splitOn ","
    let grant := nat? toks "grant"
    if parts.length ≠ n then none
    else if parts.any (fun x => x ≠ "a" ∧ x ≠ "s" ∧ x ≠ "l") then none
    else if parts.head? ≠ some "a" then none
    else if parts.any (· = "l") ∧ grant.isNone then none
    else some (parts.map fun x => if x = "a" then some 0 else if x = "l" then grant else none)

def writeOp (s : St) (p : Nat) (op : WOp) : St × String :=
  if p ≥ s.w.peers.length then (s, "bad-op")
  else if !op.wellFormed s.w then (s, "bad-op")
  else
    let (w', r) := s.w.write s.d p op
    match r with
    | some res => answer s w' res.str
    | none => answer s w' "queued"

def stepLine (s : St) (line : String) : St × String :=
  let toks := tokens line
  match toks with
  | "case" :: rest =>
    match nat? rest "id", nat? rest "peers" with
    | some i, some n =>
      if n < 1 ∨ n > 4 then (s, "bad-op")
      else match parseRights rest n with
        | some rights => ({ s with w := World.initDated rights, inCase := true, hashes := [] }, s!"case {i}")
        | none => (s, "bad-op")
    | _, _ => (s, "bad-op")
  | kind :: rest =>
    if !s.inCase then (s, "bad-op")
    else match kind with
    | "clock" =>
      match nat? rest "t" with
      | some t => answer s { s.w with now := t } "ok"
      | none => (s, "bad-op")
    | "dates" =>
      -- date_utils::date / date_next_day of one (possibly negative, possibly unrepresentable) date
      match int? rest "t" with
      | some t => answer s s.w s!"date={Discret.Date.date t} next={Discret.Date.dateNextDay t} inrange={decide (Discret.Date.InRange t)}"
      | none => (s, "bad-op")
    | "new" =>
      match nat? rest "p", nat? rest "row", nat? rest "room", nat? rest "ent", nat? rest "val", nat? rest "sig" with
      | some p, some row, some room, some ent, some val, some sig => writeOp s p (.new row room ent val sig)
      | _, _, _, _, _, _ => (s, "bad-op")
    | "upd" =>
      match nat? rest "p", nat? rest "row", nat? rest "val", nat? rest "sig" with
      | some p, some row, some val, some sig =>
        match kv? rest "room" with
        | none => writeOp s p (.upd row val sig none)
        | some _ =>
          match nat? rest "room" with
          | some r => writeOp s p (.upd row val sig (some r))
          | none => writeOp s p (.upd row val sig none)
      | _, _, _, _ => (s, "bad-op")
    | "ref" =>
      match nat? rest "p", nat? rest "row", nat? rest "to", nat? rest "sig" with
      | some p, some row, some to, some sig => writeOp s p (.ref row to sig)
      | _, _, _, _ => (s, "bad-op")
    | "unref" =>
      match nat? rest "p", nat? rest "row", nat? rest "to", nat? rest "sig", nat? rest "dsig" with
      | some p, some row, some to, some sig, some dsig => writeOp s p (.unref row to sig dsig)
      | _, _, _, _, _ => (s, "bad-op")
    | "unrefs" =>
      match nat? rest "p", natList? rest "rows", natList? rest "tos", natList? rest "sigs", natList? rest "dsigs" with
      | some p, some rows, some tos, some sigs, some dsigs =>
        let n := rows.length
        if p ≥ s.w.peers.length ∨ tos.length ≠ n ∨ sigs.length ≠ n ∨ dsigs.length ≠ n then (s, "bad-op")
        else
          let es : List UnrefEntry := (List.range n).map fun i =>
            { row := rows.getD i 0, to := tos.getD i 0, sig := sigs.getD i 0, dsig := dsigs.getD i 0 }
          if !unrefsWellFormed s.w es ∨ s.w.inBatch p then (s, "bad-op")
          else
            let (w', r) := s.w.unrefs s.d p es
            answer s w' r.str
      | _, _, _, _, _ => (s, "bad-op")
    | "del" =>
      match nat? rest "p", nat? rest "row", nat? rest "dsig" with
      | some p, some row, some dsig => writeOp s p (.del row dsig)
      | _, _, _ => (s, "bad-op")
    | "begin" =>
      match nat? rest "p" with
      | some p =>
        if p ≥ s.w.peers.length then (s, "bad-op")
        else
          let w1 := s.w.commit.1
          answer s { w1 with batch := some { peer := p, snap := w1.peer p, marks := [], pend := [] } } "ok"
      | none => (s, "bad-op")
    | "commit" =>
      match nat? rest "p" with
      | some p =>
        match s.w.batch with
        | some b =>
          if b.peer = p then
            let (w1, pend) := s.w.commit
            answer s w1 ("ok res=" ++ joinWith "," (pend.map Pending.str))
          else answer s s.w "ok:nobatch"
        | none => answer s s.w "ok:nobatch"
      | none => (s, "bad-op")
    | "compute" =>
      match nat? rest "p" with
      | some p =>
        if p ≥ s.w.peers.length then (s, "bad-op")
        else
          let (w1, queued) := s.w.compute s.d p
          answer s w1 (if queued then "queued" else "ok")
      | none => (s, "bad-op")
    | "pull" =>
      match nat? rest "dst", nat? rest "src", nat? rest "room" with
      | some dst, some src, some room =>
        let n := s.w.peers.length
        if dst ≥ n ∨ src ≥ n ∨ dst = src ∨ ¬ (room = 1 ∨ room = 2) then (s, "bad-op")
        else
          let (w1, f) := s.w.pull s.d dst src room
          answer s w1 s!"ok f={f}"
      | _, _, _ => (s, "bad-op")
    | "settle" =>
      match nat? rest "room", nat? rest "max" with
      | some room, some max =>
        if ¬ (room = 0 ∨ room = 1 ∨ room = 2) then (s, "bad-op")
        else
          let (w1, n, quiet, f) := World.settle s.d room max s.w
          answer s w1 s!"ok rounds={n} quiet={if quiet then 1 else 0} f={f}"
      | _, _ => (s, "bad-op")
    | _ => (s, "bad-op")
  | [] => (s, "bad-op")

/-- experiments only: `DMODEL_OFF=switch,switch` runs the model with those switches of `Defects.asImplemented`
    turned off (to validate a proposed fix in a private copy of /repo); the checks never set it -/
def applyOff (d : Defects) (name : String) : Defects :=
  match name with
  | "historySeedDropped" => { d with historySeedDropped := false }
  | "entityNotCompared" => { d with entityNotCompared := false }
  | "emptyDayRow" => { d with emptyDayRow := false }
  | "oldDayUnmarked" => { d with oldDayUnmarked := false }
  | "refDeletionUnmarked" => { d with refDeletionUnmarked := false }
  | "refDeletionTouchesRowWithoutRef" => { d with refDeletionTouchesRowWithoutRef := false }
  | "syncDeletionLocalDayUnmarked" => { d with syncDeletionLocalDayUnmarked := false }
  | "ingestIgnoresTombstones" => { d with ingestIgnoresTombstones := false }
  | "rightDependsOnLocalAuthor" => { d with rightDependsOnLocalAuthor := false }
  | "edgesOnlyForFetchedRows" => { d with edgesOnlyForFetchedRows := false }
  | "syncDeletionKeepsEdges" => { d with syncDeletionKeepsEdges := false }
  | "deletionBatchKeyedById" => { d with deletionBatchKeyedById := false }
  | "lazyScan" => { d with lazyScan := false }
  | "syncDeletionRoomScoped" => { d with syncDeletionRoomScoped := false }
  | "summaryFirstEntityOnly" => { d with summaryFirstEntityOnly := false }
  | _ => d

/-- experiments only: `DMODEL_ON=switch,..` turns repaired switches on again (to check that the model with the
    switch on still is the code with the fix reverse-applied in a private copy of /repo) -/
def applyOn (d : Defects) (name : String) : Defects :=
  match name with
  | "oldDayUnmarked" => { d with oldDayUnmarked := true }
  | "syncDeletionLocalDayUnmarked" => { d with syncDeletionLocalDayUnmarked := true }
  | "lazyScan" => { d with lazyScan := true }
  | "refDeletionUnmarked" => { d with refDeletionUnmarked := true }
  | "refDeletionTouchesRowWithoutRef" => { d with refDeletionTouchesRowWithoutRef := true }
  | "ingestIgnoresTombstones" => { d with ingestIgnoresTombstones := true }
  | "deletionBatchKeyedById" => { d with deletionBatchKeyedById := true }
  | _ => d

def main : IO Unit := do
  let off := (← IO.getEnv "DMODEL_OFF").getD ""
  let on := (← IO.getEnv "DMODEL_ON").getD ""
  let d := (on.splitOn ",").foldl applyOn ((off.splitOn ",").foldl applyOff Defects.asImplemented)
  loop (← IO.getStdin) (← IO.getStdout) stepLine
    { w := World.init [], inCase := false, hashes := [], d := d }
