import DiscretModel.Model.Proto
import DiscretModel.Model.Lock
/-
Model driver for engine `lock`.
  case id=<n> max=<n>          -> "case <n>"            (resets the state)
  req p=<n> ch=<n> rooms=a,b   -> "grants ch:room,…"    (sorted by channel, stable)
  unlock r=<n>                 -> "grants …"
  drop ch=<n>                  -> "grants"
anything else                  -> "bad-op"
-/
open Discret Discret.Proto Discret.Lock

def insertByCh (g : Ch × Room) : List (Ch × Room) → List (Ch × Room)
  | [] => [g]
  | h :: t => if g.1 ≤ h.1 then g :: h :: t else h :: insertByCh g t

/-- stable sort by channel (insertion sort from the right keeps the per-channel order) -/
def sortByCh (l : List (Ch × Room)) : List (Ch × Room) := l.foldr insertByCh []

def fmt (gs : List (Ch × Room)) : String :=
  let body := joinWith "," ((sortByCh gs).map fun g => s!"{g.1}:{g.2}")
  if body = "" then "grants" else "grants " ++ body

def stepLine (s : State) (line : String) : State × String :=
  let toks := tokens line
  match toks with
  | "case" :: rest =>
    match nat? rest "id", nat? rest "max" with
    | some i, some m => (init m, s!"case {i}")
    | _, _ => (s, "bad-op")
  | "req" :: rest =>
    match nat? rest "p", nat? rest "ch", natList? rest "rooms" with
    | some p, some ch, some rooms =>
      let (s', g) := step s (.request p rooms ch)
      (s', fmt g)
    | _, _, _ => (s, "bad-op")
  | "unlock" :: rest =>
    match nat? rest "r" with
    | some r => let (s', g) := step s (.unlock r); (s', fmt g)
    | none => (s, "bad-op")
  | "drop" :: rest =>
    match nat? rest "ch" with
    | some ch => let (s', g) := step s (.drop ch); (s', fmt g)
    | none => (s, "bad-op")
  | _ => (s, "bad-op")

def main : IO Unit := do
  loop (← IO.getStdin) (← IO.getStdout) stepLine (init 0)
