import DiscretModel.Model.Proto
import DiscretModel.Model.Digest
import DiscretModel.Gen.DigestLayout
/-
Model driver for engine `digest` (C06). Same op file as `dv-digest run`:
  case id=<n>                                   -> "case <n>"
  pair ka= kb= signer= spk=<hex> ajson= bjson= a.<field>=… b.<field>=…
                                                -> accept | reject | pre:<c> | panic | sign-err:<c>
  oracle mode=digest|bytes ch=<hex> me=<hex> kb= bjson= b.<field>=…   -> same outcomes
  invite app=<hex> me=<hex> kb= bjson= b.<field>=…                    -> "invite <outcome>"
  store ka= kb= signer= signer2= a.<field>=… b.<field>=…              -> stored-ok (a written, b written over it, read back)
The field lists are those of `Gen/DigestLayout.lean` (regenerated from the sources on every run);
the switches are `Defects.asImplemented`. Anything malformed -> "bad-op".
-/
open Discret Discret.Proto Discret.Digest Discret.Digest.Gen

def hexVal (c : Char) : Option Nat :=
  if '0' ≤ c ∧ c ≤ '9' then some (c.toNat - 48)
  else if 'a' ≤ c ∧ c ≤ 'f' then some (c.toNat - 87)
  else none

def unhexChars : List Char → Option Bytes
  | [] => some []
  | [_] => none
  | h :: l :: r =>
    match hexVal h, hexVal l, unhexChars r with
    | some a, some b, some t => some ((a * 16 + b) :: t)
    | _, _, _ => none

def unhex (s : String) : Option Bytes := unhexChars s.toList

def kindOf : String → Option Kind
  | "node" => some .node
  | "edge" => some .edge
  | "nodedel" => some .nodeDel
  | "edgedel" => some .edgeDel
  | _ => none

def parseVal (ty : Ty) (s : String) : Option Val :=
  match ty with
  | .i64 => (s.toInt?).map Val.int
  | .optUid | .optJson | .optBin => if s = "-" then some (.opt none) else (unhex s).map (fun b => Val.opt (some b))
  | _ => (unhex s).map Val.bytes

/-- values of the layout's fields from tokens `<pfx>.<field>=<value>`; a missing key field takes `vk` -/
def parseRow (pfx : String) (toks : List String) (vk : Option Bytes) : Layout → Option Row
  | [] => some []
  | f :: fs =>
    let v : Option Val :=
      match kv? toks (pfx ++ "." ++ f.name) with
      | some s => parseVal f.ty s
      | none => if f.ty = .key then vk.map Val.bytes else none
    match v, parseRow pfx toks vk fs with
    | some v, some r => some (v :: r)
    | _, _ => none

def flag? (toks : List String) (k : String) : Option Bool :=
  match kv? toks k with
  | some "1" => some true
  | some "0" => some false
  | _ => none

def d : Defects := Defects.asImplemented

/-- the invitation id is a fresh uid drawn by the instance: never equal to bytes the op file contains -/
def freshId : Bytes := List.replicate 16 256

def stepLine (_ : Unit) (line : String) : Unit × String :=
  let toks := tokens line
  let out : String :=
    match toks with
    | "case" :: rest =>
      match nat? rest "id" with
      | some i => s!"case {i}"
      | none => "bad-op"
    | "pair" :: rest =>
      match (kv? rest "ka").bind kindOf, (kv? rest "kb").bind kindOf, (kv? rest "spk").bind unhex,
          flag? rest "ajson", flag? rest "bjson", nat? rest "signer" with
      | some ka, some kb, some spk, some aj, some bj, some _ =>
        match parseRow "a" rest (some spk) (signLayoutOf ka), parseRow "b" rest none (layoutOf kb) with
        | some a, some b => (transplant d ka (signLayoutOf ka) a aj spk kb (layoutOf kb) b bj).toString
        | _, _ => "bad-op"
      | _, _, _, _, _, _ => "bad-op"
    | "store" :: rest =>
      -- the row written last is the row read back, and it verifies as stored: the model has one answer for every
      -- well-formed op (two rows of the same kind with the same key, both within what `sign` accepts)
      match kv? rest "ka", kv? rest "kb", nat? rest "signer", nat? rest "signer2" with
      | some ka, some kb, some s1, some s2 =>
        if ka = kb && (ka = "node" || ka = "edge") && s1 < 4 && s2 < 4 then "stored-ok" else "bad-op"
      | _, _, _, _ => "bad-op"
    | "oracle" :: rest =>
      match (kv? rest "kb").bind kindOf, (kv? rest "me").bind unhex, flag? rest "bjson", kv? rest "mode",
          (kv? rest "ch").bind unhex with
      | some kb, some me, some bj, some mode, some ch =>
        match parseRow "b" rest none (layoutOf kb) with
        | some b =>
          if mode = "digest" then
            (oracleAttack d layoutOf me (hash (encode d kb (layoutOf kb) b)) kb b bj).toString
          else if mode = "bytes" then (oracleAttack d layoutOf me ch kb b bj).toString
          else "bad-op"
        | none => "bad-op"
      | _, _, _, _, _ => "bad-op"
    | "invite" :: rest =>
      match (kv? rest "kb").bind kindOf, (kv? rest "me").bind unhex, flag? rest "bjson", (kv? rest "app").bind unhex with
      | some kb, some me, some bj, some app =>
        match parseRow "b" rest none (layoutOf kb) with
        | some b => "invite " ++ (verifyRow d kb (layoutOf kb) b bj (answer d layoutOf me (.invite freshId app))).toString
        | none => "bad-op"
      | _, _, _, _ => "bad-op"
    | _ => "bad-op"
  ((), out)

def main : IO Unit := do
  loop (← IO.getStdin) (← IO.getStdout) stepLine ()
