import DiscretModel.Model.Proto
import DiscretModel.Model.Serve
import DiscretModel.Gen.ServeTable
import DiscretModel.Model.Handshake
/-
Model driver for engine `serve` (C08, C19). Same op files as `dv-serve run`.
C08 (case … prop=C08): room / group / member / row / ref / delref / delrow / open / auth / now / q — see
harness/serve/src/c08.rs. The request table, the membership re-check and the event rule are `Gen.code`
(`Gen/ServeTable.lean`, regenerated from the source on every run); the switches are `Defects.asImplemented`. C19 ops are handled by `Driver/ServeHs` below.
Anything malformed -> "bad-op".
-/
open Discret Discret.Proto Discret.Room Discret.Serve Discret.Serve.Gen

namespace Drv08

structure St where
  w : World
  conns : List (Nat × Conn)
  known : List RoomId       -- rooms created so far
  usedRows : List Nat       -- row aliases ever used

/-- room 0 is the instance's private room: the own user is its only member -/
def privateRoom : Room := { id := 0, mdate := 1000, admins := [⟨1, 1000, true⟩], auths := [] }

def St.init : St :=
  { w := { World.empty with now := 1000, peers := [1], rooms := [privateRoom], history := [(1000, privateRoom)],
                            -- room-less system rows: the private room's definition row (900) and the own sys.Peer row (990)
                            rows := [⟨900, none, 2, 1000⟩, ⟨990, none, 3, 1000⟩] },
    conns := [], known := [0], usedRows := [] }

def d : Serve.Defects := Serve.Defects.asImplemented
def own : Key := 1

def setConn (l : List (Nat × Conn)) (c : Nat) (x : Conn) : List (Nat × Conn) :=
  l.map fun p => if p.1 = c then (c, x) else p

def getConn (l : List (Nat × Conn)) (c : Nat) : Option Conn := (l.find? (·.1 = c)).map (·.2)

/-- install a definition and hand the event to every open connection -/
def install (s : St) (room : Room) : St :=
  let w' := installRoom s.w room
  { s with w := w', conns := s.conns.map fun p => (p.1, roomEvent d code.event w' p.2 room) }

def addLogDay (l : List (RoomId × Int)) (r : RoomId) (day : Int) : List (RoomId × Int) :=
  if l.contains (r, day) then l else l ++ [(r, day)]

/-- since the daily log is a function of the stored content (/repo 20e7aa6: a day that holds nothing any more has no log
    row): the (room, day) pairs of the rows, of the row deletion records and of the reference deletion records -/
def contentDays (w : World) : List (RoomId × Int) :=
  let all := (w.rows.filterMap fun x => x.room.map fun r => (r, dayOf x.mdate))
    ++ (w.nodeDels.map fun d => (d.room, dayOf d.date)) ++ (w.edgeDels.map fun d => (d.room, dayOf d.date))
  all.foldl (fun acc x => if acc.contains x then acc else acc ++ [x]) []

def insertSorted (x : String) : List String → List String
  | [] => [x]
  | h :: t => if x ≤ h then x :: h :: t else h :: insertSorted x t

def sortStrings (l : List String) : List String := l.foldr insertSorted []

def insertNat (x : Nat) : List Nat → List Nat
  | [] => [x]
  | h :: t => if x ≤ h then x :: h :: t else h :: insertNat x t

def fmtItem (it : Item) : String :=
  (match it.room with | some r => toString r | none => "-") ++ ":" ++ toString it.id

def fmtAnswer : Answer → String
  | .silent => "silent"
  | .refused => "refused"
  | .identity => "identity"
  | .fingerprint => "fingerprint"
  | .roomList rooms =>
    let body := joinWith "," ((rooms.foldr insertNat []).map toString)
    if body = "" then "rooms" else "rooms " ++ body
  | .data r items =>
    let body := joinWith "," (sortStrings (items.map fmtItem))
    if body = "" then s!"data {r}" else s!"data {r} {body}"

def flag? (toks : List String) (k : String) : Option Bool :=
  match kv? toks k with
  | some "1" => some true
  | some "0" => some false
  | _ => none

def srcs? (toks : List String) : Option (List (Nat × Int)) :=
  match kv? toks "srcs" with
  | none => none
  | some "" => some []
  | some s => (s.splitOn ",").mapM fun t =>
      match t.splitOn ":" with
      | [a, b] => match a.toNat?, b.toInt? with
        | some x, some y => some (x, y)
        | _, _ => none
      | _ => none

def query? (toks : List String) : Option Query :=
  -- ent=1: the entity of the rows; 0, 2, 3: names under which nothing is stored (2 and 3 are hostile spellings)
  let ent : Option Nat := match kv? toks "ent" with
    | some "1" => some 1
    | some "0" | some "2" | some "3" => some 0
    | _ => none
  match kv? toks "kind" with
  | some "ProveIdentity" => some .proveIdentity
  | some "HardwareFingerprint" => some .hardwareFingerprint
  | some "RoomList" => some .roomList
  | some "RoomDefinition" => (nat? toks "r").map .roomDefinition
  | some "RoomNode" => (nat? toks "r").map .roomNode
  | some "RoomLog" => (nat? toks "r").map .roomLog
  | some "RoomLogAt" => match nat? toks "r", int? toks "date" with
    | some r, some dt => some (.roomLogAt r dt) | _, _ => none
  | some "EdgeDeletionLog" => match nat? toks "r", ent, int? toks "date" with
    | some r, some e, some dt => some (.edgeDeletionLog r e dt) | _, _, _ => none
  | some "NodeDeletionLog" => match nat? toks "r", ent, int? toks "date" with
    | some r, some e, some dt => some (.nodeDeletionLog r e dt) | _, _, _ => none
  | some "RoomDailyNodes" => match nat? toks "r", ent, int? toks "date" with
    | some r, some e, some dt => some (.roomDailyNodes r e dt) | _, _, _ => none
  | some "Nodes" => match nat? toks "r", natList? toks "ids" with
    | some r, some ids => some (.nodes r ids) | _, _ => none
  | some "Edges" => match nat? toks "r", srcs? toks with
    | some r, some l => some (.edges r l) | _, _ => none
  | some "PeersForRoom" => (nat? toks "r").map .peersForRoom
  | _ => none

/-- the identifier of group `g` of room `r` (group 0 is created with the room) -/
def groupId (r g : Nat) : Nat := if g = 0 then r else 1000 * g + r

def redate (rows : List Row) (id : Nat) (t : Int) : List Row :=
  rows.map fun x => if x.id = id then { x with mdate := t } else x

def stepOp (s : St) (kind : String) (toks : List String) : St × String :=
  let timeOk (t : Int) : Bool := t ≥ s.w.now
  let atT (t : Int) : St := { s with w := { s.w with now := t } }
  match kind with
  | "now" =>
    match int? toks "t" with
    | some t => if timeOk t then (atT t, "ok") else (s, "bad-op")
    | none => (s, "bad-op")
  | "room" =>
    match nat? toks "r", int? toks "t" with
    | some r, some t =>
      if s.known.contains r || !timeOk t then (s, "bad-op")
      else
        let grp : Auth := { id := r, mdate := t, users := [], rights := [Right.new t 1 true true], userAdmins := [] }
        let room : Room := { id := r, mdate := t, admins := [⟨own, t, true⟩], auths := [grp] }
        let s1 := atT t
        -- the definition row of the room is itself a room-less row (alias 900 + r)
        let s2 := { s1 with known := r :: s.known, w := { s1.w with rows := s1.w.rows ++ [⟨900 + r, none, 2, t⟩] } }
        (install s2 room, "ok")
    | _, _ => (s, "bad-op")
  | "group" =>
    match nat? toks "r", nat? toks "g", int? toks "t" with
    | some r, some g, some t =>
      match s.w.room? r with
      | none => (s, "bad-op")
      | some room =>
        if g = 0 || r = 0 || (room.getAuth (groupId r g)).isSome || !timeOk t then (s, "bad-op")
        else
          let grp : Auth := { id := groupId r g, mdate := t, users := [], rights := [Right.new t 1 true true], userAdmins := [] }
          match room.addAuth grp with
          | .ok room' => (install (atT t) room', "ok")
          | .error _ => (s, "bad-op")
    | _, _, _ => (s, "bad-op")
  | "member" =>
    let g? : Option Nat := match kv? toks "g" with
      | none => some 0
      | some x => x.toNat?
    match nat? toks "r", nat? toks "k", int? toks "t", flag? toks "en", kv? toks "role", g? with
    | some r, some k, some t, some en, some role, some g =>
      match s.w.room? r with
      | none => (s, "bad-op")
      | some room =>
        let entry : Option Room.Entry := match role with
          | "admin" => some (.admin ⟨k, t, en⟩)
          | "user" => some (.user (groupId r g) ⟨k, t, en⟩)
          | "useradmin" => some (.userAdmin (groupId r g) ⟨k, t, en⟩)
          | _ => none
        match entry with
        | none => (s, "bad-op")
        | some e =>
          if (room.getAuth (groupId r g)).isNone then (s, "bad-op")
          else if !timeOk t then (s, "bad-op")
          else match room.addEntry? e with
            | some room' => (install (atT t) room', "ok")
            | none => (atT t, "err:mutation")
    | _, _, _, _, _, _ => (s, "bad-op")
  | "row" =>
    let room : Option (Option RoomId) := match kv? toks "r" with
      | some "-" => some none
      | some x => match x.toNat? with
        | some r => if (s.w.room? r).isSome then some (some r) else none
        | none => none
      | none => none
    match nat? toks "id", room, int? toks "t" with
    | some id, some room, some t =>
      if s.usedRows.contains id || id ≥ 900 || !timeOk t then (s, "bad-op")
      else
        let w := (atT t).w
        let logs := match room with | some r => addLogDay w.logDays r (dayOf t) | none => w.logDays
        ({ s with usedRows := id :: s.usedRows, w := { w with rows := w.rows ++ [⟨id, room, 1, t⟩], logDays := [] } }, "ok")
    | _, _, _ => (s, "bad-op")
  | "ref" | "delref" =>
    match nat? toks "src", nat? toks "dst", int? toks "t" with
    | some a, some b, some t =>
      match s.w.rows.find? (·.id = a), s.w.rows.find? (·.id = b) with
      | some ra, some _ =>
        if !timeOk t then (s, "bad-op")
        else
          let w := (atT t).w
          let has := w.refs.any fun e => e.src = a ∧ e.dst = b
          let logs := match ra.room with | some r => addLogDay w.logDays r (dayOf t) | none => w.logDays
          let dels := match ra.room with | some r => w.edgeDels ++ [⟨r, 1, t⟩] | none => w.edgeDels
          if kind = "ref" then
            if has then ({ s with w := w }, "ok")
            else ({ s with w := { w with refs := w.refs ++ [⟨a, b, t⟩], rows := redate w.rows a t, logDays := [] } }, "ok")
          else
            if has then
              ({ s with w := { w with refs := w.refs.filter (fun e => !(e.src = a ∧ e.dst = b)), rows := redate w.rows a t,
                                      edgeDels := dels, logDays := logs } }, "ok")
            else ({ s with w := { w with rows := redate w.rows a t } }, "ok")
      | _, _ => (s, "bad-op")
    | _, _, _ => (s, "bad-op")
  | "delrow" =>
    match nat? toks "id", int? toks "t" with
    | some id, some t =>
      match s.w.rows.find? (·.id = id) with
      | some x =>
        if !timeOk t then (s, "bad-op")
        else
          let w := (atT t).w
          let logs := match x.room with | some r => addLogDay w.logDays r (dayOf t) | none => w.logDays
          let dels := match x.room with | some r => w.nodeDels ++ [⟨r, 1, t⟩] | none => w.nodeDels
          ({ s with w := { w with rows := w.rows.filter (·.id ≠ id),
                                  refs := w.refs.filter (fun e => e.src ≠ id ∧ e.dst ≠ id),
                                  nodeDels := dels, logDays := logs } }, "ok")
      | none => (s, "bad-op")
    | _, _ => (s, "bad-op")
  | "open" =>
    match nat? toks "c" with
    | some c => if (getConn s.conns c).isSome then (s, "bad-op") else ({ s with conns := s.conns ++ [(c, Conn.init)] }, "ok")
    | none => (s, "bad-op")
  | "auth" =>
    match nat? toks "c", nat? toks "k", flag? toks "ready" with
    | some c, some k, some ready =>
      match getConn s.conns c with
      | some x =>
        if x.key.isSome then (s, "bad-op")
        else ({ s with conns := setConn s.conns c { x with key := some k, ready := ready } }, "ok")
      | none => (s, "bad-op")
    | _, _, _ => (s, "bad-op")
  | "q" =>
    match nat? toks "c", query? toks with
    | some c, some q =>
      match getConn s.conns c with
      | some x =>
        let (x', a) := serve d code s.w own x q
        ({ s with conns := setConn s.conns c x' }, fmtAnswer a)
      | none => (s, "bad-op")
    | _, _ => (s, "bad-op")
  | _ => (s, "bad-op")

end Drv08

/-- C19 `hs`: what the serving side of the same connection answers after the handshake (`connectOps` of
    Props/C19.lean: the key and readiness written by `initialise_connection` are the serving loop's) to
    RoomList, HardwareFingerprint and RoomNode(private room), on the instance's initial world -/
def servedAfter (out : String) : String :=
  let toks := tokens out
  let ready := (Drv08.flag? toks "ready").getD true
  let key : Option Room.Key := match kv? toks "key" with
    | some k => k.toNat?
    | none => none
  let w := Drv08.St.init.w
  let c0 : Conn := { Conn.init with key := key, ready := if key.isSome then ready else true }
  let (c1, a1) := serve Drv08.d code w Drv08.own c0 .roomList
  let (c2, a2) := serve Drv08.d code w Drv08.own c1 .hardwareFingerprint
  let (_, a3) := serve Drv08.d code w Drv08.own c2 (.roomNode 0)
  let f : Answer → String := fun a => match a with
    | .silent => "silent"
    | .refused => "refused"
    | .identity => "identity"
    | .fingerprint => "fingerprint"
    | .roomList rooms =>
      let body := joinWith "+" ((rooms.foldr Drv08.insertNat []).map toString)
      if body = "" then "rooms" else "rooms:" ++ body
    | .data _ _ => "data"
  s!"{out} serve={f a1}|{f a2}|{f a3}"

inductive Mode where
  | none
  | c08 (s : Drv08.St)
  | c19 (s : Discret.Handshake.Drv.St)

def stepLine (m : Mode) (line : String) : Mode × String :=
  match tokens line with
  | "case" :: rest =>
    match nat? rest "id", kv? rest "prop" with
    | some i, some "C08" => (.c08 Drv08.St.init, s!"case {i}")
    | some i, some "C19" =>
      match Discret.Handshake.Drv.start rest with
      | some s => (.c19 s, s!"case {i}")
      | none => (.none, "bad-op")
    | _, _ => (.none, "bad-op")
  | kind :: rest =>
    match m with
    | .c08 s =>
      if ["now", "room", "group", "member", "row", "ref", "delref", "delrow", "open", "auth", "q"].contains kind then
        let (s', o) := Drv08.stepOp s kind rest
        -- the daily log is a function of the stored content: recomputed after every operation
        (.c08 { s' with w := { s'.w with logDays := Drv08.contentDays s'.w } }, o)
      else (m, "bad-op")
    | .c19 s =>
      let (s', o) := Discret.Handshake.Drv.stepOp s kind rest
      (.c19 s', if kind = "hs" && o != "bad-op" then servedAfter o else o)
    | .none => (m, "bad-op")
  | [] => (m, "bad-op")

def main : IO Unit := do
  loop (← IO.getStdin) (← IO.getStdout) stepLine Mode.none
