import DiscretModel.Model.Proto
import DiscretModel.Model.LockConn
/-
Model driver for engine `lockconn` (see harness/lockconn/src/main.rs for the op language).
Output: `grants <ch:room,…> | sync <conn:room,…>`.
-/
open Discret Discret.Proto Discret.Lock Discret.LockConn

def insertBy {α : Type} (le : α → α → Bool) (x : α) : List α → List α
  | [] => [x]
  | h :: t => if le x h then x :: h :: t else h :: insertBy le x t

/-- stable insertion sort -/
def sortBy {α : Type} (le : α → α → Bool) (l : List α) : List α := l.foldr (insertBy le) []

def fmt (gs : List (Ch × Room)) (sy : List (Nat × Room)) : String :=
  let g := joinWith "," ((sortBy (fun a b => a.1 ≤ b.1) gs).map fun g => s!"{g.1}:{g.2}")
  let s := joinWith "," ((sortBy (fun a b => a.1 < b.1 || (a.1 == b.1 && a.2 ≤ b.2)) sy).map fun p => s!"{p.1}:{p.2}")
  let left := if g = "" then "grants" else "grants " ++ g
  let right := if s = "" then "| sync" else "| sync " ++ s
  left ++ " " ++ right

def apply (s : Sys) (op : HOp) : Sys × String :=
  let res := hstep Defects.asImplemented s op
  (res.1, fmt res.2 (syncPairs res.1))

def stepLine (s : Sys) (line : String) : Sys × String :=
  match tokens line with
  | "case" :: rest =>
    match nat? rest "id", nat? rest "max" with
    | some i, some m => (sinit m, s!"case {i}")
    | _, _ => (s, "bad-op")
  | "conn" :: rest =>
    match nat? rest "c" with
    | some i => if s.conns.length = i then apply s (.conn i) else (s, "bad-op")
    | none => (s, "bad-op")
  | "cready" :: rest =>
    match nat? rest "c", natList? rest "rooms" with
    | some i, some rooms => if i < s.conns.length then apply s (.cready i rooms) else (s, "bad-op")
    | _, _ => (s, "bad-op")
  | "cevent" :: rest =>
    match nat? rest "c", nat? rest "r" with
    | some i, some r => if i < s.conns.length then apply s (.cevent i r) else (s, "bad-op")
    | _, _ => (s, "bad-op")
  | "finish" :: rest =>
    match nat? rest "c", nat? rest "r" with
    | some i, some r => if i < s.conns.length then apply s (.finish i r) else (s, "bad-op")
    | _, _ => (s, "bad-op")
  | "close" :: rest =>
    match nat? rest "c" with
    | some i => if i < s.conns.length then apply s (.close i) else (s, "bad-op")
    | none => (s, "bad-op")
  | "req" :: rest =>
    match nat? rest "p", nat? rest "ch", natList? rest "rooms" with
    | some p, some ch, some rooms => apply s (.raw (.request (1000 + p) rooms ch))
    | _, _, _ => (s, "bad-op")
  | "unlock" :: rest =>
    match nat? rest "r" with
    | some r => apply s (.raw (.unlock r))
    | none => (s, "bad-op")
  | "drop" :: rest =>
    match nat? rest "ch" with
    | some ch => apply s (.raw (.drop ch))
    | none => (s, "bad-op")
  | _ => (s, "bad-op")

def main : IO Unit := do
  loop (← IO.getStdin) (← IO.getStdout) stepLine (sinit 0)
