import DiscretModel.Model.Proto
import DiscretModel.Model.DataModel
import DiscretModel.Gen.Consts
import Driver.SchemaC14
/-
Model driver for engine `schema` (C15; the C14 ops are added by `Driver/SchemaC14.lean`-style sections below).

C15 op lines (shared with `dv-schema`):
  case id=<n> kind=dm|db n=<k>             -> "case <n>"      k data models / k instances, all fresh
  sysver i=<k> [pri=…]                     -> "ok|err:<Class> <table>"        update_system(SYSTEM_DATA_MODEL)
  ver i=<k> v=<version> [pri=…]            -> "ok|err:<Class> <table>"        DataModel::update
  start i=<k> v=<version> [pri=…]          -> "ok <live table>" | "err:<Class>"   (re)start of instance k
  upd i=<k> v=<version> [pri=…]            -> "ok|err:<Class> <live table>" | "not-running"
  updpub i=<k> v=<version> [pri=…]         -> same as upd, through the public `update_data_model`
  put i=<k> e=<ns>:<Entity> r=<n> vals=f:i:5;g:s:abc   -> "ok" | "err:<class>"
  get i=<k> e=<ns>:<Entity> f=f1,f2        -> "rows r1:f1=5,f2=null;r2:…" | "err:<class>"
  conf i=<k>                               -> "conf ok n=<rows>" | "conf bad n=<rows> r1,r4" | "not-running"
                                              (every stored row against the live model, as a peer would check it)
`pri=` is the visit-order hint observed by the harness: N:<ns> , E:<ns>:<entity> , F:<ns>:<entity>:<field>.

Version encoding (no spaces):  ns blocks joined by "|" ; block = <nsname>!<entities joined by ";"> ;
entity = <name>~<flags d,n or ->~<fields joined by ","">~<indexes joined by "+"; index = names joined by "&"> ;
field = <name>/<type>/<mods n,d or ->/<default: - or kind:token, kind in b f i s> ;
type = B F I S X J | E><target> | A><target>, target = ns.Name or Name.
anything else -> "bad-op".
-/
open Discret Discret.Proto Discret.DM

namespace SchemaDriver

/-- split at the first occurrence of `sep` -/
def splitFirst (s : String) (sep : String) : Option (String × String) :=
  match s.splitOn sep with
  | [] => none
  | [_] => none
  | a :: rest => some (a, sep.intercalate rest)

/-- key=value lookup that allows '=' and ':' inside the value -/
def kvs? (toks : List String) (k : String) : Option String :=
  toks.findSome? fun t =>
    match splitFirst t "=" with
    | some (a, b) => if a = k then some b else none
    | none => none

def splitList (s : String) (sep : String) : List String :=
  if s = "" then [] else s.splitOn sep

def classify (isField : Bool) (s : String) : NameCls :=
  if isField && s.startsWith "_" then .underscore
  else if ["boolean", "float", "integer", "string", "base64", "json"].contains s.toLower then .reserved
  else .ok

def parseTarget (t : String) : Option (String × String) :=
  match t.splitOn "." with
  | [a] => if a = "" then none else some ("", a)
  | [a, b] => if b = "" then none else some (a.toLower, b)
  | _ => none

def parseType (s : String) : Option FType :=
  match s with
  | "B" => some .bool | "F" => some .float | "I" => some .int
  | "S" => some .str | "X" => some .b64 | "J" => some .json
  | _ =>
    match splitFirst s ">" with
    | some ("E", t) => (parseTarget t).map fun p => .ent p.1 p.2
    | some ("A", t) => (parseTarget t).map fun p => .arr p.1 p.2
    | _ => none

def parseDflt (s : String) : Option (Option Dflt) :=
  if s = "-" then some none else
  match splitFirst s ":" with
  | some ("b", t) => some (some { kind := .bool, tok := t })
  | some ("f", t) => some (some { kind := .float, tok := t })
  | some ("i", t) => some (some { kind := .int, tok := t })
  | some ("s", t) => some (some { kind := .str, tok := t })
  | _ => none

def flagsOk (s : String) (allowed : List Char) : Bool :=
  s = "-" || (s != "" && s.toList.all allowed.contains)

/-- the grammar gives a scalar either `nullable` or a default, a reference no default; string defaults
    of Base64/Json fields are limited to the two tokens the model has a verdict for -/
def fieldWellFormed (f : AField) : Bool :=
  (if f.ty.isRef then f.dflt.isNone else !(f.nullable && f.dflt.isSome)) &&
  (match f.dflt with
   | some d => if d.kind == .str && (f.ty == .b64 || f.ty == .json) then d.tok == "abcd" || d.tok == "[1]" else true
   | none => true)

def parseField (s : String) : Option AField :=
  match s.splitOn "/" with
  | [name, ty, mods, d] =>
    if name = "" || !flagsOk mods ['n', 'd'] then none else
    match parseType ty, parseDflt d with
    | some t, some dv =>
      let f : AField := { name := name, cls := classify true name, ty := t, nullable := mods.contains 'n',
                          dflt := dv, deprecated := mods.contains 'd' }
      if fieldWellFormed f then some f else none
    | _, _ => none
  | _ => none

def parseEntityA (s : String) : Option AEntity :=
  match s.splitOn "~" with
  | [name, flags, fields, idxs] =>
    if name = "" || !flagsOk flags ['d', 'n'] then none else
    match (splitList fields ",").mapM parseField with
    | none => none
    | some fs =>
      let ixs := (splitList idxs "+").map fun ix => splitList ix "&"
      if ixs.any (fun ix => ix.isEmpty || ix.any (· = "")) then none else
      some { name := name, cls := classify false name, deprecated := flags.contains 'd',
             fullText := !flags.contains 'n', fields := fs, indexes := ixs }
  | _ => none

def parseNsA (s : String) : Option ANs :=
  match splitFirst s "!" with
  | some (name, ents) =>
    if name != name.toLower then none else
    (splitList ents ";").mapM parseEntityA |>.map fun es => { name := name, ents := es }
  | none => none

def parseVersion (s : String) : Option Version := (splitList s "|").mapM parseNsA

def parseKey (s : String) : Option Key :=
  match s.splitOn ":" with
  | ["N", n] => some (.ns n)
  | ["E", n, e] => some (.ent n e)
  | ["F", n, e, f] => some (.fld n e f)
  | _ => none

def parsePri (toks : List String) : Option (List Key) :=
  match kvs? toks "pri" with
  | none => some []
  | some s => (splitList s ",").mapM parseKey

/-! ### printing -/

def typeStr : FType → String
  | .bool => "B" | .float => "F" | .int => "I" | .str => "S" | .b64 => "X" | .json => "J"
  | .ent n e => "E>" ++ (if n = "" then e else n ++ "." ++ e)
  | .arr n e => "A>" ++ (if n = "" then e else n ++ "." ++ e)

def dfltStr : Option Dflt → String
  | none => "-"
  | some d => (match d.kind with | .bool => "b" | .float => "f" | .int => "i" | .str => "s") ++ ":" ++ d.tok

def flagStr (l : List (Bool × String)) : String :=
  let s := String.join (l.filterMap fun p => if p.1 then some p.2 else none)
  if s = "" then "-" else s

def insertStr (x : String) : List String → List String
  | [] => [x]
  | h :: t => if x ≤ h then x :: h :: t else h :: insertStr x t

def sortStr (l : List String) : List String := l.foldr insertStr []

def fieldStr (f : Field) : String :=
  s!"{f.name}={f.short}/{typeStr f.ty}/{flagStr [(f.nullable, "n"), (f.deprecated, "d")]}/{dfltStr f.dflt}"

def idxStr (l : List (List String)) : String := joinWith "+" (sortStr (l.map (joinWith "&")))

def insertBy {α : Type} (le : α → α → Bool) (x : α) : List α → List α
  | [] => [x]
  | h :: t => if le x h then x :: h :: t else h :: insertBy le x t

def sortBy {α : Type} (le : α → α → Bool) (l : List α) : List α := l.foldr (insertBy le) []

def entStr (n : Ns) (e : Entity) : String :=
  let sh := match entShort n e with
    | (none, k) => s!"{k}"
    | (some i, k) => s!"{i}.{k}"
  let fs := sortBy (fun (a b : Field) => a.short ≤ b.short) e.fields
  s!"{e.name}@{sh}!{flagStr [(e.deprecated, "d"), (!e.fullText, "n")]}" ++ "{" ++ joinWith "," (fs.map fieldStr) ++ "}" ++
    "[" ++ idxStr e.indexes ++ "][" ++ idxStr e.toRemove ++ "]"

def nsStr (n : Ns) : String :=
  let es := sortBy (fun (a b : Entity) => a.k ≤ b.k) n.ents
  String.join (s!"{n.name}@{n.id}" :: es.map fun e => ";" ++ entStr n e)

def shortStr (s : EShort) : String :=
  match s with
  | (none, k) => s!"{k}"
  | (some i, k) => s!"{i}.{k}"

def revStr (rev : List (EShort × String × String)) : String :=
  joinWith "," (sortStr (rev.map fun x => shortStr x.1 ++ "=" ++ x.2.1 ++ ":" ++ x.2.2))

/-- the namespaces and the reverse table `entities_short` -/
def tableStrWith (m : Model) (rev : List (EShort × String × String)) : String :=
  let nss := sortBy (fun (a b : Ns) => a.id < b.id || (a.id == b.id && a.name ≤ b.name)) m.nss
  String.join ("T" :: nss.map fun n => "|" ++ nsStr n) ++ "|#rev:" ++ revStr rev

/-- for an instance the model keeps the namespaces only: the reverse table printed is the one every entity must
    have an entry in (`C15_reverse_table_complete`) -/
def tableStr (m : Model) : String := tableStrWith m m.rev

def errStr (e : Err) : String :=
  match e with
  | .parser => "Parser" | .reservedKeyword => "ReservedKeyword" | .invalidName => "InvalidName"
  | .duplicatedField => "DuplicatedField" | .systemFieldConflict => "SystemFieldConflict"
  | .duplicatedEntity => "DuplicatedEntity" | .invalidDefaultValue => "InvalidDefaultValue"
  | .invalidBase64 => "InvalidBase64" | .invalidJson => "InvalidJson" | .invalidQuery => "InvalidQuery"
  | .indexAllreadyExists => "IndexAllreadyExists" | .namespaceUpdate => "NamespaceUpdate"
  | .invalidNamespaceOrdering => "InvalidNamespaceOrdering" | .missingNamespace => "MissingNamespace"
  | .invalidEntityOrdering => "InvalidEntityOrdering" | .missingEntity => "MissingEntity"
  | .invalidFieldOrdering => "InvalidFieldOrdering" | .cannotUpdateFieldType => "CannotUpdateFieldType"
  | .missingDefaultValue => "MissingDefaultValue" | .missingField => "MissingField"

def resStr (r : Option Err) : String :=
  match r with
  | none => "ok"
  | some e => "err:" ++ errStr e

def putErrStr : PutErr → String
  | .notRunning => "not-running" | .unknownEntity => "err:unknown-entity" | .unknownField => "err:unknown-field"
  | .missingField => "err:missing-field" | .typeMismatch => "err:type"

/-! ### state -/

structure St where
  db : Bool
  models : List DataModel
  insts : List Inst

def St.init : St := { db := false, models := [], insts := [] }

def setAt {α : Type} (l : List α) (i : Nat) (x : α) : List α := l.set i x

def parseEntRef (s : String) : Option (String × String) :=
  match s.splitOn ":" with
  | [n, e] => if e = "" then none else some (n, e)
  | _ => none

/-- values for system fields (`id`, `room_id`, …) and the same field twice are outside the op language: `bad-op` -/
def parseVals (s : String) : Option (List (String × DKind × String)) :=
  let names := (splitList s ";").map fun t => (t.splitOn ":").headD ""
  if !noDup names then none else
  (splitList s ";").mapM fun t =>
    match t.splitOn ":" with
    | [f, "i", v] => if systemFields.any (·.1 == f) then none else some (f, DKind.int, v)
    | [f, "s", v] => if systemFields.any (·.1 == f) then none else some (f, DKind.str, v)
    | _ => none

def rowsStr (rs : List (Nat × List (String × Option String))) : String :=
  let rs := sortBy (fun a b => a.1 ≤ b.1) rs
  let one := fun (r : Nat × List (String × Option String)) =>
    s!"r{r.1}:" ++ joinWith "," (r.2.map fun p => p.1 ++ "=" ++ (p.2.getD "null"))
  if rs.isEmpty then "rows" else "rows " ++ joinWith ";" (rs.map one)

def stepLine (d : Defects) (da : Adm.Defects) (s : St) (line : String) : St × String :=
  let toks := tokens line
  match toks with
  | "case" :: rest =>
    match nat? rest "id", kvs? rest "kind", nat? rest "n" with
    | some i, some "dm", some n => ({ db := false, models := List.replicate n DataModel.empty, insts := [] }, s!"case {i}")
    | some i, some "db", some n => ({ db := true, models := [], insts := List.replicate n Inst.fresh }, s!"case {i}")
    | some i, some "c14", _ => ({ db := false, models := [], insts := [] }, s!"case {i}")
    | _, _, _ => (s, "bad-op")
  | "sysver" :: rest =>
    match nat? rest "i", parsePri rest with
    | some i, some pri =>
      match s.models[i]? with
      | some m =>
        let (m', r) := m.apply d pri true Gen.sysVersion
        ({ s with models := setAt s.models i m' }, resStr r ++ " " ++ tableStrWith m'.core m'.rev)
      | none => (s, "bad-op")
    | _, _ => (s, "bad-op")
  | "ver" :: rest =>
    match nat? rest "i", (kvs? rest "v").bind parseVersion, parsePri rest with
    | some i, some v, some pri =>
      match s.models[i]? with
      | some m =>
        let (m', r) := m.apply d pri false v
        ({ s with models := setAt s.models i m' }, resStr r ++ " " ++ tableStrWith m'.core m'.rev)
      | none => (s, "bad-op")
    | _, _, _ => (s, "bad-op")
  | "start" :: rest =>
    match nat? rest "i", (kvs? rest "v").bind parseVersion, parsePri rest with
    | some i, some v, some pri =>
      match s.insts[i]? with
      | some x =>
        let (x', r) := x.start d pri Gen.sysVersion v
        ({ s with insts := setAt s.insts i x' },
          match r, x'.live with
          | none, some m => "ok " ++ tableStr m
          | _, _ => resStr r)
      | none => (s, "bad-op")
    | _, _, _ => (s, "bad-op")
  | "upd" :: rest | "updpub" :: rest =>
    match nat? rest "i", (kvs? rest "v").bind parseVersion, parsePri rest with
    | some i, some v, some pri =>
      match s.insts[i]? with
      | some x =>
        match x.live with
        | none => (s, "not-running")
        | some _ =>
          let (x', r) := x.updateLive d pri Gen.sysVersion v
          ({ s with insts := setAt s.insts i x' }, resStr r ++ " " ++ tableStr (x'.live.getD Model.empty))
      | none => (s, "bad-op")
    | _, _, _ => (s, "bad-op")
  | "put" :: rest =>
    match nat? rest "i", (kvs? rest "e").bind parseEntRef, nat? rest "r", (kvs? rest "vals").bind parseVals with
    | some i, some (n, e), some r, some vals =>
      match s.insts[i]? with
      | some x =>
        let (x', res) := x.put n e r vals
        ({ s with insts := setAt s.insts i x' }, match res with | none => "ok" | some pe => putErrStr pe)
      | none => (s, "bad-op")
    | _, _, _, _ => (s, "bad-op")
  | "conf" :: rest =>
    match nat? rest "i" with
    | some i =>
      match s.insts[i]? with
      | some x =>
        (s, match x.conf (fun _ _ => true) with
            | none => "not-running"
            | some bad =>
              let total := x.rows.length
              if bad.isEmpty then s!"conf ok n={total}"
              else s!"conf bad n={total} " ++ joinWith "," ((sortBy (fun (a b : Nat × Bool) => a.1 ≤ b.1) bad).map fun b => s!"r{b.1}"))
      | none => (s, "bad-op")
    | none => (s, "bad-op")
  | "get" :: rest =>
    match nat? rest "i", (kvs? rest "e").bind parseEntRef, kvs? rest "f" with
    | some i, some (n, e), some fs =>
      match s.insts[i]? with
      | some x =>
        (s, match x.get n e (splitList fs ",") with
            | .ok rs => rowsStr rs
            | .error pe => putErrStr pe)
      | none => (s, "bad-op")
    | _, _, _ => (s, "bad-op")
  | _ => (s, (SchemaC14.step da line).getD "bad-op")

end SchemaDriver

/-- `DV_DEFECTS=none` runs the intended behaviour (used to try fix patches); default: the code as implemented -/
def main : IO Unit := do
  let d := match (← IO.getEnv "DV_DEFECTS") with
    | some "none" => Defects.none
    | some "beforeFixes" => Defects.beforeFixes
    | some "hashOrderIds" => { Defects.asImplemented with hashOrderIds := true }
    | some "partialRefusal" => { Defects.asImplemented with partialRefusal := true }
    | _ => Defects.asImplemented
  let da := match (← IO.getEnv "DV_ADM_DEFECTS") with
    | some "none" => Adm.Defects.none
    | some "beforeFixes" => Adm.Defects.beforeFixes
    | some "jsonNullPanics" => { jsonNullPanics := true, emptyKeyPanics := false, dateRangePanics := false, unboundedFirstFrame := false }
    | some "emptyKeyPanics" => { jsonNullPanics := false, emptyKeyPanics := true, dateRangePanics := false, unboundedFirstFrame := false }
    | _ => Adm.Defects.asImplemented
  loop (← IO.getStdin) (← IO.getStdout) (SchemaDriver.stepLine d da) SchemaDriver.St.init
