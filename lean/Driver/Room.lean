import DiscretModel.Model.Proto
import DiscretModel.Model.RoomBuild
/-
Model driver for engine `room` (local path). Same op lines as `harness/room` (see its `world.rs`):
  case id=<n> keys=<K> dmax=<D> [uids=desc]
  mut s=<site> d=<date> r=<room> [new=1] [adm=<ulist>] [grp=<g>,<g>] [g<g>.u=<ulist>] [g<g>.ua=<ulist>] [g<g>.r=<rlist>]
  obs s=<site> r=<room>
  restart s=<site>
  sync from=<site> to=<site> r=<room>
anything else -> `bad-op`
-/
open Discret Discret.Proto Discret.Room Discret.RoomBuild

structure World where
  active : Bool
  keys : Nat
  dmax : Nat
  df : Defects
  sites : List (Nat × Site)
  nextId : Nat
  rooms : List Nat
  groups : List (Nat × Nat)

def World.blank : World :=
  { active := false, keys := 0, dmax := 0, df := Defects.asImplemented, sites := [], nextId := 0, rooms := [], groups := [] }

def identOfSite (s : Nat) : Nat := if s < 3 then s + 1 else 100 + s

def gidOf (r g : Nat) : Nat := r * 1000 + g

def World.site? (w : World) (s : Nat) : Option Site := (w.sites.find? (·.1 = s)).map (·.2)

/-- the site, created empty on first use -/
def World.touch (w : World) (s : Nat) : World × Site :=
  match w.site? s with
  | some st => (w, st)
  | none => ({ w with sites := w.sites ++ [(s, Site.empty)] }, Site.empty)

def World.setSite (w : World) (s : Nat) (st : Site) : World :=
  { w with sites := w.sites.map fun p => if p.1 = s then (s, st) else p }

/-- `k+` | `k-` | `k` -/
def parseUList (s : String) : Option (List (Key × Bool)) :=
  ((s.splitOn ",").filter (· ≠ "")).mapM fun t =>
    if t.endsWith "+" then (t.dropEnd 1).toNat?.map (·, true)
    else if t.endsWith "-" then (t.dropEnd 1).toNat?.map (·, false)
    else t.toNat?.map (·, true)

def parseBit (s : String) : Option Bool :=
  if s = "0" then some false else if s = "1" then some true else none

def parseRList (s : String) : Option (List (Ent × Bool × Bool)) :=
  ((s.splitOn ",").filter (· ≠ "")).mapM fun t =>
    match t.splitOn ":" with
    | [e, a, b] =>
      match e.toNat?, parseBit a, parseBit b with
      | some e, some a, some b => if e < 5 then some (e, a, b) else none
      | _, _, _ => none
    | _ => none

/-- an optional list token: absent -> `some []`; present -> must parse and be non-empty -/
def optList {α : Type} (toks : List String) (k : String) (p : String → Option (List α)) : Option (List α) :=
  match kv? toks k with
  | none => some []
  | some s =>
    match p s with
    | some (x :: t) => some (x :: t)
    | _ => none

def parseGroupsSpec (w : World) (toks : List String) (r : Nat) : Option (List GroupSpec) :=
  match kv? toks "grp" with
  | none => some []
  | some s =>
    match ((s.splitOn ",").filter (· ≠ "")).mapM String.toNat? with
    | none => none
    | some [] => none
    | some gs =>
      if gs.eraseDups.length ≠ gs.length then none
      else
        gs.mapM fun g =>
          match optList toks s!"g{g}.r" parseRList, optList toks s!"g{g}.u" parseUList,
                optList toks s!"g{g}.ua" parseUList with
          | some rights, some users, some uas =>
            some { gid := gidOf r g, isNew := !w.groups.contains (r, g), rights, users, userAdmins := uas }
          | _, _, _ => none

def parseMut (w : World) (toks : List String) : Option (Nat × MutSpec × List Nat) :=
  match nat? toks "s", int? toks "d", nat? toks "r" with
  | some s, some d, some r =>
    let isNew := kv? toks "new" = some "1"
    if isNew = w.rooms.contains r then none
    else
      match optList toks "adm" parseUList, parseGroupsSpec w toks r with
      | some adm, some groups =>
        let gidx := match kv? toks "grp" with
          | some str => (((str.splitOn ",").filter (· ≠ "")).filterMap String.toNat?)
          | none => []
        some (s, { rid := r, isNew, date := d, admins := adm, groups }, gidx)
      | _, _ => none
  | _, _, _ => none

def bitsToNat : List Bool → Nat
  | [] => 0
  | b :: t => (if b then 1 else 0) + 2 * bitsToNat t

def rts : List RightType := [.mutateSelf, .mutateAll]
def ents : List Ent := [0, 1, 2, 3, 4]

def cell (room : Room) (gids : List Id) (k : Key) (d : Int) : Nat :=
  let head := [room.isAdmin k d, room.isUserValidAt k d]
  let perGroup := gids.flatMap fun gid =>
    match room.getAuth gid with
    | some a => [a.isUserValidAt k d, a.canAdminUsers k d] ++ ents.flatMap fun e => rts.map fun rt => a.can e d rt
    | none => List.replicate 12 false
  let tail := ents.flatMap fun e => rts.map fun rt => room.can k e d rt
  bitsToNat (head ++ perGroup ++ tail)

def matrix (w : World) (room : Room) (r : Nat) : String :=
  let gids := [0, 1, 2, 3].map (gidOf r)
  let keys := (List.range w.keys).map (· + 1)
  let dates := (List.range (w.dmax + 2)).map Int.ofNat
  let rows := keys.map fun k => s!"{k}:" ++ joinWith "." (dates.map fun d => toString (cell room gids k d))
  s!"m groups={room.auths.length} " ++ joinWith "|" rows

def errLine (e : MErr) : String := "err:" ++ e.toString

def stepLine (w : World) (line : String) : World × String :=
  let toks := tokens line
  match toks with
  | "case" :: rest =>
    match nat? rest "id", nat? rest "keys", nat? rest "dmax" with
    | some i, some k, some d =>
      if k ≤ 12 ∧ d ≤ 64 then
        let rev := kv? rest "uids" = some "desc"
        ({ World.blank with active := true, keys := k, dmax := d,
                            df := { w.df with uidOrderReversed := rev } }, s!"case {i}")
      else ({ World.blank with df := w.df }, "bad-op")
    | _, _, _ => ({ World.blank with df := w.df }, "bad-op")
  | kind :: rest =>
    if !w.active then (w, "bad-op")
    else
      match kind with
      | "mut" =>
        match parseMut w rest with
        | none => (w, "bad-op")
        | some (s, m, gidx) =>
          let (w, st) := w.touch s
          match st.mutate (identOfSite s) w.nextId m with
          | .error e => (w, errLine e)
          | .ok st' =>
            let w := w.setSite s st'
            let newGroups := (gidx.filter fun g => !w.groups.contains (m.rid, g)).map fun g => (m.rid, g)
            ({ w with nextId := w.nextId + m.size,
                      rooms := if m.isNew then w.rooms ++ [m.rid] else w.rooms,
                      groups := w.groups ++ newGroups }, "ok")
      | "obs" =>
        match nat? rest "s", nat? rest "r" with
        | some s, some r =>
          if !w.rooms.contains r then (w, "none")
          else
            let (w, st) := w.touch s
            if st.dead then (w, "err:dead")
            else
              match st.getMem r with
              | some room => (w, matrix w room r)
              | none => (w, "none")
        | _, _ => (w, "bad-op")
      | "restart" =>
        match nat? rest "s" with
        | some s =>
          match w.site? s with
          | none => (w, "bad-op")
          | some st =>
            match st.restart w.df with
            | .ok st' => (w.setSite s st', "ok")
            | .error .dead => (w, "err:dead")
            | .error e => (w.setSite s { st with dead := true }, errLine e)
        | none => (w, "bad-op")
      | "sync" =>
        match nat? rest "from", nat? rest "to", nat? rest "r" with
        | some a, some b, some r =>
          if a = b then (w, "bad-op")
          else if !w.rooms.contains r then (w, "err:no-room")
          else
            let (w, sa) := w.touch a
            match sa.export w.df r with
            | .error e => (w, errLine e)
            | .ok cand =>
              let (w, sb) := w.touch b
              match sb.importRoom w.df cand with
              | .error e => (w, errLine e)
              | .ok sb' => (w.setSite b sb', "ok")
        | _, _, _ => (w, "bad-op")
      | _ => (w, "bad-op")
  | [] => (w, "bad-op")

def main (args : List String) : IO Unit := do
  let df := if args.contains "--defects=none" then Defects.none else Defects.asImplemented
  loop (← IO.getStdin) (← IO.getStdout) stepLine { World.blank with df }
