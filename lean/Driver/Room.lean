import DiscretModel.Model.Proto
import DiscretModel.Model.RoomBuild
import DiscretModel.Model.LocalWrite
/-
Model driver for engine `room` (local path). Same op lines as `harness/room` (see its `world.rs`):
  case id=<n> keys=<K> dmax=<D> [uids=desc]
  mut s=<site> d=<date> r=<room> [new=1] [adm=<ulist>] [grp=<g>,<g>] [g<g>.u=<ulist>] [g<g>.ua=<ulist>] [g<g>.r=<rlist>]
  obs s=<site> r=<room>
  restart s=<site>
  sync from=<site> to=<site> r=<room>
with `mode=fn` in the case header (one database, several caller identities; see harness `bench.rs`):
  rmut k=<key> d=<date> r=<room> … | robs r=<room>
  new k= d= h= e= [room=] v= | upd k= d= h= [room=] [v=] | nest k= d= h= [pn=] [room=] [v=] f= c=
  null k= d= h= f= | del k= d= h= | delref k= d= h= f= c= | deladm k= d= r= i=
anything else -> `bad-op`
-/
open Discret Discret.Proto Discret.Room Discret.RoomBuild

structure World where
  active : Bool
  keys : Nat
  dmax : Nat
  df : Defects
  sites : List (Nat × Site)
  nextId : Nat
  rooms : List Nat
  groups : List (Nat × Nat)
  /-- `mode=fn` -/
  fn : Bool
  dfl : LocalWrite.Defects
  db : LocalWrite.Db
  handles : List (Nat × Ent)
  /-- per room, the ids of its admin entries in creation order -/
  adminIds : List (Nat × Nat)

def World.blank : World :=
  { active := false, keys := 0, dmax := 0, df := Defects.asImplemented, sites := [], nextId := 0, rooms := [], groups := [],
    fn := false, dfl := LocalWrite.Defects.asImplemented, db := LocalWrite.Db.empty, handles := [], adminIds := [] }

def identOfSite (s : Nat) : Nat := if s < 3 then s + 1 else 100 + s

def gidOf (r g : Nat) : Nat := r * 1000 + g

def World.site? (w : World) (s : Nat) : Option Site := (w.sites.find? (·.1 = s)).map (·.2)

/-- the site, created empty on first use -/
def World.touch (w : World) (s : Nat) : World × Site :=
  match w.site? s with
  | some st => (w, st)
  | none => ({ w with sites := w.sites ++ [(s, Site.empty)] }, Site.empty)

def World.setSite (w : World) (s : Nat) (st : Site) : World :=
  { w with sites := w.sites.map fun p => if p.1 = s then (s, st) else p }

/-- `k+` | `k-` | `k` -/
def parseUList (s : String) : Option (List (Key × Bool)) :=
  ((s.splitOn ",").filter (· ≠ "")).mapM fun t =>
    if t.endsWith "+" then (t.dropEnd 1).toNat?.map (·, true)
    else if t.endsWith "-" then (t.dropEnd 1).toNat?.map (·, false)
    else t.toNat?.map (·, true)

def parseBit (s : String) : Option Bool :=
  if s = "0" then some false else if s = "1" then some true else none

def parseRList (s : String) : Option (List (Ent × Bool × Bool)) :=
  ((s.splitOn ",").filter (· ≠ "")).mapM fun t =>
    match t.splitOn ":" with
    | [e, a, b] =>
      match e.toNat?, parseBit a, parseBit b with
      | some e, some a, some b => if e < 5 then some (e, a, b) else none
      | _, _, _ => none
    | _ => none

/-- an optional list token: absent -> `some []`; present -> must parse and be non-empty -/
def optList {α : Type} (toks : List String) (k : String) (p : String → Option (List α)) : Option (List α) :=
  match kv? toks k with
  | none => some []
  | some s =>
    match p s with
    | some (x :: t) => some (x :: t)
    | _ => none

def parseGroupsSpec (w : World) (toks : List String) (r : Nat) : Option (List GroupSpec) :=
  match kv? toks "grp" with
  | none => some []
  | some s =>
    match ((s.splitOn ",").filter (· ≠ "")).mapM String.toNat? with
    | none => none
    | some [] => none
    | some gs =>
      if gs.eraseDups.length ≠ gs.length then none
      else
        gs.mapM fun g =>
          match optList toks s!"g{g}.r" parseRList, optList toks s!"g{g}.u" parseUList,
                optList toks s!"g{g}.ua" parseUList with
          | some rights, some users, some uas =>
            some { gid := gidOf r g, isNew := !w.groups.contains (r, g), rights, users, userAdmins := uas }
          | _, _, _ => none

def parseMut (w : World) (toks : List String) (who : String := "s") : Option (Nat × MutSpec × List Nat) :=
  match nat? toks who, int? toks "d", nat? toks "r" with
  | some s, some d, some r =>
    let isNew := kv? toks "new" = some "1"
    if isNew = w.rooms.contains r then none
    else
      match optList toks "adm" parseUList, parseGroupsSpec w toks r with
      | some adm, some groups =>
        let gidx := match kv? toks "grp" with
          | some str => (((str.splitOn ",").filter (· ≠ "")).filterMap String.toNat?)
          | none => []
        some (s, { rid := r, isNew, date := d, admins := adm, groups }, gidx)
      | _, _ => none
  | _, _, _ => none

def bitsToNat : List Bool → Nat
  | [] => 0
  | b :: t => (if b then 1 else 0) + 2 * bitsToNat t

def rts : List RightType := [.mutateSelf, .mutateAll]
def ents : List Ent := [0, 1, 2, 3, 4]

def cell (room : Room) (gids : List Id) (k : Key) (d : Int) : Nat :=
  let head := [room.isAdmin k d, room.isUserValidAt k d]
  let perGroup := gids.flatMap fun gid =>
    match room.getAuth gid with
    | some a => [a.isUserValidAt k d, a.canAdminUsers k d] ++ ents.flatMap fun e => rts.map fun rt => a.can e d rt
    | none => List.replicate 12 false
  let tail := ents.flatMap fun e => rts.map fun rt => room.can k e d rt
  bitsToNat (head ++ perGroup ++ tail)

def matrix (w : World) (room : Room) (r : Nat) : String :=
  let gids := [0, 1, 2, 3].map (gidOf r)
  let keys := (List.range w.keys).map (· + 1)
  let dates := (List.range (w.dmax + 2)).map Int.ofNat
  let rows := keys.map fun k => s!"{k}:" ++ joinWith "." (dates.map fun d => toString (cell room gids k d))
  s!"m groups={room.auths.length} " ++ joinWith "|" rows

def errLine (e : MErr) : String := "err:" ++ e.toString


/-! ### `mode=fn`: one database, several callers -/

namespace Fn
open Discret.LocalWrite

def insertStr (x : String) : List String → List String
  | [] => [x]
  | y :: t => if y < x then y :: insertStr x t else x :: y :: t

def sortStr (l : List String) : List String := l.foldr insertStr []

def insertRow (x : Row) : List Row → List Row
  | [] => [x]
  | y :: t => if y.id < x.id then y :: insertRow x t else x :: y :: t

def roomStr : Option Id → String
  | none => "-"
  | some r => toString r

def keyStr (w : World) (k : Key) : String := if 1 ≤ k ∧ k ≤ w.keys then toString k else "?"

def dump (w : World) : String :=
  let db := w.db
  let rows := (db.rows.foldr insertRow []).map fun r =>
    s!"{r.id}:{r.entity}:{roomStr r.room}:{keyStr w r.author}:{r.cdate}:{r.mdate}:v{r.val}"
  let edges := sortStr (db.edges.map fun e => s!"{e.src}>{e.label}>{e.dest}:{keyStr w e.author}:{e.cdate}")
  let dn := sortStr (db.nodeTombs.map fun t =>
    s!"{t.room}:{t.id}:{t.entity}:{t.mdate}:{t.ddate}:{keyStr w t.author}")
  let de := sortStr (db.edgeTombs.map fun t =>
    s!"{t.room}:{t.src}>{t.label}>{t.dest}:{t.cdate}:{t.ddate}:{keyStr w t.author}")
  "N[" ++ joinWith "," rows ++ "] E[" ++ joinWith "," edges ++ "] DN[" ++ joinWith "," dn ++ "] DE[" ++
    joinWith "," de ++ "]"

def rooms (w : World) : List Room := match w.site? 0 with | some s => s.mem | none => []

def finish (w : World) (old : World) (r : Except LocalWrite.MErr Db) : World × String :=
  match r with
  | .ok db => let w' := { w with db }; (w', "ok " ++ dump w')
  | .error e => (old, "err:" ++ e.toString ++ " " ++ dump old)

/-- entity of the source and of the target of a reference label -/
def labelTypes (f : Nat) : Ent × Ent := if f = 0 then (1, 1) else if f = 1 then (1, 2) else (2, 1)

def handleEnt (w : World) (h : Nat) : Option Ent := (w.handles.find? (·.1 = h)).map (·.2)

/-- optional room token: absent -> `some none`; present -> must be a created room -/
def optRoom (w : World) (toks : List String) (k : String) : Option (Option Id) :=
  match kv? toks k with
  | none => some none
  | some s => match s.toNat? with
    | some r => if w.rooms.contains r then some (some r) else none
    | none => none

def optInt (toks : List String) (k : String) : Option (Option Int) :=
  match kv? toks k with
  | none => some none
  | some s => match s.toInt? with
    | some v => some (some v)
    | none => none

/-- `h3` | `h3:v7` | `h3:v7:r1` | `n4:v2` | `n4:v2:r0` -/
def parseChild (t : String) : Option (Nat × Bool × Option Int × Option Nat) :=
  match t.splitOn ":" with
  | [] => none
  | head :: rest =>
    let hd : Option (Bool × Nat) :=
      if head.startsWith "h" then (head.drop 1).toNat?.map (false, ·)
      else if head.startsWith "n" then (head.drop 1).toNat?.map (true, ·)
      else none
    match hd with
    | none => none
    | some (isNew, handle) =>
      let step : Option (Option Int × Option Nat) → String → Option (Option Int × Option Nat) := fun acc p =>
        match acc with
        | none => none
        | some (v, r) =>
          if p.startsWith "v" then (p.drop 1).toInt?.map fun x => (some x, r)
          else if p.startsWith "r" then (p.drop 1).toNat?.map fun x => (v, some x)
          else none
      match rest.foldl step (some (none, none)) with
      | none => none
      | some (v, r) => if isNew && v.isNone then none else some (handle, isNew, v, r)

def parseChildren (s : String) : Option (List (Nat × Bool × Option Int × Option Nat)) :=
  match ((s.splitOn "+").filter (· ≠ "")).mapM parseChild with
  | some (x :: t) => some (x :: t)
  | _ => none

def mkLeaves (w : World) (h : Nat) (parentNew : Bool) (dstE : Ent) :
    List (Nat × Bool × Option Int × Option Nat) → List Nat → Option (List Leaf)
  | [], _ => some []
  | (handle, isNew, v, r) :: t, seen =>
    if seen.contains handle then none
    else
      let okHandle :=
        if isNew then (handleEnt w handle).isNone && !(parentNew && handle = h)
        else handleEnt w handle = some dstE
      let room : Option (Option Id) := match r with
        | none => some none
        | some r => if w.rooms.contains r then some (some r) else none
      match okHandle, room, mkLeaves w h parentNew dstE t (handle :: seen) with
      | true, some room, some rest => some ({ handle, isNew, entity := dstE, room, val := v } :: rest)
      | _, _, _ => none

end Fn

open Fn in
def stepFn (w : World) (kind : String) (rest : List String) : World × String :=
  match kind with
  | "rmut" =>
    match parseMut w rest "k" with
    | none => (w, "bad-op")
    | some (k, m, gidx) =>
      let (w, st) := w.touch 0
      match st.mutate k w.nextId m with
      | .error e => (w, errLine e)
      | .ok st' =>
        let w := w.setSite 0 st'
        let newGroups := (gidx.filter fun g => !w.groups.contains (m.rid, g)).map fun g => (m.rid, g)
        let newAdmins := (List.range m.admins.length).map fun i => (m.rid, w.nextId + i)
        ({ w with nextId := w.nextId + m.size,
                  rooms := if m.isNew then w.rooms ++ [m.rid] else w.rooms,
                  groups := w.groups ++ newGroups, adminIds := w.adminIds ++ newAdmins }, "ok")
  | "robs" =>
    match nat? rest "r" with
    | some r =>
      if !w.rooms.contains r then (w, "none")
      else match (w.site? 0).bind (·.getMem r) with
        | some room => (w, matrix w room r)
        | none => (w, "none")
    | none => (w, "bad-op")
  | "new" =>
    match nat? rest "k", int? rest "d", nat? rest "h", nat? rest "e", int? rest "v", optRoom w rest "room" with
    | some k, some d, some h, some e, some v, some room =>
      if e < 1 ∨ 3 < e ∨ (handleEnt w h).isSome then (w, "bad-op")
      else
        let m : LocalWrite.Mut := { handle := h, isNew := true, entity := e, room, val := some v, field := .none }
        let r := LocalWrite.mutate w.dfl (rooms w) w.db k d m
        match r with
        | .ok _ => finish { w with handles := w.handles ++ [(h, e)] } w r
        | .error _ => finish w w r
    | _, _, _, _, _, _ => (w, "bad-op")
  | "upd" =>
    match nat? rest "k", int? rest "d", nat? rest "h", optRoom w rest "room", optInt rest "v" with
    | some k, some d, some h, some room, some v =>
      match handleEnt w h with
      | none => (w, "bad-op")
      | some e =>
        let m : LocalWrite.Mut := { handle := h, isNew := false, entity := e, room, val := v, field := .none }
        finish w w (LocalWrite.mutate w.dfl (rooms w) w.db k d m)
    | _, _, _, _, _ => (w, "bad-op")
  | "nest" =>
    match nat? rest "k", int? rest "d", nat? rest "h", nat? rest "f", (kv? rest "c").bind parseChildren,
          optRoom w rest "room", optInt rest "v" with
    | some k, some d, some h, some f, some children, some room, some v =>
      if 3 ≤ f ∨ (f ≠ 0 ∧ children.length ≠ 1) then (w, "bad-op")
      else
        let (srcE, dstE) := labelTypes f
        let parentNew := (kv? rest "pn").isSome
        let parentOk :=
          if parentNew then nat? rest "pn" = some srcE && (handleEnt w h).isNone && v.isSome
          else handleEnt w h = some srcE
        match parentOk, mkLeaves w h parentNew dstE children [] with
        | true, some leaves =>
          let field : LocalWrite.Field := match f, leaves with
            | 0, ls => .arr 0 ls
            | f, [l] => .ent f l
            | _, _ => .none
          let m : LocalWrite.Mut := { handle := h, isNew := parentNew, entity := srcE, room, val := v, field }
          let r := LocalWrite.mutate w.dfl (rooms w) w.db k d m
          match r with
          | .ok _ =>
            let newH := (if parentNew then [(h, srcE)] else []) ++
              (leaves.filter (·.isNew)).map fun l => (l.handle, dstE)
            finish { w with handles := w.handles ++ newH } w r
          | .error _ => finish w w r
        | _, _ => (w, "bad-op")
    | _, _, _, _, _, _, _ => (w, "bad-op")
  | "null" =>
    match nat? rest "k", int? rest "d", nat? rest "h", nat? rest "f" with
    | some k, some d, some h, some f =>
      if 3 ≤ f then (w, "bad-op")
      else
        let (srcE, _) := labelTypes f
        if handleEnt w h ≠ some srcE then (w, "bad-op")
        else
          let m : LocalWrite.Mut := { handle := h, isNew := false, entity := srcE, room := none, val := none, field := .null f }
          finish w w (LocalWrite.mutate w.dfl (rooms w) w.db k d m)
    | _, _, _, _ => (w, "bad-op")
  | "del" =>
    match nat? rest "k", int? rest "d", nat? rest "h" with
    | some k, some d, some h =>
      match handleEnt w h with
      | none => (w, "bad-op")
      | some e => finish w w (LocalWrite.deleteNode w.dfl (rooms w) w.db k d h e)
    | _, _, _ => (w, "bad-op")
  | "delref" =>
    match nat? rest "k", int? rest "d", nat? rest "h", nat? rest "f", nat? rest "c" with
    | some k, some d, some h, some f, some c =>
      if 3 ≤ f then (w, "bad-op")
      else
        let (srcE, dstE) := labelTypes f
        if handleEnt w h ≠ some srcE ∨ handleEnt w c ≠ some dstE then (w, "bad-op")
        -- the deletion grammar accepts `field[$id]` for array fields only
        else if f ≠ 0 then (w, "err:parse " ++ dump w)
        else finish w w (LocalWrite.deleteRef w.dfl (rooms w) w.db k d h srcE f c)
    | _, _, _, _, _ => (w, "bad-op")
  | "deladm" =>
    match nat? rest "k", int? rest "d", nat? rest "r", nat? rest "i" with
    | some k, some d, some r, some i =>
      if !w.rooms.contains r then (w, "bad-op")
      else
        match ((w.adminIds.filter (·.1 = r)).map (·.2))[i]?, w.site? 0 with
        | some id, some st =>
          match st.getStored r with
          | none => (w, "bad-op")
          | some rr =>
            let tail := fun (rr : RoomRow) => s!" adminrefs={rr.admins.length} roomauthor={Fn.keyStr w rr.author}"
            match LocalWrite.deleteRoomAdminRef w.dfl rr.author (rr.admins.map (·.id)) k id with
            | .error e => (w, "err:" ++ e.toString ++ tail rr)
            | .ok (author, ids) =>
              let rr' : RoomRow := { rr with admins := rr.admins.filter (fun u => ids.contains u.id), mdate := d, author }
              (w.setSite 0 (st.setStored rr'), "ok" ++ tail rr')
        | _, _ => (w, "bad-op")
    | _, _, _, _ => (w, "bad-op")
  | _ => (w, "bad-op")

def stepLine (w : World) (line : String) : World × String :=
  let toks := tokens line
  match toks with
  | "case" :: rest =>
    match nat? rest "id", nat? rest "keys", nat? rest "dmax" with
    | some i, some k, some d =>
      if k ≤ 12 ∧ d ≤ 64 then
        let rev := kv? rest "uids" = some "desc"
        ({ World.blank with active := true, keys := k, dmax := d, fn := kv? rest "mode" = some "fn",
                            df := { w.df with uidOrderReversed := rev }, dfl := w.dfl }, s!"case {i}")
      else ({ World.blank with df := w.df, dfl := w.dfl }, "bad-op")
    | _, _, _ => ({ World.blank with df := w.df, dfl := w.dfl }, "bad-op")
  | kind :: rest =>
    if !w.active then (w, "bad-op")
    else if w.fn then stepFn w kind rest
    else
      match kind with
      | "mut" =>
        match parseMut w rest with
        | none => (w, "bad-op")
        | some (s, m, gidx) =>
          let (w, st) := w.touch s
          match st.mutate (identOfSite s) w.nextId m with
          | .error e => (w, errLine e)
          | .ok st' =>
            let w := w.setSite s st'
            let newGroups := (gidx.filter fun g => !w.groups.contains (m.rid, g)).map fun g => (m.rid, g)
            ({ w with nextId := w.nextId + m.size,
                      rooms := if m.isNew then w.rooms ++ [m.rid] else w.rooms,
                      groups := w.groups ++ newGroups }, "ok")
      | "obs" =>
        match nat? rest "s", nat? rest "r" with
        | some s, some r =>
          if !w.rooms.contains r then (w, "none")
          else
            let (w, st) := w.touch s
            if st.dead then (w, "err:dead")
            else
              match st.getMem r with
              | some room => (w, matrix w room r)
              | none => (w, "none")
        | _, _ => (w, "bad-op")
      | "restart" =>
        match nat? rest "s" with
        | some s =>
          match w.site? s with
          | none => (w, "bad-op")
          | some st =>
            match st.restart w.df with
            | .ok st' => (w.setSite s st', "ok")
            | .error .dead => (w, "err:dead")
            | .error e => (w.setSite s { st with dead := true }, errLine e)
        | none => (w, "bad-op")
      | "sync" =>
        match nat? rest "from", nat? rest "to", nat? rest "r" with
        | some a, some b, some r =>
          if a = b then (w, "bad-op")
          else if !w.rooms.contains r then (w, "err:no-room")
          else
            let (w, sa) := w.touch a
            match sa.export w.df r with
            | .error e => (w, errLine e)
            | .ok cand =>
              let (w, sb) := w.touch b
              match sb.importRoom w.df cand with
              | .error e => (w, errLine e)
              | .ok sb' => (w.setSite b sb', "ok")
        | _, _, _ => (w, "bad-op")
      | _ => (w, "bad-op")
  | [] => (w, "bad-op")

def main (args : List String) : IO Unit := do
  let df := if args.contains "--defects=none" then Defects.none else Defects.asImplemented
  let dfl := if args.contains "--defects=none" then LocalWrite.Defects.none else LocalWrite.Defects.asImplemented
  loop (← IO.getStdin) (← IO.getStdout) stepLine { World.blank with df, dfl }
