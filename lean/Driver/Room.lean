import DiscretModel.Model.Proto
import DiscretModel.Model.RoomBuild
import DiscretModel.Model.LocalWrite
import DiscretModel.Model.Ingest
/-
Model driver for engine `room` (local path). Same op lines as `harness/room` (see its `world.rs`):
  case id=<n> keys=<K> dmax=<D> [uids=desc]
  mut s=<site> d=<date> r=<room> [new=1] [adm=<ulist>] [grp=<g>,<g>] [g<g>.u=<ulist>] [g<g>.ua=<ulist>] [g<g>.r=<rlist>]
  cmut s=<site> d=<date> r=<room> items=<item>;<item>;…   (2..8 updates of one room in flight at once)
  obs s=<site> r=<room>
  restart s=<site>
  sync from=<site> to=<site> r=<room>
with `mode=fn` in the case header (one database, several caller identities; see harness `bench.rs`):
  rmut k=<key> d=<date> r=<room> … [g<g>.id=<r2>.<g2>|h<handle>|a<r2>.<i>] | robs r=<room> | rstored r=<room>
  new k= d= h= e= [room=] v= | upd k= d= h= [room=] [v=] | nest k= d= h= [pn=] [room=] [v=] f= c=<entry>+<entry>…
    (entries: the tree below the mutated entity in pre-order, `.` per level; `:f<label>` on an entry that has sub-entities)
  null k= d= h= f= | del k= d= h= | delref k= d= h= f= c= | deladm k= d= r= i=
anything else -> `bad-op`
-/
open Discret Discret.Proto Discret.Room Discret.RoomBuild

structure World where
  active : Bool
  keys : Nat
  dmax : Nat
  df : Defects
  sites : List (Nat × Site)
  nextId : Nat
  rooms : List Nat
  groups : List (Nat × Nat)
  /-- `mode=fn` -/
  fn : Bool
  dfl : LocalWrite.Defects
  db : LocalWrite.Db
  handles : List (Nat × Ent)
  /-- per room, the ids of its admin entries in creation order -/
  adminIds : List (Nat × Nat)
  /-- `peer=1`: a peer holding the same room definitions (site 1) is fed with what it would receive -/
  peerOn : Bool
  peerStopped : Bool
  peerStarted : Bool
  dfi : Ingest.Defects
  peer : Ingest.Inst

def World.blank : World :=
  { active := false, keys := 0, dmax := 0, df := Defects.asImplemented, sites := [], nextId := 0, rooms := [], groups := [],
    fn := false, dfl := LocalWrite.Defects.asImplemented, db := LocalWrite.Db.empty, handles := [], adminIds := [],
    peerOn := false, peerStopped := false, peerStarted := false, dfi := Ingest.Defects.asImplemented,
    peer := Ingest.Inst.empty }

def identOfSite (s : Nat) : Nat := if s < 3 then s + 1 else 100 + s

def gidOf (r g : Nat) : Nat := r * 1000 + g

def World.site? (w : World) (s : Nat) : Option Site := (w.sites.find? (·.1 = s)).map (·.2)

/-- the site, created empty on first use -/
def World.touch (w : World) (s : Nat) : World × Site :=
  match w.site? s with
  | some st => (w, st)
  | none => ({ w with sites := w.sites ++ [(s, Site.empty)] }, Site.empty)

def World.setSite (w : World) (s : Nat) (st : Site) : World :=
  { w with sites := w.sites.map fun p => if p.1 = s then (s, st) else p }

/-- `k+` | `k-` | `k` -/
def parseUList (s : String) : Option (List (Key × Bool)) :=
  ((s.splitOn ",").filter (· ≠ "")).mapM fun t =>
    if t.endsWith "+" then (t.dropEnd 1).toNat?.map (·, true)
    else if t.endsWith "-" then (t.dropEnd 1).toNat?.map (·, false)
    else t.toNat?.map (·, true)

def parseBit (s : String) : Option Bool :=
  if s = "0" then some false else if s = "1" then some true else none

def parseRList (s : String) : Option (List (Ent × Bool × Bool)) :=
  ((s.splitOn ",").filter (· ≠ "")).mapM fun t =>
    match t.splitOn ":" with
    | [e, a, b] =>
      match e.toNat?, parseBit a, parseBit b with
      | some e, some a, some b => if e < 5 then some (e, a, b) else none
      | _, _, _ => none
    | _ => none

/-- an optional list token: absent -> `some []`; present -> must parse and be non-empty -/
def optList {α : Type} (toks : List String) (k : String) (p : String → Option (List α)) : Option (List α) :=
  match kv? toks k with
  | none => some []
  | some s =>
    match p s with
    | some (x :: t) => some (x :: t)
    | _ => none

/-- `g<g>.id=<x>`: the id of the `sys.Authorisation` entity of slot `g` given explicitly — `<r2>.<g2>`: group `g2`
    of room `r2` (must exist); `h<handle>`: a data row (must exist); `a<r2>.<i>`: the i-th admin entry of room `r2`
    (must exist). Rows that are not groups get ids no group has. `none`: malformed; `some none`: no such token. -/
def explicitGid (w : World) (toks : List String) (g : Nat) : Option (Option Id) :=
  match kv? toks s!"g{g}.id" with
  | none => some none
  | some x =>
    if x.startsWith "h" then
      match (x.drop 1).toNat? with
      | some h => if w.handles.any (·.1 = h) then some (some (500000 + h)) else none
      | none => none
    else if x.startsWith "a" then
      match ((x.drop 1).toString.splitOn ".") with
      | [r2, i] =>
        match r2.toNat?, i.toNat? with
        | some r2, some i =>
          match ((w.adminIds.filter (·.1 = r2)).map (·.2))[i]? with
          | some id => some (some (600000 + id))
          | none => none
        | _, _ => none
      | _ => none
    else
      match x.splitOn "." with
      | [r2, g2] =>
        match r2.toNat?, g2.toNat? with
        | some r2, some g2 => if w.groups.contains (r2, g2) then some (some (gidOf r2 g2)) else none
        | _, _ => none
      | _ => none

def parseGroupsSpec (w : World) (toks : List String) (r : Nat) : Option (List GroupSpec) :=
  match kv? toks "grp" with
  | none => some []
  | some s =>
    match ((s.splitOn ",").filter (· ≠ "")).mapM String.toNat? with
    | none => none
    | some [] => none
    | some gs =>
      if gs.eraseDups.length ≠ gs.length then none
      else
        gs.mapM fun g =>
          match optList toks s!"g{g}.r" parseRList, optList toks s!"g{g}.u" parseUList,
                optList toks s!"g{g}.ua" parseUList, explicitGid w toks g with
          | some rights, some users, some uas, some none =>
            some { gid := gidOf r g, isNew := !w.groups.contains (r, g), rights, users, userAdmins := uas }
          | some rights, some users, some uas, some (some gid) =>
            some { gid, isNew := false, rights, users, userAdmins := uas }
          | _, _, _, _ => none

def parseMut (w : World) (toks : List String) (who : String := "s") : Option (Nat × MutSpec × List Nat) :=
  match nat? toks who, int? toks "d", nat? toks "r" with
  | some s, some d, some r =>
    let isNew := kv? toks "new" = some "1"
    if isNew = w.rooms.contains r then none
    else
      match optList toks "adm" parseUList, parseGroupsSpec w toks r with
      | some adm, some groups =>
        let gidx := match kv? toks "grp" with
          | some str => (((str.splitOn ",").filter (· ≠ "")).filterMap String.toNat?)
          | none => []
        some (s, { rid := r, isNew, date := d, admins := adm, groups }, gidx)
      | _, _ => none
  | _, _, _ => none

def bitsToNat : List Bool → Nat
  | [] => 0
  | b :: t => (if b then 1 else 0) + 2 * bitsToNat t

def rts : List RightType := [.mutateSelf, .mutateAll]
def ents : List Ent := [0, 1, 2, 3, 4]

def cell (room : Room) (gids : List Id) (k : Key) (d : Int) : Nat :=
  let head := [room.isAdmin k d, room.isUserValidAt k d]
  let perGroup := gids.flatMap fun gid =>
    match room.getAuth gid with
    | some a => [a.isUserValidAt k d, a.canAdminUsers k d] ++ ents.flatMap fun e => rts.map fun rt => a.can e d rt
    | none => List.replicate 12 false
  let tail := ents.flatMap fun e => rts.map fun rt => room.can k e d rt
  bitsToNat (head ++ perGroup ++ tail)

def matrix (w : World) (room : Room) (r : Nat) : String :=
  let gids := [0, 1, 2, 3].map (gidOf r)
  let keys := (List.range w.keys).map (· + 1)
  let dates := (List.range (w.dmax + 2)).map Int.ofNat
  let rows := keys.map fun k => s!"{k}:" ++ joinWith "." (dates.map fun d => toString (cell room gids k d))
  s!"m groups={room.auths.length} " ++ joinWith "|" rows

def errLine (e : MErr) : String := "err:" ++ e.toString


/-! ### `mode=fn`: one database, several callers -/

namespace Fn
open Discret.LocalWrite

def insertStr (x : String) : List String → List String
  | [] => [x]
  | y :: t => if y < x then y :: insertStr x t else x :: y :: t

def sortStr (l : List String) : List String := l.foldr insertStr []

def insertRow (x : Row) : List Row → List Row
  | [] => [x]
  | y :: t => if y.id < x.id then y :: insertRow x t else x :: y :: t

def roomStr : Option Id → String
  | none => "-"
  | some r => toString r

def keyStr (w : World) (k : Key) : String := if 1 ≤ k ∧ k ≤ w.keys then toString k else "?"

def dump (w : World) : String :=
  let db := w.db
  let rows := (db.rows.foldr insertRow []).map fun r =>
    s!"{r.id}:{r.entity}:{roomStr r.room}:{keyStr w r.author}:{r.cdate}:{r.mdate}:v{r.val}"
  let edges := sortStr (db.edges.map fun e => s!"{e.src}>{e.label}>{e.dest}:{keyStr w e.author}:{e.cdate}")
  let dn := sortStr (db.nodeTombs.map fun t =>
    s!"{t.room}:{t.id}:{t.entity}:{t.mdate}:{t.ddate}:{keyStr w t.author}")
  let de := sortStr (db.edgeTombs.map fun t =>
    s!"{t.room}:{t.src}>{t.label}>{t.dest}:{t.cdate}:{t.ddate}:{keyStr w t.author}")
  "N[" ++ joinWith "," rows ++ "] E[" ++ joinWith "," edges ++ "] DN[" ++ joinWith "," dn ++ "] DE[" ++
    joinWith "," de ++ "]"

def rooms (w : World) : List Room := match w.site? 0 with | some s => s.mem | none => []

def bit (b : Bool) : String := if b then "1" else "0"

def userRowsStr (w : World) (l : List UserRow) : String :=
  joinWith "," (sortStr (l.map fun u => s!"{keyStr w u.key}:{u.date}:{bit u.enabled}:{keyStr w u.author}"))

/-- the stored definition of a room as `dv-room`'s `rstored` prints it -/
def storedStr (w : World) (rr : RoomRow) : String :=
  let groups := sortStr (rr.groups.map fun g =>
    let name := if w.groups.contains (g.gid / 1000, g.gid % 1000) then s!"{g.gid / 1000}.{g.gid % 1000}" else "?"
    let rights := sortStr (g.rights.map fun x =>
      s!"{x.entity}:{bit (x.mutSelf || x.mutAll)}:{bit x.mutAll}:{x.date}:{keyStr w x.author}")
    s!"{name}={keyStr w g.author}:{g.mdate}:U[{userRowsStr w g.users}]:R[{joinWith "," rights}]:UA[{userRowsStr w g.userAdmins}]")
  s!"S {keyStr w rr.author}:{rr.mdate} A[{userRowsStr w rr.admins}] G[{joinWith ";" groups}]"

def finish (w : World) (old : World) (r : Except LocalWrite.MErr Db) : World × String :=
  match r with
  | .ok db => let w' := { w with db }; (w', "ok " ++ dump w')
  | .error e => (old, "err:" ++ e.toString ++ " " ++ dump old)

/-- entity of the source and of the target of a reference label -/
def labelTypes (f : Nat) : Ent × Ent := if f = 0 then (1, 1) else if f = 1 then (1, 2) else (2, 1)

def handleEnt (w : World) (h : Nat) : Option Ent := (w.handles.find? (·.1 = h)).map (·.2)

/-- optional room token: absent -> `some none`; present -> must be a created room -/
def optRoom (w : World) (toks : List String) (k : String) : Option (Option Id) :=
  match kv? toks k with
  | none => some none
  | some s => match s.toNat? with
    | some r => if w.rooms.contains r then some (some r) else none
    | none => none

def optInt (toks : List String) (k : String) : Option (Option Int) :=
  match kv? toks k with
  | none => some none
  | some s => match s.toInt? with
    | some v => some (some v)
    | none => none

/-- one entity below the mutated one, in the pre-order listing of the tree: `depth` dots, then
    `h3` | `h3:v7` | `h3:v7:r1` | `n4:v2` | `n4:v2:r0`, optionally `:f<label>` when the entries that follow one level
    deeper are the targets of its reference field `label` -/
structure CEntry where
  depth : Nat
  handle : Nat
  isNew : Bool
  v : Option Int
  r : Option Nat
  f : Option Nat

def parseChild (t0 : String) : Option CEntry :=
  let depth := (t0.toList.takeWhile (· = '.')).length
  let t := (t0.drop depth).toString
  match t.splitOn ":" with
  | [] => none
  | head :: rest =>
    let hd : Option (Bool × Nat) :=
      if head.startsWith "h" then (head.drop 1).toNat?.map (false, ·)
      else if head.startsWith "n" then (head.drop 1).toNat?.map (true, ·)
      else none
    match hd with
    | none => none
    | some (isNew, handle) =>
      let step : Option (Option Int × Option Nat × Option Nat) → String → Option (Option Int × Option Nat × Option Nat) :=
        fun acc p =>
        match acc with
        | none => none
        | some (v, r, f) =>
          if p.startsWith "v" then (p.drop 1).toInt?.map fun x => (some x, r, f)
          else if p.startsWith "r" then (p.drop 1).toNat?.map fun x => (v, some x, f)
          else if p.startsWith "f" then (p.drop 1).toNat?.map fun x => (v, r, some x)
          else none
      match rest.foldl step (some (none, none, none)) with
      | none => none
      | some (v, r, f) => if isNew && v.isNone then none else some { depth, handle, isNew, v, r, f }

def parseChildren (s : String) : Option (List CEntry) :=
  match ((s.splitOn "+").filter (· ≠ "")).mapM parseChild with
  | some (x :: t) => some (x :: t)
  | _ => none

/-- the entities of one level (`depth`), each followed by its own sub-entities one level deeper; returns them and
    the entries that belong to the levels above. `dstE`: the entity the enclosing reference field points to. -/
def forest (w : World) : Nat → Nat → Ent → List CEntry → Option (List LocalWrite.Mut × List CEntry)
  | 0, _, _, _ => none
  | _ + 1, _, _, [] => some ([], [])
  | fuel + 1, depth, dstE, e :: rest =>
    if e.depth < depth then some ([], e :: rest)
    else if e.depth > depth then none
    else
      let room : Option (Option Id) := match e.r with
        | none => some none
        | some r => if w.rooms.contains r then some (some r) else none
      match room with
      | none => none
      | some room =>
        let sub : Option (LocalWrite.Field × List CEntry) :=
          match e.f with
          | none =>
            match rest with
            | x :: _ => if x.depth > depth then none else some (.none, rest)
            | [] => some (.none, rest)
          | some f =>
            if 3 ≤ f ∨ (labelTypes f).1 ≠ dstE then none
            else
              match forest w fuel (depth + 1) (labelTypes f).2 rest with
              | none => none
              | some (kids, rest') =>
                match f, kids with
                | _, [] => none
                | 0, ks => some (.arr 0 ks, rest')
                | f, [k] => some (.ent f k, rest')
                | _, _ => none
        match sub with
        | none => none
        | some (field, rest') =>
          match forest w fuel depth dstE rest' with
          | none => none
          | some (more, rest'') => some (.mk e.handle e.isNew dstE room e.v field :: more, rest'')

/-- every entity of the tree: (handle, new?, entity), the mutated entity first -/
def treeHandles (m : LocalWrite.Mut) : List (Nat × Bool × Ent) :=
  (LocalWrite.flatten LocalWrite.Db.empty 0 none false m).map fun it => (it.handle, it.isNew, it.entity)

/-- handles are distinct over the whole tree; a new entity's handle is free, an existing one's is bound to the
    entity the field points to -/
def handlesOk (w : World) (hs : List (Nat × Bool × Ent)) : Bool :=
  (hs.map (·.1)).eraseDups.length = hs.length &&
  hs.all fun (h, isNew, e) => if isNew then (handleEnt w h).isNone else handleEnt w h = some e

/-! #### the peer (C12): fed through the ingestion model -/

def toNodeRow (r : Row) : Ingest.NodeRow :=
  { id := r.id, room := r.room, ent := r.entity, cdate := r.cdate, mdate := r.mdate, key := r.author, sg := 0,
    val := r.val.toNat }

def toInNode (r : Row) : Ingest.InNode :=
  { row := { toNodeRow r with sg := 1 }, annDate := r.mdate, annSg := 1, sigOk := true, conforms := true,
    jsonAbsent := false, big := false }

def toInEdge (e : EdgeRow) : Ingest.InEdge :=
  { row := { src := e.src, srcEnt := (labelTypes e.label).1, label := e.label, dst := e.dest, cdate := e.cdate,
             key := e.author }, sigOk := true }

def toNodeDel (t : NodeTomb) : Ingest.NodeDel :=
  { room := t.room, id := t.id, ent := t.entity, mdate := t.mdate, ddate := t.ddate, key := t.author }

def toEdgeDel (t : EdgeTomb) : Ingest.EdgeDel :=
  { room := t.room, src := t.src, srcEnt := (labelTypes t.label).1, dst := t.dest, label := t.label, cdate := t.cdate,
    ddate := t.ddate, key := t.author }

/-- a row is named by its handle once the handle is bound (an accepted creation), `?` otherwise -/
def hname (hs : List (Nat × Ent)) (id : Nat) : String := if hs.any (·.1 = id) then toString id else "?"

structure Feed where
  hs : List (Nat × Ent)
  s : Ingest.Inst
  sent : Nat
  accepted : Nat
  refused : List String
  taken : List String := []

def feedEdgeDels (d : Ingest.Defects) : Feed → List EdgeTomb → Feed
  | f, [] => f
  | f, t :: rest =>
    let r := toEdgeDel t
    if Ingest.edgeDelAccepted d f.s r then
      feedEdgeDels d { f with s := Ingest.applyEdgeDel f.s r, sent := f.sent + 1, accepted := f.accepted + 1,
                              taken := f.taken ++ [s!"de{hname f.hs t.src}>{t.label}>{hname f.hs t.dest}"] } rest
    else
      feedEdgeDels d { f with sent := f.sent + 1, refused := f.refused ++ [s!"de{hname f.hs t.src}>{t.label}>{hname f.hs t.dest}"] } rest

def feedNodeDels (d : Ingest.Defects) : Feed → List NodeTomb → Feed
  | f, [] => f
  | f, t :: rest =>
    let r := toNodeDel t
    if Ingest.nodeDelAccepted d f.s r then
      feedNodeDels d { f with s := Ingest.applyNodeDel f.s r, sent := f.sent + 1, accepted := f.accepted + 1,
                              taken := f.taken ++ [s!"dn{hname f.hs t.id}"] } rest
    else feedNodeDels d { f with sent := f.sent + 1, refused := f.refused ++ [s!"dn{hname f.hs t.id}"] } rest

/-- rooms of the rows, in order of first appearance -/
def roomsOf (rows : List Row) : List Id := (rows.filterMap (·.room)).eraseDups

def feedNodes (d : Ingest.Defects) (rows : List Row) : Feed → List Id → Feed
  | f, [] => f
  | f, room :: rest =>
    let group := rows.filter (·.room = some room)
    let ins := group.map toInNode
    let requested := (Ingest.filterExisting f.s.nodes (Ingest.announce ins [])).map (·.1)
    let r := Ingest.nodeStage d f.s room ins
    let stale := (group.filter fun n => !requested.contains n.id).map fun n => s!"stale:n{hname f.hs n.id}"
    let rej := ((group.filter fun n => requested.contains n.id).filter fun n => r.2.contains n.id).map fun n => s!"n{hname f.hs n.id}"
    let acc := ((group.filter fun n => requested.contains n.id).filter fun n => !r.2.contains n.id).map fun n =>
      s!"n{hname f.hs n.id}"
    feedNodes d rows { f with s := r.1, sent := f.sent + group.length, accepted := f.accepted + acc.length,
                              refused := f.refused ++ stale ++ rej, taken := f.taken ++ acc } rest

def feedEdges (d : Ingest.Defects) (outNodes : List Row) (db : Db) : Feed → List EdgeRow → Feed
  | f, [] => f
  | f, e :: rest =>
    let room : Option Id := match outNodes.find? (·.id = e.src) with
      | some n => n.room
      | none => (db.rows.find? (·.id = e.src)).bind (·.room)
    match room with
    | none => feedEdges d outNodes db f rest
    | some room =>
      let r := Ingest.edgeStage d f.s room [toInEdge e]
      if r.2.isEmpty then
        feedEdges d outNodes db { f with s := r.1, sent := f.sent + 1, accepted := f.accepted + 1,
                                          taken := f.taken ++ [s!"e{hname f.hs e.src}>{e.label}>{hname f.hs e.dest}"] } rest
      else
        feedEdges d outNodes db
          { f with s := r.1, sent := f.sent + 1, refused := f.refused ++ [s!"e{hname f.hs e.src}>{e.label}>{hname f.hs e.dest}"] } rest

/-- the ` peer=…` suffix of a data operation and the new state of the peer -/
def feedPeer (w : World) (out : Option LocalWrite.Outbox) : World × String :=
  if !w.peerOn then (w, "")
  else match out with
    | none => (w, "")
    | some o =>
      if w.peerStopped then (w, " peer=stopped")
      else if !w.peerStarted then (w, " peer=none")
      else
        let rooms := match w.site? 1 with | some s => s.mem | none => []
        let f0 : Feed := { hs := w.handles, s := { w.peer with rooms }, sent := 0, accepted := 0, refused := [] }
        let f1 := feedEdgeDels w.dfi f0 o.edgeDels
        let f2 := feedNodeDels w.dfi f1 o.nodeDels
        let f3 := feedNodes w.dfi o.nodes f2 (roomsOf o.nodes)
        let f4 := feedEdges w.dfi o.nodes w.db f3 o.edges
        let refused := sortStr f4.refused
        let stop := (o.localOk && !refused.isEmpty) || (!o.localOk && f4.accepted > 0)
        let w := { w with peer := f4.s, peerStopped := w.peerStopped || stop }
        if f4.sent = 0 then (w, " peer=none")
        else if refused.isEmpty then (w, " peer=accept")
        else if f4.accepted = 0 then (w, " peer=refuse:" ++ joinWith "," refused)
        else (w, " peer=partial:" ++ joinWith "," refused ++ ";ok:" ++ joinWith "," (sortStr f4.taken))

/-- local result of a data operation followed by the peer's verdict on what it sends -/
def finishP (w : World) (old : World) (r : Except LocalWrite.MErr Db) (out : Option LocalWrite.Outbox) :
    World × String :=
  -- the peer is fed while the local database is already updated (the references look up their source there)
  let (w1, line) := finish w old r
  let (w2, suffix) := feedPeer w1 out
  (w2, line ++ suffix)

end Fn

open Fn in
def stepFn (w : World) (kind : String) (rest : List String) : World × String :=
  match kind with
  | "rmut" =>
    match parseMut w rest "k" with
    | none => (w, "bad-op")
    | some (k, m, gidx) =>
      let (w, st) := w.touch 0
      match st.mutate w.df k w.nextId m with
      | .error e => (w, errLine e)
      | .ok st' =>
        let w := w.setSite 0 st'
        let newGroups := (gidx.filter fun g => !w.groups.contains (m.rid, g) && (kv? rest s!"g{g}.id").isNone).map fun g => (m.rid, g)
        let newAdmins := (List.range m.admins.length).map fun i => (m.rid, w.nextId + i)
        let w := { w with nextId := w.nextId + m.size,
                          rooms := if m.isNew then w.rooms ++ [m.rid] else w.rooms,
                          groups := w.groups ++ newGroups, adminIds := w.adminIds ++ newAdmins }
        -- the peer imports the new definition
        if !w.peerOn then (w, "ok")
        else if w.peerStopped then (w, "ok peer:stopped")
        else
          let w := { w with peerStarted := true }
          let (w, sa) := w.touch 0
          match sa.export w.df m.rid with
          | .error _ => (w, "ok peer:err:no-room")
          | .ok cand =>
            let (w, sb) := w.touch 1
            match sb.importRoom w.df cand with
            | .error e => ({ w with peerStopped := true }, "ok peer:" ++ errLine e)
            | .ok sb' => (w.setSite 1 sb', "ok peer:ok")
  | "rstored" =>
    match nat? rest "r" with
    | some r =>
      if !w.rooms.contains r then (w, "none")
      else match (w.site? 0).bind (·.getStored r) with
        | some rr => (w, Fn.storedStr w rr)
        | none => (w, "none")
    | none => (w, "bad-op")
  | "robs" =>
    match nat? rest "r" with
    | some r =>
      if !w.rooms.contains r then (w, "none")
      else match (w.site? 0).bind (·.getMem r) with
        | some room => (w, matrix w room r)
        | none => (w, "none")
    | none => (w, "bad-op")
  | "pobs" =>
    match nat? rest "r" with
    | some r =>
      if !w.rooms.contains r then (w, "none")
      else match (w.site? 1).bind (·.getMem r) with
        | some room => (w, matrix w room r)
        | none => (w, "none")
    | none => (w, "bad-op")
  | "new" =>
    match nat? rest "k", int? rest "d", nat? rest "h", nat? rest "e", int? rest "v", optRoom w rest "room" with
    | some k, some d, some h, some e, some v, some room =>
      if e < 1 ∨ 3 < e ∨ (handleEnt w h).isSome then (w, "bad-op")
      else
        let m : LocalWrite.Mut := .mk h true e room (some v) .none
        let r := LocalWrite.mutate w.dfl (rooms w) w.db k d m
        let o := LocalWrite.mutateOutbox w.dfl (rooms w) w.db k d m
        match r with
        | .ok _ => finishP { w with handles := w.handles ++ [(h, e)] } w r o
        | .error _ => finishP w w r o
    | _, _, _, _, _, _ => (w, "bad-op")
  | "upd" =>
    match nat? rest "k", int? rest "d", nat? rest "h", optRoom w rest "room", optInt rest "v" with
    | some k, some d, some h, some room, some v =>
      match handleEnt w h with
      | none => (w, "bad-op")
      | some e =>
        let m : LocalWrite.Mut := .mk h false e room v .none
        finishP w w (LocalWrite.mutate w.dfl (rooms w) w.db k d m) (LocalWrite.mutateOutbox w.dfl (rooms w) w.db k d m)
    | _, _, _, _, _ => (w, "bad-op")
  | "nest" =>
    match nat? rest "k", int? rest "d", nat? rest "h", nat? rest "f", (kv? rest "c").bind parseChildren,
          optRoom w rest "room", optInt rest "v" with
    | some k, some d, some h, some f, some entries, some room, some v =>
      if 3 ≤ f then (w, "bad-op")
      else
        let (srcE, dstE) := labelTypes f
        let parentNew := (kv? rest "pn").isSome
        let parentOk := if parentNew then nat? rest "pn" = some srcE && v.isSome else true
        match parentOk, forest w (entries.length + 1) 0 dstE entries with
        | true, some (kids, []) =>
          let field : Option LocalWrite.Field := match f, kids with
            | _, [] => none
            | 0, ks => some (.arr 0 ks)
            | f, [l] => some (.ent f l)
            | _, _ => none
          match field with
          | none => (w, "bad-op")
          | some field =>
            let m : LocalWrite.Mut := .mk h parentNew srcE room v field
            let hs := treeHandles m
            if !handlesOk w hs then (w, "bad-op")
            else
              let r := LocalWrite.mutate w.dfl (rooms w) w.db k d m
              let o := LocalWrite.mutateOutbox w.dfl (rooms w) w.db k d m
              match r with
              | .ok _ =>
                let newH := (hs.filter (·.2.1)).map fun (h, _, e) => (h, e)
                finishP { w with handles := w.handles ++ newH } w r o
              | .error _ => finishP w w r o
        | _, _ => (w, "bad-op")
    | _, _, _, _, _, _, _ => (w, "bad-op")
  | "null" =>
    match nat? rest "k", int? rest "d", nat? rest "h", nat? rest "f" with
    | some k, some d, some h, some f =>
      if 3 ≤ f then (w, "bad-op")
      else
        let (srcE, _) := labelTypes f
        if handleEnt w h ≠ some srcE then (w, "bad-op")
        else
          let m : LocalWrite.Mut := .mk h false srcE none none (.null f)
          finishP w w (LocalWrite.mutate w.dfl (rooms w) w.db k d m) (LocalWrite.mutateOutbox w.dfl (rooms w) w.db k d m)
    | _, _, _, _ => (w, "bad-op")
  | "del" =>
    match nat? rest "k", int? rest "d", nat? rest "h" with
    | some k, some d, some h =>
      match handleEnt w h with
      | none => (w, "bad-op")
      | some e =>
        finishP w w (LocalWrite.deleteNode w.dfl (rooms w) w.db k d h e)
          (LocalWrite.deleteNodeOutbox w.dfl (rooms w) w.db k d h e)
    | _, _, _ => (w, "bad-op")
  | "delref" =>
    match nat? rest "k", int? rest "d", nat? rest "h", nat? rest "f", nat? rest "c" with
    | some k, some d, some h, some f, some c =>
      if 3 ≤ f then (w, "bad-op")
      else
        let (srcE, dstE) := labelTypes f
        if handleEnt w h ≠ some srcE ∨ handleEnt w c ≠ some dstE then (w, "bad-op")
        -- the deletion grammar accepts `field[$id]` for array fields only
        else if f ≠ 0 then
          (w, "err:parse " ++ dump w ++ (feedPeer w (if w.peerOn then Option.none else Option.none)).2)
        else
          finishP w w (LocalWrite.deleteRef w.dfl (rooms w) w.db k d h srcE f c)
            (LocalWrite.deleteRefOutbox w.dfl (rooms w) w.db k d h srcE f c)
    | _, _, _, _, _ => (w, "bad-op")
  | "deladm" =>
    match nat? rest "k", int? rest "d", nat? rest "r", nat? rest "i" with
    | some k, some d, some r, some i =>
      if !w.rooms.contains r then (w, "bad-op")
      else
        match ((w.adminIds.filter (·.1 = r)).map (·.2))[i]?, w.site? 0 with
        | some id, some st =>
          match st.getStored r with
          | none => (w, "bad-op")
          | some rr =>
            let tail := fun (rr : RoomRow) => s!" adminrefs={rr.admins.length} roomauthor={Fn.keyStr w rr.author}"
            match LocalWrite.deleteRoomAdminRef w.dfl rr.author (rr.admins.map (·.id)) k id with
            | .error e => (w, "err:" ++ e.toString ++ tail rr)
            | .ok (author, ids) =>
              let rr' : RoomRow := { rr with admins := rr.admins.filter (fun u => ids.contains u.id), mdate := d, author }
              (w.setSite 0 (st.setStored rr'), "ok" ++ tail rr')
        | _, _ => (w, "bad-op")
    | _, _, _, _ => (w, "bad-op")
  | _ => (w, "bad-op")

def stepMut (w : World) (rest : List String) : World × String :=
  match parseMut w rest with
  | none => (w, "bad-op")
  | some (s, m, gidx) =>
    let (w, st) := w.touch s
    match st.mutate w.df (identOfSite s) w.nextId m with
    | .error e => (w, errLine e)
    | .ok st' =>
      let w := w.setSite s st'
      let newGroups := (gidx.filter fun g => !w.groups.contains (m.rid, g)).map fun g => (m.rid, g)
      ({ w with nextId := w.nextId + m.size,
                rooms := if m.isNew then w.rooms ++ [m.rid] else w.rooms,
                groups := w.groups ++ newGroups }, "ok")

/-- the `mut` tokens of the items of a `cmut` line: `<g>.r.<e:s:a>` | `<g>.u.<k±>` | `<g>.ua.<k±>` | `a.<k±>`,
    2..8 of them, existing groups, distinct (list, key), the caller not named in an `a`/`ua` item -/
def cmutItems (w : World) (toks : List String) (s r : Nat) : Option (List (List String)) :=
  match kv? toks "items", kv? toks "d" with
  | some str, some d =>
    let base := [s!"s={s}", s!"d={d}", s!"r={r}"]
    let one (item : String) : Option ((String × Nat) × List String) :=
      match item.splitOn "." with
      | ["a", elem] =>
        if elem.contains ',' then none else
        match parseUList elem with
        | some [(k, _)] => if k = identOfSite s then none else some (("adm", k), base ++ [s!"adm={elem}"])
        | _ => none
      | [g, kind, elem] =>
        if elem.contains ',' then none else
        match g.toNat? with
        | none => none
        | some gi =>
          if toString gi ≠ g || !w.groups.contains (r, gi) then none
          else if kind = "r" then
            match parseRList elem with
            | some [(e, _, _)] => some ((s!"g{g}.r", e), base ++ [s!"grp={g}", s!"g{g}.r={elem}"])
            | _ => none
          else if kind = "u" || kind = "ua" then
            match parseUList elem with
            | some [(k, _)] =>
              if kind = "ua" && k = identOfSite s then none
              else some ((s!"g{g}.{kind}", k), base ++ [s!"grp={g}", s!"g{g}.{kind}={elem}"])
            | _ => none
          else none
      | _ => none
    match (str.splitOn ";").mapM one with
    | none => none
    | some l =>
      let ids := l.map (·.1)
      if l.length < 2 || l.length > 8 || ids.eraseDups.length ≠ ids.length then none
      else some (l.map (·.2))
  | _, _ => none

def stepLine (w : World) (line : String) : World × String :=
  let toks := tokens line
  match toks with
  | "case" :: rest =>
    match nat? rest "id", nat? rest "keys", nat? rest "dmax" with
    | some i, some k, some d =>
      if k ≤ 12 ∧ d ≤ 64 then
        let rev := kv? rest "uids" = some "desc"
        ({ World.blank with active := true, keys := k, dmax := d, fn := kv? rest "mode" = some "fn",
                            peerOn := kv? rest "peer" = some "1", dfi := w.dfi,
                            df := { w.df with uidOrderReversed := rev }, dfl := w.dfl }, s!"case {i}")
      else ({ World.blank with df := w.df, dfl := w.dfl, dfi := w.dfi }, "bad-op")
    | _, _, _ => ({ World.blank with df := w.df, dfl := w.dfl, dfi := w.dfi }, "bad-op")
  | kind :: rest =>
    if !w.active then (w, "bad-op")
    else if w.fn then stepFn w kind rest
    else
      match kind with
      | "mut" => stepMut w rest
      | "cmut" =>
        match nat? rest "s", nat? rest "r" with
        | some s, some r =>
          if !w.rooms.contains r then (w, "bad-op")
          else
            match cmutItems w rest s r with
            | none => (w, "bad-op")
            | some items =>
              -- the service handles the updates in an order that is not determined; the items are such that
              -- the verdicts and the resulting room do not depend on it: fold in item order
              let (w, outs) := items.foldl (fun (acc : World × List String) toks =>
                let (w', o) := stepMut acc.1 toks
                (w', acc.2 ++ [o])) (w, [])
              (w, ",".intercalate outs)
        | _, _ => (w, "bad-op")
      | "obs" =>
        match nat? rest "s", nat? rest "r" with
        | some s, some r =>
          if !w.rooms.contains r then (w, "none")
          else
            let (w, st) := w.touch s
            if st.dead then (w, "err:dead")
            else
              match st.getMem r with
              | some room => (w, matrix w room r)
              | none => (w, "none")
        | _, _ => (w, "bad-op")
      | "restart" =>
        match nat? rest "s" with
        | some s =>
          match w.site? s with
          | none => (w, "bad-op")
          | some st =>
            match st.restart w.df with
            | .ok st' => (w.setSite s st', "ok")
            | .error .dead => (w, "err:dead")
            | .error e => (w.setSite s { st with dead := true }, errLine e)
        | none => (w, "bad-op")
      | "sync" =>
        match nat? rest "from", nat? rest "to", nat? rest "r" with
        | some a, some b, some r =>
          if a = b then (w, "bad-op")
          else if !w.rooms.contains r then (w, "err:no-room")
          else
            let (w, sa) := w.touch a
            match sa.export w.df r with
            | .error e => (w, errLine e)
            | .ok cand =>
              let (w, sb) := w.touch b
              match sb.importRoom w.df cand with
              | .error e => (w, errLine e)
              | .ok sb' => (w.setSite b sb', "ok")
        | _, _, _ => (w, "bad-op")
      | _ => (w, "bad-op")
  | [] => (w, "bad-op")

def main (args : List String) : IO Unit := do
  let df := if args.contains "--defects=none" then Defects.none else Defects.asImplemented
  let dfl := if args.contains "--defects=none" then LocalWrite.Defects.none else LocalWrite.Defects.asImplemented
  loop (← IO.getStdin) (← IO.getStdout) stepLine { World.blank with df, dfl }
