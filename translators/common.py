"""Shared helpers of the translators (python3 stdlib only).

A translator reads source files of the repository under verification and writes a Lean file under
lean/DiscretModel/Gen/. It must be tolerant to whitespace/comments/reordering of unrelated items and
must FAIL LOUDLY (TranslateError) when it cannot find what it looks for: the check then reports a
broken obligation instead of silently keeping a stale table."""
import os, re

ROOT = os.path.dirname(os.path.dirname(os.path.abspath(__file__)))
GEN = os.environ.get("VERIF_GEN_DIR") or os.path.join(ROOT, "lean", "DiscretModel", "Gen")


class TranslateError(Exception):
    pass


def read(repo, rel):
    p = os.path.join(repo, rel)
    if not os.path.exists(p):
        raise TranslateError("source file missing: " + rel)
    with open(p, encoding="utf-8") as f:
        return f.read()


def strip_rust_comments(src):
    """removes // and /* */ comments, keeps string literals (incl. raw strings r#"…"#) intact"""
    out, i, n = [], 0, len(src)
    while i < n:
        c = src[i]
        if src.startswith("//", i):
            while i < n and src[i] != "\n": i += 1
        elif src.startswith("/*", i):
            j = src.find("*/", i + 2)
            i = n if j < 0 else j + 2
        elif c == "r" and re.match(r'r#*"', src[i:]):
            m = re.match(r'r(#*)"', src[i:])
            end = '"' + m.group(1)
            j = src.find(end, i + len(m.group(0)))
            j = n if j < 0 else j + len(end)
            out.append(src[i:j]); i = j
        elif c == '"':
            j = i + 1
            while j < n and src[j] != '"':
                j += 2 if src[j] == "\\" else 1
            out.append(src[i:j + 1]); i = j + 1
        elif c == "'" and i + 2 < n and (src[i + 2] == "'" or (src[i + 1] == "\\" and i + 3 < n and src[i + 3] == "'")):
            j = i + (3 if src[i + 2] == "'" else 4)
            out.append(src[i:j]); i = j
        else:
            out.append(c); i += 1
    return "".join(out)


def lean_str(s):
    out = ['"']
    for ch in s:
        if ch == "\\": out.append("\\\\")
        elif ch == '"': out.append('\\"')
        elif ch == "\n": out.append("\\n")
        elif ch == "\t": out.append("\\t")
        elif ch == "\r": out.append("\\r")
        else: out.append(ch)
    out.append('"')
    return "".join(out)


def lean_bool(b):
    return "true" if b else "false"


def write_if_changed(name, text):
    os.makedirs(GEN, exist_ok=True)
    p = os.path.join(GEN, name)
    old = None
    if os.path.exists(p):
        with open(p, encoding="utf-8") as f: old = f.read()
    if old != text:
        with open(p, "w", encoding="utf-8") as f: f.write(text)
        return True
    return False
