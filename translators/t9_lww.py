#!/usr/bin/env python3
"""T9: src/database/node.rs `Node::filter_existing`  ->  Gen/Lww.lean

The last-writer-wins decision of synchronisation is the `if … else if … else` chain inside
`if let Some(new) = node_ids.get(&existing)`: the announced identifier `new` is dropped when the first or the
second condition holds (`node_ids.remove(&existing)`), and requested with the local row as `old_*` otherwise
(`node_ids.take(&existing)` + a `NodeToInsert` carrying `old_local_id`, `old_room_id`, `old_mdate`,
`old_verifying_key` of the stored row). The translator finds that chain in the parsed body, checks its shape
(two dropping branches, one taking branch whose `NodeToInsert` reads the old_* fields from the stored row) and
writes the two conditions as a Lean definition. Lemmas/LwwEq.lean proves that the hand-written models
(`Ingest.filterOne`, `Sync.wanted`) decide exactly that. Dropping the tie-break, turning `<=` into `<`, or
filling `old_mdate` from the announced identifier changes the regenerated text and breaks the equalities."""
import os, sys
sys.path.insert(0, os.path.dirname(os.path.abspath(__file__)))
from common import *
import rustmini

SRC = "src/database/node.rs"


def find_chain(x):
    """the ("iflet", Some(new), <…>.get(&existing), body, _) node"""
    if isinstance(x, tuple):
        if x and x[0] == "iflet" and x[1] == ("ptuple", ["Some"], [("pid", "new")]):
            return x
        for y in x:
            r = find_chain(y)
            if r: return r
    elif isinstance(x, list):
        for y in x:
            r = find_chain(y)
            if r: return r
    return None


def cond(e):
    k = e[0]
    if k == "bin":
        a, b = cond(e[2]), cond(e[3])
        if e[1] == "&&": return "(%s && %s)" % (a, b)
        if e[1] == "||": return "(%s || %s)" % (a, b)
        rel = {"<=": "≤", ">=": "≥", "<": "<", ">": ">", "==": "=", "!=": "≠"}[e[1]]
        return "(decide (%s %s %s))" % (a, rel, b)
    if k == "mcall" and e[2] == "eq" and len(e[3]) == 1:
        return "(decide (%s = %s))" % (cond(e[1]), cond(e[3][0]))
    if k in ("ref", "deref"): return cond(e[1])
    if k == "not": return "(!%s)" % cond(e[1])
    if k == "field" and e[1][0] == "id" and e[1][1] in ("new", "existing") and e[2] in ("mdate", "signature"):
        return "%s_%s" % (e[1][1], e[2])
    raise TranslateError("condition outside the supported subset: %r" % (e,))


def is_remove(blk):
    return blk[1] == [("expr", ("mcall", ("id", "node_ids"), "remove", [("ref", ("id", "existing"))]))] and blk[2] is None


def generate(repo):
    parsed = rustmini.parse_file(read(repo, SRC))
    fn = parsed["impls"].get("Node", {}).get("filter_existing")
    if fn is None: raise TranslateError("Node::filter_existing not found")
    if fn["error"]: raise TranslateError("Node::filter_existing is outside the supported subset: " + fn["error"])
    chain = find_chain(fn["body"])
    if chain is None: raise TranslateError("`if let Some(new) = node_ids.get(&existing)` not found in filter_existing")
    body = chain[3]
    # `existing` must be built from the stored row: id, mdate, _signature
    src = read(repo, SRC)
    first = body[2] if body[2] is not None else (body[1][-1][1] if body[1] and body[1][-1][0] == "expr" else None)
    if not first or first[0] != "if": raise TranslateError("the body of the `Some(new)` branch is not an if-chain")
    c1, then1, else1 = first[1], first[2], first[3]
    if not is_remove(then1): raise TranslateError("first branch does not drop the announced identifier")
    if else1 is None or else1[2] is None or else1[2][0] != "if": raise TranslateError("no `else if` after the first branch")
    second = else1[2]
    c2, then2, else2 = second[1], second[2], second[3]
    if not is_remove(then2): raise TranslateError("second branch does not drop the announced identifier")
    if else2 is None: raise TranslateError("no final `else` that requests the row")
    # the final branch builds NodeToInsert { old_*: from the stored row `node` }
    olds = {}
    def walk(x):
        if isinstance(x, tuple):
            if x and x[0] == "struct" and x[1] == "NodeToInsert":
                for f, v in x[2]:
                    if f.startswith("old_"): olds[f] = v
            for y in x: walk(y)
        elif isinstance(x, list):
            for y in x: walk(y)
    walk(else2)
    def from_stored(v, fld):
        while v[0] == "call" and v[1] == ("id", "Some"): v = v[2][0]
        return v == ("field", ("id", "node"), fld)
    want = {"old_local_id": "_local_id", "old_room_id": "room_id", "old_mdate": "mdate", "old_verifying_key": "verifying_key"}
    stored_ok = all(f in olds and from_stored(olds[f], w) for f, w in want.items())
    takes = "take" in repr(else2)
    # `existing` is the identifier of the STORED row: NodeIdentifier { id: node.id, mdate: node.mdate, signature: node._signature }
    ex = {}
    def walk2(x):
        if isinstance(x, tuple):
            if x and x[0] == "let" and x[1] == ("pid", "existing") and x[3][0] == "struct" and x[3][1] == "NodeIdentifier":
                for f, v in x[3][2]: ex[f] = v
            for y in x: walk2(y)
        elif isinstance(x, list):
            for y in x: walk2(y)
    walk2(fn["body"])
    existing_ok = ex.get("id") == ("field", ("id", "node"), "id") and ex.get("mdate") == ("field", ("id", "node"), "mdate") \
        and ex.get("signature") == ("field", ("id", "node"), "_signature")
    text = """/-
GENERATED by /verif/translators/t9_lww.py from %s (`Node::filter_existing`) of the repository under
verification on every run of the checks of C02 C03 C11 — do not edit.
-/
namespace Discret.Gen.Lww

/-- the announced identifier `new` is NOT requested although a row with its id is stored (`existing`):
    `if %s { drop } else if %s { drop } else { request }` -/
def dropIncoming (new_mdate : Int) (new_signature : Nat) (existing_mdate : Int) (existing_signature : Nat) : Bool :=
  %s || %s

/-- the requested row carries `old_local_id`, `old_room_id`, `old_mdate`, `old_verifying_key` of the STORED row -/
def oldFieldsFromStoredRow : Bool := %s

/-- the final branch takes the identifier out of the set to request it -/
def finalBranchRequests : Bool := %s

/-- `existing` is built from the stored row: its id, its mdate, its signature -/
def existingFromStoredRow : Bool := %s

end Discret.Gen.Lww
""" % (SRC, rust_text(c1), rust_text(c2), cond(c1), cond(c2), lean_bool(stored_ok), lean_bool(takes), lean_bool(existing_ok))
    return text


def rust_text(e):
    k = e[0]
    if k == "bin": return "%s %s %s" % (rust_text(e[2]), e[1], rust_text(e[3]))
    if k == "mcall": return "%s.%s(%s)" % (rust_text(e[1]), e[2], ", ".join(rust_text(a) for a in e[3]))
    if k == "field": return "%s.%s" % (rust_text(e[1]), e[2])
    if k == "ref": return "&" + rust_text(e[1])
    if k == "id": return e[1]
    return "…"


def main(repo="/repo"):
    write_if_changed("Lww.lean", generate(repo))


if __name__ == "__main__":
    main(sys.argv[1] if len(sys.argv) > 1 else "/repo")
