#!/usr/bin/env python3
"""T4 — regenerates lean/DiscretModel/Gen/WriterTable.lean from /repo/src/database/sqlite_database.rs.

Regex-level reading of `BufferedDatabaseWriter::process_batch_write` and of the writer thread:
 * per `WriteMessage::X` arm: what happens when its statement group fails (ROLLBACK + return Err /
   return Err only / anything else = the error does not leave the function), whether the arm feeds
   the batch's `DailyMutations` (daily-log marks), whether it loops over items;
 * the order BEGIN / loop / marks write / COMMIT, and whether a failure of the marks write or of
   COMMIT is followed by a ROLLBACK;
 * where the verification fault points sit;
 * the acknowledgement code of the writer thread: Ok replies only in the `Ok` branch of the result.
python3 stdlib only. Exit status 1 (and no output file change) when the source cannot be read as expected.
"""
import os, re, sys

SRC = os.environ.get("VERIF_REPO", "/repo") + "/src/database/sqlite_database.rs"
OUT = os.path.join(os.path.dirname(os.path.dirname(os.path.abspath(__file__))),
                   "lean", "DiscretModel", "Gen", "WriterTable.lean")


class ParseError(Exception):
    pass


def strip_comments(s):
    s = re.sub(r"/\*.*?\*/", "", s, flags=re.S)
    return "\n".join(re.sub(r"//.*$", "", l) for l in s.split("\n"))


def block_after(s, start):
    """text of the brace block whose '{' is the first one at or after `start` (braces inside string literals ignored)"""
    i = s.index("{", start)
    depth, j, in_str = 0, i, False
    while j < len(s):
        c = s[j]
        if in_str:
            if c == "\\": j += 1
            elif c == '"': in_str = False
        elif c == '"': in_str = True
        elif c == "{": depth += 1
        elif c == "}":
            depth -= 1
            if depth == 0: return s[i + 1:j], j + 1
        j += 1
    raise ParseError("unbalanced braces")


def lean_bool(b): return "true" if b else "false"


def parse(src):
    s = strip_comments(src)
    m = re.search(r"fn\s+process_batch_write\s*\(", s)
    if not m: raise ParseError("process_batch_write not found")
    body, _ = block_after(s, m.end())
    # --- the loop over the batch
    lm = re.search(r"for\s+\w+\s+in\s+buffer\s*", body)
    if not lm: raise ParseError("loop over the buffer not found")
    loop, loop_end = block_after(body, lm.end())
    mm = re.search(r"match\s+\w+\s*", loop)
    if not mm: raise ParseError("match over the message not found")
    arms_txt, _ = block_after(loop, mm.end())
    arms = []
    pos = 0
    for am in re.finditer(r"WriteMessage::(\w+)\s*(\([^)]*\))?\s*=>", arms_txt):
        if am.start() < pos: continue
        name = am.group(1)
        rest = arms_txt[am.end():]
        if rest.lstrip().startswith("{"):
            arm, e = block_after(arms_txt, am.end())
            pos = e
        else:
            e = arms_txt.find(",", am.end())
            arm = arms_txt[am.end():e if e >= 0 else len(arms_txt)]
            pos = e if e >= 0 else len(arms_txt)
        # statement groups: every `if let Err(e) = <call> { ... }`
        guards = list(re.finditer(r"if\s+let\s+Err\s*\(\s*(\w+)\s*\)\s*=\s*([^{]+)", arm))
        calls = re.findall(r"\.(write|delete|compute)\s*\(\s*conn\s*\)|::delete_all\s*\(", arm)
        if not calls and not guards:
            policy = "none"          # the arm executes no statement (Optimize)
        else:
            pol = set()
            for g in guards:
                blk, _ = block_after(arm, g.end() - 1) if arm[g.end() - 1] == "{" else block_after(arm, g.end())
                rb = re.search(r'conn\s*\.\s*execute\s*\(\s*"ROLLBACK"', blk) is not None
                ret = re.search(r"return\s+Err\s*\(\s*%s\s*\)" % re.escape(g.group(1)), blk) is not None
                if rb and ret and blk.index("ROLLBACK") < blk.index("return"): pol.add("rollbackReturn")
                elif ret: pol.add("returnOnly")
                else: pol.add("swallow")
            # a statement call outside any guard: `x.write(conn)?` returns without rollback; a bare call swallows
            unguarded = re.sub(r"if\s+let\s+Err[^{]+", "", arm)
            if len(guards) < len(calls):
                pol.add("returnOnly" if re.search(r"\(\s*conn\s*\)\s*\?|conn\s*\)\s*\?", unguarded) else "swallow")
            policy = pol.pop() if len(pol) == 1 else ("swallow" if "swallow" in pol else "returnOnly")
        marks = re.search(r"&mut\s+daily_log", arm) is not None
        per_item = re.search(r"\bfor\s+\w+\s+in\s+\w+", arm) is not None
        arms.append((name, policy, marks, per_item))
    if len(arms) < 5: raise ParseError("only %d arms found" % len(arms))
    # --- order of the steps
    def at(pat, what):
        m2 = re.search(pat, body)
        if not m2: raise ParseError(what + " not found")
        return m2
    begin = at(r'conn\s*\.\s*execute\s*\(\s*"BEGIN TRANSACTION"\s*,\s*\[\s*\]\s*\)\s*(\?)?', "BEGIN")
    tail = body[loop_end:]
    marks_m = re.search(r"daily_log\s*\.\s*write\s*\(\s*conn\s*\)\s*(\?)?", tail)
    commit_m = re.search(r'conn\s*\.\s*execute\s*\(\s*"COMMIT"\s*,\s*\[\s*\]\s*\)\s*(\?)?', tail)
    if not commit_m: raise ParseError("COMMIT after the loop not found")
    # transaction-control statements INSIDE the loop over the buffer (ROLLBACK on an error path is not one):
    # the whole buffer must be one transaction
    loop_txt = body[lm.start():loop_end]
    txn_in_loop = len(re.findall(r'"\s*(?:BEGIN|COMMIT|END|SAVEPOINT|RELEASE)\b', loop_txt, flags=re.I))
    marks_in_txn = marks_m is not None and marks_m.start() < commit_m.start() and begin.start() < lm.start()
    def followed_by_rollback(m2):
        """`stmt?` -> no rollback; `if let Err(e) = stmt { ROLLBACK; return Err }` -> rollback"""
        if m2 is None: return False
        if m2.group(1) == "?": return False
        pre = tail[max(0, m2.start() - 60):m2.start()]
        if re.search(r"if\s+let\s+Err\s*\(\s*\w+\s*\)\s*=\s*$", pre):
            blk, _ = block_after(tail, m2.end())
            return "ROLLBACK" in blk and "return" in blk
        if re.search(r"match\s*$", pre):
            blk, _ = block_after(tail, m2.end())
            return "ROLLBACK" in blk
        return False
    marks_rb = followed_by_rollback(marks_m)
    commit_rb = followed_by_rollback(commit_m)
    # --- fault points, in textual order, with their kind
    points = []
    for pm in re.finditer(r'(if\s+|let\s+_\s*=\s*)crate::verif_hooks::fault::hit\s*\(\s*"([^"]+)"\s*\)', body):
        points.append((pm.group(2), "fail" if pm.group(1).startswith("if") else "count", pm.start()))
    order = sorted([("BEGIN", begin.start()), ("loop", lm.start()),
                    ("marks", loop_end + marks_m.start() if marks_m else -1),
                    ("COMMIT", loop_end + commit_m.start())] + [("hook:" + n, p) for n, _, p in points],
                   key=lambda x: x[1])
    steps = [n for n, p in order if p >= 0]
    # --- acknowledgements in the writer thread
    tm = re.search(r"let\s+result\s*=\s*Self::process_batch_write\s*\(", s)
    if not tm: raise ParseError("writer thread call not found")
    mt = re.search(r"match\s+result\s*", s[tm.end():])
    if not mt: raise ParseError("match result not found")
    res_blk, _ = block_after(s, tm.end() + mt.end())
    okm = re.search(r"Ok\s*\(\s*_\s*\)\s*=>", res_blk)
    erm = re.search(r"Err\s*\(\s*\w+\s*\)\s*=>", res_blk)
    if not okm or not erm: raise ParseError("Ok/Err branches of the acknowledgement code not found")
    ok_blk, _ = block_after(res_blk, okm.end())
    err_blk, _ = block_after(res_blk, erm.end())
    sends = lambda b: len(re.findall(r"\.(?:send|blocking_send)\s*\(", b))
    ok_in_err = len(re.findall(r"(?:send|blocking_send)\s*\(\s*(?:\w+::\w+\s*\(\s*)?Ok\s*\(", err_blk))
    err_in_ok = len(re.findall(r"Err\s*\(", ok_blk))
    pre_ack = s[tm.start():tm.end() + mt.start()]
    ack_hook = re.search(r'fault::hit\s*\(\s*"batch\.before_ack"', pre_ack) is not None
    return dict(txn_in_loop=txn_in_loop, arms=arms, steps=steps, marks_in_txn=marks_in_txn, marks_rb=marks_rb, commit_rb=commit_rb,
                begin_q=begin.group(1) == "?", points=[(n, k) for n, k, _ in points], ack_hook=ack_hook,
                ok_sends=sends(ok_blk), err_sends=sends(err_blk), ok_in_err=ok_in_err, err_in_ok=err_in_ok)


def render(t):
    L = []
    L.append("/- GENERATED by /verif/translators/writer_table.py from /repo/src/database/sqlite_database.rs")
    L.append("   (process_batch_write and the writer thread). Do not edit: regenerated on every run of C13. -/")
    L.append("namespace Discret.Gen.WriterTable")
    L.append("")
    L.append("/-- what the arm does when one of its statement groups returns an error -/")
    L.append("inductive OnError where")
    L.append("  | rollbackReturn   -- `conn.execute(\"ROLLBACK\")?; return Err(e)`")
    L.append("  | returnOnly       -- the error is returned without a ROLLBACK")
    L.append("  | swallow          -- the error does not leave the function")
    L.append("  | none             -- the arm executes no statement")
    L.append("deriving Repr, DecidableEq")
    L.append("")
    L.append("structure Arm where")
    L.append("  name : String")
    L.append("  onError : OnError")
    L.append("  marks : Bool      -- feeds the batch's DailyMutations (daily-log marks)")
    L.append("  perItem : Bool    -- loops over a list of items")
    L.append("deriving Repr, DecidableEq")
    L.append("")
    L.append("def arms : List Arm := [" + ("" if t["arms"] else "]"))
    if t["arms"]: L.append(",\n".join('  { name := "%s", onError := .%s, marks := %s, perItem := %s }' % (n, p, lean_bool(m), lean_bool(i))
                        for n, p, m, i in t["arms"]))
    if t["arms"]: L.append("]")
    L.append("")
    L.append("/-- textual order of the steps of process_batch_write -/")
    L.append("def steps : List String := [" + ", ".join('"%s"' % x for x in t["steps"]) + "]")
    L.append("")
    L.append("/-- the marks write sits between BEGIN and COMMIT -/")
    L.append("def marksInTransaction : Bool := " + lean_bool(t["marks_in_txn"]))
    L.append("/-- BEGIN / COMMIT / END / SAVEPOINT / RELEASE statements inside the loop over the buffer -/")
    L.append("def txnControlInLoop : Nat := %d" % t.get("txn_in_loop", 1))
    L.append("/-- a failure of the marks write is followed by a ROLLBACK -/")
    L.append("def marksFailureRollsBack : Bool := " + lean_bool(t["marks_rb"]))
    L.append("/-- a failure of COMMIT is followed by a ROLLBACK -/")
    L.append("def commitFailureRollsBack : Bool := " + lean_bool(t["commit_rb"]))
    L.append("/-- `BEGIN TRANSACTION` is executed with `?` (its failure returns at once) -/")
    L.append("def beginFailureReturns : Bool := " + lean_bool(t["begin_q"]))
    L.append("")
    L.append("/-- fault points of process_batch_write in textual order: (name, \"fail\" = can inject an error | \"count\" = crash/count only) -/")
    L.append("def faultPoints : List (String × String) := [" + ", ".join('("%s", "%s")' % p for p in t["points"]) + "]")
    L.append("/-- the writer thread has the `batch.before_ack` point between the batch and the replies -/")
    L.append("def ackPoint : Bool := " + lean_bool(t["ack_hook"]))
    L.append("")
    L.append("/-- writer thread: number of replies in the Ok branch / in the Err branch of `match result` -/")
    L.append("def okBranchReplies : Nat := %d" % t["ok_sends"])
    L.append("def errBranchReplies : Nat := %d" % t["err_sends"])
    L.append("/-- replies carrying `Ok(` inside the Err branch, `Err(` inside the Ok branch -/")
    L.append("def okRepliesInErrBranch : Nat := %d" % t["ok_in_err"])
    L.append("def errRepliesInOkBranch : Nat := %d" % t["err_in_ok"])
    L.append("")
    L.append("end Discret.Gen.WriterTable")
    return "\n".join(L) + "\n"


def main():
    out = sys.argv[1] if len(sys.argv) > 1 else OUT
    try:
        t = parse(open(SRC).read())
    except (ParseError, ValueError, OSError) as e:
        # the obligations that depend on the table must not keep checking against a stale table:
        # write an empty one (every `decide`d table fact of Props/C13.lean then fails) and report
        sys.stderr.write("writer_table.py: cannot read %s: %s\n" % (SRC, e))
        t = dict(arms=[], steps=["TRANSLATOR FAILED: %s" % str(e).replace('"', "'")], marks_in_txn=False, marks_rb=False,
                 commit_rb=False, begin_q=False, points=[], ack_hook=False, ok_sends=0, err_sends=0, ok_in_err=1, err_in_ok=1)
        with open(out, "w") as f: f.write(render(t))
        return 1
    txt = render(t)
    old = open(out).read() if os.path.exists(out) else None
    if old != txt:
        os.makedirs(os.path.dirname(out), exist_ok=True)
        with open(out + ".tmp", "w") as f: f.write(txt)
        os.replace(out + ".tmp", out)
    print("writer_table.py: %d arms, steps=%s%s" % (len(t["arms"]), ",".join(t["steps"]), "" if old == txt else " (regenerated)"))
    return 0


if __name__ == "__main__":
    sys.exit(main())
