#!/usr/bin/env python3
"""T6: src/database/system_entities.rs + data_model_parser.rs  ->  Gen/Consts.lean

Regenerates, from the source text:
  * RESERVED_SHORT_NAMES, the keys of SYSTEM_FIELDS (with "may be indexed", from their FieldType);
  * SYSTEM_DATA_MODEL as an AST (`Discret.DM.Version`);
  * every `*_ENT` / `*_ENT_SHORT` pair and every `*_SHORT` field constant, with the (entity, field) it
    denotes. Field constants that carry no field name (`USER_ENABLED_SHORT`) are mapped through NAMED
    below; a constant that is neither paired nor listed there is emitted into `unmappedConsts`, and the
    obligation `unmappedConsts = []` of Props/C15.lean fails.
Props/C15.lean proves (by `decide`) that positional assignment over the regenerated AST yields exactly
the regenerated constants: inserting a field in the middle of a system entity, or reordering entities,
breaks the proof."""
import re, sys, os
sys.path.insert(0, os.path.dirname(os.path.abspath(__file__)))
from common import *

SE = "src/database/system_entities.rs"
DMP = "src/database/query_language/data_model_parser.rs"

# constants without a companion name constant: const -> (entity, field)
NAMED = {
    "USER_VERIFYING_KEY_SHORT": ("UserAuth", "verif_key"),
    "USER_ENABLED_SHORT": ("UserAuth", "enabled"),
    "RIGHT_ENTITY_SHORT": ("EntityRight", "entity"),
    "RIGHT_MUTATE_SELF_SHORT": ("EntityRight", "mutate_self"),
    "RIGHT_MUTATE_ALL_SHORT": ("EntityRight", "mutate_all"),
    "PEER_PUB_KEY_SHORT": ("Peer", "pub_key"),
    "PEER_NAME_SHORT": ("Peer", "name"),
    "ALLOWED_PEER_PEER_SHORT": ("AllowedPeer", "peer"),
    "ALLOWED_PEER_TOKEN_SHORT": ("AllowedPeer", "meeting_token"),
    "ALLOWED_PEER_STATUS_SHORT": ("AllowedPeer", "status"),
    "ALLOWED_HARDWARE_NAME_SHORT": ("AllowedHardware", "name"),
    "ALLOWED_HARDWARE_STATUS_SHORT": ("AllowedHardware", "status"),
}
# companion pairs NAME_FIELD / NAME_FIELD_SHORT: prefix -> entity
FIELD_PREFIX = {"ROOM_": "Room", "AUTH_": "Authorisation"}
# *_ENT_SHORT constants whose *_ENT companion is commented out in the source
ENT_NAMED = {"ALLOWED_PEER_ENT_SHORT": "AllowedPeer", "ALLOWED_HARDWARE_ENT_SHORT": "AllowedHardware"}


# ------------------------------------------------------------------ data-model text -> AST
def tokenize(text):
    toks, i, n = [], 0, len(text)
    while i < n:
        c = text[i]
        if c in " \t\r\n": i += 1
        elif text.startswith("//", i):
            while i < n and text[i] != "\n": i += 1
        elif c == '"':
            j = i + 1; buf = []
            while j < n and text[j] != '"':
                if text[j] == "\\" and j + 1 < n:
                    buf.append(text[j:j + 2]); j += 2
                else:
                    buf.append(text[j]); j += 1
            toks.append(("str", "".join(buf).replace('\\"', '"'))); i = j + 1
        elif c in "{}()[]:,":
            toks.append((c, c)); i += 1
        elif c == "@":
            m = re.match(r"@deprecated", text[i:], re.I)
            if not m: raise TranslateError("unexpected '@' in data model text")
            toks.append(("dep", "@deprecated")); i += len(m.group(0))
        else:
            m = re.match(r"-?\d+\.\d*(?:[eE][+-]?\d+)?", text[i:])
            if m and not re.match(r"[\w.]", text[i + len(m.group(0)):i + len(m.group(0)) + 1] or " "):
                toks.append(("float", m.group(0))); i += len(m.group(0)); continue
            m = re.match(r"-\d+", text[i:])
            if m:
                toks.append(("int", m.group(0))); i += len(m.group(0)); continue
            m = re.match(r"[\w.]+", text[i:])
            if not m: raise TranslateError("cannot tokenize data model text at: " + text[i:i + 20])
            toks.append(("id", m.group(0))); i += len(m.group(0))
    return toks


SCALARS = {"boolean": "bool", "float": "float", "integer": "int", "string": "str", "base64": "b64", "json": "json"}


class P:
    def __init__(self, toks): self.t, self.i = toks, 0
    def peek(self): return self.t[self.i] if self.i < len(self.t) else ("eof", "")
    def next(self):
        x = self.peek(); self.i += 1; return x
    def expect(self, k):
        x = self.next()
        if x[0] != k: raise TranslateError("data model text: expected %s, found %s" % (k, x))
        return x[1]

    def datamodel(self):
        nss = []
        while self.peek()[0] != "eof":
            name = ""
            if self.peek()[0] == "id": name = self.next()[1].lower()
            self.expect("{")
            ents = []
            while self.peek()[0] != "}": ents.append(self.entity())
            self.expect("}")
            nss.append((name, ents))
        return nss

    def entity(self):
        dep = False
        if self.peek()[0] == "dep": self.next(); dep = True
        name = self.expect("id")
        full_text = True
        if self.peek()[0] == "(":
            self.next()
            while self.peek()[0] != ")":
                x = self.next()
                if x == ("id", "no_full_text_index"): full_text = False
                elif x[0] != ",": raise TranslateError("unknown entity parameter %s" % (x,))
            self.next()
        self.expect("{")
        fields, indexes = [], []
        while self.peek()[0] != "}":
            if self.peek()[0] == ",": self.next(); continue
            if self.peek() == ("id", "index") or (self.peek()[0] == "id" and self.peek()[1].lower() == "index"
                                                   and self.t[self.i + 1][0] == "("):
                self.next(); self.expect("(")
                ix = []
                while self.peek()[0] != ")":
                    x = self.next()
                    if x[0] == "id": ix.append(x[1])
                self.next(); indexes.append(ix)
            else:
                fields.append(self.field())
        self.expect("}")
        return dict(name=name, dep=dep, full_text=full_text, fields=fields, indexes=indexes)

    def field(self):
        dep = False
        if self.peek()[0] == "dep": self.next(); dep = True
        name = self.expect("id"); self.expect(":")
        nullable, dflt = False, None
        if self.peek()[0] == "[":
            self.next(); target = self.expect("id"); self.expect("]")
            ty = ("arr", target)
        else:
            t = self.expect("id")
            ty = (SCALARS[t.lower()],) if t.lower() in SCALARS else ("ent", t)
        if self.peek()[0] == "id" and self.peek()[1].lower() == "nullable":
            self.next(); nullable = True
        elif self.peek()[0] == "id" and self.peek()[1].lower() == "default":
            self.next(); k, v = self.next()
            if k == "id" and v.lower() in ("true", "false"): dflt = ("bool", v.lower())
            elif k == "id" and re.fullmatch(r"\d+", v): dflt = ("int", v)
            elif k == "int": dflt = ("int", v)
            elif k == "float": dflt = ("float", v)
            elif k == "str": dflt = ("str", v)
            else: raise TranslateError("unsupported default value %s" % ((k, v),))
        return dict(name=name, dep=dep, ty=ty, nullable=nullable, dflt=dflt)


def name_cls(name, is_field):
    if is_field and name.startswith("_"): return ".underscore"
    if name.lower() in SCALARS: return ".reserved"
    return ".ok"


def lean_type(ty):
    if ty[0] in ("ent", "arr"):
        parts = ty[1].split(".")
        ns, name = (parts[0].lower(), parts[1]) if len(parts) == 2 else ("", ty[1])
        return "(.%s %s %s)" % (ty[0], lean_str(ns), lean_str(name))
    return "." + ty[0]


def lean_dflt(d):
    if d is None: return "none"
    return "(some { kind := .%s, tok := %s })" % (d[0], lean_str(d[1]))


def lean_version(nss, ind="  "):
    out = ["["]
    for i, (ns, ents) in enumerate(nss):
        out.append(ind + "{ name := %s, ents := [" % lean_str(ns))
        for j, e in enumerate(ents):
            out.append(ind + "    { name := %s, cls := %s, deprecated := %s, fullText := %s," % (
                lean_str(e["name"]), name_cls(e["name"], False), lean_bool(e["dep"]), lean_bool(e["full_text"])))
            out.append(ind + "      fields := [")
            for k, f in enumerate(e["fields"]):
                out.append(ind + "        { name := %s, cls := %s, ty := %s, nullable := %s, dflt := %s, deprecated := %s }%s" % (
                    lean_str(f["name"]), name_cls(f["name"], True), lean_type(f["ty"]), lean_bool(f["nullable"]),
                    lean_dflt(f["dflt"]), lean_bool(f["dep"]), "," if k + 1 < len(e["fields"]) else ""))
            out.append(ind + "      ],")
            out.append(ind + "      indexes := [%s] }%s" % (
                ", ".join("[" + ", ".join(lean_str(x) for x in ix) + "]" for ix in e["indexes"]),
                "," if j + 1 < len(ents) else ""))
        out.append(ind + "  ] }%s" % ("," if i + 1 < len(nss) else ""))
    out.append("]")
    return "\n".join(out)


# ------------------------------------------------------------------ rust constants
def generate(repo):
    se = strip_rust_comments(read(repo, SE))
    dmp = strip_rust_comments(read(repo, DMP))

    consts = dict(re.findall(r'pub\s+const\s+(\w+)\s*:\s*&str\s*=\s*"([^"]*)"\s*;', se))
    m = re.search(r'pub\s+const\s+SYSTEM_DATA_MODEL\s*:\s*&str\s*=\s*r(#*)"(.*?)"\1\s*;', se, re.S)
    if not m: raise TranslateError("SYSTEM_DATA_MODEL not found in " + SE)
    sys_text = m.group(2)
    nss = P(tokenize(sys_text)).datamodel()

    m = re.search(r"pub\s+const\s+RESERVED_SHORT_NAMES\s*:\s*usize\s*=\s*(\d+)\s*;", dmp)
    if not m: raise TranslateError("RESERVED_SHORT_NAMES not found in " + DMP)
    reserved = int(m.group(1))

    sysns = consts.get("SYSTEM_NAMESPACE")
    if sysns is None: raise TranslateError("SYSTEM_NAMESPACE not found")

    # SYSTEM_FIELDS: fields.insert(X_FIELD.to_string(), Field { … field_type: FieldType::T(..) … })
    m = re.search(r"pub\s+static\s+ref\s+SYSTEM_FIELDS\b(.*?)\n\s*fields\s*\n", dmp, re.S)
    body = m.group(1) if m else None
    if body is None:
        m = re.search(r"pub\s+static\s+ref\s+SYSTEM_FIELDS\b(.*?)pub\s+const\s+RESERVED_SHORT_NAMES", dmp, re.S)
        if not m: raise TranslateError("SYSTEM_FIELDS not found in " + DMP)
        body = m.group(1)
    sysfields = []
    for fm in re.finditer(r"fields\s*\.\s*insert\s*\(\s*(\w+)\s*\.to_string\(\)\s*,\s*Field\s*\{(.*?)\}\s*,?\s*\)\s*;", body, re.S):
        cname, fbody = fm.group(1), fm.group(2)
        if cname not in consts: raise TranslateError("SYSTEM_FIELDS key %s is not a constant of %s" % (cname, SE))
        tm = re.search(r"field_type\s*:\s*FieldType::(\w+)", fbody)
        if not tm: raise TranslateError("no field_type for system field " + cname)
        sysfields.append((consts[cname], tm.group(1) not in ("Entity", "Array", "Json")))
    if not sysfields: raise TranslateError("SYSTEM_FIELDS: no entry recognised")

    # entity constants
    ent_consts, field_consts, unmapped = [], [], []
    for k, v in consts.items():
        if k.endswith("_ENT_SHORT"):
            base = k[:-len("_SHORT")]
            if base in consts:
                full = consts[base]
                ns, _, name = full.partition(".")
                ent_consts.append((ns, name, v))
            elif k in ENT_NAMED:
                ent_consts.append((sysns, ENT_NAMED[k], v))
            else:
                unmapped.append(k)
        elif k.endswith("_FIELD_SHORT"):
            base = k[:-len("_SHORT")]
            pref = [p for p in FIELD_PREFIX if k.startswith(p)]
            if base in consts and pref:
                field_consts.append((FIELD_PREFIX[pref[0]], consts[base], v))
            else:
                unmapped.append(k)
        elif k.endswith("_SHORT"):
            if k in NAMED: field_consts.append((NAMED[k][0], NAMED[k][1], v))
            else: unmapped.append(k)
    for c in field_consts:
        if not re.fullmatch(r"\d+", c[2]): raise TranslateError("field short constant is not a number: %s" % (c,))

    L = []
    L.append("import DiscretModel.Model.DataModel")
    L.append("/-! GENERATED by translators/t6_consts.py from %s and %s — do not edit. -/" % (SE, DMP))
    L.append("namespace Discret.Gen")
    L.append("open Discret.DM")
    L.append("")
    L.append("def reservedShortNames : Nat := %d" % reserved)
    L.append("def systemNamespace : String := %s" % lean_str(sysns))
    L.append("/-- keys of SYSTEM_FIELDS, with `true` when the field's type may appear in an index -/")
    L.append("def systemFieldNames : List (String × Bool) := [%s]" % ", ".join(
        "(%s, %s)" % (lean_str(a), lean_bool(b)) for a, b in sysfields))
    L.append("/-- SYSTEM_DATA_MODEL -/")
    L.append("def sysVersion : Version := " + lean_version(nss))
    L.append("/-- (namespace, entity, `*_ENT_SHORT` split into namespace id and entity number) -/")
    ent_struct = []
    for a, b, c in ent_consts:
        mm = re.fullmatch(r"(\d+)\.(\d+)", c)
        if not mm: raise TranslateError("entity short constant is not of the form <ns>.<k>: %s" % ((a, b, c),))
        ent_struct.append((a, b, int(mm.group(1)), int(mm.group(2))))
    L.append("def entityShortConsts : List (String × String × Nat × Nat) := [%s]" % ", ".join(
        "(%s, %s, %d, %d)" % (lean_str(a), lean_str(b), c, k) for a, b, c, k in ent_struct))
    L.append("/-- (entity of the system namespace, field, `*_SHORT`) -/")
    L.append("def fieldShortConsts : List (String × String × Nat) := [%s]" % ", ".join(
        "(%s, %s, %s)" % (lean_str(a), lean_str(b), c) for a, b, c in field_consts))
    L.append("/-- `*_SHORT` constants the translator could not attach to an entity/field -/")
    L.append("def unmappedConsts : List String := [%s]" % ", ".join(lean_str(x) for x in unmapped))
    L.append("")
    L.append("end Discret.Gen")
    return "\n".join(L) + "\n"


def main(repo="/repo"):
    return write_if_changed("Consts.lean", generate(repo))


if __name__ == "__main__":
    changed = main(sys.argv[1] if len(sys.argv) > 1 else "/repo")
    print("Gen/Consts.lean %s" % ("regenerated" if changed else "unchanged"))
