#!/usr/bin/env python3
"""T3: src/database/query_language/*.pest  ->  Gen/Grammar.lean  (+ Gen/GrammarUnicode.lean)

Each .pest file becomes a `Discret.Peg.Grammar` table for the generic PEG interpreter of
`Model/Peg.lean`. Rule references are resolved to indices; the built-ins the grammars use are mapped to
interpreter primitives; anything the translator does not know (stack operations, unknown built-ins,
a rule used but not defined) raises TranslateError. The Unicode general categories L* and N* (pest's
LETTER / NUMBER) are emitted as code point ranges computed with python's `unicodedata`.
"""
import os, re, sys, unicodedata
sys.path.insert(0, os.path.dirname(os.path.abspath(__file__)))
from common import *

DIR = "src/database/query_language"
GRAMMARS = [("dataModel", "data_model.pest", "datamodel"), ("query", "query.pest", "query"),
            ("mutation", "mutation.pest", "mutation"), ("deletion", "deletion.pest", "deletion")]


# ------------------------------------------------------------------ pest meta-syntax
def tokenize(src):
    toks, i, n = [], 0, len(src)
    while i < n:
        c = src[i]
        if c in " \t\r\n": i += 1
        elif src.startswith("//", i):
            while i < n and src[i] != "\n": i += 1
        elif src.startswith("/*", i):
            j = src.find("*/", i + 2)
            if j < 0: raise TranslateError("unterminated block comment")
            i = j + 2
        elif c == '"':
            j, buf = i + 1, []
            while j < n and src[j] != '"':
                if src[j] == "\\":
                    e = src[j + 1]
                    if e == "n": buf.append("\n"); j += 2
                    elif e == "r": buf.append("\r"); j += 2
                    elif e == "t": buf.append("\t"); j += 2
                    elif e == "0": buf.append("\0"); j += 2
                    elif e in "\\\"'": buf.append(e); j += 2
                    elif e == "x": buf.append(chr(int(src[j + 2:j + 4], 16))); j += 4
                    elif e == "u":
                        k = src.index("}", j)
                        buf.append(chr(int(src[j + 3:k], 16))); j = k + 1
                    else: raise TranslateError("unknown escape \\%s" % e)
                else:
                    buf.append(src[j]); j += 1
            if j >= n: raise TranslateError("unterminated string")
            toks.append(("str", "".join(buf))); i = j + 1
        elif c == "'":
            m = re.match(r"'(\\.|[^\\'])'", src[i:])
            if not m: raise TranslateError("bad char literal at %r" % src[i:i + 10])
            ch = m.group(1)
            if ch.startswith("\\"):
                ch = {"n": "\n", "r": "\r", "t": "\t", "\\": "\\", "'": "'", '"': '"', "0": "\0"}.get(ch[1])
                if ch is None: raise TranslateError("unknown char escape")
            toks.append(("chr", ch)); i += len(m.group(0))
        elif src.startswith("..", i):
            toks.append(("..", "..")); i += 2
        elif c in "={}()|~!&?*+^_@$,":
            if c == "_" and re.match(r"_\w", src[i:]):      # identifier starting with '_'
                m = re.match(r"\w+", src[i:]); toks.append(("id", m.group(0))); i += len(m.group(0))
            else:
                toks.append((c, c)); i += 1
        elif c.isdigit():
            m = re.match(r"\d+", src[i:]); toks.append(("num", int(m.group(0)))); i += len(m.group(0))
        elif c.isalpha():
            m = re.match(r"\w+", src[i:]); toks.append(("id", m.group(0))); i += len(m.group(0))
        else:
            raise TranslateError("unexpected character %r in grammar" % c)
    return toks


class P:
    def __init__(self, toks): self.t, self.i = toks, 0
    def peek(self, k=0): return self.t[self.i + k] if self.i + k < len(self.t) else ("eof", None)
    def next(self):
        x = self.peek(); self.i += 1; return x
    def expect(self, k):
        x = self.next()
        if x[0] != k: raise TranslateError("grammar: expected %r, found %r" % (k, x))
        return x[1]

    def rules(self):
        res = []
        while self.peek()[0] != "eof":
            name = self.expect("id"); self.expect("=")
            mod = "normal"
            if self.peek()[0] in "_@$!":
                mod = {"_": "normal", "@": "atomic", "$": "atomic", "!": "nonAtomic"}[self.next()[0]]
            self.expect("{"); e = self.expr(); self.expect("}")
            res.append((name, mod, e))
        return res

    def expr(self):
        if self.peek()[0] == "|": self.next()       # leading bar is allowed
        e = self.seq()
        alts = [e]
        while self.peek()[0] == "|":
            self.next(); alts.append(self.seq())
        r = alts[-1]
        for a in reversed(alts[:-1]): r = ("alt", a, r)
        return r

    def seq(self):
        items = [self.prefixed()]
        while self.peek()[0] == "~":
            self.next(); items.append(self.prefixed())
        r = items[-1]
        for a in reversed(items[:-1]): r = ("seq", a, r)
        return r

    def prefixed(self):
        if self.peek()[0] == "!": self.next(); return ("neg", self.prefixed())
        if self.peek()[0] == "&": self.next(); return ("pos", self.prefixed())
        return self.postfixed()

    def postfixed(self):
        e = self.primary()
        while True:
            k = self.peek()[0]
            if k == "?": self.next(); e = ("opt", e)
            elif k == "*": self.next(); e = ("star", e)
            elif k == "+": self.next(); e = ("plus", e)
            elif k == "{" and self.peek(1)[0] in ("num", ","):
                self.next()
                lo = hi = None
                if self.peek()[0] == "num": lo = self.next()[1]
                if self.peek()[0] == ",":
                    self.next()
                    if self.peek()[0] == "num": hi = self.next()[1]
                    rng = True
                else:
                    rng = False
                self.expect("}")
                if not rng:                       # e{n}: n copies in sequence
                    if lo is None or lo < 1: raise TranslateError("unsupported repetition count")
                    r = e
                    for _ in range(lo - 1): r = ("seq", e, r)
                    e = r
                else:
                    lo = lo or 0
                    if hi is None:                # e{n,}
                        r = ("star", e)
                        for _ in range(lo): r = ("seq", e, r)
                        e = r
                    else:                         # e{n,m}
                        r = None
                        for _ in range(hi - lo): r = ("opt", e if r is None else ("seq", e, r))
                        for _ in range(lo): r = e if r is None else ("seq", e, r)
                        if r is None: raise TranslateError("empty repetition")
                        e = r
            else:
                return e

    def primary(self):
        k, v = self.next()
        if k == "(":
            e = self.expr(); self.expect(")"); return e
        if k == "str": return ("str", v)
        if k == "^":
            return ("istr", self.expect("str"))
        if k == "chr":
            self.expect(".."); hi = self.expect("chr"); return ("range", v, hi)
        if k == "id":
            if v in ("PUSH", "POP", "PEEK", "POP_ALL", "PEEK_ALL", "DROP"):
                raise TranslateError("stack operation %s is not supported by the PEG model" % v)
            return ("id", v)
        raise TranslateError("grammar: unexpected token %r" % ((k, v),))


BUILTINS = {
    "ANY": ".any", "SOI": ".soi", "EOI": ".eoi",
    "LETTER": "(.cls .letter)", "NUMBER": "(.cls .number)",
    "ASCII_DIGIT": "(.range '0' '9')", "ASCII_NONZERO_DIGIT": "(.range '1' '9')",
    "ASCII_ALPHA_LOWER": "(.range 'a' 'z')", "ASCII_ALPHA_UPPER": "(.range 'A' 'Z')",
    "ASCII_HEX_DIGIT": "(.alt (.range '0' '9') (.alt (.range 'a' 'f') (.range 'A' 'F')))",
    "ASCII_ALPHA": "(.alt (.range 'a' 'z') (.range 'A' 'Z'))",
    "ASCII_ALPHANUMERIC": "(.alt (.range '0' '9') (.alt (.range 'a' 'z') (.range 'A' 'Z')))",
    "NEWLINE": "(.alt (.str ['\\n']) (.alt (.str ['\\r', '\\n']) (.str ['\\r'])))",
}


def lean_char(c):
    o = ord(c)
    if c == "\n": return "'\\n'"
    if c == "\t": return "'\\t'"
    if c == "\r": return "'\\r'"
    if c == "\\": return "'\\\\'"
    if c == "'": return "'\\''"
    if 32 <= o < 127: return "'%s'" % c
    return "(Char.ofNat 0x%x)" % o


def lean_chars(s):
    return "[" + ", ".join(lean_char(c) for c in s) + "]"


def lean_expr(e, index):
    k = e[0]
    if k == "str": return "(.str %s)" % lean_chars(e[1])
    if k == "istr": return "(.istr %s)" % lean_chars(e[1])
    if k == "range": return "(.range %s %s)" % (lean_char(e[1]), lean_char(e[2]))
    if k == "id":
        if e[1] in index: return "(.call %d)" % index[e[1]]
        if e[1] in BUILTINS: return BUILTINS[e[1]]
        raise TranslateError("rule or built-in %s is not known to the translator" % e[1])
    if k in ("seq", "alt"): return "(.%s %s %s)" % (k, lean_expr(e[1], index), lean_expr(e[2], index))
    if k in ("opt", "star", "plus", "neg", "pos"): return "(.%s %s)" % (k, lean_expr(e[1], index))
    raise TranslateError("unknown expression node %s" % k)


def category_ranges(prefix):
    res, start, prev = [], None, None
    for cp in range(0x110000):
        if 0xD800 <= cp <= 0xDFFF:
            inside = False
        else:
            inside = unicodedata.category(chr(cp)).startswith(prefix)
        if inside:
            if start is None: start = cp
            prev = cp
        elif start is not None:
            res.append((start, prev)); start = None
    if start is not None: res.append((start, prev))
    return res


def generate(repo):
    L = ["import DiscretModel.Model.Peg",
         "import DiscretModel.Gen.GrammarUnicode",
         "/-! GENERATED by translators/t3_grammar.py from %s/*.pest — do not edit. -/" % DIR,
         "namespace Discret.Gen", "open Discret.Peg", ""]
    for lname, fname, top in GRAMMARS:
        rules = P(tokenize(read(repo, os.path.join(DIR, fname)))).rules()
        index = {}
        for i, (name, _, _) in enumerate(rules):
            if name in index: raise TranslateError("rule %s defined twice in %s" % (name, fname))
            index[name] = i
        if top not in index: raise TranslateError("top rule %s not found in %s" % (top, fname))
        L.append("/-- %s (rule indices: %s) -/" % (fname, ", ".join("%d=%s" % (i, n) for n, i in sorted(index.items(), key=lambda x: x[1]))))
        L.append("def %sGrammar : Grammar :=" % lname)
        L.append("  { rules := [")
        for i, (name, mod, e) in enumerate(rules):
            L.append("      { name := %s, ty := .%s, body := %s }%s" % (lean_str(name), mod, lean_expr(e, index), "," if i + 1 < len(rules) else ""))
        L.append("    ],")
        L.append("    ws := %s, comment := %s," % (("some %d" % index["WHITESPACE"]) if "WHITESPACE" in index else "none",
                                                  ("some %d" % index["COMMENT"]) if "COMMENT" in index else "none"))
        L.append("    letter := letterRanges, number := numberRanges }")
        L.append("def %sTop : Nat := %d" % (lname, index[top]))
        for special in ("identifier", "namespace_entity"):
            if special in index: L.append("def %s_%s : Nat := %d" % (lname, special, index[special]))
        L.append("")
    L.append("end Discret.Gen")
    U = ["/-! GENERATED by translators/t3_grammar.py (python unicodedata %s) — do not edit. -/" % unicodedata.unidata_version,
         "namespace Discret.Gen", "",
         "/-- Unicode general category L* (pest LETTER), inclusive code point ranges -/",
         "def letterRanges : List (Nat × Nat) := [%s]" % ", ".join("(%d, %d)" % r for r in category_ranges("L")),
         "/-- Unicode general category N* (pest NUMBER) -/",
         "def numberRanges : List (Nat × Nat) := [%s]" % ", ".join("(%d, %d)" % r for r in category_ranges("N")),
         "", "end Discret.Gen"]
    return "\n".join(L) + "\n", "\n".join(U) + "\n"


def main(repo="/repo"):
    g, u = generate(repo)
    a = write_if_changed("GrammarUnicode.lean", u)
    b = write_if_changed("Grammar.lean", g)
    return a or b


if __name__ == "__main__":
    changed = main(sys.argv[1] if len(sys.argv) > 1 else "/repo")
    print("Gen/Grammar.lean %s" % ("regenerated" if changed else "unchanged"))
