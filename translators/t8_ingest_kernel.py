#!/usr/bin/env python3
"""T8: src/database/authorisation_service.rs  ->  Gen/IngestKernel.lean

Translates, statement by statement, the three pure validators that decide what synchronisation may store:
  RoomAuthorisations::validate_node            (rows)
  RoomAuthorisations::validate_node_deletions  (row deletion records)
  RoomAuthorisations::validate_edge_deletions  (reference deletion records)
into Lean definitions over the structures of Model/IngestKernelTypes.lean (the fields these functions read)
and the regenerated room kernel of T7 (`Room_can`). Lemmas/IngestKernelEq.lean proves them equal to the
decisions of the hand-written ingestion model (Model/Ingest.lean) that C02 and C12 are proved about.

Idioms read (beyond those of T7): `let x = match e { Some(n) => n, None => return r };`, a `match` statement
with returning arms, `if x.is_none() { return r; } … x.unwrap()` (read as one `match x`; an `unwrap()` that is
not dominated by such a guard on the same expression is refused, so no partial function is invented),
`match b { true => …, false => … }`, and the collect loop
`let mut result = Vec::new(); for entry in xs { …; if c { continue; } …; if valid { result.push(v); } } result`
(read as `filterMap`)."""
import os, re, sys
sys.path.insert(0, os.path.dirname(os.path.abspath(__file__)))
from common import *
import rustmini
import t7_room_kernel as t7

SRC = "src/database/authorisation_service.rs"
T8_TYPES = {"Node": "Node", "NodeToInsert": "NodeToInsert", "NodeDeletionEntry": "NodeDeletionEntry",
            "EdgeDeletionEntry": "EdgeDeletionEntry", "RoomAuthorisations": "RoomAuthorisations"}
WANTED = {"RoomAuthorisations": ["validate_node", "validate_node_deletions", "validate_edge_deletions"]}
# the fields of each structure that the types file declares (name -> lean type text); checked against the Rust structs
DECLARED = {
    "Node": {"room_id": "Option<Uid>", "verifying_key": "Vec<u8>", "mdate": "i64", "_entity": "String"},
    "NodeToInsert": {"node": "Option<Node>", "entity_name": "Option<String>", "old_room_id": "Option<Uid>",
                     "old_entity": "Option<String>", "old_mdate": "i64", "old_verifying_key": "Option<Vec<u8>>"},
    "NodeDeletionEntry": {"room_id": "Uid", "id": "Uid", "mdate": "i64", "deletion_date": "i64",
                          "verifying_key": "Vec<u8>", "entity_name": "Option<String>"},
    "EdgeDeletionEntry": {"room_id": "Uid", "src": "Uid", "dest": "Uid", "cdate": "i64", "deletion_date": "i64",
                          "verifying_key": "Vec<u8>", "entity_name": "Option<String>"},
    "RoomAuthorisations": {"rooms": "HashMap<Uid,Room>", "max_node_size": "u64"},
}
STRUCT_FILES = {"Node": "src/database/node.rs", "NodeToInsert": "src/database/node.rs",
                "NodeDeletionEntry": "src/database/node.rs", "EdgeDeletionEntry": "src/database/edge.rs",
                "RoomAuthorisations": SRC}

_t7_ty = t7.ty_of_text


def ty_of_text(t):
    t0 = t.replace(" ", "").lstrip("&")
    if t0.startswith("mut"): t0 = t0[3:]
    if t0 == "u64": return "Nat"
    if t0 in T8_TYPES: return T8_TYPES[t0]
    m = re.match(r"Vec<\((\w+),Option<Vec<u8>>\)>$", t0)
    if m: return ("list", ("pair", T8_TYPES[m.group(1)], ("opt", "Key")))
    m = re.match(r"HashMap<Uid,\((\w+),Option<Vec<u8>>\)>$", t0)
    if m: return ("hmpairs", ("pair", "Id", ("pair", T8_TYPES[m.group(1)], ("opt", "Key"))))
    m = re.match(r"Vec<(\w+)>$", t0)
    if m and m.group(1) in T8_TYPES: return ("list", T8_TYPES[m.group(1)])
    m = re.match(r"Option<(.+)>$", t0)
    if m: return ("opt", ty_of_text(m.group(1)))
    return _t7_ty(t)


def lean_ty(t, selfty):
    if isinstance(t, tuple):
        if t[0] == "list": return "List " + paren(lean_ty(t[1], selfty))
        if t[0] == "pair": return "%s × %s" % (paren(lean_ty(t[1], selfty)), paren(lean_ty(t[2], selfty)))
        if t[0] == "opt": return "Option " + paren(lean_ty(t[1], selfty))
        if t[0] == "hmpairs": return "List " + paren(lean_ty(t[1], selfty))
    return _t7_lean_ty(t, selfty)


def paren(s): return "(" + s + ")" if " " in s else s


_t7_lean_ty = t7.lean_ty


def canon(e):
    """canonical text of a place expression, ignoring & and .clone()"""
    while e[0] in ("ref", "deref") or (e[0] == "mcall" and e[2] == "clone"): e = e[1]
    if e[0] == "id": return e[1]
    if e[0] == "field":
        c = canon(e[1])
        return None if c is None else c + "." + e[2]
    return None


class Emit8(t7.Emit):
    wanted = WANTED
    src = SRC

    def __init__(self, parsed, struct_defs):
        t7.TYPES.update(T8_TYPES)
        t7.ty_of_text = ty_of_text
        t7.lean_ty = lean_ty
        self.parsed = parsed
        self.structs = {}
        # T7's structures (Room …) keep their view; T8's are read from the Rust definitions, restricted to DECLARED
        for name, fields in DECLARED.items():
            rust = dict(struct_defs.get(name, []))
            if not rust: raise TranslateError("struct %s not found in %s" % (name, STRUCT_FILES[name]))
            d = {}
            for f, want in fields.items():
                got = rust.get(f)
                if got is None: raise TranslateError("%s has no field `%s` any more" % (name, f))
                if got.replace(" ", "") != want: raise TranslateError("%s.%s has type %s, the types file declares %s" % (name, f, got, want))
                d[f] = ("hm", "Room") if want == "HashMap<Uid,Room>" else ty_of_text(want)
            self.structs[name] = d
        self.keyfield = {}
        self.ret = {("Room", "can"): "Bool"}
        for t, fns in self.wanted.items():
            for f in fns:
                d = self.fn(t, f)
                self.ret[(t7.TYPES[t], f)] = ty_of_text(d["ret"]) if d["ret"] else None
        self.unwrapped = {}

    # ------------------------------------------------------------------ types
    def typeof(self, e, env):
        k = e[0]
        if k == "mcall":
            recv, m = e[1], e[2]
            t = self.typeof(recv, env)
            if m in ("is_none", "is_some"): return "Bool"
            if m == "unwrap" and isinstance(t, tuple) and t[0] == "opt": return t[1]
            if m == "get" and isinstance(t, tuple) and t[0] == "hm": return ("opt", t[1])
            if m == "eq": return "Bool"
        if k == "tupf":
            t = self.typeof(e[1], env)
            if isinstance(t, tuple) and t[0] == "pair": return t[1 + e[2]]
        if k == "match":
            for _, body in e[2]:
                if body[0] != "return":
                    t = self.typeof(body, env)
                    if t: return t
            return None
        if k == "path" and e[1][0] == "RightType": return "RightType"
        return super().typeof(e, env)

    # ------------------------------------------------------------------ expressions
    def E(self, e, env):
        k = e[0]
        if k == "mcall":
            recv, m, args = e[1], e[2], e[3]
            if m == "is_none" and not args: return "(%s).isNone" % self.E(recv, env)
            if m == "is_some" and not args: return "(%s).isSome" % self.E(recv, env)
            if m == "unwrap" and not args:
                c = canon(recv)
                v = env.get("__unwrapped", {}).get(c)
                if v is None:
                    raise TranslateError("`%s.unwrap()` is not dominated by an `is_none()` guard on the same expression" % c)
                return v
            t = self.typeof(recv, env)
            if m == "get" and isinstance(t, tuple) and t[0] == "hm":
                return "(Rust.hmGet (fun (x : %s) => x.id) %s %s)" % (t[1], self.E(recv, env), self.E(args[0], env))
            if m == "can" and t == "Room":
                return "(Discret.Gen.RoomKernel.Room_can %s)" % " ".join([self.E(recv, env)] + [self.E(a, env) for a in args])
        if k == "match":
            t = self.typeof(e[1], env)
            if t == "Bool" or all(p == ("pid", "true") or p == ("pid", "false") or p[0] == "pwild" for p, _ in e[2]):
                arms = []
                for p, body in e[2]:
                    ps = {"true": "true", "false": "false"}.get(p[1] if p[0] == "pid" else "", "_")
                    arms.append(" | %s => %s" % (ps, self.E(body, env)))
                return "(match %s with\n%s)" % (self.E(e[1], env), "\n".join(arms))
        if k == "path" and len(e[1]) == 2 and e[1][0] == "RightType":
            return "RightType." + e[1][1][0].lower() + e[1][1][1:]
        return super().E(e, env)

    def pat(self, p, ty, env):
        if p[0] == "ptuple" and p[1] in (["Ok"], ["Err"]):
            inner = None
            s, env = self.pat(p[2][0], inner, env)
            return (".ok " if p[1] == ["Ok"] else ".error ") + s, env
        return super().pat(p, ty, env)

    # ------------------------------------------------------------------ statements
    def S(self, s, env):
        if s[0] == "expr" and s[1][0] == "match":
            e = s[1]
            t = self.typeof(e[1], env)
            arms = []
            for p, body in e[2]:
                ps, env2 = self.pat(p, t, env)
                if body[0] == "return": b = "(some %s)" % self.E(body[1], env2)
                elif body[0] == "block": b = self.SB(body[1], env2)
                else: raise TranslateError("match statement arm is neither a block nor a return")
                arms.append(" | %s => %s" % (ps, b))
            return "(match %s with\n%s)" % (self.size_call(e[1], env), "\n".join(arms))
        return super().S(s, env)

    def size_call(self, e, env):
        if e[0] == "call" and e[1] == ("path", ["bincode", "serialized_size"]) and len(e[2]) == 1:
            return "(Rust.serializedSize %s)" % self.E(e[2][0], env)
        return self.E(e, env)

    def seq(self, stmts, env, tail):
        if stmts:
            s, rest = stmts[0], stmts[1:]
            # let x = match e { P => v, Q => return r };
            if s[0] == "let" and s[1][0] == "pid" and s[3][0] == "match" and any(b[0] == "return" for _, b in s[3][2]):
                if tail is None: raise TranslateError("diverging let inside a statement block")
                t = self.typeof(s[3][1], env)
                arms = []
                for p, body in s[3][2]:
                    ps, env2 = self.pat(p, t, env)
                    if body[0] == "return":
                        arms.append(" | %s => %s" % (ps, self.E(body[1], env2)))
                    else:
                        env3 = dict(env2); env3[s[1][1]] = self.typeof(body, env2)
                        arms.append(" | %s => (let %s := %s\n%s)" % (ps, s[1][1], self.E(body, env2), self.seq(rest, env3, tail)))
                return "(match %s with\n%s)" % (self.E(s[3][1], env), "\n".join(arms))
            # if X.is_none() { return r; }   →   match X with | none => r | some X_v => rest   (X.unwrap() = X_v below)
            if s[0] == "expr" and s[1][0] == "if" and s[1][3] is None and s[1][1][0] == "mcall" and s[1][1][2] == "is_none" \
                    and canon(s[1][1][1]):
                blk = s[1][2]
                ret = None
                if blk[1] == [] and blk[2] is not None and blk[2][0] == "return": ret = blk[2][1]
                if len(blk[1]) == 1 and blk[1][0][0] == "expr" and blk[1][0][1][0] == "return" and blk[2] is None: ret = blk[1][0][1][1]
                if ret is not None:
                    c = canon(s[1][1][1])
                    v = re.sub(r"\W", "_", c) + "_v"
                    env2 = dict(env)
                    u = dict(env.get("__unwrapped", {})); u[c] = v
                    env2["__unwrapped"] = u
                    r = self.E(ret, env)
                    if tail is None: r = "(some %s)" % r
                    return "(match %s with\n | none => %s\n | some %s => (\n%s))" % (
                        self.E(s[1][1][1], env), r, v, self.seq(rest, env2, tail))
            # a `let` that shadows a name forgets what was known about the old value
            if s[0] == "let" and s[1][0] == "pid":
                name = s[1][1]
                u = dict(env.get("__unwrapped", {}))
                init_c = canon(s[3]) if s[3][0] in ("ref", "field", "id", "mcall") else None
                # `let room_id = &node.room_id;` : the new name is an alias of the place
                val = self.E(s[3], env)
                for key in [k for k in u if k == name or k.startswith(name + ".")]: del u[key]
                env2 = dict(env); env2[name] = self.typeof(s[3], env); env2["__unwrapped"] = u
                if s[3][0] == "mcall" and s[3][2] == "or_default": env2["__entry_" + name] = s[3]
                return "let %s := %s\n%s" % (name, val, self.seq(rest, env2, tail))
        return super().seq(stmts, env, tail)

    # ------------------------------------------------------------------ the collect loop
    def collect_fn(self, t, f):
        """`let mut result = Vec::new(); for entry in <param> { body } result`  →  filterMap"""
        d = self.fn(t, f)
        T = t7.TYPES[t]
        env = {"__self": T, "self": T}
        params = ["(self : %s)" % T]
        for p, ty in d["params"]:
            pt = ty_of_text(ty)
            env[p] = pt
            params.append("(%s : %s)" % (p, lean_ty(pt, T)))
        ret = ty_of_text(d["ret"])
        blk = d["body"]
        st = blk[1]
        if not (len(st) == 2 and st[0][0] == "let" and st[0][1] == ("pid", "result") and st[1][0] == "for"
                and blk[2] == ("id", "result")):
            raise TranslateError("%s::%s is not `let mut result = Vec::new(); for … { … } result`" % (t, f))
        loop = st[1]
        coll = loop[2]
        ct = self.typeof(coll, env)
        if isinstance(ct, tuple) and ct[0] == "list": elem, it = ct[1], self.E(coll, env)
        elif isinstance(ct, tuple) and ct[0] == "hmpairs": elem, it = ct[1], self.E(coll, env)
        else: raise TranslateError("cannot iterate over parameter of type %r" % (ct,))
        ps, env2 = self.pat(loop[1], elem, env)
        body = self.collect_body(list(loop[3][1]) + ([("expr", loop[3][2])] if loop[3][2] is not None else []), env2)
        return "def %s_%s %s : %s :=\n%s.filterMap (fun %s => (\n%s))\n" % (T, f, " ".join(params), lean_ty(ret, T), it, ps, body)

    def collect_body(self, stmts, env):
        """Option α: `some v` when the iteration pushes v, `none` when it `continue`s or pushes nothing"""
        if not stmts: return "none"
        s, rest = stmts[0], stmts[1:]
        if s[0] == "let" and s[1][0] == "pid":
            name = s[1][1]
            u = dict(env.get("__unwrapped", {}))
            val = self.E(s[3], env)
            for key in [k for k in u if k == name or k.startswith(name + ".")]: del u[key]
            env2 = dict(env); env2[name] = self.typeof(s[3], env); env2["__unwrapped"] = u
            return "let %s := %s\n%s" % (name, val, self.collect_body(rest, env2))
        if s[0] == "expr" and s[1][0] == "if" and s[1][3] is None:
            c, blk = s[1][1], s[1][2]
            only = blk[1][0][1] if len(blk[1]) == 1 and blk[1][0][0] == "expr" and blk[2] is None else (blk[2] if not blk[1] else None)
            if only == ("continue",):
                if c[0] == "mcall" and c[2] == "is_none" and canon(c[1]):
                    cn = canon(c[1]); v = re.sub(r"\W", "_", cn) + "_v"
                    env2 = dict(env); u = dict(env.get("__unwrapped", {})); u[cn] = v; env2["__unwrapped"] = u
                    return "(match %s with\n | none => none\n | some %s => (\n%s))" % (self.E(c[1], env), v, self.collect_body(rest, env2))
                return "(if %s then none else (\n%s))" % (self.E(c, env), self.collect_body(rest, env))
            if only is not None and only[0] == "mcall" and only[1] == ("id", "result") and only[2] == "push" and not rest:
                return "(if %s then some %s else none)" % (self.E(c, env), self.E(only[3][0], env))
        raise TranslateError("statement of the collect loop outside the supported subset: %r" % (s,))


TYPES_FILE = """/-
Structures read by the regenerated ingestion validators (Gen/IngestKernel.lean, translator T8): the
fields of the Rust structs that `validate_node`, `validate_node_deletions` and `validate_edge_deletions`
look at. T8 checks on every run that each field still exists in the Rust struct with the type noted here.
`bincode::serialized_size(node)` is the field `size` (`Err` = serialisation failed). Import-free apart from the room model.
-/
"""


def generate(repo):
    parsed = rustmini.parse_file(read(repo, SRC))
    struct_defs = {}
    for name, f in STRUCT_FILES.items():
        p = parsed if f == SRC else rustmini.parse_file(read(repo, f))
        if name in p["structs"]: struct_defs[name] = p["structs"][name]
    em = Emit8(parsed, struct_defs)
    defs = [em.function("RoomAuthorisations", "validate_node"),
            em.collect_fn("RoomAuthorisations", "validate_node_deletions"),
            em.collect_fn("RoomAuthorisations", "validate_edge_deletions")]
    return """import DiscretModel.Gen.RoomKernel
import DiscretModel.Model.IngestKernelTypes
/-
GENERATED by /verif/translators/t8_ingest_kernel.py from %s of the repository under verification,
on every run of the checks of C02 and C12 — do not edit.
-/
namespace Discret.Gen.IngestKernel
open Discret.Room

%s
end Discret.Gen.IngestKernel
""" % (SRC, "\n".join(defs))


def main(repo="/repo"):
    write_if_changed("IngestKernel.lean", generate(repo))


if __name__ == "__main__":
    main(sys.argv[1] if len(sys.argv) > 1 else "/repo")
