"""A small parser for the subset of Rust used by the pure decision code of discret (room.rs and
similar): items `struct`, `impl`, `fn`; statements `let`, `for`, `if`, `if let`, `match`, `return`,
expression statements; expressions with method calls, field access, closures, references, paths,
struct literals, comparison and boolean operators. Anything else raises TranslateError, so a function
the translator cannot read is reported instead of being silently mistranslated.

AST (plain tuples):
  expr:  ("id", name) | ("path", [seg..]) | ("num", text) | ("str", text) | ("bool", b) | ("unit",)
         ("field", e, name) | ("tupf", e, idx) | ("mcall", e, name, [args]) | ("call", e, [args])
         ("ref", e) | ("not", e) | ("deref", e) | ("bin", op, a, b) | ("closure", [pats], e)
         ("if", cond, blk, blk|None) | ("iflet", pat, e, blk, blk|None) | ("match", e, [(pat, e)])
         ("block", blk) | ("struct", name, [(field, e)]) | ("try", e) | ("return", e|None)
         ("macro", name, raw_text) | ("index", e, e) | ("tuple", [e]) | ("array", [e]) | ("chr", c) | ("cast", e, type) | ("while", cond, blk) | ("whilelet", pat, e, blk)
  blk:   ("blk", [stmt..], tail_expr|None)
  stmt:  ("let", pat, mut?, e) | ("expr", e) | ("for", pat, e, blk) | ("assign", lhs, rhs)
  pat:   ("pid", name) | ("pwild",) | ("ptuple", ctor_path, [pats]) | ("pref", pat) | ("ppath", [seg..])
"""
import re
from common import TranslateError, strip_rust_comments

TOKEN = re.compile(r"""
    (?P<ws>\s+)
  | (?P<num>\d[\d_]*(?:\.\d+)?(?:[iuf]\d+)?)
  | (?P<str>"(?:[^"\\]|\\.)*")
  | (?P<chr>'(?:[^'\\]|\\.)')
  | (?P<life>'[A-Za-z_]\w*(?!'))
  | (?P<id>[A-Za-z_]\w*)
  | (?P<op>::|->|=>|==|!=|<=|>=|&&|\|\||\.\.=|\.\.|[-+*/%^!&|=<>@.,;:#?$~(){}\[\]])
""", re.X)


def tokenize(src):
    src = strip_rust_comments(src)
    out, i = [], 0
    while i < len(src):
        m = TOKEN.match(src, i)
        if not m:
            raise TranslateError("cannot tokenize at: %r" % src[i:i + 30])
        i = m.end()
        k = m.lastgroup
        if k == "ws": continue
        out.append((k, m.group(k)))
    return out


class P:
    def __init__(self, toks):
        self.t, self.i = toks, 0

    # -- helpers
    def peek(self, k=0):
        j = self.i + k
        return self.t[j] if j < len(self.t) else ("eof", "")

    def at(self, v, k=0):
        return self.peek(k)[1] == v and self.peek(k)[0] in ("op", "id")

    def eat(self, v):
        if not self.at(v):
            raise TranslateError("expected %r, found %r (token %d: …%s…)" % (
                v, self.peek()[1], self.i, " ".join(x[1] for x in self.t[max(0, self.i - 6):self.i + 4])))
        self.i += 1

    def opt(self, v):
        if self.at(v):
            self.i += 1
            return True
        return False

    def ident(self):
        k, v = self.peek()
        if k != "id": raise TranslateError("identifier expected, found %r" % v)
        self.i += 1
        return v

    # -- skipping
    def skip_balanced(self, open_, close):
        depth = 0
        while True:
            k, v = self.peek()
            if k == "eof": raise TranslateError("unbalanced " + open_)
            self.i += 1
            if v == open_ and k == "op": depth += 1
            elif v == close and k == "op":
                depth -= 1
                if depth == 0: return

    def skip_attrs(self):
        while self.at("#"):
            self.i += 1
            self.opt("!")
            self.skip_balanced("[", "]")

    def type_(self):
        """parses a type and returns its text (used only for struct fields / signatures)"""
        start = self.i
        depth = 0
        while True:
            k, v = self.peek()
            if k == "eof": break
            if k == "op" and v in "<([": depth += 1
            elif k == "op" and v in ">)]":
                if depth == 0: break
                depth -= 1
            elif k == "op" and v == "->" and depth == 0: break
            elif k == "op" and v in (",", ";", "{", "=") and depth == 0: break
            elif k == "id" and v == "where" and depth == 0: break
            self.i += 1
        return " ".join(x[1] for x in self.t[start:self.i])

    # -- items
    def items(self):
        """returns {"structs": {name: [(field, type)]}, "impls": {type: {fn: fndef}}, "fns": {fn: fndef}}"""
        res = {"structs": {}, "impls": {}, "fns": {}, "consts": {}}
        while self.peek()[0] != "eof":
            self.skip_attrs()
            self.opt("pub")
            if self.at("("): self.skip_balanced("(", ")")
            if self.at("struct"):
                self.i += 1
                name = self.ident()
                if self.at("<"): self.skip_balanced("<", ">")
                fields = []
                if self.opt(";"): res["structs"][name] = fields; continue
                if self.at("("): self.skip_balanced("(", ")"); self.opt(";"); continue
                self.eat("{")
                while not self.at("}"):
                    self.skip_attrs()
                    self.opt("pub")
                    if self.at("("): self.skip_balanced("(", ")")
                    f = self.ident(); self.eat(":")
                    fields.append((f, self.type_()))
                    self.opt(",")
                self.eat("}")
                res["structs"][name] = fields
            elif self.at("impl"):
                self.i += 1
                if self.at("<"): self.skip_balanced("<", ">")
                t = self.type_()
                if self.opt("for"):
                    t = t + " for " + self.type_()
                self.eat("{")
                fns = res["impls"].setdefault(t, {})
                while not self.at("}"):
                    self.skip_attrs()
                    self.opt("pub")
                    if self.at("("): self.skip_balanced("(", ")")
                    if self.at("fn") or (self.at("async") and self.at("fn", 1)):
                        f = self.fn()
                        fns[f["name"]] = f
                    elif self.at("const") or self.at("type"):
                        while not self.at(";"): self.i += 1
                        self.i += 1
                    else:
                        raise TranslateError("unsupported item in impl %s: %r" % (t, self.peek()[1]))
                self.eat("}")
            elif self.at("fn") or (self.at("async") and self.at("fn", 1)):
                f = self.fn()
                res["fns"][f["name"]] = f
            elif self.at("const") or self.at("static"):
                self.i += 1
                name = self.ident(); self.eat(":"); self.type_(); self.eat("=")
                start = self.i
                while not self.at(";"): self.i += 1
                res["consts"][name] = " ".join(x[1] for x in self.t[start:self.i])
                self.i += 1
            elif self.at("use") or self.at("mod") and self.peek(2)[1] == ";" or self.at("type"):
                while not self.at(";"):
                    if self.at("{"): self.skip_balanced("{", "}")
                    else: self.i += 1
                self.i += 1
            elif self.at("enum") or self.at("trait") or self.at("mod"):
                self.i += 1
                while not self.at("{"): self.i += 1
                self.skip_balanced("{", "}")
            else:
                raise TranslateError("unsupported top-level item starting with %r" % self.peek()[1])
        return res

    def fn(self):
        """a function whose body fails to parse is recorded with `error` set (only the functions a
        translator needs have to be inside the supported subset)"""
        self.opt("async")
        self.eat("fn")
        name = self.ident()
        if self.at("<"): self.skip_balanced("<", ">")
        self.eat("(")
        params, self_kind = [], None
        while not self.at(")"):
            if self.at("&") and (self.at("self", 1) or (self.at("mut", 1) and self.at("self", 2))):
                self.i += 1
                self_kind = "mut" if self.opt("mut") else "ref"
                self.eat("self")
            elif self.at("self") or (self.at("mut") and self.at("self", 1)):
                self.opt("mut"); self.i += 1; self_kind = "own"
            else:
                self.opt("mut")
                p = self.ident(); self.eat(":")
                params.append((p, self.type_()))
            self.opt(",")
        self.eat(")")
        ret = None
        if self.opt("->"): ret = self.type_()
        if self.at("where"):
            while not self.at("{"): self.i += 1
        start = self.i
        try:
            body, err = self.block(), None
        except TranslateError as e:
            self.i = start
            self.skip_balanced("{", "}")
            body, err = None, str(e)
        return {"name": name, "self": self_kind, "params": params, "ret": ret, "body": body, "error": err}

    # -- blocks and statements
    def block(self):
        self.eat("{")
        stmts, tail = [], None
        while not self.at("}"):
            if self.at("let"):
                self.i += 1
                mut = self.opt("mut")
                pat = self.pattern()
                if self.opt(":"): self.type_()
                self.eat("=")
                e = self.expr()
                self.eat(";")
                stmts.append(("let", pat, mut, e))
            elif self.at("for"):
                self.i += 1
                pat = self.pattern()
                self.eat("in")
                e = self.expr(no_struct=True)
                stmts.append(("for", pat, e, self.block()))
            else:
                self.skip_attrs()
                e = self.expr()
                if self.peek()[1] in ("+", "-") and self.peek(1)[1] == "=" and self.peek()[0] == "op":
                    op = self.peek()[1]; self.i += 2
                    rhs = self.expr()
                    self.eat(";")
                    stmts.append(("assign", e, ("bin", op, e, rhs)))
                elif self.at("=") :
                    self.i += 1
                    rhs = self.expr()
                    self.eat(";")
                    stmts.append(("assign", e, rhs))
                elif self.opt(";"):
                    stmts.append(("expr", e))
                elif self.at("}"):
                    tail = e
                elif e[0] in ("if", "iflet", "match", "block", "while", "whilelet"):
                    stmts.append(("expr", e))
                else:
                    raise TranslateError("expected ; or } after expression, found %r" % self.peek()[1])
        self.eat("}")
        return ("blk", stmts, tail)

    def pattern(self):
        if self.opt("&"):
            self.opt("mut")
            return ("pref", self.pattern())
        if self.opt("_"): return ("pwild",)
        if self.at("("):
            self.i += 1
            ps = []
            while not self.at(")"):
                ps.append(self.pattern()); self.opt(",")
            self.eat(")")
            return ("ptuple", [], ps)
        self.opt("mut")
        segs = [self.ident()]
        while self.opt("::"): segs.append(self.ident())
        if self.at("("):
            self.i += 1
            ps = []
            while not self.at(")"):
                ps.append(self.pattern()); self.opt(",")
            self.eat(")")
            return ("ptuple", segs, ps)
        if len(segs) == 1 and segs[0][0].islower(): return ("pid", segs[0])
        return ("ppath", segs)

    # -- expressions (precedence climbing)
    BIN = [("||",), ("&&",), ("==", "!=", "<", "<=", ">", ">="), ("+", "-"), ("*", "/", "%")]

    def expr(self, no_struct=False, level=0):
        if level == len(self.BIN): return self.unary(no_struct)
        a = self.expr(no_struct, level + 1)
        while self.peek()[0] == "op" and self.peek()[1] in self.BIN[level]:
            op = self.peek()[1]; self.i += 1
            b = self.expr(no_struct, level + 1)
            a = ("bin", op, a, b)
        return a

    def unary(self, no_struct):
        if self.opt("&"):
            self.opt("mut")
            return ("ref", self.unary(no_struct))
        if self.opt("!"): return ("not", self.unary(no_struct))
        if self.opt("*"): return ("deref", self.unary(no_struct))
        return self.postfix(self.primary(no_struct), no_struct)

    def args(self):
        self.eat("(")
        res = []
        while not self.at(")"):
            res.append(self.expr()); self.opt(",")
        self.eat(")")
        return res

    def postfix(self, e, no_struct):
        while True:
            if self.at("."):
                k, v = self.peek(1)
                if k == "num":
                    self.i += 2
                    e = ("tupf", e, int(v))
                elif k == "id":
                    self.i += 2
                    if self.at("::"):  # turbofish
                        self.i += 1; self.skip_balanced("<", ">")
                    if self.at("("): e = ("mcall", e, v, self.args())
                    else: e = ("field", e, v)
                else:
                    raise TranslateError("unsupported postfix after '.': %r" % v)
            elif self.at("("):
                e = ("call", e, self.args())
            elif self.at("?"):
                self.i += 1
                e = ("try", e)
            elif self.at("["):
                self.i += 1
                ix = self.expr()
                self.eat("]")
                e = ("index", e, ix)
            elif self.at("as"):
                self.i += 1
                e = ("cast", e, self.type_())
            else:
                return e

    def primary(self, no_struct):
        k, v = self.peek()
        if k == "num": self.i += 1; return ("num", v)
        if k == "str": self.i += 1; return ("str", v[1:-1])
        if k == "chr": self.i += 1; return ("chr", v[1:-1])
        if k == "op" and v == "(":
            self.i += 1
            if self.opt(")"): return ("unit",)
            e = self.expr()
            if self.at(","):
                es = [e]
                while self.opt(","):
                    if self.at(")"): break
                    es.append(self.expr())
                self.eat(")")
                return ("tuple", es)
            self.eat(")")
            return e
        if k == "op" and v == "[":
            self.i += 1
            es = []
            while not self.at("]"):
                es.append(self.expr())
                if self.opt(";"): es.append(self.expr())
                self.opt(",")
            self.eat("]")
            return ("array", es)
        if k == "op" and v in ("|", "||"):
            pats = []
            if v == "|":
                self.i += 1
                while not self.at("|"):
                    pats.append(self.pattern())
                    if self.opt(":"): self.type_()
                    self.opt(",")
                self.eat("|")
            else:
                self.i += 1
            return ("closure", pats, self.expr())
        if k == "op" and v == "{": return ("block", self.block())
        if k != "id": raise TranslateError("unsupported expression start %r" % v)
        if v in ("true", "false"): self.i += 1; return ("bool", v == "true")
        if v == "return":
            self.i += 1
            if self.at(";") or self.at("}"): return ("return", None)
            return ("return", self.expr())
        if v == "if":
            self.i += 1
            if self.opt("let"):
                pat = self.pattern(); self.eat("=")
                e = self.expr(no_struct=True)
                b = self.block()
                return ("iflet", pat, e, b, self.else_())
            c = self.expr(no_struct=True)
            b = self.block()
            return ("if", c, b, self.else_())
        if v == "match":
            self.i += 1
            e = self.expr(no_struct=True)
            self.eat("{")
            arms = []
            while not self.at("}"):
                pat = self.pattern()
                if self.at("|"):
                    # or-pattern of a match arm: `A | B | C => …`
                    alts = [pat]
                    while self.opt("|"): alts.append(self.pattern())
                    pat = ("por", alts)
                self.eat("=>")
                body = self.expr()
                self.opt(",")
                arms.append((pat, body))
            self.eat("}")
            return ("match", e, arms)
        if v == "while":
            self.i += 1
            if self.opt("let"):
                pat = self.pattern(); self.eat("=")
                e = self.expr(no_struct=True)
                return ("whilelet", pat, e, self.block())
            c = self.expr(no_struct=True)
            return ("while", c, self.block())
        if v in ("break", "continue"):
            self.i += 1
            return (v,)
        if v in ("loop", "unsafe", "async", "move"):
            raise TranslateError("unsupported construct `%s`" % v)
        segs = [self.ident()]
        while self.at("::"):
            self.i += 1
            if self.at("<"): self.skip_balanced("<", ">")
            else: segs.append(self.ident())
        if self.at("{") and not no_struct and segs[-1][0].isupper():
            self.i += 1
            fields = []
            while not self.at("}"):
                f = self.ident()
                if self.opt(":"): fields.append((f, self.expr()))
                else: fields.append((f, ("id", f)))
                self.opt(",")
            self.eat("}")
            return ("struct", "::".join(segs), fields)
        if self.at("!") and self.peek(1)[1] in ("(", "[", "{"):
            # a macro invocation is kept as an opaque node: translating a function that USES its value fails later,
            # but the rest of the function (e.g. a decision chain next to a format!-built SQL text) stays readable
            self.i += 1
            o = self.peek()[1]
            start = self.i
            self.skip_balanced(o, {"(": ")", "[": "]", "{": "}"}[o])
            return ("macro", "::".join(segs), " ".join(x[1] for x in self.t[start:self.i]))
        return ("id", segs[0]) if len(segs) == 1 else ("path", segs)

    def else_(self):
        if not self.opt("else"): return None
        if self.at("if"):
            e = self.primary(False)
            return ("blk", [], e)
        return self.block()


def parse_file(src):
    return P(tokenize(src)).items()
