#!/usr/bin/env python3
"""Translator T2: the ordered `hasher.update(..)` calls of every signed digest of discret
   -> lean/DiscretModel/Gen/DigestLayout.lean

   usage: digest_layout.py [--repo /repo] [--out FILE]        (python3 stdlib only, regex level)

Extracted per signed kind: the ordered list of (field name, field type) fed to the hasher, the list
of stored fields of the struct (everything that is persisted/sent except the signature itself and
`#[serde(skip)]` fields), and for the deletion records the layout of `sign` next to that of `verify`.
Also: whether `Query::ProveIdentity` hands the submitted bytes to the raw signing service unchanged.

When a source cannot be parsed the generated file contains a failing `example` naming the problem, so
that the proof obligations of C06 stop checking (the check then searches dynamically)."""
import os, re, sys


class ParseError(Exception):
    pass


def strip_comments(src):
    out, i, n = [], 0, len(src)
    while i < n:
        c = src[i]
        if c == '"':                               # string literal: copy verbatim
            j = i + 1
            while j < n and src[j] != '"':
                j += 2 if src[j] == "\\" else 1
            out.append(src[i:j + 1]); i = j + 1
        elif src.startswith("//", i):
            while i < n and src[i] != "\n": i += 1
        elif src.startswith("/*", i):
            j = src.find("*/", i + 2)
            i = n if j < 0 else j + 2
        else:
            out.append(c); i += 1
    return "".join(out)


def match_close(src, i, op="{", cl="}"):
    """src[i] == op; returns index of the matching close"""
    depth, n = 0, len(src)
    while i < n:
        c = src[i]
        if c == '"':
            i += 1
            while i < n and src[i] != '"':
                i += 2 if src[i] == "\\" else 1
        elif c == op: depth += 1
        elif c == cl:
            depth -= 1
            if depth == 0: return i
        i += 1
    raise ParseError("unbalanced %s" % op)


def impl_block(src, ty):
    m = re.search(r"\bimpl\s+%s\s*\{" % re.escape(ty), src)
    if not m: raise ParseError("impl %s not found" % ty)
    a = m.end() - 1
    return src[a + 1:match_close(src, a)]


def fn_of(block, name):
    """(parameter text, body text) of `fn name` in an impl block"""
    m = re.search(r"\bfn\s+%s\s*\(" % re.escape(name), block)
    if not m: raise ParseError("fn %s not found" % name)
    a = m.end() - 1
    b = match_close(block, a, "(", ")")
    c = block.find("{", b)
    if c < 0: raise ParseError("fn %s has no body" % name)
    return block[a + 1:b], block[c + 1:match_close(block, c)]


def struct_fields(src, name):
    m = re.search(r"\bstruct\s+%s\s*\{" % re.escape(name), src)
    if not m: raise ParseError("struct %s not found" % name)
    a = m.end() - 1
    body = src[a + 1:match_close(src, a)]
    fields, skip = [], False
    for part in re.split(r",\s*(?=(?:#\[[^\]]*\]\s*)*(?:pub(?:\([^)]*\))?\s+)?\w+\s*:)", body):
        part = part.strip().rstrip(",").strip()
        if not part: continue
        skip = bool(re.search(r"#\[\s*serde\s*\(\s*skip\s*\)\s*\]", part))
        part = re.sub(r"#\[[^\]]*\]", "", part).strip()
        m2 = re.match(r"(?:pub(?:\([^)]*\))?\s+)?(\w+)\s*:\s*(.+)$", part, re.S)
        if not m2: raise ParseError("struct %s: cannot read field %r" % (name, part[:40]))
        fields.append((m2.group(1), re.sub(r"\s+", "", m2.group(2)), skip))
    return fields


def params_of(text):
    res = {}
    for p in re.split(r",(?![^<]*>)", text):
        m = re.match(r"\s*(?:mut\s+)?(\w+)\s*:\s*(.+?)\s*$", p, re.S)
        if m: res[m.group(1)] = re.sub(r"\s+", "", m.group(2))
    return res


def updates_of(body):
    """ordered [(argument text, [(binder, optional expr)…] enclosing `if let Some`)], aliases of serde_json::to_string"""
    ups, stack, alias = [], [], {}
    i, n = 0, len(body)
    pend = None
    while i < n:
        m = re.compile(r"if\s+let\s+Some\s*\(\s*(\w+)\s*\)\s*=\s*([^\{]+?)\s*\{").match(body, i)
        if m and (i == 0 or not (body[i - 1].isalnum() or body[i - 1] == "_")):
            stack.append((m.group(1), m.group(2).strip())); i = m.end(); continue
        m = re.compile(r"let\s+(\w+)\s*=\s*serde_json\s*::\s*to_string\s*\(\s*&?\s*(\w+)\s*\)").match(body, i)
        if m and (i == 0 or not (body[i - 1].isalnum() or body[i - 1] == "_")):
            alias[m.group(1)] = m.group(2); i = m.end(); continue
        m = re.compile(r"hasher\s*\.\s*update\s*\(").match(body, i)
        if m:
            a = m.end() - 1
            b = match_close(body, a, "(", ")")
            ups.append((body[a + 1:b].strip(), list(stack))); i = b + 1; continue
        c = body[i]
        if c == "{": stack.append(None)
        elif c == "}":
            if stack: stack.pop()
        i += 1
    return ups, alias


TYPES = {"Uid": "uid", "[u8;16]": "uid", "Option<Uid>": "optUid", "i64": "i64", "String": "str", "&String": "str",
         "&str": "str", "Option<String>": "optStr", "Option<Vec<u8>>": "optBin", "Vec<u8>": "bytes",
         "&[u8]": "bytes", "[u8;32]": "fixed32"}


def norm(e):
    e = re.sub(r"\s+", "", e)
    while e.startswith("&"): e = e[1:]
    return e


def resolve(arg, ctx, struct, this, rename):
    """one hasher.update argument -> (field name, lean type)
       this: name of the struct value (`self`, `node`, `edge`), rename: expr -> struct field (from `build`)"""
    stackb = {b[0]: norm(b[1]) for b in ctx["stack"] if b}
    a = norm(arg)
    conv = None
    for suf, cv in ((".to_le_bytes()", "le"), (".as_bytes()", "str")):
        if a.endswith(suf): a, conv = a[:-len(suf)], cv
    quoted = False
    if a in ctx["alias"]:
        a, quoted = ctx["alias"][a], True
    optional = False
    if a in stackb:
        a, optional = stackb[a], True
    # a is now self.X / node.X / a bare parameter
    fname = rename.get(a)
    if fname is None:
        m = re.match(r"(\w+)\.(\w+)$", a)
        if m and m.group(1) in this: fname = m.group(2)
        elif re.match(r"\w+$", a): fname = a
        else: raise ParseError("cannot resolve hasher argument %r" % arg)
    fty = struct.get(fname) or ctx["params"].get(a) or ctx["params"].get(fname)
    if fty is None: raise ParseError("no type for digest field %s (from %r)" % (fname, arg))
    base = TYPES.get(fty)
    if base is None: raise ParseError("unsupported type %s of field %s" % (fty, fname))
    if optional != base.startswith("opt"):
        raise ParseError("field %s: optional binding and type %s disagree" % (fname, fty))
    if base == "optStr":
        if not (quoted and conv == "str"): raise ParseError("optional string %s is not fed through serde_json::to_string" % fname)
        base = "optJson"
    elif quoted: raise ParseError("unexpected serde_json::to_string on %s" % fname)
    elif base == "i64":
        if conv != "le": raise ParseError("i64 field %s is not fed as to_le_bytes" % fname)
    elif base == "str":
        if conv != "str": raise ParseError("string field %s is not fed as as_bytes" % fname)
    elif conv: raise ParseError("unexpected conversion on %s" % fname)
    if base == "bytes":
        base = "key" if fname == "verifying_key" else "str"
    return fname, base


def layout(src, impl, fn, struct_name=None, this=("self",), rename=None):
    block = impl_block(src, impl)
    ptxt, body = fn_of(block, fn)
    ups, alias = updates_of(body)
    if not ups: raise ParseError("%s::%s feeds nothing to a hasher" % (impl, fn))
    struct = {f: t for f, t, _ in struct_fields(src, struct_name)} if struct_name else {}
    res = []
    for arg, stack in ups:
        ctx = {"stack": stack, "alias": alias, "params": params_of(ptxt)}
        res.append(resolve(arg, ctx, struct, this, rename or {}))
    return res


def build_renames(src, impl):
    """`Self { field: expr, … }` of `build` -> {expr: field}"""
    block = impl_block(src, impl)
    _, body = fn_of(block, "build")
    m = re.search(r"\bSelf\s*\{", body)
    if not m: raise ParseError("%s::build has no Self literal" % impl)
    a = m.end() - 1
    lit = body[a + 1:match_close(body, a)]
    res = {}
    for part in lit.split(","):
        part = part.strip()
        if not part: continue
        m2 = re.match(r"(\w+)\s*:\s*(.+)$", part, re.S)
        if m2:
            e = norm(m2.group(2))
            e = re.sub(r"\.clone\(\)$", "", e)
            res[e] = m2.group(1)
        elif re.match(r"\w+$", part): res[part] = part
    return res


def stored(src, struct_name, sig_names=("signature", "_signature", "invite_sign")):
    return [f for f, t, skip in struct_fields(src, struct_name) if not skip and f not in sig_names]


def prove_identity_raw(outb, auth):
    """True iff the ProveIdentity arm passes the peer's bytes unchanged to db.sign and the Sign message signs them as they are"""
    m = re.search(r"Query\s*::\s*ProveIdentity\s*\(\s*(\w+)\s*\)\s*=>\s*\{", outb)
    if not m: raise ParseError("Query::ProveIdentity arm not found")
    a = m.end() - 1
    arm = outb[a:match_close(outb, a)]
    var = m.group(1)
    m2 = re.search(r"\.\s*sign\s*\(\s*([^)]*)\)", arm)
    if not m2: raise ParseError("ProveIdentity arm does not call sign")
    passes_raw = norm(m2.group(1)) in (var, var + ".clone()")
    m3 = re.search(r"AuthorisationMessage\s*::\s*Sign\s*\(\s*(\w+)\s*,\s*\w+\s*\)\s*=>\s*\{", auth)
    if not m3: raise ParseError("AuthorisationMessage::Sign arm not found")
    a = m3.end() - 1
    arm2 = auth[a:match_close(auth, a)]
    m4 = re.search(r"signing_key\s*\.\s*sign\s*\(\s*([^)]*)\)", arm2)
    if not m4: raise ParseError("Sign arm does not sign")
    signs_raw = norm(m4.group(1)) == m3.group(1)
    return passes_raw and signs_raw


def extract(repo):
    rd = lambda p: strip_comments(open(os.path.join(repo, p)).read())
    node, edge = rd("src/database/node.rs"), rd("src/database/edge.rs")
    net, sysent = rd("src/network/mod.rs"), rd("src/database/system_entities.rs")
    outb = rd("src/synchronisation/peer_outbound_service.rs")
    auth = rd("src/database/authorisation_service.rs")
    sync = rd("src/synchronisation/mod.rs")
    t = {}
    t["node"] = layout(node, "Node", "hash", "Node")
    t["edge"] = layout(edge, "Edge", "hash", "Edge")
    t["nodeDel"] = layout(node, "NodeDeletionEntry", "verify", "NodeDeletionEntry")
    t["edgeDel"] = layout(edge, "EdgeDeletionEntry", "verify", "EdgeDeletionEntry")
    nd_ren = build_renames(node, "NodeDeletionEntry")
    ed_ren = build_renames(edge, "EdgeDeletionEntry")
    t["nodeDelSign"] = layout(node, "NodeDeletionEntry", "sign", "NodeDeletionEntry", ("self",), nd_ren)
    t["edgeDelSign"] = layout(edge, "EdgeDeletionEntry", "sign", "EdgeDeletionEntry", ("self",), ed_ren)
    t["announce"] = layout(net, "AnnounceHeader", "hash", "AnnounceHeader")
    t["invite"] = layout(sysent, "Invite", "hash_val", "Invite")
    # the identity proof verifies the signature over the challenge bytes themselves
    blk = impl_block(sync, "IdentityAnswer")
    _, vbody = fn_of(blk, "verify")
    if not re.search(r"\.\s*verify\s*\(\s*challenge\s*,", vbody):
        raise ParseError("IdentityAnswer::verify does not verify the raw challenge")
    t["challenge"] = [("challenge", "str")]
    s = {"node": stored(node, "Node"), "edge": stored(edge, "Edge"),
         "nodeDel": stored(node, "NodeDeletionEntry"), "edgeDel": stored(edge, "EdgeDeletionEntry"),
         "announce": stored(net, "AnnounceHeader"), "invite": stored(sysent, "Invite"), "challenge": ["challenge"]}
    raw = prove_identity_raw(outb, auth)
    sec = rd("src/security.rs")
    m = re.search(r"\bfn\s+import_verifying_key\s*\(\s*(\w+)\s*:", sec)
    if not m: raise ParseError("import_verifying_key not found")
    a = sec.find("{", m.end())
    body = sec[a:match_close(sec, a)]
    var = m.group(1)
    i_idx = re.search(r"\b%s\s*\[\s*0\s*\]" % var, body)
    i_len = re.search(r"\b%s\s*\.\s*(len|is_empty)\s*\(" % var, body)
    if not i_len: raise ParseError("import_verifying_key does not check the key length")
    idx_first = bool(i_idx) and i_idx.start() < i_len.start()
    return t, s, (raw, idx_first)


KINDS = ["node", "edge", "nodeDel", "edgeDel", "announce", "invite", "challenge"]
HEADER = """import DiscretModel.Model.Digest
/-
GENERATED by /verif/translators/digest_layout.py from the working tree of the repository on every run
of ./check C06 — do not edit. Source: %s
-/
namespace Discret.Digest.Gen
open Discret.Digest
"""


def lean_layout(l):
    return "[" + ", ".join('⟨"%s", .%s⟩' % (f, ty) for f, ty in l) + "]"


def render(repo):
    head = HEADER % repo
    try:
        t, s, raw = extract(repo)
    except (ParseError, OSError) as e:
        msg = str(e).replace('"', "'").replace("\\", "/")
        ident = "T2_cannot_parse__" + re.sub(r"\W+", "_", str(e))[:150]
        return head + """
/-- translator T2 could not read the digest code: the obligations of C06 are not discharged.
    %s -/
def translatorError : String := %s

end Discret.Digest.Gen
""" % (msg, ident), str(e)
    out = [head]
    out.append("def layoutOf : Kind → Layout")
    for k in KINDS: out.append("  | .%s => %s" % (k, lean_layout(t[k])))
    out.append("")
    out.append("/-- layout used by `sign` (the deletion records hash in `sign` and again in `verify`) -/")
    out.append("def signLayoutOf : Kind → Layout")
    out.append("  | .nodeDel => %s" % lean_layout(t["nodeDelSign"]))
    out.append("  | .edgeDel => %s" % lean_layout(t["edgeDelSign"]))
    out.append("  | k => layoutOf k")
    out.append("")
    out.append("/-- stored / transmitted fields of the struct, the signature and `#[serde(skip)]` fields excepted -/")
    out.append("def storedOf : Kind → List String")
    for k in KINDS: out.append("  | .%s => [%s]" % (k, ", ".join('"%s"' % f for f in s[k])))
    out.append("")
    out.append("/-- `Query::ProveIdentity(c)` → `db.sign(c)` → `signing_key.sign(&c)`: the peer's bytes are signed as they are -/")
    out.append("def proveIdentitySignsRaw : Bool := %s" % ("true" if raw[0] else "false"))
    out.append("")
    out.append("/-- `import_verifying_key` reads `key[0]` before it checks the length (panics on an empty key) -/")
    out.append("def importKeyIndexesBeforeLengthCheck : Bool := %s" % ("true" if raw[1] else "false"))
    out.append("")
    out.append("end Discret.Digest.Gen")
    return "\n".join(out) + "\n", None


def repo_of_harness(harness_dir):
    """the repository the harness is built against (mutation runs point it at a private copy)"""
    try:
        txt = open(os.path.join(harness_dir, "Cargo.toml")).read()
        m = re.search(r'discret\s*=\s*\{[^}]*path\s*=\s*"([^"]+)"', txt)
        if m: return m.group(1)
    except OSError:
        pass
    return "/repo"


def generate(repo, out_path):
    text, err = render(repo)
    old = open(out_path).read() if os.path.exists(out_path) else None
    if old != text:
        os.makedirs(os.path.dirname(out_path), exist_ok=True)
        tmp = out_path + ".tmp"
        with open(tmp, "w") as f: f.write(text)
        os.replace(tmp, out_path)
    return err


if __name__ == "__main__":
    a = sys.argv[1:]
    repo = a[a.index("--repo") + 1] if "--repo" in a else "/repo"
    here = os.path.dirname(os.path.dirname(os.path.abspath(__file__)))
    out = a[a.index("--out") + 1] if "--out" in a else os.path.join(here, "lean/DiscretModel/Gen/DigestLayout.lean")
    e = generate(repo, out)
    if e: print("T2 parse error: " + e); sys.exit(1)
    print("wrote " + out)
