#!/usr/bin/env python3
"""T11: src/database/room_node.rs  ->  Gen/RoomNodeKernel.lean

Translates, statement by statement, the free functions that decide whether a room definition NOT yet known
(`prepare_new_room`) or a group new to a known room (`prepare_new_auth`) is entitled, and the helper
`groups_placed_by_admins`, into Lean definitions over the structures of Model/RoomNodeKernelTypes.lean (exactly the
fields these functions read; checked against the Rust structs on every run) and the regenerated room kernel of T7
(`Room_is_admin`, `Auth_can_admin_users`). Lemmas/RoomNodeKernelEq.lean proves them equal to the decisions of the
hand-written model (Model/RoomNode.lean `prepareNewRoom`, `prepareNewAuth`) that C07 and C10 are proved about.

`let x = y.parse()?;` is NOT re-translated: the parsed value becomes a parameter `y_parse : Except Error T` of the
generated function (`Err` is propagated as `?` does).

Idioms read: `let x = <place>;` inside a block, `for x in &xs { stmts }` with returning bodies (Rust.forReturn), `if c { return Err(..); }`,
`match b { true => { stmts } false => { return Err(..); } }`, `!`, `&&`, `||`, field reads, `xs.iter().all(|e| ..)` /
`.any(..)` (List.all / List.any with a typed binder), calls of the translated free functions, `room.is_admin(k, d)`,
`authorisation.can_admin_users(k, d)`, `Err(Error::InvalidNode("..".to_string()))`, `Ok(())`.
Anything else raises TranslateError."""
import os, re, sys
sys.path.insert(0, os.path.dirname(os.path.abspath(__file__)))
from common import *
import rustmini

SRC = "src/database/room_node.rs"
WANTED = ["groups_placed_by_admins", "prepare_new_room", "prepare_new_auth"]
# fields of each structure that Model/RoomNodeKernelTypes.lean declares: Rust name -> (Rust type text, Lean field, kernel type)
DECLARED = {
    "Node": {"verifying_key": ("Vec<u8>", "key", "Key"), "mdate": ("i64", "mdate", "Int")},
    "Edge": {"verifying_key": ("Vec<u8>", "key", "Key"), "cdate": ("i64", "cdate", "Int")},
    "UserNode": {"node": ("Node", "node", "Node")},
    "EntityRightNode": {"node": ("Node", "node", "Node")},
    "AuthorisationNode": {"node": ("Node", "node", "Node"),
                          "right_nodes": ("Vec<EntityRightNode>", "right_nodes", ("list", "EntityRightNode")),
                          "user_nodes": ("Vec<UserNode>", "user_nodes", ("list", "UserNode")),
                          "user_admin_nodes": ("Vec<UserNode>", "user_admin_nodes", ("list", "UserNode"))},
    "RoomNode": {"admin_nodes": ("Vec<UserNode>", "admin_nodes", ("list", "UserNode")),
                 "auth_edges": ("Vec<Edge>", "auth_edges", ("list", "Edge")),
                 "auth_nodes": ("Vec<AuthorisationNode>", "auth_nodes", ("list", "AuthorisationNode"))},
}
STRUCT_FILES = {"Node": "src/database/node.rs", "Edge": "src/database/edge.rs", "UserNode": SRC,
                "EntityRightNode": SRC, "AuthorisationNode": SRC, "RoomNode": SRC}
PARSE_RESULT = {"RoomNode": "Room", "AuthorisationNode": "Auth"}      # what `.parse()` yields (T7's types)
KERNEL_CALLS = {("Room", "is_admin"): "Discret.Gen.RoomKernel.Room_is_admin",
                ("Auth", "can_admin_users"): "Discret.Gen.RoomKernel.Auth_can_admin_users"}


def ty_of_text(t):
    t0 = t.replace(" ", "").lstrip("&")
    if t0.startswith("mut"): t0 = t0[3:]
    if t0 == "Room": return "Room"
    if t0 == "Authorisation": return "Auth"
    if t0 in DECLARED: return t0
    if t0 == "bool": return "Bool"
    if t0 == "Result<()>": return "Result"
    raise TranslateError("parameter / return type outside the supported subset: %s" % t)


def lean_ty(t):
    if isinstance(t, tuple) and t[0] == "list": return "List " + t[1]
    if t == "Result": return "Except Error Unit"
    return t


class Emit11:
    def __init__(self, parsed, struct_defs):
        self.fns = parsed["fns"]
        for name, fields in DECLARED.items():
            rust = dict(struct_defs.get(name, []))
            if not rust: raise TranslateError("struct %s not found in %s" % (name, STRUCT_FILES[name]))
            for f, (want, _, _) in fields.items():
                got = rust.get(f)
                if got is None: raise TranslateError("%s has no field `%s` any more" % (name, f))
                if got.replace(" ", "") != want:
                    raise TranslateError("%s.%s has type %s, the types file declares %s" % (name, f, got, want))
        self.ret = {}

    # ---------------------------------------------------------------- types
    def typeof(self, e, env):
        k = e[0]
        if k in ("ref", "deref"): return self.typeof(e[1], env)
        if k == "id":
            if e[1] not in env: raise TranslateError("unknown name `%s`" % e[1])
            return env[e[1]]
        if k == "field":
            t = self.typeof(e[1], env)
            if t not in DECLARED or e[2] not in DECLARED[t]:
                raise TranslateError("field `%s` of %s is read but not declared in Model/RoomNodeKernelTypes.lean" % (e[2], t))
            return DECLARED[t][e[2]][2]
        raise TranslateError("cannot type %r" % (e[0],))

    # ---------------------------------------------------------------- expressions
    def E(self, e, env):
        k = e[0]
        if k in ("ref", "deref"): return self.E(e[1], env)
        if k == "id":
            self.typeof(e, env); return e[1]
        if k == "field":
            t = self.typeof(e[1], env); self.typeof(e, env)
            return "%s.%s" % (self.E(e[1], env), DECLARED[t][e[2]][1])
        if k == "not": return "(!%s)" % self.E(e[1], env)
        if k == "bin" and e[1] in ("&&", "||"): return "(%s %s %s)" % (self.E(e[2], env), e[1], self.E(e[3], env))
        if k == "mcall":
            recv, m, args = e[1], e[2], e[3]
            if m in ("all", "any") and recv[0] == "mcall" and recv[2] == "iter" and not recv[3] and len(args) == 1 \
                    and args[0][0] == "closure" and len(args[0][1]) == 1 and args[0][1][0][0] == "pid":
                lt = self.typeof(recv[1], env)
                if not (isinstance(lt, tuple) and lt[0] == "list"): raise TranslateError(".iter() on something that is not a list")
                v = args[0][1][0][1]
                env2 = dict(env); env2[v] = lt[1]
                return "(%s).%s (fun (%s : %s) => %s)" % (self.E(recv[1], env), m, v, lt[1], self.E(args[0][2], env2))
            t = self.typeof(recv, env)
            if (t, m) in KERNEL_CALLS:
                return "(%s %s)" % (KERNEL_CALLS[(t, m)], " ".join([self.E(recv, env)] + [self.E(a, env) for a in args]))
            raise TranslateError("method call outside the supported subset: %s.%s" % (t, m))
        if k == "call":
            f, args = e[1], e[2]
            if f == ("id", "Ok") and args == [("unit",)]: return "(.ok ())"
            if f == ("id", "Err") and len(args) == 1 and args[0][0] == "call" and args[0][1] == ("path", ["Error", "InvalidNode"]) \
                    and len(args[0][2]) == 1 and args[0][2][0][0] == "mcall" and args[0][2][0][1][0] == "str" \
                    and args[0][2][0][2] == "to_string":
                return "(.error (Error.InvalidNode %s))" % lean_str(args[0][2][0][1][1])
            if f[0] == "id" and f[1] in self.ret:
                return "(%s %s)" % (f[1], " ".join(self.E(a, env) for a in args))
            raise TranslateError("call outside the supported subset: %r" % (f,))
        raise TranslateError("expression outside the supported subset: %r" % (k,))

    # ---------------------------------------------------------------- statements: Option ρ (`some r` = returned r)
    def S(self, s, env):
        if s[0] == "for":
            if s[1][0] != "pid": raise TranslateError("for with a pattern")
            lt = self.typeof(s[2], env)
            if not (isinstance(lt, tuple) and lt[0] == "list"): raise TranslateError("for over something that is not a list")
            env2 = dict(env); env2[s[1][1]] = lt[1]
            return "(Rust.forReturn %s (fun (%s : %s) => (\n%s)))" % (self.E(s[2], env), s[1][1], lt[1], self.SB(s[3], env2))
        if s[0] != "expr": raise TranslateError("statement outside the supported subset: %r" % (s[0],))
        e = s[1]
        if e[0] == "return": return "(some %s)" % self.E(e[1], env)
        if e[0] == "if" and e[3] is None:
            return "(if %s then %s else none)" % (self.E(e[1], env), self.SB(e[2], env))
        if e[0] == "match" and all(p in (("pid", "true"), ("pid", "false")) for p, _ in e[2]):
            arms = []
            for p, body in e[2]:
                if body[0] != "block": raise TranslateError("match arm that is not a block")
                arms.append(" | %s => %s" % (p[1], self.SB(body[1], env)))
            return "(match %s with\n%s)" % (self.E(e[1], env), "\n".join(arms))
        raise TranslateError("statement outside the supported subset: %r" % (e[0],))

    def SB(self, blk, env):
        stmts = list(blk[1])
        if blk[2] is not None:
            if blk[2][0] in ("if", "match", "return"): stmts.append(("expr", blk[2]))
            else: raise TranslateError("block with a value where a statement block is expected")
        return self.seq(stmts, env)

    def seq(self, stmts, env):
        if not stmts: return "none"
        if stmts[0][0] == "let":
            s = stmts[0]
            if s[1][0] != "pid": raise TranslateError("let with a pattern")
            env2 = dict(env); env2[s[1][1]] = self.typeof(s[3], env)
            return "let %s := %s\n%s" % (s[1][1], self.E(s[3], env), self.seq(stmts[1:], env2))
        here = self.S(stmts[0], env)
        if len(stmts) == 1: return here
        return "(match %s with\n | some r => some r\n | none => (\n%s))" % (here, self.seq(stmts[1:], env))

    # ---------------------------------------------------------------- functions
    def function(self, name):
        d = self.fns.get(name)
        if d is None: raise TranslateError("function %s not found in %s" % (name, SRC))
        if d["self"]: raise TranslateError("%s is not a free function" % name)
        env, params = {}, []
        for p, ty in d["params"]:
            pt = ty_of_text(ty); env[p] = pt
            params.append((p, lean_ty(pt)))
        ret = ty_of_text(d["ret"])
        blk = d["body"]
        stmts, tail = list(blk[1]), blk[2]
        pre, post = "", ""
        # let x = y.parse()?;   →   parameter y_parse, `?` spelled out
        while stmts and stmts[0][0] == "let" and stmts[0][3][0] == "try":
            s = stmts.pop(0)
            inner = s[3][1]
            if not (s[1][0] == "pid" and inner[0] == "mcall" and inner[2] == "parse" and not inner[3] and inner[1][0] == "id"):
                raise TranslateError("`?` on something that is not `<parameter>.parse()`")
            rt = env.get(inner[1][1])
            if rt not in PARSE_RESULT: raise TranslateError("parse() of a %s" % (rt,))
            pname = inner[1][1] + "_parse"
            params.insert(0, (pname, "Except Error " + PARSE_RESULT[rt]))
            env[s[1][1]] = PARSE_RESULT[rt]
            pre += "(match %s with\n | .error e => .error e\n | .ok %s => (\n" % (pname, s[1][1]); post += "))"
        if ret == "Result":
            if tail is None: raise TranslateError("function %s has no tail expression" % name)
            body = self.seq(stmts, env)
            body = "(match %s with\n | some r => r\n | none => %s)" % (body, self.E(tail, env)) if stmts else self.E(tail, env)
        else:
            if stmts or tail is None: raise TranslateError("%s: a value-returning function must be one expression" % name)
            body = self.E(tail, env)
        self.ret[name] = ret
        return "def %s %s : %s :=\n%s%s%s\n" % (name, " ".join("(%s : %s)" % p for p in params), lean_ty(ret), pre, body, post)


def generate(repo):
    parsed = rustmini.parse_file(read(repo, SRC))
    struct_defs = {}
    for name, f in STRUCT_FILES.items():
        p = parsed if f == SRC else rustmini.parse_file(read(repo, f))
        if name in p["structs"]: struct_defs[name] = p["structs"][name]
    em = Emit11(parsed, struct_defs)
    defs = [em.function(f) for f in WANTED]
    return """import DiscretModel.Gen.RoomKernel
import DiscretModel.Model.RoomNodeKernelTypes
/-
GENERATED by /verif/translators/t11_roomnode_kernel.py from %s of the repository under verification,
on every run of the checks of C07 and C10 — do not edit.
Each definition is the statement-by-statement translation of the Rust function of the same name (`x.parse()?` is the
parameter `x_parse`); Lemmas/RoomNodeKernelEq.lean proves it equal to the decision of the hand-written model.
-/
namespace Discret.Gen.RoomNodeKernel
open Discret.Room

%s
end Discret.Gen.RoomNodeKernel
""" % (SRC, "\n".join(defs))


def main(repo="/repo"):
    write_if_changed("RoomNodeKernel.lean", generate(repo))


if __name__ == "__main__":
    main(sys.argv[1] if len(sys.argv) > 1 else "/repo")
