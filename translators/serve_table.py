#!/usr/bin/env python3
"""Translator T1: every `Query::…` arm of `InboundQueryService::process_inbound`
   (src/synchronisation/peer_outbound_service.rs), its guard expression and its database call
   -> lean/DiscretModel/Gen/ServeTable.lean : List Entry (kind, guard, source, guardedRoomIsQueried)

   usage: serve_table.py [--repo /repo] [--out FILE]       (python3 stdlib only, regex level)
Also lists the variants of `enum Query` (src/synchronisation/mod.rs) so that the Lean side can check that
every request kind of the protocol has an arm in the table.
A source that cannot be parsed yields a Gen file with an unknown identifier naming the problem, so that
the obligations of C08 stop checking (the check then searches dynamically)."""
import os, re, sys
sys.path.insert(0, os.path.dirname(os.path.abspath(__file__)))
from digest_layout import ParseError, strip_comments, match_close, impl_block, fn_of, repo_of_harness

KIND = {"ProveIdentity": "proveIdentity", "HardwareFingerprint": "hardwareFingerprint", "RoomList": "roomList",
        "RoomDefinition": "roomDefinition", "RoomNode": "roomNode", "RoomLog": "roomLog", "RoomLogAt": "roomLogAt",
        "EdgeDeletionLog": "edgeDeletionLog", "NodeDeletionLog": "nodeDeletionLog", "RoomDailyNodes": "roomDailyNodes",
        "Nodes": "nodes", "Edges": "edges", "PeersForRoom": "peersForRoom"}
SOURCE = {"sign": "sign", "get_rooms_for_peer": "roomsForPeer", "get_room_definition": "roomDefinition",
          "get_room_node": "roomNode", "get_room_log": "roomLog", "get_room_log_at": "roomLogAt",
          "get_room_edge_deletion_log": "edgeDeletionLog", "get_room_node_deletion_log": "nodeDeletionLog",
          "get_room_daily_nodes": "roomDailyNodes", "get_nodes": "nodes", "get_edges": "edges",
          "peers_for_room": "peersForRoom"}
# database calls that only fetch the instance's own peer row for the identity answer
AUX_CALLS = {"get_peer_node"}


def squash(e):
    return re.sub(r"\s+", "", e)


def arms_of(body):
    """[(variant, [bound vars], arm body)] of the `match msg.query { … }`"""
    m = re.search(r"match\s+msg\s*\.\s*query\s*\{", body)
    if not m: raise ParseError("`match msg.query` not found in process_inbound")
    a = m.end() - 1
    block = body[a + 1:match_close(body, a)]
    arms, i = [], 0
    pat = re.compile(r"Query\s*::\s*(\w+)\s*(\(([^)]*)\))?\s*=>\s*\{")
    while True:
        m = pat.search(block, i)
        if not m: break
        b = m.end() - 1
        e = match_close(block, b)
        vars_ = [v.strip() for v in (m.group(3) or "").split(",") if v.strip()]
        arms.append((m.group(1), vars_, block[b + 1:e]))
        i = e + 1
    if not arms: raise ParseError("no Query:: arm found")
    return arms


def first_if(arm):
    """(condition, then-block start, then-block end) of the first `if` of the arm, or None"""
    for m in re.finditer(r"\bif\b", arm):
        if arm[:m.start()].rstrip().endswith("else"): continue
        rest = arm[m.end():]
        if re.match(r"\s*let\b", rest): continue            # `if let` is a pattern match, not a guard
        b = arm.find("{", m.end())
        if b < 0: return None
        return arm[m.end():b].strip(), b, match_close(arm, b)
    return None


def analyse(variant, vars_, arm):
    kind = KIND.get(variant)
    if kind is None: raise ParseError("unknown request kind Query::%s" % variant)
    calls = [(m.group(1), m.start(), m.end() - 1) for m in re.finditer(r"peer\s*\.\s*db\s*\.\s*(\w+)\s*\(", arm)]
    main = [c for c in calls if c[0] not in AUX_CALLS]
    if kind == "hardwareFingerprint":
        # no database call: the fingerprint is sent when the bound key is the instance's own key
        c1 = first_if(arm)
        if not c1: raise ParseError("HardwareFingerprint: no guard")
        inner = first_if(arm[c1[1] + 1:c1[2]])
        ok = squash(c1[0]) == "!key.is_empty()" and inner and squash(inner[0]) in ("key.eq(&peer.verifying_key)", "key.eq(&peer.verifying_key)")
        sends = [m.start() for m in re.finditer(r"peer\s*\.\s*send\s*\(", arm)]
        inside = inner and all(c1[1] + 1 + inner[1] < s < c1[1] + 1 + inner[2] for s in sends)
        if not (ok and sends and inside): raise ParseError("HardwareFingerprint: unrecognised guard %r" % c1[0])
        return kind, "keyIsOwn", "fingerprint", True
    if len(main) != 1: raise ParseError("Query::%s: expected exactly one database call, found %s" % (variant, [c[0] for c in main]))
    fn, pos, par = main[0]
    source = SOURCE.get(fn)
    if source is None: raise ParseError("Query::%s: unknown database call %s" % (variant, fn))
    args = arm[par + 1:match_close(arm, par, "(", ")")]
    first_arg = squash(args.split(",")[0]) if args.strip() else ""
    g = first_if(arm)
    if g is None or not (g[1] < pos < g[2]):
        # the database call is not inside the then-branch of a leading `if`: unguarded
        return kind, "none", source, True
    cond = squash(g[0])
    m = re.match(r"peer\.allowed_room\.contains\(&(\w+)\)$", cond)
    if m:
        room_var = m.group(1)
        queried = first_arg in (room_var, room_var + ".clone()", "&" + room_var) and room_var in vars_
        # every successful send must also be inside the guarded branch
        for s in re.finditer(r"peer\s*\.\s*send\s*\(\s*msg\s*\.\s*id\s*,\s*true", arm):
            if not (g[1] < s.start() < g[2]): queried = False
        return kind, "allowedContainsRoom", source, queried
    if cond in ("!key.is_empty()&&conn_ready.load(Ordering::Relaxed)", "conn_ready.load(Ordering::Relaxed)&&!key.is_empty()"):
        lock = re.search(r"let\s+key\s*=\s*verifying_key\s*\.\s*lock\s*\(\s*\)\s*\.\s*await", arm)
        if not lock: raise ParseError("Query::%s: `key` is not the connection's proven key" % variant)
        return kind, "keyProvenAndReady", source, first_arg in ("key.clone()", "key")
    raise ParseError("Query::%s: unrecognised guard %r" % (variant, g[0]))


def query_variants(mod_src):
    m = re.search(r"\benum\s+Query\s*\{", mod_src)
    if not m: raise ParseError("enum Query not found")
    a = m.end() - 1
    body = mod_src[a + 1:match_close(mod_src, a)]
    out, depth, cur = [], 0, ""
    for ch in body + ",":
        if ch in "(<[": depth += 1
        elif ch in ")>]": depth -= 1
        if ch == "," and depth == 0:
            m2 = re.match(r"\s*(\w+)", cur)
            if m2: out.append(m2.group(1))
            cur = ""
        else:
            cur += ch
    return out


def extract(repo):
    src = strip_comments(open(os.path.join(repo, "src/synchronisation/peer_outbound_service.rs")).read())
    mod = strip_comments(open(os.path.join(repo, "src/synchronisation/mod.rs")).read())
    _, body = fn_of(impl_block(src, "InboundQueryService"), "process_inbound")
    table = [analyse(v, vs, arm) for v, vs, arm in arms_of(body)]
    variants = query_variants(mod)
    for v in variants:
        if v not in KIND: raise ParseError("enum Query has an unknown variant %s" % v)
    # add_allowed_room must only insert
    hb = impl_block(src, "RemotePeerHandle")
    _, addb = fn_of(hb, "add_allowed_room")
    if squash(addb) != "self.allowed_room.insert(room);": raise ParseError("RemotePeerHandle::add_allowed_room changed")
    return table, variants


HEADER = """import DiscretModel.Model.Serve
/-
GENERATED by /verif/translators/serve_table.py from the working tree of the repository on every run of
./check C08 — do not edit. Source: %s/src/synchronisation/peer_outbound_service.rs
-/
namespace Discret.Serve.Gen
open Discret.Serve
"""


def render(repo):
    head = HEADER % repo
    try:
        table, variants = extract(repo)
    except (ParseError, OSError) as e:
        msg = str(e).replace("-/", "- /")
        ident = "T1_cannot_parse__" + re.sub(r"\W+", "_", str(e))[:150]
        return head + "\n/-- translator T1 could not read the serving code: the obligations of C08 are not discharged.\n    %s -/\ndef translatorError : String := %s\n\nend Discret.Serve.Gen\n" % (msg, ident), str(e)
    out = [head, "/-- one entry per `Query::…` arm of `process_inbound`, in source order -/", "def serveTable : List Entry := ["]
    out.append(",\n".join("  ⟨.%s, .%s, .%s, %s⟩" % (k, g, s, "true" if q else "false") for k, g, s, q in table))
    out.append("]\n")
    out.append("/-- the variants of `enum Query` (src/synchronisation/mod.rs) -/")
    out.append("def queryKinds : List QueryKind := [" + ", ".join("." + KIND[v] for v in variants) + "]\n")
    out.append("end Discret.Serve.Gen")
    return "\n".join(out) + "\n", None


def generate(repo, out_path):
    text, err = render(repo)
    old = open(out_path).read() if os.path.exists(out_path) else None
    if old != text:
        os.makedirs(os.path.dirname(out_path), exist_ok=True)
        tmp = out_path + ".tmp"
        with open(tmp, "w") as f: f.write(text)
        os.replace(tmp, out_path)
    return err


if __name__ == "__main__":
    a = sys.argv[1:]
    repo = a[a.index("--repo") + 1] if "--repo" in a else "/repo"
    here = os.path.dirname(os.path.dirname(os.path.abspath(__file__)))
    out = a[a.index("--out") + 1] if "--out" in a else os.path.join(here, "lean/DiscretModel/Gen/ServeTable.lean")
    e = generate(repo, out)
    if e: print("T1 parse error: " + e); sys.exit(1)
    print("wrote " + out)
