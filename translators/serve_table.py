#!/usr/bin/env python3
"""Translator T1: every `Query::…` arm of `InboundQueryService::process_inbound`
   (src/synchronisation/peer_outbound_service.rs), its guard expression and its database call,
   the membership re-check in front of the arms (which request kinds it covers),
   and (T1b) the admit / revoke decision of `LocalPeerService::process_local_event` for
   `LocalEvent::RoomDefinitionChanged` (src/synchronisation/peer_inbound_service.rs)
   -> lean/DiscretModel/Gen/ServeTable.lean :
        serveTable : List Entry (kind, guard, source, guardedRoomIsQueried, recheck)
        eventRule : EventRule (admit test, revokes)      code : Code := ⟨serveTable, eventRule⟩

   usage: serve_table.py [--repo /repo] [--out FILE]       (python3 stdlib only, regex level)
Also lists the variants of `enum Query` (src/synchronisation/mod.rs) so that the Lean side can check that
every request kind of the protocol has an arm in the table.
A source that cannot be parsed yields a Gen file with an unknown identifier naming the problem, so that
the obligations of C08 stop checking (the check then searches dynamically)."""
import os, re, sys
sys.path.insert(0, os.path.dirname(os.path.abspath(__file__)))
from digest_layout import ParseError, strip_comments, match_close, impl_block, fn_of, repo_of_harness

KIND = {"ProveIdentity": "proveIdentity", "HardwareFingerprint": "hardwareFingerprint", "RoomList": "roomList",
        "RoomDefinition": "roomDefinition", "RoomNode": "roomNode", "RoomLog": "roomLog", "RoomLogAt": "roomLogAt",
        "EdgeDeletionLog": "edgeDeletionLog", "NodeDeletionLog": "nodeDeletionLog", "RoomDailyNodes": "roomDailyNodes",
        "Nodes": "nodes", "Edges": "edges", "PeersForRoom": "peersForRoom"}
SOURCE = {"sign": "sign", "get_rooms_for_peer": "roomsForPeer", "get_room_definition": "roomDefinition",
          "get_room_node": "roomNode", "get_room_log": "roomLog", "get_room_log_at": "roomLogAt",
          "get_room_edge_deletion_log": "edgeDeletionLog", "get_room_node_deletion_log": "nodeDeletionLog",
          "get_room_daily_nodes": "roomDailyNodes", "get_nodes": "nodes", "get_edges": "edges",
          "peers_for_room": "peersForRoom"}
# database calls that only fetch the instance's own peer row for the identity answer
AUX_CALLS = {"get_peer_node"}


def squash(e):
    return re.sub(r"\s+", "", e)


def arms_of(body):
    """[(variant, [bound vars], arm body)] of the `match msg.query { … }`"""
    m = re.search(r"match\s+msg\s*\.\s*query\s*\{", body)
    if not m: raise ParseError("`match msg.query` not found in process_inbound")
    a = m.end() - 1
    block = body[a + 1:match_close(body, a)]
    arms, i = [], 0
    pat = re.compile(r"Query\s*::\s*(\w+)\s*(\(([^)]*)\))?\s*=>\s*\{")
    while True:
        m = pat.search(block, i)
        if not m: break
        b = m.end() - 1
        e = match_close(block, b)
        vars_ = [v.strip() for v in (m.group(3) or "").split(",") if v.strip()]
        arms.append((m.group(1), vars_, block[b + 1:e]))
        i = e + 1
    if not arms: raise ParseError("no Query:: arm found")
    return arms


def first_if(arm):
    """(condition, then-block start, then-block end) of the first `if` of the arm, or None"""
    for m in re.finditer(r"\bif\b", arm):
        if arm[:m.start()].rstrip().endswith("else"): continue
        rest = arm[m.end():]
        if re.match(r"\s*let\b", rest): continue            # `if let` is a pattern match, not a guard
        b = arm.find("{", m.end())
        if b < 0: return None
        return arm[m.end():b].strip(), b, match_close(arm, b)
    return None


def analyse(variant, vars_, arm):
    kind = KIND.get(variant)
    if kind is None: raise ParseError("unknown request kind Query::%s" % variant)
    calls = [(m.group(1), m.start(), m.end() - 1) for m in re.finditer(r"peer\s*\.\s*db\s*\.\s*(\w+)\s*\(", arm)]
    main = [c for c in calls if c[0] not in AUX_CALLS]
    if kind == "hardwareFingerprint":
        # no database call: the fingerprint is sent when the bound key is the instance's own key
        c1 = first_if(arm)
        if not c1: raise ParseError("HardwareFingerprint: no guard")
        inner = first_if(arm[c1[1] + 1:c1[2]])
        ok = squash(c1[0]) == "!key.is_empty()" and inner and squash(inner[0]) in ("key.eq(&peer.verifying_key)", "key.eq(&peer.verifying_key)")
        sends = [m.start() for m in re.finditer(r"peer\s*\.\s*send\s*\(", arm)]
        inside = inner and all(c1[1] + 1 + inner[1] < s < c1[1] + 1 + inner[2] for s in sends)
        if not (ok and sends and inside): raise ParseError("HardwareFingerprint: unrecognised guard %r" % c1[0])
        return kind, "keyIsOwn", "fingerprint", True
    if len(main) != 1: raise ParseError("Query::%s: expected exactly one database call, found %s" % (variant, [c[0] for c in main]))
    fn, pos, par = main[0]
    source = SOURCE.get(fn)
    if source is None: raise ParseError("Query::%s: unknown database call %s" % (variant, fn))
    args = arm[par + 1:match_close(arm, par, "(", ")")]
    first_arg = squash(args.split(",")[0]) if args.strip() else ""
    g = first_if(arm)
    if g is None or not (g[1] < pos < g[2]):
        # the database call is not inside the then-branch of a leading `if`: unguarded
        return kind, "none", source, True
    cond = squash(g[0])
    m = re.match(r"peer\.allowed_room\.contains\(&(\w+)\)$", cond)
    if m:
        room_var = m.group(1)
        queried = first_arg in (room_var, room_var + ".clone()", "&" + room_var) and room_var in vars_
        # every successful send must also be inside the guarded branch
        for s in re.finditer(r"peer\s*\.\s*send\s*\(\s*msg\s*\.\s*id\s*,\s*true", arm):
            if not (g[1] < s.start() < g[2]): queried = False
        return kind, "allowedContainsRoom", source, queried
    if cond in ("!key.is_empty()&&conn_ready.load(Ordering::Relaxed)", "conn_ready.load(Ordering::Relaxed)&&!key.is_empty()"):
        lock = re.search(r"let\s+key\s*=\s*verifying_key\s*\.\s*lock\s*\(\s*\)\s*\.\s*await", arm)
        if not lock: raise ParseError("Query::%s: `key` is not the connection's proven key" % variant)
        return kind, "keyProvenAndReady", source, first_arg in ("key.clone()", "key")
    raise ParseError("Query::%s: unrecognised guard %r" % (variant, g[0]))


RECHECK_BODY = ("if peer.allowed_room.contains(V) {"
                " let key = verifying_key.lock().await.clone();"
                " let (reply, receive) = oneshot::channel::<HashSet<Uid>>();"
                " let recheck = AuthorisationMessage::RoomsForPeer(key, now(), reply);"
                " let _ = peer.db.auth.send(recheck).await;"
                " if !receive.await.is_ok_and(|rooms| rooms.contains(V)) { peer.allowed_room.remove(V); }"
                " }")


def recheck_prelude(body, src):
    """the request kinds whose room is re-validated before the arms: the statement
         if let Query::A(v, ..) | Query::B(v, ..) | … = &msg.query { <RECHECK_BODY with V := v> }
       in front of `match msg.query`. Nothing in front of the match -> no kind. Anything else -> ParseError."""
    m = re.search(r"match\s+msg\s*\.\s*query\s*\{", body)
    pre = body[:m.start()].strip()
    if not pre: return []
    m = re.match(r"if\s+let\s+(.*?)=\s*&\s*msg\s*\.\s*query\s*\{", pre, re.S)
    if not m: raise ParseError("process_inbound: unrecognised statement in front of `match msg.query`")
    b = m.end() - 1
    e = match_close(pre, b)
    if pre[e + 1:].strip(): raise ParseError("process_inbound: unrecognised statement after the membership re-check")
    kinds, var = [], None
    for alt in m.group(1).split("|"):
        a = re.match(r"\s*Query\s*::\s*(\w+)\s*\(\s*(\w+)\s*((?:,\s*_\s*)*)\)\s*$", alt)
        if not a: raise ParseError("membership re-check: unrecognised pattern %r" % alt.strip())
        if a.group(1) not in KIND: raise ParseError("membership re-check: unknown request kind %s" % a.group(1))
        if var not in (None, a.group(2)): raise ParseError("membership re-check: patterns bind different variables")
        var = a.group(2)
        kinds.append(KIND[a.group(1)])
    if squash(pre[b + 1:e]) != squash(RECHECK_BODY.replace("V", var)):
        raise ParseError("membership re-check: unrecognised body")
    # the names the body relies on must be the crate's own items
    for need in (r"date_utils\s*::\s*now\b", r"authorisation_service\s*::\s*AuthorisationMessage\b"):
        if not re.search(need, src): raise ParseError("membership re-check: `%s` is not imported from the crate" % need)
    return kinds


def event_rule(repo):
    """(admit test, revokes) of the `LocalEvent::RoomDefinitionChanged(room)` arm of process_local_event"""
    src = strip_comments(open(os.path.join(repo, "src/synchronisation/peer_inbound_service.rs")).read())
    _, body = fn_of(impl_block(src, "LocalPeerService"), "process_local_event")
    m = re.search(r"LocalEvent\s*::\s*RoomDefinitionChanged\s*\(\s*(\w+)\s*\)\s*=>\s*\{", body)
    if not m: raise ParseError("process_local_event: no RoomDefinitionChanged arm")
    room = m.group(1)
    b = m.end() - 1
    arm = body[b + 1:match_close(body, b)]
    if not re.search(r"let\s+key\s*=\s*remote_key\s*\.\s*lock\s*\(\s*\)\s*\.\s*await", arm):
        raise ParseError("process_local_event: `key` is not the connection's proven key")
    g = first_if(arm)
    if g is None: raise ParseError("process_local_event: the room is admitted without a test")
    cond = squash(g[0])
    if cond in ("%s.is_user_valid_at(&key,crate::date_utils::now())" % room, "%s.is_user_valid_at(&key,now())" % room,
                "%s.is_user_valid_at(&key,date_utils::now())" % room):
        admit = "validNow"
    elif cond == "%s.has_user(&key)" % room:
        admit = "hasUser"
    else:
        raise ParseError("process_local_event: unrecognised admission test %r" % g[0])
    adds = [a.start() for a in re.finditer(r"\.\s*add_allowed_room\s*\(", arm)]
    if len(adds) != 1 or not (g[1] < adds[0] < g[2]):
        raise ParseError("process_local_event: add_allowed_room is not (only) inside the tested branch")
    if squash(arm[adds[0]:arm.index(")", adds[0]) + 1]) != ".add_allowed_room(%s.id)" % room:
        raise ParseError("process_local_event: the admitted room is not the event's room")
    rest = arm[g[2] + 1:].strip()
    revokes = False
    if rest.startswith("else"):
        eb = rest.find("{")
        if eb < 0 or rest[4:eb].strip(): raise ParseError("process_local_event: unrecognised else branch")
        ee = match_close(rest, eb)
        if squash(rest[eb + 1:ee]) != "inbound_query_service.remove_allowed_room(%s.id);" % room or rest[ee + 1:].strip():
            raise ParseError("process_local_event: unrecognised else branch")
        revokes = True
    elif rest:
        raise ParseError("process_local_event: unrecognised statement after the admission test")
    return admit, revokes


def query_variants(mod_src):
    m = re.search(r"\benum\s+Query\s*\{", mod_src)
    if not m: raise ParseError("enum Query not found")
    a = m.end() - 1
    body = mod_src[a + 1:match_close(mod_src, a)]
    out, depth, cur = [], 0, ""
    for ch in body + ",":
        if ch in "(<[": depth += 1
        elif ch in ")>]": depth -= 1
        if ch == "," and depth == 0:
            m2 = re.match(r"\s*(\w+)", cur)
            if m2: out.append(m2.group(1))
            cur = ""
        else:
            cur += ch
    return out


def extract(repo):
    src = strip_comments(open(os.path.join(repo, "src/synchronisation/peer_outbound_service.rs")).read())
    mod = strip_comments(open(os.path.join(repo, "src/synchronisation/mod.rs")).read())
    _, body = fn_of(impl_block(src, "InboundQueryService"), "process_inbound")
    rechecked = recheck_prelude(body, src)
    table = [analyse(v, vs, arm) for v, vs, arm in arms_of(body)]
    table = [(k, g, s, q, k in rechecked) for k, g, s, q in table]
    for k in rechecked:
        if k not in [t[0] for t in table]: raise ParseError("membership re-check names a request kind without an arm")
    variants = query_variants(mod)
    for v in variants:
        if v not in KIND: raise ParseError("enum Query has an unknown variant %s" % v)
    # add_allowed_room must only insert
    hb = impl_block(src, "RemotePeerHandle")
    _, addb = fn_of(hb, "add_allowed_room")
    if squash(addb) != "self.allowed_room.insert(room);": raise ParseError("RemotePeerHandle::add_allowed_room changed")
    # … and it is what the serving loop does with a room id received from the event handler
    _, startb = fn_of(impl_block(src, "InboundQueryService"), "start")
    if not re.search(r"Some\s*\(\s*(\w+)\s*\)\s*=>\s*peer\s*\.\s*add_allowed_room\s*\(\s*\1\s*\)", startb):
        raise ParseError("InboundQueryService::start: the room channel no longer feeds add_allowed_room")
    return table, variants, event_rule(repo)


HEADER = """import DiscretModel.Model.Serve
/-
GENERATED by /verif/translators/serve_table.py from the working tree of the repository on every run of
./check C08 — do not edit. Source: %s/src/synchronisation/peer_outbound_service.rs, peer_inbound_service.rs, mod.rs
-/
namespace Discret.Serve.Gen
open Discret.Serve
"""


def render(repo):
    head = HEADER % repo
    try:
        table, variants, (admit, revokes) = extract(repo)
    except (ParseError, OSError) as e:
        msg = str(e).replace("-/", "- /")
        ident = "T1_cannot_parse__" + re.sub(r"\W+", "_", str(e))[:150]
        return head + "\n/-- translator T1 could not read the serving code: the obligations of C08 are not discharged.\n    %s -/\ndef translatorError : String := %s\n\nend Discret.Serve.Gen\n" % (msg, ident), str(e)
    out = [head, "/-- one entry per `Query::…` arm of `process_inbound`, in source order -/", "def serveTable : List Entry := ["]
    tf = lambda b: "true" if b else "false"
    out.append(",\n".join("  ⟨.%s, .%s, .%s, %s, %s⟩" % (k, g, s, tf(q), tf(r)) for k, g, s, q, r in table))
    out.append("]\n")
    out.append("/-- the variants of `enum Query` (src/synchronisation/mod.rs) -/")
    out.append("def queryKinds : List QueryKind := [" + ", ".join("." + KIND[v] for v in variants) + "]\n")
    out.append("/-- the `LocalEvent::RoomDefinitionChanged` arm of `LocalPeerService::process_local_event`\n"
               "    (src/synchronisation/peer_inbound_service.rs): admission test, presence of a revoking else branch -/")
    out.append("def eventRule : EventRule := ⟨.%s, %s⟩\n" % (admit, tf(revokes)))
    out.append("def code : Code := ⟨serveTable, eventRule⟩\n")
    out.append("end Discret.Serve.Gen")
    return "\n".join(out) + "\n", None


def generate(repo, out_path):
    text, err = render(repo)
    old = open(out_path).read() if os.path.exists(out_path) else None
    if old != text:
        os.makedirs(os.path.dirname(out_path), exist_ok=True)
        tmp = out_path + ".tmp"
        with open(tmp, "w") as f: f.write(text)
        os.replace(tmp, out_path)
    return err


if __name__ == "__main__":
    a = sys.argv[1:]
    repo = a[a.index("--repo") + 1] if "--repo" in a else "/repo"
    here = os.path.dirname(os.path.dirname(os.path.abspath(__file__)))
    out = a[a.index("--out") + 1] if "--out" in a else os.path.join(here, "lean/DiscretModel/Gen/ServeTable.lean")
    e = generate(repo, out)
    if e: print("T1 parse error: " + e); sys.exit(1)
    print("wrote " + out)
