#!/usr/bin/env python3
"""T12: src/database/authorisation_service.rs  ->  Gen/DeletionKernel.lean

Translates, statement by statement, the DECISION of `RoomAuthorisations::validate_deletion` — with which right a
local deletion query is accepted — into one Lean function `validate_deletion self deletion_query now :
Except Error Unit` over the structures of Model/DeletionKernelTypes.lean and the regenerated room kernel of T7
(`Room_can`). Lemmas/DeletionKernelEq.lean proves it equal to the decisions of the hand-written local deletion
model (Model/LocalWrite.lean: `deleteNode`, `deleteRef`, `deleteRoomAdminRef`) that C01 and C12 are proved about.

What is NOT translated, on purpose (side effects on the query that do not take part in the decision):
  * `for node in &mut q.updated_nodes { node.sign(&self.signing_key)?; }` is read as the identity (signing a row
    with the caller's key cannot fail for the rows `DeletionQuery::build` puts there; what the signature binds is C06);
  * `let log_entry = NodeDeletionEntry::build(..)/EdgeDeletionEntry::build(..); q.node_log/edge_log.push(log_entry);`
    are read as no-ops (the records are what `deleteNode`/`deleteRef` of the model write; their content is compared on
    every run by the correspondence harness) — the bound name may be used by that `push` only;
  * the payload of the errors (`AuthorisationRejected(name, room)`, `UnknownRoom(room)`) is dropped.
`now()` is the parameter `now`; `self.signing_key.export_verifying_key()` is `self.key`; `.as_str()`, `.clone()` and `&`
are the identity; `a.eq(&b)` is `a = b`; `.iter().filter(|x| c).map(|x| e).collect()` is `filter`/`map` on a list and
`.contains(&x)` list membership; an or-pattern of constants `A | B => return Err(..), _ => {..}` is a disjunction of
equalities. ANY other statement or expression makes the translator fail (TranslateError): nothing is skipped silently."""
import os, re, sys
sys.path.insert(0, os.path.dirname(os.path.abspath(__file__)))
from common import *
import rustmini

SRC = "src/database/authorisation_service.rs"
# the fields the types file declares (Rust name -> Rust type), checked against the Rust structs on every run
DECLARED = {
    "Node": ("src/database/node.rs", {"id": "Uid", "room_id": "Option<Uid>", "verifying_key": "Vec<u8>"}),
    "Edge": ("src/database/edge.rs", {"src": "Uid", "src_entity": "String", "verifying_key": "Vec<u8>"}),
    "NodeDelete": ("src/database/deletion.rs", {"node": "Node", "name": "String", "date": "i64"}),
    "EdgeDelete": ("src/database/deletion.rs", {"edge": "Edge", "src_name": "String", "room_id": "Option<Uid>", "date": "i64"}),
    "DeletionQuery": ("src/database/deletion.rs", {"nodes": "Vec<NodeDelete>", "node_log": "Vec<NodeDeletionEntry>",
                                                   "updated_nodes": "Vec<Node>", "edges": "Vec<EdgeDelete>",
                                                   "edge_log": "Vec<EdgeDeletionEntry>"}),
    "RoomAuthorisations": (SRC, {"signing_key": "Ed25519SigningKey", "rooms": "HashMap<Uid,Room>"}),
}
FULL = ["ROOM_ENT", "AUTHORISATION_ENT", "ENTITY_RIGHT_ENT", "USER_AUTH_ENT"]
CONSTS = FULL + [c + "_SHORT" for c in FULL]
LOGS = {"node_log": "NodeDeletionEntry", "edge_log": "EdgeDeletionEntry"}
ERRORS = {"DeleteNotAllowed", "AuthorisationRejected", "UnknownRoom"}


def fail(what, node):
    raise TranslateError("validate_deletion: %s outside the supported subset: %r" % (what, node))


class Emit12:
    def __init__(self):
        self.opaque = set()      # names bound to a log entry (`…::build(..)`): usable by the matching push only

    # ---------------------------------------------------------------- expressions (pure, Bool / values)
    def E(self, e):
        k = e[0]
        if k in ("ref", "deref"): return self.E(e[1])
        if k == "id":
            if e[1] in self.opaque: fail("use of a log entry", e)
            return e[1]
        if k == "field":
            if e[1] == ("id", "self") and e[2] == "signing_key": fail("use of the signing key", e)
            f = "key" if e[2] == "verifying_key" else e[2]
            return "%s.%s" % (self.E(e[1]), f)
        if k == "path":
            if len(e[1]) == 2 and e[1][0] == "RightType": return "RightType." + e[1][1][0].lower() + e[1][1][1:]
            if len(e[1]) == 2 and e[1][0] == "system_entities" and e[1][1] in CONSTS: return e[1][1]
            fail("path", e)
        if k == "not": return "(!%s)" % self.E(e[1])
        if k == "bin" and e[1] in ("&&", "||"): return "(%s %s %s)" % (self.E(e[2]), e[1], self.E(e[3]))
        if k == "call" and e[1] == ("id", "now") and not e[2]: return "now"
        if k == "if" and e[3] is not None:
            return "(if %s then %s else %s)" % (self.E(e[1]), self.tailexpr(e[2]), self.tailexpr(e[3]))
        if k == "mcall":
            recv, m, args = e[1], e[2], e[3]
            if m in ("as_str", "clone", "iter") and not args: return self.E(recv)
            if m == "export_verifying_key" and recv == ("field", ("id", "self"), "signing_key") and not args: return "self.key"
            if m == "eq" and len(args) == 1: return "(decide (%s = %s))" % (self.E(recv), self.E(args[0]))
            if m == "can" and len(args) == 4:
                return "(Discret.Gen.RoomKernel.Room_can %s)" % " ".join([self.E(recv)] + [self.E(a) for a in args])
            if m in ("filter", "map") and len(args) == 1 and args[0][0] == "closure" and len(args[0][1]) == 1 \
                    and args[0][1][0][0] == "pid":
                return "(%s.%s (fun %s => %s))" % (self.E(recv), m, args[0][1][0][1], self.E(args[0][2]))
            if m == "collect" and not args: return self.E(recv)
            if m == "contains" and len(args) == 1: return "(%s.contains %s)" % (self.E(recv), self.E(args[0]))
            if m == "get" and recv == ("field", ("id", "self"), "rooms") and len(args) == 1:
                return "(Rust.hmGet (fun (x : Room) => x.id) self.rooms %s)" % self.E(args[0])
        fail("expression", e)

    def tailexpr(self, blk):
        if blk[0] != "blk" or blk[1] or blk[2] is None: fail("block used as a value", blk)
        return self.E(blk[2])

    def err(self, e):
        """`Err(Error::X(..))` -> `.error Error.X`"""
        if e[0] == "call" and e[1] == ("id", "Err") and len(e[2]) == 1 and e[2][0][0] == "call" \
                and e[2][0][1][0] == "path" and e[2][0][1][1][0] == "Error" and e[2][0][1][1][1] in ERRORS:
            return "(.error Error.%s)" % e[2][0][1][1][1]
        fail("returned value", e)

    # ---------------------------------------------------------------- statements (Except Error Unit)
    def block(self, blk):
        if blk[0] != "blk": fail("block", blk)
        stmts = list(blk[1]) + ([("expr", blk[2])] if blk[2] is not None else [])
        return self.seq(stmts)

    def seq(self, stmts):
        if not stmts: return "(.ok ())"
        s, rest = stmts[0], stmts[1:]
        if s[0] == "let" and s[1][0] == "pid":
            name, init = s[1][1], s[3]
            if init[0] == "call" and init[1][0] == "path" and len(init[1][1]) == 2 and init[1][1][1] == "build" \
                    and init[1][1][0] in LOGS.values():
                self.opaque.add(name)                      # construction of a log entry: no-op
                return self.seq(rest)
            return "(let %s := %s\n%s)" % (name, self.E(init), self.seq(rest))
        if s[0] == "for" and s[1][0] == "pid":
            x, coll, body = s[1][1], s[2], s[3]
            # the signing loop: identity
            if body == ("blk", [("expr", ("try", ("mcall", ("id", x), "sign", [("ref", ("field", ("id", "self"), "signing_key"))])))], None) \
                    and coll == ("ref", ("field", ("id", "deletion_query"), "updated_nodes")):
                return self.seq(rest)
            return self.then("(Rust.forTry %s (fun %s =>\n%s))" % (self.E(coll), x, self.block(body)), rest)
        if s[0] == "expr":
            e = s[1]
            if e == ("call", ("id", "Ok"), [("unit",)]) and not rest: return "(.ok ())"
            if e[0] == "return": return self.err(e[1])
            if e[0] == "block": return self.then(self.block(e[1]), rest)
            # q.<log>.push(entry)
            if e[0] == "mcall" and e[2] == "push" and e[1][0] == "field" and e[1][1] == ("id", "deletion_query") \
                    and e[1][2] in LOGS and len(e[3]) == 1 and e[3][0][0] == "id" and e[3][0][1] in self.opaque:
                return self.seq(rest)
            if e[0] == "if" and e[3] is None:
                return "(if %s then %s else\n%s)" % (self.E(e[1]), self.block(e[2]), self.seq(rest))
            if e[0] == "iflet" and e[4] is None and e[1][0] == "ptuple" and e[1][1] == ["Some"] and e[1][2][0][0] == "pid":
                return self.then("(match %s with\n | some %s => %s\n | none => .ok ())" % (
                    self.E(e[2]), e[1][2][0][1], self.block(e[3])), rest)
            if e[0] == "match":
                arms = e[2]
                # A | B | .. => return Err(..), _ => { .. }
                if len(arms) == 2 and arms[0][0][0] in ("por", "ppath") and arms[1][0] == ("pwild",) and arms[0][1][0] == "return":
                    alts = arms[0][0][1] if arms[0][0][0] == "por" else [arms[0][0]]
                    sc = self.E(e[1])
                    for a in alts:
                        if a[0] != "ppath" or len(a[1]) != 2 or a[1][0] != "system_entities" or a[1][1] not in CONSTS:
                            fail("pattern", a)
                    cond = " || ".join("decide (%s = %s)" % (sc, a[1][1]) for a in alts)
                    return self.then("(if %s then %s else\n%s)" % (cond, self.err(arms[0][1][1]), self.arm(arms[1][1])), rest)
                # Some(x) => { .. }, None => return Err(..)
                if len(arms) == 2 and arms[0][0][0] == "ptuple" and arms[0][0][1] == ["Some"] and arms[0][0][2][0][0] == "pid" \
                        and arms[1][0] == ("ppath", ["None"]) and arms[1][1][0] == "return":
                    return self.then("(match %s with\n | some %s => %s\n | none => %s)" % (
                        self.E(e[1]), arms[0][0][2][0][1], self.arm(arms[0][1]), self.err(arms[1][1][1])), rest)
        fail("statement", s)

    def arm(self, body):
        if body[0] == "block": return self.block(body[1])
        if body[0] == "return": return self.err(body[1])
        fail("match arm", body)

    def then(self, a, rest):
        if not rest: return a
        return "(match %s with\n | .error e => .error e\n | .ok _ => %s)" % (a, self.seq(rest))


def check_structs(repo, parsed):
    cache = {SRC: parsed}
    for name, (f, fields) in DECLARED.items():
        if f not in cache: cache[f] = rustmini.parse_file(read(repo, f))
        rust = dict(cache[f]["structs"].get(name, []))
        if not rust: raise TranslateError("struct %s not found in %s" % (name, f))
        for fld, want in fields.items():
            got = rust.get(fld)
            if got is None: raise TranslateError("%s has no field `%s` any more" % (name, fld))
            if got.replace(" ", "") != want:
                raise TranslateError("%s.%s has type %s, the types file declares %s" % (name, fld, got, want))
    consts = rustmini.parse_file(read(repo, "src/database/system_entities.rs"))["consts"]
    for c in CONSTS:
        if c not in consts: raise TranslateError("system_entities::%s not found" % c)
    # a short name is never the full name of the same entity (what makes the two Lean types distinct meaningful)
    for c in FULL:
        if consts[c] == consts[c + "_SHORT"]: raise TranslateError("%s and %s_SHORT are the same text" % (c, c))


def generate(repo):
    parsed = rustmini.parse_file(read(repo, SRC))
    fn = parsed["impls"].get("RoomAuthorisations", {}).get("validate_deletion")
    if fn is None: raise TranslateError("RoomAuthorisations::validate_deletion not found")
    if fn["error"]: raise TranslateError("validate_deletion does not parse: " + fn["error"])
    if [p for p, _ in fn["params"]] != ["deletion_query"] or (fn["ret"] or "").replace(" ", "") != "Result<()>":
        raise TranslateError("validate_deletion has another signature: %r -> %r" % (fn["params"], fn["ret"]))
    check_structs(repo, parsed)
    body = Emit12().block(fn["body"])
    return """import DiscretModel.Gen.RoomKernel
import DiscretModel.Model.DeletionKernelTypes
/-
GENERATED by /verif/translators/t12_deletion_kernel.py from RoomAuthorisations::validate_deletion of
%s of the repository under verification, on every run of the checks of C01 and C12 — do not edit.
The DECISION only: the signing of the re-dated rows is read as the identity and the construction / push of the
deletion records as no-ops (see the header of the translator); `now()` is the parameter `now`.
-/
namespace Discret.Gen.DeletionKernel
open Discret.Room

def validate_deletion (self : RoomAuthorisations) (deletion_query : DeletionQuery) (now : Int) : Except Error Unit :=
%s

end Discret.Gen.DeletionKernel
""" % (SRC, body)


def main(repo="/repo"):
    write_if_changed("DeletionKernel.lean", generate(repo))


if __name__ == "__main__":
    main(sys.argv[1] if len(sys.argv) > 1 else "/repo")
