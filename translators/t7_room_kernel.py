#!/usr/bin/env python3
"""T7: src/database/room.rs  ->  Gen/RoomKernel.lean

Translates the decision kernel of the authorisation model — the bodies of
  Room::{add_auth, add_admin_user, is_admin, is_user_valid_at, has_user, can}
  Authorisation::{add_right, add_user_admin, add_user, get_right_at, has_user, can_admin_users,
                  is_user_valid_at, can}
  EntityRight::new
— statement by statement into Lean definitions over the structures of Model/Room.lean, using the small
fixed prelude Model/RustPrelude.lean (HashMap<K, Vec<V>> as one insertion-ordered list, `for … return`
as `findSome?`). Lemmas/RoomKernelEq.lean then PROVES that each regenerated function equals the
hand-written model function the six room properties (C01 C02 C07 C08 C10 C12) are proved about. A
semantic change to one of these Rust functions therefore breaks a proof obligation (not only the
sampled correspondence); a rewrite the translator cannot read fails loudly.

What is trusted here: this translator's reading of the Rust subset (rustmini.py), the rename table
below, and the prelude's view of the hash maps (a key is present iff a value was pushed for it — every
`entry(k).or_default()` of the translated functions is followed by a `push` on every non-error path,
which the translator checks)."""
import os, sys
sys.path.insert(0, os.path.dirname(os.path.abspath(__file__)))
from common import *
import rustmini

SRC = "src/database/room.rs"
TYPES = {"Room": "Room", "Authorisation": "Auth", "User": "User", "EntityRight": "Right"}
FIELDS = {"verifying_key": "key", "valid_from": "validFrom", "mutate_self": "mutSelf", "mutate_all": "mutAll",
          "authorisations": "auths", "user_admins": "userAdmins"}
WANTED = {
    "Authorisation": ["add_right", "add_user_admin", "add_user", "get_right_at", "has_user", "can_admin_users",
                      "is_user_valid_at", "can"],
    "Room": ["add_auth", "add_admin_user", "is_admin", "is_user_valid_at", "has_user", "can"],
    "EntityRight": ["new"],
}
ERRORS = {"InvalidUserDate": "invalidUserDate", "InvalidRightDate": "invalidRightDate",
          "AuthorisationExists": "authorisationExists"}


def lf(name): return FIELDS.get(name, name)


def ty_of_text(t):
    t = t.replace(" ", "")
    t = t.lstrip("&")
    if t.startswith("mut"): t = t[3:]
    if t in ("Vec<u8>",): return "Key"
    if t in ("i64",): return "Int"
    if t in ("str", "String"): return "Ent"
    if t in ("Uid",): return "Id"
    if t == "bool": return "Bool"
    if t == "RightType": return "RightType"
    if t in TYPES: return TYPES[t]
    if t == "Self": return "Self"
    m = None
    import re
    m = re.match(r"HashMap<(.+?),Vec<(\w+)>>$", t)
    if m: return ("mm", ty_of_text(m.group(1)), TYPES.get(m.group(2)))
    m = re.match(r"HashMap<Uid,(\w+)>$", t)
    if m: return ("hm", TYPES.get(m.group(1)))
    m = re.match(r"Option<(.+)>$", t)
    if m: return ("opt", ty_of_text(m.group(1)))
    m = re.match(r"Result<\(\)>$", t)
    if m: return ("result",)
    raise TranslateError("type not in the supported subset: " + t)


def lean_ty(t, selfty):
    if t == "Self": return selfty
    if isinstance(t, str): return t
    if t[0] == "opt": return "Option " + lean_ty(t[1], selfty)
    if t[0] == "result": return "Except Err " + selfty
    raise TranslateError("cannot print type %r" % (t,))


class Emit:
    wanted = WANTED
    src = SRC

    def __init__(self, parsed):
        self.parsed = parsed
        self.structs = {}
        for s, fields in parsed["structs"].items():
            if s in TYPES:
                self.structs[TYPES[s]] = {lf(f): ty_of_text(t) for f, t in fields}
        self.keyfield = {}      # (LeanType, leanField) -> key accessor field of the element type, from entry() sites
        self.ret = {}
        for t, fns in self.wanted.items():
            for f in fns:
                d = self.fn(t, f)
                self.ret[(TYPES[t], f)] = ty_of_text(d["ret"]) if d["ret"] else None
        self.find_keyfields()

    def fn(self, t, f):
        d = self.parsed["impls"].get(t, {}).get(f)
        if d is None: raise TranslateError("function %s::%s not found in %s" % (t, f, self.src))
        if d["error"]: raise TranslateError("function %s::%s is outside the supported subset: %s" % (t, f, d["error"]))
        return d

    # every `self.F.entry(v.k.clone()).or_default()` site fixes the key accessor of the multimap F
    def find_keyfields(self):
        def walk(x, T):
            if isinstance(x, tuple):
                if x and x[0] == "mcall" and x[2] == "or_default":
                    inner = x[1]
                    if inner[0] == "mcall" and inner[2] == "entry" and inner[1][0] == "field" and inner[1][1] == ("id", "self"):
                        k = inner[3][0]
                        while k[0] in ("mcall",) and k[2] == "clone": k = k[1]
                        if k[0] != "field" or k[1][0] != "id":
                            raise TranslateError("entry() key is not `<value>.<field>`")
                        key = (T, lf(inner[1][2]))
                        kf = lf(k[2])
                        if self.keyfield.get(key, kf) != kf:
                            raise TranslateError("two different key fields for %s.%s" % key)
                        self.keyfield[key] = kf
                for y in x: walk(y, T)
            elif isinstance(x, list):
                for y in x: walk(y, T)
        for t, fns in self.wanted.items():
            for f in fns: walk(self.fn(t, f)["body"], TYPES[t])
        # the multimaps that are only read must have got their key from a writer
        for T, fields in self.structs.items():
            for f, ty in fields.items():
                if isinstance(ty, tuple) and ty[0] == "mm" and (T, f) not in self.keyfield:
                    raise TranslateError("no entry() site fixes the key of %s.%s" % (T, f))

    # ------------------------------------------------------------------ types of expressions (light)
    def typeof(self, e, env):
        k = e[0]
        if k == "id": return env.get(e[1])
        if k in ("ref", "deref"): return self.typeof(e[1], env)
        if k == "field":
            t = self.typeof(e[1], env)
            if isinstance(t, str) and t in self.structs: return self.structs[t].get(lf(e[2]))
            return None
        if k == "tupf":
            t = self.typeof(e[1], env)
            if isinstance(t, tuple) and t[0] == "pair": return t[1 + e[2]]
            return None
        if k == "mcall":
            recv, m = e[1], e[2]
            t = self.typeof(recv, env)
            if m == "clone": return t
            if m in ("iter", "rev"): return t
            if m == "get" and isinstance(t, tuple) and t[0] == "mm": return ("opt", ("list", t[2]))
            if m in ("find", "last") and isinstance(t, tuple) and t[0] == "list": return ("opt", t[1])
            if m == "or_default":
                inner = recv
                tt = self.typeof(inner[1], env) if inner[0] == "mcall" and inner[2] == "entry" else None
                if isinstance(tt, tuple) and tt[0] == "mm": return ("list", tt[2])
            if isinstance(t, str) and (t, m) in self.ret: return self.ret[(t, m)]
        return None

    def iter_of(self, e, env):
        """(lean term, element type) for `for x in <e>`"""
        inner = e[1] if e[0] == "ref" else e
        t = self.typeof(inner, env)
        if isinstance(t, tuple) and t[0] == "mm":
            owner = self.typeof(inner[1], env)
            kf = self.keyfield[(owner, lf(inner[2]))]
            return "(Rust.mmEntries (fun (x : %s) => x.%s) %s)" % (t[2], kf, self.E(inner, env)), ("pair", t[1], ("list", t[2]))
        if isinstance(t, tuple) and t[0] == "hm":
            return "(Rust.hmEntries (fun (x : %s) => x.id) %s)" % (t[1], self.E(inner, env)), ("pair", "Id", t[1])
        if isinstance(t, tuple) and t[0] == "list":
            return self.E(inner, env), t[1]
        raise TranslateError("cannot iterate over %r (type %r)" % (inner, t))

    # ------------------------------------------------------------------ patterns
    def pat(self, p, ty, env):
        """returns (lean pattern, env')"""
        k = p[0]
        if k == "pref": return self.pat(p[1], ty, env)
        if k == "pwild": return "_", env
        if k == "pid":
            env = dict(env); env[p[1]] = ty
            return p[1], env
        if k == "ptuple" and p[1] == ["Some"]:
            inner = ty[1] if isinstance(ty, tuple) and ty[0] == "opt" else None
            s, env = self.pat(p[2][0], inner, env)
            return "some " + s, env
        if k == "ppath" and p[1] == ["None"]: return "none", env
        if k == "ppath" and len(p[1]) == 2 and p[1][0] == "RightType":
            return "." + p[1][1][0].lower() + p[1][1][1:], env
        raise TranslateError("pattern not in the supported subset: %r" % (p,))

    # ------------------------------------------------------------------ expressions
    def E(self, e, env):
        k = e[0]
        if k == "id":
            if e[1] == "WILDCARD_ENTITY":
                if self.parsed["consts"].get("WILDCARD_ENTITY") != '"*"':
                    raise TranslateError("WILDCARD_ENTITY is no longer \"*\"")
                return "wildcard"
            if e[1] == "None": return "none"
            return e[1]
        if k == "bool": return "true" if e[1] else "false"
        if k in ("ref", "deref"): return self.E(e[1], env)
        if k == "not": return "(!%s)" % self.E(e[1], env)
        if k == "field": return "%s.%s" % (self.E(e[1], env), lf(e[2]))
        if k == "tupf": return "%s.%d" % (self.E(e[1], env), e[2] + 1)
        if k == "bin":
            a, b = self.E(e[2], env), self.E(e[3], env)
            op = e[1]
            if op == "&&": return "(%s && %s)" % (a, b)
            if op == "||": return "(%s || %s)" % (a, b)
            rel = {"<=": "≤", ">=": "≥", "<": "<", ">": ">", "==": "=", "!=": "≠"}[op]
            return "(decide (%s %s %s))" % (a, rel, b)
        if k == "closure":
            if len(e[1]) != 1: raise TranslateError("closure with %d parameters" % len(e[1]))
            ps, env2 = self.pat(e[1][0], env.get("__elem"), env)
            if isinstance(env.get("__elem"), str): ps = "(%s : %s)" % (ps, env["__elem"])
            return "(fun %s => %s)" % (ps, self.E(e[2], env2))
        if k == "mcall": return self.mcall(e, env)
        if k == "call":
            f = e[1]
            if f == ("id", "Some"): return "(some %s)" % self.E(e[2][0], env)
            if f == ("id", "Ok") and e[2] == [("unit",)]: return "(.ok self)"
            if f == ("id", "Err"):
                a = e[2][0]
                if a[0] == "call" and a[1][0] == "path" and a[1][1][0] == "Error" and a[1][1][1] in ERRORS and a[2] == []:
                    return "(.error .%s)" % ERRORS[a[1][1][1]]
            raise TranslateError("call not in the supported subset: %r" % (e,))
        if k == "id" and e[1] == "None": return "none"
        if k == "path":
            if e[1] == ["None"]: return "none"
            if len(e[1]) == 2 and e[1][0] == "RightType": return "RightType." + e[1][1][0].lower() + e[1][1][1:]
            raise TranslateError("path not supported: %r" % (e,))
        if k == "if":
            return "(if %s then %s else %s)" % (self.E(e[1], env), self.EB(e[2], env),
                                                self.EB(e[3], env) if e[3] else "()")
        if k == "iflet":
            ps, env2 = self.pat(e[1], self.typeof(e[2], env), env)
            if e[4] is None: raise TranslateError("`if let` used as a value without else")
            return "(match %s with\n | %s => %s\n | _ => %s)" % (self.E(e[2], env), ps, self.EB(e[3], env2), self.EB(e[4], env))
        if k == "match":
            t = self.typeof(e[1], env)
            arms = []
            for p, body in e[2]:
                ps, env2 = self.pat(p, t, env)
                arms.append(" | %s => %s" % (ps, self.E(body, env2)))
            return "(match %s with\n%s)" % (self.E(e[1], env), "\n".join(arms))
        if k == "block": return self.EB(e[1], env)
        if k == "struct":
            name = env["__self"] if e[1] == "Self" else TYPES.get(e[1])
            if not name: raise TranslateError("struct literal of unknown type " + e[1])
            want = set(self.structs[name])
            got = {lf(f) for f, _ in e[2]}
            if want != got: raise TranslateError("struct literal %s sets %s, the model has %s" % (name, sorted(got), sorted(want)))
            return "({ %s } : %s)" % (", ".join("%s := %s" % (lf(f), self.E(v, env)) for f, v in e[2]), name)
        raise TranslateError("expression not in the supported subset: %r" % (e,))

    def mcall(self, e, env):
        recv, m, args = e[1], e[2], e[3]
        if m == "clone" and not args: return self.E(recv, env)
        if m == "eq" and len(args) == 1:
            return "(decide (%s = %s))" % (self.E(recv, env), self.E(args[0], env))
        # x.iter().rev().find(closure)
        if m == "find" and recv[0] == "mcall" and recv[2] == "rev" and recv[1][0] == "mcall" and recv[1][2] == "iter":
            base = recv[1][1]
            t = self.typeof(base, env)
            env2 = dict(env); env2["__elem"] = t[1] if isinstance(t, tuple) and t[0] == "list" else None
            return "((%s).reverse.find? %s)" % (self.E(base, env), self.E(args[0], env2))
        if m == "last" and not args:
            return "(%s).getLast?" % self.E(recv, env)
        t = self.typeof(recv, env)
        if isinstance(t, tuple) and t[0] == "mm" and recv[0] == "field":
            owner = self.typeof(recv[1], env)
            kf = self.keyfield[(owner, lf(recv[2]))]
            if m == "get": return "(Rust.mmGet (fun (x : %s) => x.%s) %s %s)" % (t[2], kf, self.E(recv, env), self.E(args[0], env))
            if m == "contains_key": return "(Rust.mmContains (fun (x : %s) => x.%s) %s %s)" % (t[2], kf, self.E(recv, env), self.E(args[0], env))
        if isinstance(t, tuple) and t[0] == "hm":
            if m == "contains_key": return "(Rust.hmContains (fun (x : %s) => x.id) %s %s)" % (t[1], self.E(recv, env), self.E(args[0], env))
        if m == "or_default" and recv[0] == "mcall" and recv[2] == "entry":
            tt = self.typeof(recv[1], env)
            if isinstance(tt, tuple) and tt[0] == "mm":
                owner = self.typeof(recv[1][1], env)
                kf = self.keyfield[(owner, lf(recv[1][2]))]
                return "(Rust.mmGetD (fun (x : %s) => x.%s) %s %s)" % (tt[2], kf, self.E(recv[1], env), self.E(recv[3][0], env))
        if isinstance(t, str) and (t, m) in self.ret:
            return "(%s_%s %s)" % (t, m, " ".join([self.E(recv, env)] + [self.E(a, env) for a in args]))
        raise TranslateError("method call not in the supported subset: .%s on %r (type %r)" % (m, recv, t))

    def EB(self, blk, env):
        """a block used as a value: lets, then the tail expression (no return inside)"""
        if blk is None: raise TranslateError("missing block")
        out = []
        for s in blk[1]:
            if s[0] == "let" and s[1][0] == "pid":
                out.append("let %s := %s;" % (s[1][1], self.E(s[3], env)))
                env = dict(env); env[s[1][1]] = self.typeof(s[3], env)
            else:
                raise TranslateError("statement not supported inside a value block: %r" % (s[0],))
        if blk[2] is None: raise TranslateError("value block without a tail expression")
        return "(" + " ".join(out) + " " + self.E(blk[2], env) + ")"

    # ------------------------------------------------------------------ statements with early return
    def has_return(self, x):
        if isinstance(x, tuple):
            if x and x[0] == "return": return True
            return any(self.has_return(y) for y in x)
        if isinstance(x, list): return any(self.has_return(y) for y in x)
        return False

    def S(self, s, env):
        """Option ρ: `some r` when the statement returns r, `none` when control falls through"""
        if s[0] == "for":
            it, elem = self.iter_of(s[2], env)
            ps, env2 = self.pat(s[1], elem, env)
            return "(Rust.forReturn %s (fun %s => (\n%s)))" % (it, ps, self.SB(s[3], env2))
        e = s[1]
        if e[0] == "return":
            return "(some %s)" % self.E(e[1], env)
        if e[0] == "if":
            return "(if %s then %s else %s)" % (self.E(e[1], env), self.SB(e[2], env), self.SB(e[3], env) if e[3] else "none")
        if e[0] == "iflet":
            ps, env2 = self.pat(e[1], self.typeof(e[2], env), env)
            return "(match %s with\n | %s => %s\n | _ => %s)" % (self.E(e[2], env), ps, self.SB(e[3], env2),
                                                                 self.SB(e[4], env) if e[4] else "none")
        raise TranslateError("statement not in the supported subset: %r" % (e[0],))

    def SB(self, blk, env):
        stmts = list(blk[1])
        if blk[2] is not None:
            if blk[2][0] in ("if", "iflet", "return"): stmts.append(("expr", blk[2]))
            else: raise TranslateError("block with a value where a statement block is expected")
        return self.seq(stmts, env, None)

    def seq(self, stmts, env, tail):
        """tail = None: Option ρ (statement block); tail = lean term producer: ρ (function body)"""
        if not stmts:
            return "none" if tail is None else tail(env)
        s, rest = stmts[0], stmts[1:]
        if s[0] == "let":
            if s[1][0] != "pid": raise TranslateError("let with a pattern")
            env2 = dict(env); env2[s[1][1]] = self.typeof(s[3], env)
            if s[3][0] == "mcall" and s[3][2] == "or_default":
                env2["__entry_" + s[1][1]] = s[3]
            return "let %s := %s\n%s" % (s[1][1], self.E(s[3], env), self.seq(rest, env2, tail))
        if s[0] == "expr" and s[1][0] == "mcall" and s[1][2] == "push" and s[1][1][0] == "id" and "__entry_" + s[1][1][1] in env:
            ent = env["__entry_" + s[1][1][1]]          # self.F.entry(K).or_default()
            fld = ent[1][1]
            v = s[1][3][0]
            k = ent[1][3][0]
            while k[0] == "mcall" and k[2] == "clone": k = k[1]
            if not (k[0] == "field" and k[1] == v):
                raise TranslateError("push of %r under a key that is not its own key field" % (v,))
            f = lf(fld[2])
            return "let self := { self with %s := Rust.mmPush self.%s %s }\n%s" % (f, f, self.E(v, env), self.seq(rest, env, tail))
        if s[0] == "expr" and s[1][0] == "mcall" and s[1][2] == "insert" and s[1][1][0] == "field" and s[1][1][1] == ("id", "self"):
            t = self.typeof(s[1][1], env)
            if not (isinstance(t, tuple) and t[0] == "hm"): raise TranslateError("insert on something that is not the group map")
            kx, vx = s[1][3]
            if not (kx[0] == "field" and kx[1] == vx and kx[2] == "id"):
                raise TranslateError("insert under a key that is not the value's id")
            f = lf(s[1][1][2])
            return "let self := { self with %s := Rust.hmInsert (fun (x : %s) => x.id) self.%s %s }\n%s" % (f, t[1], f, self.E(vx, env), self.seq(rest, env, tail))
        if s[0] == "expr" and s[1][0] == "if" and not self.has_return(s[1]) and s[1][3] is None \
                and all(a[0] == "assign" and a[1][0] == "id" for a in s[1][2][1]) and s[1][2][2] is None:
            out = []
            for a in s[1][2][1]:
                out.append("let %s := if %s then %s else %s" % (a[1][1], self.E(s[1][1], env), self.E(a[2], env), a[1][1]))
            return "\n".join(out) + "\n" + self.seq(rest, env, tail)
        if s[0] == "for" or (s[0] == "expr" and self.has_return(s[1])):
            here = self.S(s, env)
            if tail is None:
                if not rest: return here
                return "(match %s with\n | some r => some r\n | none => (\n%s))" % (here, self.seq(rest, env, tail))
            return "(match %s with\n | some r => r\n | none => (\n%s))" % (here, self.seq(rest, env, tail))
        raise TranslateError("statement not in the supported subset: %r" % (s,))

    def function(self, t, f):
        d = self.fn(t, f)
        T = TYPES[t]
        env = {"__self": T}
        params = []
        if d["self"]:
            env["self"] = T
            params.append("(self : %s)" % T)
        for p, ty in d["params"]:
            pt = ty_of_text(ty)
            env[p] = pt
            params.append("(%s : %s)" % (p, lean_ty(pt, T)))
        ret = ty_of_text(d["ret"])
        blk = d["body"]
        stmts = list(blk[1])
        tail = blk[2]
        if tail is not None and tail[0] in ("if", "iflet") and self.has_return(tail):
            raise TranslateError("tail expression with a return inside")
        if tail is None: raise TranslateError("function %s::%s has no tail expression" % (t, f))
        body = self.seq(stmts, env, lambda env2: self.E(tail, env2))
        return "def %s_%s %s : %s :=\n%s\n" % (T, f, " ".join(params), lean_ty(ret, T), body)


def generate(repo):
    src = read(repo, SRC)
    parsed = rustmini.parse_file(src)
    em = Emit(parsed)
    order = [("EntityRight", "new")]
    for t in ("Authorisation", "Room"):
        # callee before caller: get_right_at before can, Authorisation before Room
        names = list(WANTED[t])
        names.sort(key=lambda n: 0 if n.startswith("get_") or n.startswith("add_") else (1 if n != "can" and n != "is_user_valid_at" or t == "Authorisation" else 2))
        if t == "Authorisation":
            names = [n for n in names if n != "can"] + ["can"]
        order += [(t, n) for n in names]
    defs = [em.function(t, f) for t, f in order]
    keys = "\n".join("-- key of %s.%s: element field `%s`" % (T, f, kf) for (T, f), kf in sorted(em.keyfield.items()))
    text = """import DiscretModel.Model.Room
import DiscretModel.Model.RustPrelude
/-
GENERATED by /verif/translators/t7_room_kernel.py from %s of the repository under verification,
on every run of the checks of C01 C02 C07 C08 C10 C12 — do not edit.
Each definition is the statement-by-statement translation of the Rust function of the same name;
Lemmas/RoomKernelEq.lean proves it equal to the hand-written model function.
-/
namespace Discret.Gen.RoomKernel
open Discret.Room
%s

%s
end Discret.Gen.RoomKernel
""" % (SRC, keys, "\n".join(defs))
    return text


def main(repo="/repo"):
    text = generate(repo)
    write_if_changed("RoomKernel.lean", text)


if __name__ == "__main__":
    main(sys.argv[1] if len(sys.argv) > 1 else "/repo")
