//! Shared helpers of the correspondence harness: argument parsing, the single PRNG,
//! op-file / observation writers, first-appearance canonicalisation.
use rand::rngs::StdRng;
use rand::{Rng, SeedableRng};
use std::collections::HashMap;
use std::fmt::Write as _;
use std::hash::Hash;

/// `--key value` style arguments after the sub-command
pub struct Args {
    pub cmd: String,
    map: HashMap<String, String>,
}
impl Args {
    pub fn parse() -> Self {
        let mut it = std::env::args().skip(1);
        let cmd = it.next().unwrap_or_default();
        let mut map = HashMap::new();
        let rest: Vec<String> = it.collect();
        let mut i = 0;
        while i < rest.len() {
            if let Some(k) = rest[i].strip_prefix("--") {
                if i + 1 < rest.len() && !rest[i + 1].starts_with("--") {
                    map.insert(k.to_string(), rest[i + 1].clone());
                    i += 2;
                } else {
                    map.insert(k.to_string(), "1".to_string());
                    i += 1;
                }
            } else {
                i += 1;
            }
        }
        Self { cmd, map }
    }
    pub fn get(&self, k: &str) -> Option<&str> {
        self.map.get(k).map(|s| s.as_str())
    }
    pub fn str_or(&self, k: &str, d: &str) -> String {
        self.get(k).unwrap_or(d).to_string()
    }
    pub fn u64_or(&self, k: &str, d: u64) -> u64 {
        self.get(k).and_then(|s| s.parse().ok()).unwrap_or(d)
    }
    pub fn usize_or(&self, k: &str, d: usize) -> usize {
        self.get(k).and_then(|s| s.parse().ok()).unwrap_or(d)
    }
}

/// the one PRNG every random choice derives from
pub struct Gen {
    pub rng: StdRng,
}
impl Gen {
    pub fn new(seed: u64) -> Self {
        Self {
            rng: StdRng::seed_from_u64(seed),
        }
    }
    pub fn below(&mut self, n: usize) -> usize {
        if n == 0 {
            0
        } else {
            self.rng.gen_range(0..n)
        }
    }
    pub fn range(&mut self, lo: i64, hi: i64) -> i64 {
        self.rng.gen_range(lo..=hi)
    }
    pub fn chance(&mut self, num: u32, den: u32) -> bool {
        self.rng.gen_range(0..den) < num
    }
    pub fn pick<'a, T>(&mut self, v: &'a [T]) -> &'a T {
        &v[self.below(v.len())]
    }
    /// weighted choice: returns the index
    pub fn weighted(&mut self, w: &[u32]) -> usize {
        let total: u32 = w.iter().sum();
        let mut x = self.rng.gen_range(0..total);
        for (i, wi) in w.iter().enumerate() {
            if x < *wi {
                return i;
            }
            x -= wi;
        }
        w.len() - 1
    }
}

/// maps values to small integers in order of first appearance
pub struct Canon<T: Eq + Hash + Clone> {
    map: HashMap<T, usize>,
    pub items: Vec<T>,
}
impl<T: Eq + Hash + Clone> Default for Canon<T> {
    fn default() -> Self {
        Self {
            map: HashMap::new(),
            items: Vec::new(),
        }
    }
}
impl<T: Eq + Hash + Clone> Canon<T> {
    pub fn id(&mut self, t: &T) -> usize {
        if let Some(i) = self.map.get(t) {
            return *i;
        }
        let i = self.items.len();
        self.map.insert(t.clone(), i);
        self.items.push(t.clone());
        i
    }
    pub fn known(&self, t: &T) -> Option<usize> {
        self.map.get(t).copied()
    }
}

pub fn join<T: std::fmt::Display>(v: &[T], sep: &str) -> String {
    let mut s = String::new();
    for (i, x) in v.iter().enumerate() {
        if i > 0 {
            s.push_str(sep);
        }
        let _ = write!(s, "{}", x);
    }
    s
}

pub fn parse_kv(line: &str) -> (String, HashMap<String, String>) {
    let mut it = line.split_whitespace();
    let kind = it.next().unwrap_or("").to_string();
    let mut m = HashMap::new();
    for t in it {
        if let Some((k, v)) = t.split_once('=') {
            m.insert(k.to_string(), v.to_string());
        }
    }
    (kind, m)
}

pub fn parse_nat_list(s: &str) -> Vec<u64> {
    if s.is_empty() {
        vec![]
    } else {
        s.split(',').filter_map(|x| x.parse().ok()).collect()
    }
}

/// statistics written next to the outputs; the driver merges them into the evidence file
#[derive(Default)]
pub struct Stats {
    pub counters: std::collections::BTreeMap<String, u64>,
    pub samples: Vec<serde_json::Value>,
}
impl Stats {
    pub fn inc(&mut self, k: &str) {
        *self.counters.entry(k.to_string()).or_insert(0) += 1;
    }
    pub fn add(&mut self, k: &str, n: u64) {
        *self.counters.entry(k.to_string()).or_insert(0) += n;
    }
    pub fn sample(&mut self, v: serde_json::Value) {
        if self.samples.len() < 5 {
            self.samples.push(v);
        }
    }
    pub fn write(&self, path: &str) {
        let v = serde_json::json!({"counters": self.counters, "samples": self.samples});
        std::fs::write(path, serde_json::to_string_pretty(&v).unwrap()).unwrap();
    }
}
