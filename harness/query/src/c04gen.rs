//! Generator of C04 op files: every scalar type × position (param / literal / default) × filter
//! position × field place (top / entity reference / array), boundary-heavy values.
use crate::util::*;
use dvcommon::Gen;
use std::io::{BufWriter, Write};

const TYPES: [&str; 6] = ["String", "Integer", "Boolean", "Float", "Base64", "Json"];

fn special_strings() -> Vec<String> {
    let mut v: Vec<String> = vec![
        "", "a", "id", "plain text", "'", "''", "it's", "\"", "q\"q", "\\", "\\\\", "\\\"", "a\\nb", "\\u0041",
        "\0", "a\0b", "\0\0", "\n", "\r\n", "\t", "\u{8}\u{c}", "\u{1}\u{1f}", "\u{7f}", "\u{80}\u{9f}",
        "\u{d7ff}\u{e000}", "\u{fffd}\u{fffe}\u{ffff}", "\u{10000}", "\u{10ffff}", "é", "日本語", "😀",
        "' OR 1=1 --", "'; DROP TABLE _node; --", "x' OR 'x'='x", "\" }", "?1", "?2 ", "$id", "$f", "null", "NULL",
        "true", "0", "-1", "1e3", "%", "_", "%_%", ";", "--", "/* */", "{\"a\":1}", "[1,2]", "{}", "}", "{",
        ")", "(", "\\'", "'\\", "\\\"'", "a' = 'a", "' THEN 1 ELSE 1 END --", "value->>'$.v'", "_json", "json('[]')",
        " ", "  leading", "trailing  ", "\u{a0}", "\u{200b}", "\u{202e}rtl", "\u{feff}bom", "A", "ß", "İ",
    ]
    .into_iter()
    .map(String::from)
    .collect();
    v.push("x".repeat(299));
    v.push("'".repeat(64));
    v.push("\\".repeat(33));
    v
}

const ALPHABET: [&str; 40] = [
    "'", "\"", "\\", "\0", "\n", "\r", "\t", "\u{1}", "\u{1f}", "\u{7f}", "a", "b", "Z", "0", "9", " ", "%", "_", ";", "-",
    "?", "$", "{", "}", "[", "]", ":", ",", "(", ")", "=", "é", "\u{d7ff}", "\u{e000}", "\u{ffff}", "\u{10000}",
    "\u{10ffff}", "/", "*", "u",
];

fn random_string(g: &mut Gen) -> String {
    let n = g.below(10);
    let mut s = String::new();
    for _ in 0..n {
        s.push_str(ALPHABET[g.below(ALPHABET.len())]);
    }
    s
}

fn special_ints() -> Vec<i64> {
    let mut v = vec![
        0, 1, -1, 7, 100, i64::MIN, i64::MAX, i64::MIN + 1, i64::MAX - 1, 1 << 53, (1 << 53) + 1, -(1 << 53) - 1,
        1 << 31, (1 << 31) - 1, -(1 << 31), 1 << 32, 1 << 62, 9, 10, 99, 1000000007, -9, -10,
    ];
    let mut p = 10i64;
    for _ in 0..17 {
        v.push(p);
        v.push(p - 1);
        v.push(-p);
        p = p.saturating_mul(10);
    }
    v
}

fn special_floats() -> Vec<f64> {
    vec![
        0.0, 1.0, -1.0, 1.5, 0.1, 0.2, 0.1 + 0.2, 1.0 / 3.0, 2.0 / 3.0, f64::MAX, f64::MIN, f64::MIN_POSITIVE,
        f64::from_bits(1), f64::from_bits(2), f64::from_bits(0x000f_ffff_ffff_ffff), f64::EPSILON, 1e21, 1e22, 1e23,
        9007199254740992.0, 9007199254740994.0, 123456789012345680000.0, 5e-324, 2.2250738585072014e-308,
        2.2250738585072011e-308, 1.7976931348623157e308, 4.35, 0.000001, 1e-7, 123456.789e3, 8.41e21, 2.0f64.powi(70),
        1e300, 1e-300, 3.141592653589793, 2.718281828459045, 0.30000000000000004, 9.999999999999999e22,
        -0.0000000000000000000001, 1.0000000000000002, 4.9406564584124654e-324, 17.0, -2.5,
    ]
}

fn float_val(f: f64, g: &mut Gen) -> Val {
    let disp = format!("{}", f);
    let integral = !disp.contains('.');
    let typed = if integral && f.abs() < 9.0e15 && g.chance(1, 4) { disp.clone() } else if integral { format!("{}.0", disp) } else { disp.clone() };
    Val::Float(f.to_bits(), typed, disp)
}

fn random_float(g: &mut Gen) -> f64 {
    loop {
        let bits: u64 = ((g.below(1 << 31) as u64) << 33) ^ ((g.below(1 << 31) as u64) << 11) ^ (g.below(1 << 11) as u64);
        let f = f64::from_bits(bits);
        if f.is_finite() {
            return f;
        }
    }
}

fn b64_valid(g: &mut Gen) -> String {
    let n = g.below(12);
    let bytes: Vec<u8> = (0..n).map(|_| g.below(256) as u8).collect();
    discret::verif_hooks::security::base64_encode(&bytes)
}

fn special_json() -> Vec<&'static str> {
    vec![
        "{}", "[]", "{\"k\":1}", "[1,2,{\"a\":null}]", "\"str\"", "5", "true", "{\"a\":{\"b\":{\"c\":[[],[{}]]}}}",
        "{\"it's\":\"it's\"}", "[\"' OR 1=1 --\"]", "{\"z\":1,\"a\":2}", "{\"k\":\"é😀\"}", "[0,-1,9223372036854775807]",
        "{\"f\":1.5}", "[\"\",\" \"]", "{\"32\":\"x\",\"33\":{\"32\":1}}", "{ \"spaced\" : [ 1 , 2 ] }", "[true,false,null]",
        "{\"n\":12345678901234567890}", "[\"$.k\",\"?1\"]",
    ]
}

/// how a user who reads "a literal is a JSON string" types it
fn spell_json(s: &str) -> String {
    serde_json::to_string(s).unwrap()
}
/// only the double quote escaped (possible when the text has no backslash)
fn spell_quote_only(s: &str) -> String {
    format!("\"{}\"", s.replace('"', "\\\""))
}
fn spell(s: &str, g: &mut Gen) -> String {
    if !s.contains('\\') && g.chance(1, 2) {
        spell_quote_only(s)
    } else {
        spell_json(s)
    }
}
fn lit_token(ty: &str, v: &Val, g: &mut Gen) -> String {
    match v {
        Val::Null => "null".into(),
        Val::Str(s) => {
            if ty == "Json" || ty == "Base64" {
                spell_quote_only(s)
            } else {
                spell(s, g)
            }
        }
        Val::Int(i) => {
            if *i >= 0 && g.chance(1, 8) {
                format!("00{}", i)
            } else {
                i.to_string()
            }
        }
        Val::Bool(b) => b.to_string(),
        Val::Float(_, typed, _) => typed.clone(),
    }
}

struct Shape {
    ty: &'static str,
    nul: bool,
    pos: &'static str,
    fpos: &'static str,
    place: &'static str,
    alias: bool,
    svc: bool,
}

fn pick_value(ty: &str, nul: bool, pos: &str, g: &mut Gen, i: usize) -> (Val, bool) {
    // returns (value, admissible)
    if nul && pos != "default" && ty != "Json" && g.chance(1, 8) {
        return (Val::Null, true);
    }
    match ty {
        "String" => {
            let sp = special_strings();
            let s = if g.chance(3, 5) { sp[(i * 7 + g.below(sp.len())) % sp.len()].clone() } else { random_string(g) };
            (Val::Str(s), true)
        }
        "Integer" => {
            let sp = special_ints();
            let v = if g.chance(3, 5) { sp[g.below(sp.len())] } else { g.range(i64::MIN, i64::MAX) >> g.below(63) };
            (Val::Int(v), true)
        }
        "Boolean" => (Val::Bool(g.chance(1, 2)), true),
        "Float" => {
            if g.chance(1, 12) {
                // an INTEGER literal on a Float field that no f64 represents: it means the nearest f64, in the mutation
                // and in the filter alike (below 10^16, where the decimal printing of that f64 is exact)
                let ints: [i64; 6] = [9007199254740993, 9007199254740995, -9007199254740993, 9007199254740997, 9999999999999999, -9999999999999997];
                let i = ints[g.below(ints.len())];
                let f = i as f64;
                return (Val::Float(f.to_bits(), format!("{}", i), format!("{}", f)), true);
            }
            let sp = special_floats();
            let f = if g.chance(3, 5) { sp[g.below(sp.len())] } else { random_float(g) };
            (float_val(f, g), true)
        }
        "Base64" => {
            if g.chance(1, 6) {
                let bad = ["A", "AA==", "+/+/", "AB", "a b", "AAAAA", "é", "A'A", "AAA="];
                (Val::Str(bad[g.below(bad.len())].to_string()), false)
            } else {
                (Val::Str(b64_valid(g)), true)
            }
        }
        _ => {
            let sp = special_json();
            (Val::Str(sp[g.below(sp.len())].to_string()), true)
        }
    }
}

fn decoys(ty: &str, v: &Val, g: &mut Gen) -> Vec<Val> {
    match (ty, v) {
        ("String", Val::Str(s)) => {
            let mut d = vec![Val::Str(String::new()), Val::Str(format!("{}x", s))];
            let cut: String = s.chars().take_while(|c| !matches!(c, '\0' | '\'' | '"' | '\\')).collect();
            if cut != *s {
                d.push(Val::Str(cut));
            }
            if g.chance(1, 3) {
                d.push(Val::Str(s.clone()));
            }
            if s.to_uppercase() != *s {
                d.push(Val::Str(s.to_uppercase()));
            }
            d
        }
        ("String", _) => vec![Val::Str(String::new()), Val::Str("null".into())],
        ("Integer", Val::Int(i)) => vec![Val::Int(i.wrapping_add(1)), Val::Int(i.wrapping_neg()), Val::Int(0)],
        ("Integer", _) => vec![Val::Int(0)],
        ("Boolean", Val::Bool(b)) => vec![Val::Bool(!b)],
        ("Boolean", _) => vec![Val::Bool(false)],
        ("Float", Val::Float(b, _, _)) => {
            let f = f64::from_bits(*b);
            let mut d = vec![];
            let nb = f64::from_bits(b.wrapping_add(1));
            if nb.is_finite() && nb != 0.0 {
                d.push(float_val(nb, g));
            }
            if f != 1.5 {
                d.push(float_val(1.5, g));
            }
            d
        }
        ("Float", _) => vec![float_val(1.5, g)],
        ("Base64", Val::Str(s)) => {
            let mut d = vec![Val::Str("AAAA".into())];
            if !s.is_empty() {
                d.push(Val::Str(String::new()));
            }
            d
        }
        ("Base64", _) => vec![Val::Str("AAAA".into())],
        _ => vec![Val::Str("{\"decoy\":true}".into())],
    }
}

fn write_case(w: &mut impl Write, id: usize, sh: &Shape, nvals: usize, g: &mut Gen) -> usize {
    writeln!(
        w,
        "case id={} e=c04 ty={} nul={} pos={} fpos={} place={} sel={} via={}",
        id,
        sh.ty,
        sh.nul as u8,
        sh.pos,
        sh.fpos,
        sh.place,
        if sh.alias { "alias" } else { "name" },
        if sh.svc { "svc" } else { "conn" }
    )
    .unwrap();
    let mut n = 0;
    for i in 0..nvals {
        let (mut v, mut adm) = pick_value(sh.ty, sh.nul, sh.pos, g, i + id * 13);
        // the service API swallows the error of a refused data model update: only admissible defaults there
        let strict = sh.svc && sh.pos == "default";
        if strict && !adm {
            v = Val::Str("AAAA".into());
            adm = true;
        }
        if sh.pos == "default" && matches!(&v, Val::Str(s) if s.chars().count() > 200) {
            v = Val::Str("short".into());
        }
        // values that the type refuses
        let mut l: Option<String> = None;
        let mut fl: Option<String> = None;
        if sh.pos != "param" {
            let mut tok = lit_token(sh.ty, &v, g);
            if sh.ty == "Integer" && !strict && g.chance(1, 25) {
                tok = ["9223372036854775808", "-9223372036854775809", "99999999999999999999"][g.below(3)].to_string();
                v = Val::Int(0);
                adm = false;
            }
            if sh.ty == "Boolean" && !strict && g.chance(1, 12) {
                tok = ["TRUE", "False"][g.below(2)].to_string();
                adm = false;
            }
            l = Some(tok);
        }
        if !sh.nul && sh.pos != "default" && sh.ty != "Json" && g.chance(1, 30) {
            v = Val::Null;
            adm = false;
            if sh.pos == "lit" {
                l = Some("null".into());
            }
        }
        if sh.fpos == "lit" {
            fl = Some(lit_token(sh.ty, &v, g));
        }
        let d = decoys(sh.ty, &v, g);
        let mut line = format!("val v={}", v.show());
        if let Some(l) = &l {
            line.push_str(&format!(" l={}", enc(l)));
        }
        if let Some(fl) = &fl {
            line.push_str(&format!(" fl={}", enc(fl)));
        }
        line.push_str(&format!(" d={}", d.iter().map(|x| x.show()).collect::<Vec<_>>().join(";")));
        line.push_str(&format!(" adm={}", adm as u8));
        writeln!(w, "{}", line).unwrap();
        n += 1;
    }
    n
}

pub fn gen(seed: u64, n: usize, out: &str, tier: &str) {
    let mut g = Gen::new(seed ^ 0xC04);
    let mut w = BufWriter::new(std::fs::File::create(out).unwrap());
    let mut shapes: Vec<Shape> = vec![];
    for ty in TYPES {
        for pos in ["param", "lit", "default"] {
            for fpos in ["param", "lit"] {
                for place in ["top", "ref", "arr"] {
                    shapes.push(Shape {
                        ty,
                        nul: pos != "default" && g.chance(1, 2),
                        pos,
                        fpos,
                        place,
                        alias: g.chance(1, 3),
                        svc: false,
                    });
                }
            }
        }
    }
    let n_svc_cases = if tier == "quick" { 14 } else { 200 };
    let per = std::cmp::max(3, n / shapes.len());
    let mut id = 0;
    let mut total = 0;
    for sh in &shapes {
        total += write_case(&mut w, id, sh, per, &mut g);
        id += 1;
    }
    // a sample through the service API (GraphDatabaseService::mutate / query / update_data_model)
    for k in 0..n_svc_cases {
        let base = &shapes[(k * 5 + g.below(shapes.len())) % shapes.len()];
        let sh = Shape { ty: base.ty, nul: base.nul, pos: base.pos, fpos: base.fpos, place: base.place, alias: base.alias, svc: true };
        total += write_case(&mut w, id, &sh, 3, &mut g);
        id += 1;
    }
    // long values
    let long = Shape { ty: "String", nul: false, pos: "param", fpos: "param", place: "top", alias: false, svc: false };
    writeln!(w, "case id={} e=c04 ty=String nul=0 pos=param fpos=param place=top sel=name via=conn", id).unwrap();
    let _ = long;
    for k in 0..2 {
        let mut s = String::new();
        while s.chars().count() < 65536 {
            s.push_str(ALPHABET[(g.below(ALPHABET.len()) + k) % ALPHABET.len()]);
        }
        writeln!(w, "val v={} d=S;S97 adm=1", Val::Str(s).show()).unwrap();
        total += 1;
    }
    id += 1;
    // updates of a subset of the fields of an existing row (rows without text included)
    let (nu, uops) = crate::c04u::gen_cases(&mut w, &mut g, id, if tier == "quick" { 90 } else { 1500 }, if tier == "quick" { 6 } else { 60 });
    w.flush().unwrap();
    println!("{}", serde_json::json!({"cases": id + nu, "values": total, "update_ops": uops}));
}
