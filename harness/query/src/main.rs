//! Engine `query` (properties C04 and C05): drives the real parsers, SQL generator and SQLite.
//!
//!   dv-query gen --prop C04|C05 --seed S --n N --out FILE [--tier quick|thorough]
//!   dv-query run --ops FILE --out FILE [--stats FILE]
//!   dv-query sql --ops FILE            (debug: print the SQL texts of each val op)
mod c04;
mod c04gen;
mod c04u;
mod c05;
mod c05gen;
mod c05sqlgen;
mod util;

use dvcommon::{parse_kv, Args, Stats};
use std::io::{BufRead, BufWriter, Write};

fn run(ops: &str, out: &str, stats_path: Option<&str>) {
    let f = std::fs::File::open(ops).expect("ops file");
    let mut w = BufWriter::new(std::fs::File::create(out).expect("out file"));
    let mut oracle_lines: Vec<String> = vec![];
    let mut stats = Stats::default();
    let mut case04: Option<c04::Case> = None;
    let mut case05: Option<c05::Case> = None;
    let mut case04u: Option<c04u::UCase> = None;
    let mut case_index: i64 = -1;
    let mut first = true;
    let scratch = std::path::Path::new(out).parent().map(|p| p.to_path_buf()).unwrap_or_default().join("dbs");
    for line in std::io::BufReader::new(f).lines() {
        let line = line.unwrap();
        let (kind, kv) = parse_kv(&line);
        if kind == "case" || first {
            case_index += 1;
        }
        first = false;
        let res: String = match kind.as_str() {
            "case" => {
                case04 = None;
                case05 = None;
                case04u = None;
                match (kv.get("id"), kv.get("e").map(|s| s.as_str())) {
                    (Some(id), Some("c04")) => match c04::Case::parse(&kv) {
                        Some(c) => {
                            case04 = Some(c);
                            stats.inc("cases");
                            format!("case {}", id)
                        }
                        None => "bad-op".into(),
                    },
                    (Some(id), Some("c04u")) => match c04u::UCase::parse(&kv) {
                        Some(c) => {
                            case04u = Some(c);
                            stats.inc("cases");
                            format!("case {}", id)
                        }
                        None => "bad-op".into(),
                    },
                    (Some(id), Some("c05")) => {
                        let mut c = c05::Case::default();
                        c.ns = kv.get("ns").map(|x| x == "1").unwrap_or(false);
                        case05 = Some(c);
                        stats.inc("cases");
                        format!("case {}", id)
                    }
                    _ => "bad-op".into(),
                }
            }
            "ent" | "fld" | "build" | "upgrade" | "row" | "q" | "qs" | "qe" | "qg" | "qj" | "qf" | "qo" | "ql" | "qa" | "qn" | "run" | "pages" => match case05.as_mut() {
                Some(c) => {
                    let mut orc = vec![];
                    let r = std::panic::catch_unwind(std::panic::AssertUnwindSafe(|| c05::step(c, &kind, &kv, &mut stats, &mut orc)));
                    for (sig, d) in orc {
                        oracle_lines.push(format!("{} {} {}", case_index, sig, d));
                    }
                    match r {
                        Ok(l) => l,
                        Err(_) => {
                            stats.inc("panics");
                            "panic".into()
                        }
                    }
                }
                None => "bad-op".into(),
            },
            "sqlck" | "sqltbl" | "sqledge" => match case05.as_mut() {
                Some(c) => match std::panic::catch_unwind(std::panic::AssertUnwindSafe(|| c05::step_sql(c, &kind, &kv, &mut stats))) {
                    Ok(l) => l,
                    Err(_) => {
                        stats.inc("panics");
                        "panic".into()
                    }
                },
                None => "bad-op".into(),
            },
            "new" | "upd" => match case04u.as_mut() {
                Some(c) => match std::panic::catch_unwind(std::panic::AssertUnwindSafe(|| c04u::step(c, &kind, &kv, &mut stats, &scratch))) {
                    Ok(l) => l,
                    Err(_) => {
                        stats.inc("panics");
                        "st=panic".into()
                    }
                },
                None => "bad-op".into(),
            },
            "val" => match (&case04, c04::ValOp::parse(&kv)) {
                (Some(c), Some(op)) => {
                    let r = std::panic::catch_unwind(std::panic::AssertUnwindSafe(|| {
                        c04::run_val(c, &op, &mut stats, &scratch)
                    }));
                    match r {
                        Ok(o) => {
                            for (sig, d) in o.oracle {
                                oracle_lines.push(format!("{} {} {}", case_index, sig, d));
                            }
                            o.line
                        }
                        Err(_) => {
                            stats.inc("panics");
                            "st=panic raw=- res=- ret=- sib=- oth=- flt=- sql=- fsql=-".into()
                        }
                    }
                }
                _ => "bad-op".into(),
            },
            _ => "bad-op".into(),
        };
        writeln!(w, "{}", res).unwrap();
    }
    w.flush().unwrap();
    if !oracle_lines.is_empty() {
        std::fs::write(format!("{}.oracle", out), oracle_lines.join("\n") + "\n").unwrap();
    }
    if let Some(p) = stats_path {
        stats.write(p);
    }
}

fn main() {
    let a = Args::parse();
    match a.cmd.as_str() {
        "gen" => match a.str_or("prop", "C04").as_str() {
            "C04" => c04gen::gen(
                a.u64_or("seed", 1),
                a.usize_or("n", 2000),
                &a.str_or("out", "cases.ops"),
                &a.str_or("tier", "quick"),
            ),
            "C05" => c05gen::gen(
                a.u64_or("seed", 1),
                a.usize_or("n", 100),
                &a.str_or("out", "cases.ops"),
                &a.str_or("tier", "quick"),
            ),
            "C05sql" => c05sqlgen::gen(
                a.u64_or("seed", 1),
                a.usize_or("n", 100),
                &a.str_or("out", "cases.ops"),
                &a.str_or("tier", "quick"),
            ),
            _ => {
                eprintln!("unknown --prop");
                std::process::exit(2);
            }
        },
        "run" => {
            std::panic::set_hook(Box::new(|_| {}));
            run(&a.str_or("ops", "cases.ops"), &a.str_or("out", "impl.out"), a.get("stats"));
        }
        "exec" => {
            // debug: --model M [--model2 M2] --mut "m1 ;; m2" --query Q [--params JSON]
            use discret::verif_hooks::database::query_language::parameter::Parameters;
            let mut db = util::Conn::new(&a.str_or("model", "{}")).expect("model");
            for m in a.str_or("mut", "").split(";;") {
                if m.trim().is_empty() { continue; }
                println!("mutate: {:?}", db.mutate(m, Parameters::new()).map(|r| r.replace('\n', " ")));
            }
            if let Some(m2) = a.get("model2") { println!("model2: {:?}", db.update_model(m2)); }
            let p = match a.get("params") { Some(j) => Parameters::from_json(j).expect("params"), None => Parameters::new() };
            let r = db.query(&a.str_or("query", ""), p);
            println!("{}", r.sql.join("\n;;\n"));
            println!("{:?} {}", r.result, r.detail);
        }
        "sqlq" => {
            // debug: run SQL statements (one per line of --sql FILE) on an in-memory connection
            let conn = rusqlite::Connection::open_in_memory().unwrap();
            for l in std::fs::read_to_string(a.str_or("sql", "q.sql")).unwrap().lines() {
                if l.trim().is_empty() { continue; }
                match conn.prepare(l) {
                    Ok(mut st) => {
                        let n = st.column_count();
                        let mut rows = st.query([]).unwrap();
                        loop {
                            match rows.next() {
                                Ok(Some(r)) => {
                                    let v: Vec<String> = (0..n).map(|i| format!("{:?}", r.get::<_, rusqlite::types::Value>(i).unwrap())).collect();
                                    println!("{}", v.join(" | "));
                                }
                                Ok(None) => break,
                                Err(e) => { println!("ERR {}", e); break; }
                            }
                        }
                    }
                    Err(e) => println!("ERR {}", e),
                }
            }
        }
        _ => {
            eprintln!("usage: dv-query gen|run …");
            std::process::exit(2);
        }
    }
}
