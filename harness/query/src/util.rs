//! Helpers shared by the C04 and C05 parts of the `query` engine: value encoding on op lines,
//! a result-JSON reader that keeps number texts, error classification, a real-code driver on a
//! plain SQLite connection (QueryParser/MutationParser + PreparedQueries + Query::read).
use discret::verif_hooks::database::{
    self as db,
    mutation_query::MutationQuery,
    query::{PreparedQueries, Query},
    query_language::{
        self as ql,
        data_model_parser::DataModel,
        mutation_parser::MutationParser,
        parameter::{Parameters, ParametersAdd},
        query_parser::QueryParser,
    },
    sqlite_database::{prepare_connection, Writeable},
};
use rusqlite::Connection;
use std::sync::Arc;

// ------------------------------------------------------------------ code point encoding

/// a string as decimal code points separated by commas (empty string -> empty text)
pub fn enc(s: &str) -> String {
    let mut o = String::new();
    for (i, c) in s.chars().enumerate() {
        if i > 0 {
            o.push(',');
        }
        o.push_str(&(c as u32).to_string());
    }
    o
}

pub fn dec(s: &str) -> Option<String> {
    if s.is_empty() {
        return Some(String::new());
    }
    let mut o = String::new();
    for t in s.split(',') {
        o.push(char::from_u32(t.parse::<u32>().ok()?)?);
    }
    Some(o)
}

/// long texts are replaced by `H<len>:<fnv1a64 of the code points>` (same rule in the Lean driver)
pub const LONG: usize = 300;
pub fn enc_short(s: &str) -> String {
    let n = s.chars().count();
    if n <= LONG {
        enc(s)
    } else {
        let mut h: u64 = 0xcbf29ce484222325;
        for c in s.chars() {
            h ^= c as u64;
            h = h.wrapping_mul(0x100000001b3);
        }
        format!("H{}:{}", n, h)
    }
}

/// every byte outside [A-Za-z0-9] as %XX (upper case hex); used for SQL texts
pub fn pct(s: &str) -> String {
    let mut o = String::with_capacity(s.len() * 2);
    for b in s.bytes() {
        if b.is_ascii_alphanumeric() {
            o.push(b as char);
        } else {
            o.push_str(&format!("%{:02X}", b));
        }
    }
    o
}

// ------------------------------------------------------------------ values on op lines

#[derive(Clone, Debug, PartialEq)]
pub enum Val {
    Null,
    Str(String),
    Int(i64),
    Bool(bool),
    /// bit pattern, the decimal text typed when the value is written as a literal, Rust's Display text
    Float(u64, String, String),
}

impl Val {
    pub fn parse(t: &str) -> Option<Val> {
        let mut it = t.chars();
        let k = it.next()?;
        let rest = &t[k.len_utf8()..];
        match k {
            'N' if rest.is_empty() => Some(Val::Null),
            'S' => Some(Val::Str(dec(rest)?)),
            'I' => Some(Val::Int(rest.parse().ok()?)),
            'B' => match rest {
                "0" => Some(Val::Bool(false)),
                "1" => Some(Val::Bool(true)),
                _ => None,
            },
            'F' => {
                let mut it = rest.split(':');
                let b = it.next()?;
                let typed = it.next()?;
                let disp = it.next()?;
                Some(Val::Float(b.parse().ok()?, dec(typed)?, dec(disp)?))
            }
            _ => None,
        }
    }
    pub fn show(&self) -> String {
        match self {
            Val::Null => "N".into(),
            Val::Str(s) => format!("S{}", enc(s)),
            Val::Int(i) => format!("I{}", i),
            Val::Bool(b) => format!("B{}", *b as u8),
            Val::Float(b, t, d) => format!("F{}:{}:{}", b, enc(t), enc(d)),
        }
    }
    /// as an observation (floats: bits only; long strings hashed)
    pub fn obs(&self) -> String {
        match self {
            Val::Null => "N".into(),
            Val::Str(s) => format!("S{}", enc_short(s)),
            Val::Int(i) => format!("I{}", i),
            Val::Bool(b) => format!("B{}", *b as u8),
            Val::Float(b, _, _) => format!("F{}", b),
        }
    }
    pub fn add_to(&self, p: &mut Parameters, key: &str) {
        match self {
            Val::Null => p.add_null(key).unwrap(),
            Val::Str(s) => p.add(key, s.clone()).unwrap(),
            Val::Int(i) => p.add(key, *i).unwrap(),
            Val::Bool(b) => p.add(key, *b).unwrap(),
            Val::Float(b, _, _) => p.add(key, f64::from_bits(*b)).unwrap(),
        }
    }
}

// ------------------------------------------------------------------ result JSON (numbers kept as text)

#[derive(Clone, Debug, PartialEq)]
pub enum J {
    Null,
    Bool(bool),
    Num(String),
    Str(String),
    Arr(Vec<J>),
    Obj(Vec<(String, J)>),
}

pub struct JParser<'a> {
    s: &'a [u8],
    src: &'a str,
    i: usize,
}
impl<'a> JParser<'a> {
    pub fn parse(src: &'a str) -> Result<J, String> {
        let mut p = JParser { s: src.as_bytes(), src, i: 0 };
        let v = p.value()?;
        p.ws();
        if p.i != p.s.len() {
            return Err(format!("trailing text at {}", p.i));
        }
        Ok(v)
    }
    fn ws(&mut self) {
        while self.i < self.s.len() && matches!(self.s[self.i], b' ' | b'\n' | b'\r' | b'\t') {
            self.i += 1;
        }
    }
    fn string(&mut self) -> Result<String, String> {
        // self.s[self.i] == '"' ; find the closing quote, then let serde_json (the client library) decode it
        let start = self.i;
        self.i += 1;
        while self.i < self.s.len() {
            match self.s[self.i] {
                b'\\' => self.i += 2,
                b'"' => {
                    self.i += 1;
                    let tok = &self.src[start..self.i];
                    return serde_json::from_str::<String>(tok).map_err(|e| format!("string: {}", e));
                }
                _ => self.i += 1,
            }
        }
        Err("unterminated string".into())
    }
    fn value(&mut self) -> Result<J, String> {
        self.ws();
        if self.i >= self.s.len() {
            return Err("eof".into());
        }
        match self.s[self.i] {
            b'n' if self.src[self.i..].starts_with("null") => {
                self.i += 4;
                Ok(J::Null)
            }
            b't' if self.src[self.i..].starts_with("true") => {
                self.i += 4;
                Ok(J::Bool(true))
            }
            b'f' if self.src[self.i..].starts_with("false") => {
                self.i += 5;
                Ok(J::Bool(false))
            }
            b'"' => Ok(J::Str(self.string()?)),
            b'[' => {
                self.i += 1;
                let mut v = vec![];
                self.ws();
                if self.i < self.s.len() && self.s[self.i] == b']' {
                    self.i += 1;
                    return Ok(J::Arr(v));
                }
                loop {
                    v.push(self.value()?);
                    self.ws();
                    match self.s.get(self.i) {
                        Some(b',') => self.i += 1,
                        Some(b']') => {
                            self.i += 1;
                            return Ok(J::Arr(v));
                        }
                        _ => return Err(format!("array at {}", self.i)),
                    }
                }
            }
            b'{' => {
                self.i += 1;
                let mut v = vec![];
                self.ws();
                if self.i < self.s.len() && self.s[self.i] == b'}' {
                    self.i += 1;
                    return Ok(J::Obj(v));
                }
                loop {
                    self.ws();
                    if self.s.get(self.i) != Some(&b'"') {
                        return Err(format!("key at {}", self.i));
                    }
                    let k = self.string()?;
                    self.ws();
                    if self.s.get(self.i) != Some(&b':') {
                        return Err(format!("colon at {}", self.i));
                    }
                    self.i += 1;
                    let x = self.value()?;
                    v.push((k, x));
                    self.ws();
                    match self.s.get(self.i) {
                        Some(b',') => self.i += 1,
                        Some(b'}') => {
                            self.i += 1;
                            return Ok(J::Obj(v));
                        }
                        _ => return Err(format!("object at {}", self.i)),
                    }
                }
            }
            c if c == b'-' || c.is_ascii_digit() => {
                let start = self.i;
                while self.i < self.s.len()
                    && matches!(self.s[self.i], b'-' | b'+' | b'.' | b'e' | b'E' | b'0'..=b'9')
                {
                    self.i += 1;
                }
                Ok(J::Num(self.src[start..self.i].to_string()))
            }
            c => Err(format!("unexpected byte {} at {}", c, self.i)),
        }
    }
}
impl J {
    pub fn get(&self, k: &str) -> Option<&J> {
        match self {
            J::Obj(v) => v.iter().find(|(a, _)| a == k).map(|(_, b)| b),
            _ => None,
        }
    }
    pub fn arr(&self) -> Option<&Vec<J>> {
        match self {
            J::Arr(v) => Some(v),
            _ => None,
        }
    }
    /// canonical text: object keys sorted, no spaces, strings as code points, numbers as written
    pub fn canon(&self) -> String {
        match self {
            J::Null => "null".into(),
            J::Bool(b) => b.to_string(),
            J::Num(n) => n.clone(),
            J::Str(s) => format!("\"{}\"", enc(s)),
            J::Arr(v) => format!("[{}]", v.iter().map(|x| x.canon()).collect::<Vec<_>>().join(";")),
            J::Obj(v) => {
                let mut items: Vec<String> =
                    v.iter().map(|(k, x)| format!("\"{}\":{}", enc(k), x.canon())).collect();
                items.sort();
                format!("{{{}}}", items.join(";"))
            }
        }
    }
}

// ------------------------------------------------------------------ error classes

pub fn class_ql(e: &ql::Error) -> &'static str {
    use ql::Error as E;
    match e {
        E::Parser(_) => "parse",
        E::IntParsing(_) => "int",
        E::BoolParsing(_) => "bool",
        E::FloatParsing(_) => "float",
        E::NotNullable(_) => "notnull",
        E::InvalidBase64(_) => "b64",
        E::InvalidJson(_) => "json",
        E::InvalidQuery(m) if m.contains("base64") => "b64",
        E::InvalidQuery(_) => "invalid",
        E::InvalidFieldType(..) => "type",
        E::ConflictingParameterType(..) => "ptype",
        E::ConflictingVariableType(..) => "vtype",
        E::MissingParameter(_) => "missing",
        E::InvalidFloat(_) => "nanfloat",
        E::InvalidDefaultValue(..) => "defaulttype",
        E::MissingUpdateField(..) => "required",
        E::InvalidPagingValue(..) => "pagingtype",
        E::Json(_) => "json",
        _ => "other",
    }
}

pub fn class_db(e: &db::Error) -> &'static str {
    use db::Error as E;
    match e {
        E::Parsing(p) => class_ql(p),
        E::Database(_) => "sql",
        E::Json(_) => "json",
        E::Cryptography(_) => "b64",
        _ => "other",
    }
}

// ------------------------------------------------------------------ the real code on a plain connection

pub struct Conn {
    pub conn: Connection,
    pub dm: DataModel,
}

pub struct QueryOut {
    pub result: Result<String, &'static str>,
    pub detail: String,
    pub sql: Vec<String>,
}

impl Conn {
    pub fn new(model: &str) -> Result<Self, &'static str> {
        let conn = Connection::open_in_memory().unwrap();
        prepare_connection(&conn).unwrap();
        let mut dm = DataModel::new();
        dm.update(model).map_err(|e| class_ql(&e))?;
        Ok(Conn { conn, dm })
    }
    pub fn update_model(&mut self, model: &str) -> Result<(), &'static str> {
        self.dm.update(model).map_err(|e| class_ql(&e))
    }
    /// MutationParser + MutationQuery::execute + write; returns the mutation's JSON result
    pub fn mutate(&self, text: &str, mut p: Parameters) -> Result<String, (&'static str, String)> {
        let m = MutationParser::parse(text, &self.dm).map_err(|e| (class_ql(&e), e.to_string()))?;
        let mut mq = MutationQuery::execute(&mut p, Arc::new(m), &self.conn)
            .map_err(|e| (class_db(&e), e.to_string()))?;
        mq.write(&self.conn).map_err(|e| ("sql", e.to_string()))?;
        mq.result().map_err(|e| (class_db(&e), e.to_string()))
    }
    /// QueryParser + PreparedQueries + Query::read
    pub fn query(&self, text: &str, p: Parameters) -> QueryOut {
        let qp = match QueryParser::parse(text, &self.dm) {
            Ok(q) => q,
            Err(e) => return QueryOut { result: Err(class_ql(&e)), detail: e.to_string(), sql: vec![] },
        };
        let pq = match PreparedQueries::build(&qp) {
            Ok(q) => q,
            Err(e) => return QueryOut { result: Err(class_db(&e)), detail: e.to_string(), sql: vec![] },
        };
        let sql: Vec<String> = pq.sql_queries.iter().map(|s| s.sql_query.clone()).collect();
        let mut q = Query { parameters: p, parser: Arc::new(qp), sql_queries: Arc::new(pq) };
        match q.read(&self.conn) {
            Ok(r) => QueryOut { result: Ok(r), detail: String::new(), sql },
            Err(e) => QueryOut { result: Err(class_db(&e)), detail: e.to_string(), sql },
        }
    }
    /// digest of every row of _node and _edge not touching `skip` ids (hex blobs), as a sorted text
    pub fn digest_others(&self, skip: &[Vec<u8>]) -> u64 {
        let mut lines: Vec<String> = vec![];
        let mut st = self
            .conn
            .prepare("SELECT id, room_id, cdate, mdate, _entity, _json, _binary, verifying_key, _signature FROM _node")
            .unwrap();
        let mut rows = st.query([]).unwrap();
        while let Some(r) = rows.next().unwrap() {
            let id: Vec<u8> = r.get(0).unwrap();
            if skip.contains(&id) {
                continue;
            }
            let mut l = String::new();
            for i in 0..9 {
                let v: rusqlite::types::Value = r.get(i).unwrap();
                l.push_str(&format!("{:?}|", v));
            }
            lines.push(l);
        }
        let mut st = self.conn.prepare("SELECT src, src_entity, label, dest, cdate FROM _edge").unwrap();
        let mut rows = st.query([]).unwrap();
        while let Some(r) = rows.next().unwrap() {
            let src: Vec<u8> = r.get(0).unwrap();
            let dest: Vec<u8> = r.get(3).unwrap();
            if skip.contains(&src) || skip.contains(&dest) {
                continue;
            }
            let mut l = String::from("E");
            for i in 0..5 {
                let v: rusqlite::types::Value = r.get(i).unwrap();
                l.push_str(&format!("{:?}|", v));
            }
            lines.push(l);
        }
        lines.sort();
        let mut h: u64 = 0xcbf29ce484222325;
        for l in &lines {
            for b in l.bytes() {
                h ^= b as u64;
                h = h.wrapping_mul(0x100000001b3);
            }
            h ^= 0xff;
            h = h.wrapping_mul(0x100000001b3);
        }
        h ^ (lines.len() as u64)
    }
    pub fn raw_json(&self, id: &[u8]) -> Option<String> {
        self.conn
            .query_row("SELECT _json FROM _node WHERE id = ?1", [id], |r| r.get::<_, Option<String>>(0))
            .ok()
            .flatten()
    }
}
