//! Generator of the `sqlck` stream of C05: data models, data sets and queries of the fragment the Lean model of the
//! SQL compiler covers (lean/DiscretModel/Model/SqlGen.lean, SqlGenSub.lean): an entity selection with scalar
//! fields (required / nullable / default / added later / nullable turned default) and `id`, aliases, filters with
//! every operator on selected aliases and on selected or unselected fields (literal, parameter, null), order_by on
//! 0-3 keys, first / skip, before / after; and, in about half of the queries, one level of sub-selections through
//! entity and array reference fields (each again with its own filters, order, limits, cursors; nullable()).
//! Every query is followed by `run` (evaluator) and `sqlck` (compiler model).
use crate::util::*;
use dvcommon::Gen;
use std::io::{BufWriter, Write};

#[derive(Clone)]
struct F {
    ty: char,
    to: usize,
    md: char,
    dv: Option<Val>,
    late: bool,
    then: Option<Val>,
}

const INTS: [i64; 8] = [0, 1, 2, 3, 5, -1, 10, -7];
const STRS: [&str; 9] = ["a", "b", "ab", "B", "", " x", "é", "10", "it's"];

fn pool_val(ty: char, g: &mut Gen) -> Val {
    match ty {
        'I' => Val::Int(INTS[g.below(INTS.len())]),
        'S' => Val::Str(STRS[g.below(STRS.len())].to_string()),
        _ => Val::Bool(g.chance(1, 2)),
    }
}

fn gen_schema(g: &mut Gen) -> Vec<Vec<F>> {
    let n = 1 + g.below(3);
    let mut ents = vec![];
    for _ in 0..n {
        let mut fs = vec![F { ty: 'I', to: 0, md: 'r', dv: None, late: false, then: None }];
        for _ in 0..(2 + g.below(4)) {
            let ty = ['I', 'S', 'B'][g.below(3)];
            let md = ['r', 'n', 'd'][g.weighted(&[2, 4, 4])];
            let dv = if md == 'd' { Some(pool_val(ty, g)) } else { None };
            let then = if md == 'n' && g.chance(1, 4) { Some(pool_val(ty, g)) } else { None };
            fs.push(F { ty, to: 0, md, dv, late: false, then });
        }
        for _ in 0..g.below(3) {
            let ty = if g.chance(1, 2) { 'R' } else { 'A' };
            fs.push(F { ty, to: g.below(n), md: if g.chance(1, 2) { 'n' } else { 'r' }, dv: None, late: false, then: None });
        }
        for _ in 0..g.below(3) {
            let ty = ['I', 'S', 'B'][g.below(3)];
            let md = if g.chance(2, 3) { 'd' } else { 'n' };
            let dv = if md == 'd' { Some(pool_val(ty, g)) } else { None };
            fs.push(F { ty, to: 0, md, dv, late: true, then: None });
        }
        ents.push(fs);
    }
    ents
}

fn data_val(g: &mut Gen, seen: &[Val], ty: char) -> Val {
    if !seen.is_empty() && g.chance(3, 5) {
        seen[g.below(seen.len())].clone()
    } else {
        pool_val(ty, g)
    }
}

struct Ctx<'a> {
    g: &'a mut Gen,
    s: &'a Vec<Vec<F>>,
    seen: &'a Vec<Vec<Vec<Val>>>,
    lines: Vec<String>,
    next_node: usize,
    alias_n: usize,
}

/// emits the lines of one selection node; returns its node number
fn gen_node(cx: &mut Ctx, ent: usize, depth: usize, with_subs: bool) -> usize {
    let n = cx.next_node;
    cx.next_node += 1;
    let e = cx.s[ent].clone();
    let alias = if depth == 0 && cx.g.chance(1, 4) { Some(format!("res{}", cx.g.below(3))) } else { None };
    cx.lines.push(match &alias {
        Some(a) => format!("q n={} ent={} alias={}", n, ent, a),
        None => format!("q n={} ent={}", n, ent),
    });
    let scalars: Vec<usize> = e.iter().enumerate().filter(|(_, f)| "ISB".contains(f.ty)).map(|(j, _)| j).collect();
    // ---- selection
    let mut selected: Vec<(String, usize, bool)> = vec![];
    if cx.g.chance(3, 4) {
        selected.push(("f0".into(), 0, false));
    }
    for &j in &scalars[1..] {
        if cx.g.chance(1, 2) {
            if cx.g.chance(2, 5) {
                cx.alias_n += 1;
                selected.push((format!("a{}", cx.alias_n), j, true));
                // the same field may be selected twice, under two keys
                if cx.g.chance(1, 6) {
                    selected.push((format!("f{}", j), j, false));
                }
            } else {
                selected.push((format!("f{}", j), j, false));
            }
        }
    }
    if selected.is_empty() {
        cx.alias_n += 1;
        selected.push((format!("a{}", cx.alias_n), 0, true));
    }
    let id_at = if cx.g.chance(1, 3) { Some(cx.g.below(selected.len() + 1)) } else { None };
    // sub-selections are placed among the scalar selections
    let mut subs: Vec<(usize, String, usize, usize)> = vec![]; // position, key, field, child node
    let mut sub_keys: Vec<String> = vec![];
    if with_subs && depth == 0 {
        for (j, f) in e.iter().enumerate() {
            if (f.ty == 'R' || f.ty == 'A') && cx.g.chance(3, 5) {
                let child = gen_node(cx, f.to, 1, false);
                let key = if cx.g.chance(1, 3) {
                    cx.alias_n += 1;
                    format!("s{}", cx.alias_n)
                } else {
                    format!("f{}", j)
                };
                let pos = cx.g.below(selected.len() + 1);
                subs.push((pos, key.clone(), j, child));
                sub_keys.push(key);
            }
        }
    }
    for k in 0..=selected.len() {
        for (pos, key, j, child) in &subs {
            if *pos == k {
                cx.lines.push(format!("qe n={} key={} f={} child={}", n, key, j, child));
            }
        }
        if id_at == Some(k) {
            cx.lines.push(format!("qs n={} key={} f=id", n, if cx.g.chance(1, 2) { "id" } else { "rid" }));
        }
        if k < selected.len() {
            cx.lines.push(format!("qs n={} key={} f={}", n, selected[k].0, selected[k].1));
        }
    }
    for k in &sub_keys {
        if cx.g.chance(1, 3) {
            cx.lines.push(format!("qn n={} key={}", n, k));
        }
    }
    // ---- filters
    let nfl = if depth == 0 { cx.g.weighted(&[3, 4, 2, 1]) } else { cx.g.weighted(&[5, 4, 1, 0]) };
    for _ in 0..nfl {
        let use_alias = cx.g.chance(2, 5) && selected.iter().any(|x| x.2);
        let (name, j, sel) = if use_alias {
            let al: Vec<&(String, usize, bool)> = selected.iter().filter(|x| x.2).collect();
            let x = al[cx.g.below(al.len())];
            (x.0.clone(), x.1, true)
        } else {
            let j = scalars[cx.g.below(scalars.len())];
            (format!("f{}", j), j, false)
        };
        let f = &e[j];
        let var = cx.g.chance(2, 5);
        let nullable_now = f.md == 'n' && f.then.is_none();
        let (op, v) = if nullable_now && cx.g.chance(1, 4) {
            (if var { ["eq", "ne", "lt", "ge"][cx.g.below(4)] } else { ["eq", "ne", "eq", "ne", "lt", "ge"][cx.g.below(6)] }, Val::Null)
        } else {
            (["eq", "ne", "lt", "le", "gt", "ge", "ne", "le", "ge"][cx.g.below(9)], data_val(cx.g, &cx.seen[ent][j], f.ty))
        };
        cx.lines.push(format!("qf n={} name={} sel={} f={} op={} v={}{}", n, name, sel as u8, j, op, v.show(), if var { " var=1" } else { "" }));
    }
    // ---- order, limits, cursors
    let mut orders: Vec<(String, usize, bool)> = vec![];
    for _ in 0..cx.g.weighted(&[2, 4, 3, 1]) {
        let use_alias = cx.g.chance(2, 5) && selected.iter().any(|x| x.2);
        let (name, j, sel) = if use_alias {
            let al: Vec<&(String, usize, bool)> = selected.iter().filter(|x| x.2).collect();
            let x = al[cx.g.below(al.len())];
            (x.0.clone(), x.1, true)
        } else {
            let j = scalars[cx.g.below(scalars.len())];
            (format!("f{}", j), j, false)
        };
        if orders.iter().any(|o| o.0 == name) {
            continue;
        }
        orders.push((name, j, sel));
    }
    let limited = cx.g.chance(2, 5);
    let cursor = !orders.is_empty() && cx.g.chance(if depth == 0 { 1 } else { 1 }, if depth == 0 { 3 } else { 5 });
    let is_single_ref_child = false;
    let _ = is_single_ref_child;
    if (limited || depth > 0) && !orders.iter().any(|o| o.1 == 0) {
        // a unique last key makes the selected set (and the row a single reference shows) well defined
        match selected.iter().find(|x| x.1 == 0) {
            Some(x) => orders.push((x.0.clone(), 0, x.2)),
            None => orders.push(("f0".into(), 0, false)),
        }
    }
    for (name, j, sel) in &orders {
        cx.lines.push(format!("qo n={} name={} sel={} f={} dir={}", n, name, *sel as u8, j, if cx.g.chance(2, 5) { "desc" } else { "asc" }));
    }
    if limited {
        let first = if cx.g.chance(1, 5) { 0 } else { 1 + cx.g.below(4) };
        let skip = cx.g.below(3);
        if first != 0 || skip != 0 {
            cx.lines.push(format!("ql n={} first={} skip={}", n, first, skip));
        }
    }
    if cursor {
        let k = 1 + cx.g.below(orders.len());
        let mut vals: Vec<String> = vec![];
        for (_, j, _) in orders[..k].iter() {
            vals.push(data_val(cx.g, &cx.seen[ent][*j], e[*j].ty).show());
        }
        cx.lines.push(format!("qa n={} kind={} v={}", n, if cx.g.chance(3, 5) { "after" } else { "before" }, vals.join("|")));
    }
    n
}

/// a grouped query at the root: count() / min() / max() over required Integer or String fields, grouped by 0-2 scalar
/// fields without default, WHERE filters on fields, HAVING filters on aggregate aliases, order_by on group fields and
/// aggregate aliases
fn gen_aggregate(cx: &mut Ctx, ent: usize) {
    let e = cx.s[ent].clone();
    cx.lines.push(format!("q n=0 ent={}", ent));
    let plain: Vec<usize> = e.iter().enumerate().skip(1)
        .filter(|(_, f)| "ISB".contains(f.ty) && f.then.is_none() && f.md != 'd')
        .map(|(j, _)| j).collect();
    let mut keys: Vec<(String, usize)> = vec![];
    let mut sel_lines: Vec<String> = vec![];
    for &j in &plain {
        if keys.len() < 2 && cx.g.chance(1, 2) {
            sel_lines.push(format!("qs n=0 key=f{} f={}", j, j));
            keys.push((format!("f{}", j), j));
        }
    }
    let vals: Vec<usize> = e.iter().enumerate().filter(|(_, f)| (f.ty == 'I' || f.ty == 'S') && f.md == 'r' && !f.late).map(|(j, _)| j).collect();
    let mut aggs: Vec<String> = vec![];
    if cx.g.chance(4, 5) {
        sel_lines.push("qg n=0 key=cnt fn=count f=0".to_string());
        aggs.push("cnt".into());
    }
    for (k, fun) in ["min", "max", "max"].iter().enumerate() {
        if cx.g.chance(1, 2) || (k == 2 && aggs.is_empty()) {
            let j = vals[cx.g.below(vals.len())];
            sel_lines.push(format!("qg n=0 key=g{} fn={} f={}", k, fun, j));
            aggs.push(format!("g{}", k));
        }
    }
    // the aggregates and the group fields in any order
    for i in (1..sel_lines.len()).rev() {
        let j = cx.g.below(i + 1);
        sel_lines.swap(i, j);
    }
    cx.lines.extend(sel_lines);
    let scalars: Vec<usize> = e.iter().enumerate().filter(|(_, f)| "ISB".contains(f.ty)).map(|(j, _)| j).collect();
    let mut flines: Vec<String> = vec![];
    for _ in 0..cx.g.weighted(&[3, 4, 2]) {
        let j = scalars[cx.g.below(scalars.len())];
        let f = &e[j];
        let var = cx.g.chance(2, 5);
        let nullable_now = f.md == 'n' && f.then.is_none();
        let (op, v) = if nullable_now && cx.g.chance(1, 4) {
            (["eq", "ne"][cx.g.below(2)], Val::Null)
        } else {
            (["eq", "ne", "lt", "le", "gt", "ge", "ne", "le", "ge"][cx.g.below(9)], data_val(cx.g, &cx.seen[ent][j], f.ty))
        };
        flines.push(format!("qf n=0 name=f{} sel=0 f={} op={} v={}{}", j, j, op, v.show(), if var { " var=1" } else { "" }));
    }
    for _ in 0..cx.g.weighted(&[3, 3, 1]) {
        let a = aggs[cx.g.below(aggs.len())].clone();
        let v = if a == "cnt" { Val::Int(cx.g.below(4) as i64) } else { Val::Int(INTS[cx.g.below(INTS.len())]) };   // aggregate aliases are typed Float by the parser: numbers only
        flines.push(format!("qf n=0 name={} sel=1 f=0 op={} v={}{}", a, ["gt", "ge", "le", "ne", "eq", "lt"][cx.g.below(6)], v.show(), if cx.g.chance(1, 3) { " var=1" } else { "" }));
    }
    for i in (1..flines.len()).rev() {
        let j = cx.g.below(i + 1);
        flines.swap(i, j);
    }
    cx.lines.extend(flines);
    for (name, j) in &keys {
        if cx.g.chance(2, 3) {
            cx.lines.push(format!("qo n=0 name={} sel=0 f={} dir={}", name, j, if cx.g.chance(1, 3) { "desc" } else { "asc" }));
        }
    }
    if cx.g.chance(1, 2) {
        let a = &aggs[cx.g.below(aggs.len())];
        cx.lines.push(format!("qo n=0 name={} sel=1 f=0 dir={}", a, if cx.g.chance(1, 2) { "desc" } else { "asc" }));
    }
}

pub fn gen(seed: u64, n_cases: usize, out: &str, tier: &str) {
    let mut g = Gen::new(seed ^ 0xC0551);
    let mut w = BufWriter::new(std::fs::File::create(out).unwrap());
    let max_rows = if tier == "quick" { 12 } else { 24 };
    let mut n_queries = 0;
    for id in 0..n_cases {
        let s = gen_schema(&mut g);
        writeln!(w, "case id={} e=c05 ns={}", id, g.chance(1, 2) as u8).unwrap();
        for (i, e) in s.iter().enumerate() {
            writeln!(w, "ent k={} opt={}", i, ["none", "none", "nofts", "empty"][g.below(4)]).unwrap();
            for (j, f) in e.iter().enumerate() {
                let mut l = format!("fld e={} k={} ty={} mod={}", i, j, f.ty, f.md);
                if f.ty == 'R' || f.ty == 'A' {
                    l.push_str(&format!(" to={}", f.to));
                }
                if let Some(dv) = &f.dv {
                    l.push_str(&format!(" dv={}", dv.show()));
                }
                if f.late {
                    l.push_str(" late=1");
                }
                if let Some(t) = &f.then {
                    l.push_str(&format!(" then={}", t.show()));
                }
                writeln!(w, "{}", l).unwrap();
            }
        }
        writeln!(w, "build").unwrap();
        let total: usize = s.iter().map(|_| g.below(max_rows + 1)).sum();
        let split = g.below(total + 1);
        let mut by_ent: Vec<Vec<u64>> = vec![vec![]; s.len()];
        let mut seen: Vec<Vec<Vec<Val>>> = s.iter().map(|e| vec![vec![]; e.len()]).collect();
        let mut upgraded = false;
        for r in 0..total {
            if r == split {
                writeln!(w, "upgrade").unwrap();
                upgraded = true;
            }
            let id = (r + 1) as u64;
            let e = g.below(s.len());
            let mut vals = vec![format!("0:I{}", id)];
            let mut refs: Vec<String> = vec![];
            seen[e][0].push(Val::Int(id as i64));
            for (j, f) in s[e].iter().enumerate().skip(1) {
                if f.late && !upgraded {
                    continue;
                }
                match f.ty {
                    'R' => {
                        let cand = &by_ent[f.to];
                        if !cand.is_empty() && g.chance(4, 5) {
                            refs.push(format!("{}:{}", j, cand[g.below(cand.len())]));
                        }
                    }
                    'A' => {
                        let cand = &by_ent[f.to];
                        if !cand.is_empty() {
                            let mut ids: Vec<u64> = vec![];
                            for _ in 0..g.below(5) {
                                let t = cand[g.below(cand.len())];
                                if !ids.contains(&t) {
                                    ids.push(t);
                                }
                            }
                            if !ids.is_empty() {
                                refs.push(format!("{}:{}", j, ids.iter().map(|x| x.to_string()).collect::<Vec<_>>().join(".")));
                            }
                        }
                    }
                    _ => {
                        let now_default = f.md == 'd' || (f.then.is_some() && upgraded);
                        let give = match f.md {
                            'r' => true,
                            'n' if !now_default => g.chance(2, 3),
                            _ => g.chance(1, 2),
                        };
                        if give {
                            let v = if f.md == 'n' && !now_default && g.chance(1, 3) { Val::Null } else { pool_val(f.ty, &mut g) };
                            if v != Val::Null {
                                seen[e][j].push(v.clone());
                            }
                            vals.push(format!("{}:{}", j, v.show()));
                        }
                    }
                }
            }
            writeln!(w, "row id={} e={} v={} r={}", id, e, vals.join("|"), refs.join("|")).unwrap();
            by_ent[e].push(id);
        }
        if !upgraded {
            writeln!(w, "upgrade").unwrap();
        }
        writeln!(w, "sqltbl").unwrap();
        writeln!(w, "sqledge").unwrap();
        for _ in 0..(3 + g.below(3)) {
            let ent = g.below(s.len());
            let with_subs = g.chance(1, 2);
            let aggregate = g.chance(1, 4);
            let mut cx = Ctx { g: &mut g, s: &s, seen: &seen, lines: vec![], next_node: 0, alias_n: 0 };
            if aggregate {
                gen_aggregate(&mut cx, ent);
            } else {
                gen_node(&mut cx, ent, 0, with_subs);
            }
            // node 0 must be declared first (it resets the node table): move the root's `q` line to the front
            let lines = cx.lines;
            let root_at = lines.iter().position(|l| l.starts_with("q n=0 ")).unwrap();
            writeln!(w, "{}", lines[root_at]).unwrap();
            for (k, l) in lines.iter().enumerate() {
                if k != root_at {
                    writeln!(w, "{}", l).unwrap();
                }
            }
            writeln!(w, "run").unwrap();
            writeln!(w, "sqlck").unwrap();
            n_queries += 1;
        }
    }
    w.flush().unwrap();
    println!("{}", serde_json::json!({"cases": n_cases, "queries": n_queries}));
}
