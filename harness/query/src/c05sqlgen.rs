//! Generator of the `sqlck` stream of C05: data models, data sets and queries of the fragment the Lean model of the
//! SQL compiler covers (lean/DiscretModel/Model/SqlGen.lean): one entity selection, scalar fields (required /
//! nullable / default / added later / nullable turned default) and `id`, aliases, filters with every operator on
//! selected aliases and on selected or unselected fields (literal, parameter, null), order_by on 0-3 keys,
//! first / skip, before / after. Every query is followed by `run` (evaluator) and `sqlck` (compiler model).
use crate::util::*;
use dvcommon::Gen;
use std::io::{BufWriter, Write};

#[derive(Clone)]
struct F {
    ty: char,
    md: char,
    dv: Option<Val>,
    late: bool,
    then: Option<Val>,
}

const INTS: [i64; 8] = [0, 1, 2, 3, 5, -1, 10, -7];
const STRS: [&str; 9] = ["a", "b", "ab", "B", "", " x", "é", "10", "it's"];

fn pool_val(ty: char, g: &mut Gen) -> Val {
    match ty {
        'I' => Val::Int(INTS[g.below(INTS.len())]),
        'S' => Val::Str(STRS[g.below(STRS.len())].to_string()),
        _ => Val::Bool(g.chance(1, 2)),
    }
}

fn gen_schema(g: &mut Gen) -> Vec<Vec<F>> {
    let n = 1 + g.below(2);
    let mut ents = vec![];
    for _ in 0..n {
        let mut fs = vec![F { ty: 'I', md: 'r', dv: None, late: false, then: None }];
        for _ in 0..(2 + g.below(4)) {
            let ty = ['I', 'S', 'B'][g.below(3)];
            let md = ['r', 'n', 'd'][g.weighted(&[2, 4, 4])];
            let dv = if md == 'd' { Some(pool_val(ty, g)) } else { None };
            let then = if md == 'n' && g.chance(1, 4) { Some(pool_val(ty, g)) } else { None };
            fs.push(F { ty, md, dv, late: false, then });
        }
        for _ in 0..g.below(3) {
            let ty = ['I', 'S', 'B'][g.below(3)];
            let md = if g.chance(2, 3) { 'd' } else { 'n' };
            let dv = if md == 'd' { Some(pool_val(ty, g)) } else { None };
            fs.push(F { ty, md, dv, late: true, then: None });
        }
        ents.push(fs);
    }
    ents
}

fn data_val(g: &mut Gen, seen: &[Val], ty: char) -> Val {
    if !seen.is_empty() && g.chance(3, 5) {
        seen[g.below(seen.len())].clone()
    } else {
        pool_val(ty, g)
    }
}

fn gen_query(g: &mut Gen, e: &[F], ent: usize, seen: &[Vec<Val>], lines: &mut Vec<String>) {
    let alias = if g.chance(1, 4) { Some(format!("res{}", g.below(3))) } else { None };
    lines.push(match &alias {
        Some(a) => format!("q n=0 ent={} alias={}", ent, a),
        None => format!("q n=0 ent={}", ent),
    });
    let nf = e.len();
    // ---- selection
    let mut selected: Vec<(String, usize, bool)> = vec![];
    let mut alias_n = 0;
    if g.chance(3, 4) {
        selected.push(("f0".into(), 0, false));
    }
    for j in 1..nf {
        if g.chance(1, 2) {
            if g.chance(2, 5) {
                alias_n += 1;
                selected.push((format!("a{}", alias_n), j, true));
                // the same field may be selected twice, under two keys
                if g.chance(1, 6) {
                    selected.push((format!("f{}", j), j, false));
                }
            } else {
                selected.push((format!("f{}", j), j, false));
            }
        }
    }
    if selected.is_empty() {
        selected.push(("a9".into(), 0, true));
    }
    let id_at = if g.chance(1, 3) { Some(g.below(selected.len() + 1)) } else { None };
    for (k, (key, j, _)) in selected.iter().enumerate() {
        if id_at == Some(k) {
            lines.push(format!("qs n=0 key={} f=id", if g.chance(1, 2) { "id" } else { "rid" }));
        }
        lines.push(format!("qs n=0 key={} f={}", key, j));
    }
    if id_at == Some(selected.len()) {
        lines.push(format!("qs n=0 key={} f=id", if g.chance(1, 2) { "id" } else { "rid" }));
    }
    // ---- filters
    for _ in 0..g.weighted(&[2, 4, 3, 1]) {
        let use_alias = g.chance(2, 5) && selected.iter().any(|x| x.2);
        let (name, j, sel) = if use_alias {
            let al: Vec<&(String, usize, bool)> = selected.iter().filter(|x| x.2).collect();
            let x = al[g.below(al.len())];
            (x.0.clone(), x.1, true)
        } else {
            let j = g.below(nf);
            (format!("f{}", j), j, false)
        };
        let f = &e[j];
        let var = g.chance(2, 5);
        let nullable_now = f.md == 'n' && f.then.is_none();
        let (op, v) = if nullable_now && g.chance(1, 4) {
            (if var { ["eq", "ne", "lt", "ge"][g.below(4)] } else { ["eq", "ne", "eq", "ne", "lt", "ge"][g.below(6)] }, Val::Null)
        } else {
            (["eq", "ne", "lt", "le", "gt", "ge"][g.below(6)], data_val(g, &seen[j], f.ty))
        };
        lines.push(format!("qf n=0 name={} sel={} f={} op={} v={}{}", name, sel as u8, j, op, v.show(), if var { " var=1" } else { "" }));
    }
    // ---- order, limits, cursors
    let mut orders: Vec<(String, usize, bool)> = vec![];
    for _ in 0..g.weighted(&[2, 4, 3, 1]) {
        let use_alias = g.chance(2, 5) && selected.iter().any(|x| x.2);
        let (name, j, sel) = if use_alias {
            let al: Vec<&(String, usize, bool)> = selected.iter().filter(|x| x.2).collect();
            let x = al[g.below(al.len())];
            (x.0.clone(), x.1, true)
        } else {
            let j = g.below(nf);
            (format!("f{}", j), j, false)
        };
        if orders.iter().any(|o| o.0 == name) {
            continue;
        }
        orders.push((name, j, sel));
    }
    let limited = g.chance(2, 5);
    let cursor = !orders.is_empty() && g.chance(1, 3);
    if limited && !orders.iter().any(|o| o.1 == 0) {
        // a unique last key makes the selected set well defined
        match selected.iter().find(|x| x.1 == 0) {
            Some(x) => orders.push((x.0.clone(), 0, x.2)),
            None => orders.push(("f0".into(), 0, false)),
        }
    }
    for (name, j, sel) in &orders {
        lines.push(format!("qo n=0 name={} sel={} f={} dir={}", name, *sel as u8, j, if g.chance(2, 5) { "desc" } else { "asc" }));
    }
    if limited {
        let first = if g.chance(1, 5) { 0 } else { 1 + g.below(4) };
        let skip = g.below(3);
        if first != 0 || skip != 0 {
            lines.push(format!("ql n=0 first={} skip={}", first, skip));
        }
    }
    if cursor {
        let k = 1 + g.below(orders.len());
        let vals: Vec<String> = orders[..k].iter().map(|(_, j, _)| data_val(g, &seen[*j], e[*j].ty).show()).collect();
        lines.push(format!("qa n=0 kind={} v={}", if g.chance(3, 5) { "after" } else { "before" }, vals.join("|")));
    }
}

pub fn gen(seed: u64, n_cases: usize, out: &str, tier: &str) {
    let mut g = Gen::new(seed ^ 0xC0551);
    let mut w = BufWriter::new(std::fs::File::create(out).unwrap());
    let max_rows = if tier == "quick" { 12 } else { 30 };
    let mut n_queries = 0;
    for id in 0..n_cases {
        let s = gen_schema(&mut g);
        writeln!(w, "case id={} e=c05 ns={}", id, g.chance(1, 2) as u8).unwrap();
        for (i, e) in s.iter().enumerate() {
            writeln!(w, "ent k={} opt={}", i, ["none", "none", "nofts", "empty"][g.below(4)]).unwrap();
            for (j, f) in e.iter().enumerate() {
                let mut l = format!("fld e={} k={} ty={} mod={}", i, j, f.ty, f.md);
                if let Some(dv) = &f.dv {
                    l.push_str(&format!(" dv={}", dv.show()));
                }
                if f.late {
                    l.push_str(" late=1");
                }
                if let Some(t) = &f.then {
                    l.push_str(&format!(" then={}", t.show()));
                }
                writeln!(w, "{}", l).unwrap();
            }
        }
        writeln!(w, "build").unwrap();
        let total: usize = s.iter().map(|_| g.below(max_rows + 1)).sum();
        let split = g.below(total + 1);
        let mut seen: Vec<Vec<Vec<Val>>> = s.iter().map(|e| vec![vec![]; e.len()]).collect();
        let mut upgraded = false;
        for r in 0..total {
            if r == split {
                writeln!(w, "upgrade").unwrap();
                upgraded = true;
            }
            let id = (r + 1) as u64;
            let e = g.below(s.len());
            let mut vals = vec![format!("0:I{}", id)];
            seen[e][0].push(Val::Int(id as i64));
            for (j, f) in s[e].iter().enumerate().skip(1) {
                if f.late && !upgraded {
                    continue;
                }
                let now_default = f.md == 'd' || (f.then.is_some() && upgraded);
                let give = match f.md {
                    'r' => true,
                    'n' if !now_default => g.chance(2, 3),
                    _ => g.chance(1, 2),
                };
                if give {
                    let v = if f.md == 'n' && !now_default && g.chance(1, 3) { Val::Null } else { pool_val(f.ty, &mut g) };
                    if v != Val::Null {
                        seen[e][j].push(v.clone());
                    }
                    vals.push(format!("{}:{}", j, v.show()));
                }
            }
            writeln!(w, "row id={} e={} v={} r=", id, e, vals.join("|")).unwrap();
        }
        if !upgraded {
            writeln!(w, "upgrade").unwrap();
        }
        writeln!(w, "sqltbl").unwrap();
        for _ in 0..(4 + g.below(5)) {
            let ent = g.below(s.len());
            let mut lines = vec![];
            gen_query(&mut g, &s[ent], ent, &seen[ent], &mut lines);
            for l in &lines {
                writeln!(w, "{}", l).unwrap();
            }
            writeln!(w, "run").unwrap();
            writeln!(w, "sqlck").unwrap();
            n_queries += 1;
        }
    }
    w.flush().unwrap();
    println!("{}", serde_json::json!({"cases": n_cases, "queries": n_queries}));
}
