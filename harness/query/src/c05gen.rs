//! Type-directed generator of C05 cases: data model, data set (ties and absent values on purpose), queries.
use crate::util::*;
use dvcommon::Gen;
use std::io::{BufWriter, Write};

#[derive(Clone)]
struct F {
    ty: char,
    to: usize,
    md: char,
    dv: Option<Val>,
    late: bool,
    then: Option<Val>,
}

const INTS: [i64; 7] = [0, 1, 2, 3, 5, -1, 10];
const STRS: [&str; 8] = ["a", "b", "ab", "B", "", " x", "é", "10"];

const JSONS: [&str; 12] = [
    "{\"k\":5,\"m\":[1,2,3],\"o\":{\"k\":\"x\"}}", "{\"k\":\"five\",\"m\":[],\"o\":null}", "[10,20,{\"k\":1}]", "7", "\"txt\"",
    "{\"k\":1}", "{\"k\":10,\"m\":[5]}", "{\"m\":[3,2,1],\"o\":{\"k\":\"y\",\"m\":[0]}}", "{}", "[]", "{\"k\":true,\"o\":{\"k\":2}}", "[1]",
];
const PATHS: [&str; 9] = ["k", "m:0", "m:1", "o/k", "o", "m", "@0", "@2", "$"];

fn pool_val(ty: char, g: &mut Gen) -> Val {
    match ty {
        'I' => Val::Int(INTS[g.below(INTS.len())]),
        'S' => Val::Str(STRS[g.below(STRS.len())].to_string()),
        _ => Val::Bool(g.chance(1, 2)),
    }
}

struct Schema {
    ents: Vec<Vec<F>>,
}

fn gen_schema(g: &mut Gen) -> Schema {
    let n = 2 + g.below(2);
    let mut ents = vec![];
    for _ in 0..n {
        let mut fs = vec![F { ty: 'I', to: 0, md: 'r', dv: None, late: false, then: None }];
        for _ in 0..(2 + g.below(3)) {
            let ty = ['I', 'S', 'B'][g.below(3)];
            let md = ['r', 'n', 'd'][g.weighted(&[3, 4, 3])];
            let dv = if md == 'd' { Some(pool_val(ty, g)) } else { None };
            let then = if md == 'n' && g.chance(1, 5) { Some(pool_val(ty, g)) } else { None };
            fs.push(F { ty, to: 0, md, dv, late: false, then });
        }
        if g.chance(1, 2) {
            // a Json field (never with a default; a null Json value panics the engine: candidate #6, left to C14)
            fs.push(F { ty: 'J', to: 0, md: if g.chance(1, 2) { 'n' } else { 'r' }, dv: None, late: false, then: None });
        }
        for _ in 0..g.below(3) {
            fs.push(F { ty: 'R', to: g.below(n), md: if g.chance(1, 2) { 'n' } else { 'r' }, dv: None, late: false, then: None });
        }
        if g.chance(2, 3) {
            fs.push(F { ty: 'A', to: g.below(n), md: if g.chance(1, 2) { 'n' } else { 'r' }, dv: None, late: false, then: None });
        }
        for _ in 0..g.below(3) {
            let ty = ['I', 'S', 'B'][g.below(3)];
            let md = if g.chance(2, 3) { 'd' } else { 'n' };
            let dv = if md == 'd' { Some(pool_val(ty, g)) } else { None };
            fs.push(F { ty, to: 0, md, dv, late: true, then: None });
        }
        ents.push(fs);
    }
    Schema { ents }
}

struct Ctx<'a> {
    g: &'a mut Gen,
    s: &'a Schema,
    /// values present in the data set, per entity and field (filters and cursors mostly use them)
    seen: &'a Vec<Vec<Vec<Val>>>,
    lines: Vec<String>,
    next_node: usize,
    alias_n: usize,
}

fn scalar_fields(e: &[F]) -> Vec<usize> {
    e.iter().enumerate().filter(|(_, f)| "ISB".contains(f.ty)).map(|(j, _)| j).collect()
}

fn data_val(cx: &mut Ctx, ent: usize, j: usize, ty: char) -> Val {
    let pool = &cx.seen[ent][j];
    if !pool.is_empty() && cx.g.chance(3, 5) {
        pool[cx.g.below(pool.len())].clone()
    } else {
        pool_val(ty, cx.g)
    }
}

/// emits the lines of one selection node; returns its node number
fn gen_node(cx: &mut Ctx, ent: usize, depth: usize, root_alias: bool, paging_ok: bool) -> usize {
    let n = cx.next_node;
    cx.next_node += 1;
    let e = cx.s.ents[ent].clone();
    let alias = if depth == 0 && root_alias { Some(format!("res{}", cx.g.below(3))) } else { None };
    cx.lines.push(match &alias {
        Some(a) => format!("q n={} ent={} alias={}", n, ent, a),
        None => format!("q n={} ent={}", n, ent),
    });
    // ---- selection
    let scalars = scalar_fields(&e);
    let mut selected: Vec<(String, usize, bool)> = vec![]; // key, field, is alias
    if cx.g.chance(4, 5) {
        selected.push(("f0".into(), 0, false));
    }
    for &j in &scalars[1..] {
        if cx.g.chance(1, 2) {
            if cx.g.chance(1, 3) {
                cx.alias_n += 1;
                selected.push((format!("a{}", cx.alias_n), j, true));
            } else {
                selected.push((format!("f{}", j), j, false));
            }
        }
    }
    if selected.is_empty() {
        selected.push(("f0".into(), 0, false));
    }
    for (k, j, _) in &selected {
        cx.lines.push(format!("qs n={} key={} f={}", n, k, j));
    }
    for (j, f) in e.iter().enumerate() {
        if f.ty == 'J' {
            if cx.g.chance(1, 4) {
                cx.lines.push(format!("qs n={} key=f{} f={}", n, j, j));
            }
            for _ in 0..cx.g.below(3) {
                cx.alias_n += 1;
                cx.lines.push(format!("qj n={} key=j{} f={} path={}", n, cx.alias_n, j, PATHS[cx.g.below(PATHS.len())]));
            }
            if cx.g.chance(1, 4) {
                let v = match cx.g.below(4) {
                    0 => Val::Null,
                    1 => Val::Str(["x", "five", "y"][cx.g.below(3)].to_string()),
                    _ => Val::Int([0, 1, 2, 5, 10][cx.g.below(5)]),
                };
                let op = if v == Val::Null { ["eq", "ne"][cx.g.below(2)] } else { ["eq", "ne", "lt", "le", "gt", "ge"][cx.g.below(6)] };
                cx.lines.push(format!("qf n={} name=f{} sel=0 f={} op={} v={} jpath={}", n, j, j, op, v.show(), PATHS[cx.g.below(PATHS.len())]));
            }
        }
    }
    if cx.g.chance(1, 3) {
        let key = if cx.g.chance(1, 2) { "id".to_string() } else { "rid".to_string() };
        cx.lines.push(format!("qs n={} key={} f=id", n, key));
    }
    let mut sub_keys: Vec<String> = vec![];
    if depth < 2 || (depth < 3 && cx.g.chance(1, 3)) {
        for (j, f) in e.iter().enumerate() {
            if (f.ty == 'R' || f.ty == 'A') && cx.g.chance(if depth == 0 { 2 } else { 1 }, 4) {
                let child = gen_node(cx, f.to, depth + 1, false, paging_ok);
                let key = if cx.g.chance(1, 4) {
                    cx.alias_n += 1;
                    format!("s{}", cx.alias_n)
                } else {
                    format!("f{}", j)
                };
                cx.lines.push(format!("qe n={} key={} f={} child={}", n, key, j, child));
                sub_keys.push(key);
            }
        }
    }
    for k in &sub_keys {
        if cx.g.chance(1, 2) {
            cx.lines.push(format!("qn n={} key={}", n, k));
        }
    }
    // ---- filters
    let nf = if depth == 0 { cx.g.weighted(&[3, 5, 2]) } else { cx.g.weighted(&[7, 3, 0]) };
    for _ in 0..nf {
        let use_alias = cx.g.chance(1, 3) && selected.iter().any(|x| x.2);
        let (name, j, sel) = if use_alias {
            let al: Vec<&(String, usize, bool)> = selected.iter().filter(|x| x.2).collect();
            let x = al[cx.g.below(al.len())];
            (x.0.clone(), x.1, true)
        } else {
            let j = scalars[cx.g.below(scalars.len())];
            (format!("f{}", j), j, false)
        };
        let f = &e[j];
        let var = cx.g.chance(2, 5);
        let nullable_now = f.md == 'n' && f.then.is_none();
        let (op, v) = if nullable_now && cx.g.chance(1, 5) {
            (["eq", "ne"][cx.g.below(2)], Val::Null)
        } else {
            (["eq", "ne", "lt", "le", "gt", "ge", "ne", "le", "ge"][cx.g.below(9)], data_val(cx, ent, j, f.ty))
        };
        cx.lines.push(format!("qf n={} name={} sel={} f={} op={} v={}{}", n, name, sel as u8, j, op, v.show(), if var { " var=1" } else { "" }));
    }
    // `field = null` / `field != null` on a reference field (selected under its own name, under an alias, or not at all)
    for (j, f) in e.iter().enumerate() {
        if (f.ty == 'R' || f.ty == 'A') && cx.g.chance(1, 6) {
            cx.lines.push(format!("qf n={} name=f{} sel=0 f={} op={} v=N ref=1", n, j, j, if cx.g.chance(1, 2) { "eq" } else { "ne" }));
        }
    }
    // ---- order, limits, cursors
    let mut orders: Vec<(String, usize, bool)> = vec![];
    for _ in 0..cx.g.weighted(&[3, 4, 2, 1]) {
        let use_alias = cx.g.chance(1, 3) && selected.iter().any(|x| x.2);
        let (name, j, sel) = if use_alias {
            let al: Vec<&(String, usize, bool)> = selected.iter().filter(|x| x.2).collect();
            let x = al[cx.g.below(al.len())];
            (x.0.clone(), x.1, true)
        } else if cx.g.chance(4, 5) && selected.iter().any(|x| !x.2) {
            let al: Vec<&(String, usize, bool)> = selected.iter().filter(|x| !x.2).collect();
            let x = al[cx.g.below(al.len())];
            (x.0.clone(), x.1, false)
        } else {
            let j = scalars[cx.g.below(scalars.len())];
            (format!("f{}", j), j, false)
        };
        if orders.iter().any(|o| o.0 == name) {
            continue;
        }
        orders.push((name, j, sel));
    }
    let limited = cx.g.chance(3, 10);
    let cursor = paging_ok && !orders.is_empty() && cx.g.chance(1, 4);
    if (limited || cursor) && !orders.iter().any(|o| o.1 == 0) {
        // a unique last key makes the selected set well defined
        let sel0 = selected.iter().find(|x| x.1 == 0);
        match sel0 {
            Some(x) => orders.push((x.0.clone(), 0, x.2)),
            None => orders.push(("f0".into(), 0, false)),
        }
    }
    let mut dirs = vec![];
    for (name, j, sel) in &orders {
        let desc = cx.g.chance(1, 3);
        dirs.push(desc);
        cx.lines.push(format!("qo n={} name={} sel={} f={} dir={}", n, name, *sel as u8, j, if desc { "desc" } else { "asc" }));
    }
    if limited {
        let first = if cx.g.chance(1, 8) { 0 } else { 1 + cx.g.below(4) };
        cx.lines.push(format!("ql n={} first={} skip={}", n, first, cx.g.below(3)));
    }
    if cursor {
        let k = 1 + cx.g.below(orders.len());
        let mut vals: Vec<String> = vec![];
        for (_, j, _) in orders[..k].iter() {
            vals.push(data_val(cx, ent, *j, e[*j].ty).show());
        }
        let kind = if cx.g.chance(2, 3) { "after" } else { "before" };
        cx.lines.push(format!("qa n={} kind={} v={}", n, kind, vals.join("|")));
    }
    n
}

/// a grouped query at the root: count()/min()/max() over required Integer fields, grouped by 0-2 scalars
/// whose stored value is what a selection shows (required, or nullable without a later default)
fn gen_aggregate(cx: &mut Ctx, ent: usize) {
    let e = cx.s.ents[ent].clone();
    cx.lines.push(format!("q n=0 ent={}", ent));
    let plain: Vec<usize> = e.iter().enumerate().skip(1)
        .filter(|(_, f)| "ISB".contains(f.ty) && !f.late && f.then.is_none() && f.md != 'd')
        .map(|(j, _)| j).collect();
    let mut keys: Vec<(String, usize)> = vec![];
    for &j in &plain {
        if keys.len() < 2 && cx.g.chance(1, 2) {
            cx.lines.push(format!("qs n=0 key=f{} f={}", j, j));
            keys.push((format!("f{}", j), j));
        }
    }
    let ints: Vec<usize> = e.iter().enumerate().filter(|(_, f)| f.ty == 'I' && f.md == 'r' && !f.late).map(|(j, _)| j).collect();
    let mut aggs: Vec<String> = vec![];
    cx.lines.push("qg n=0 key=cnt fn=count f=0".to_string());
    aggs.push("cnt".into());
    for (k, fun) in ["min", "max"].iter().enumerate() {
        if cx.g.chance(2, 3) {
            let j = ints[cx.g.below(ints.len())];
            cx.lines.push(format!("qg n=0 key=g{} fn={} f={}", k, fun, j));
            aggs.push(format!("g{}", k));
        }
    }
    // a filter on a field (applies to the rows before grouping)
    if cx.g.chance(1, 2) {
        let scalars = scalar_fields(&e);
        let j = scalars[cx.g.below(scalars.len())];
        let v = data_val(cx, ent, j, e[j].ty);
        cx.lines.push(format!("qf n=0 name=f{} sel=0 f={} op={} v={}", j, j, ["ne", "le", "ge", "lt"][cx.g.below(4)], v.show()));
    }
    // a filter on an aggregate alias (a condition on the groups)
    if cx.g.chance(1, 2) {
        let a = aggs[cx.g.below(aggs.len())].clone();
        let v = if a == "cnt" { Val::Int(cx.g.below(4) as i64) } else { Val::Int(INTS[cx.g.below(INTS.len())]) };
        cx.lines.push(format!("qf n=0 name={} sel=1 f=0 op={} v={}{}", a, ["gt", "ge", "le", "ne", "eq"][cx.g.below(5)], v.show(), if cx.g.chance(1, 3) { " var=1" } else { "" }));
    }
    for (name, j) in &keys {
        if cx.g.chance(2, 3) {
            cx.lines.push(format!("qo n=0 name={} sel=0 f={} dir={}", name, j, if cx.g.chance(1, 3) { "desc" } else { "asc" }));
        }
    }
    if cx.g.chance(1, 2) {
        let a = &aggs[cx.g.below(aggs.len())];
        cx.lines.push(format!("qo n=0 name={} sel=1 f=0 dir={}", a, if cx.g.chance(1, 2) { "desc" } else { "asc" }));
    }
}

pub fn gen(seed: u64, n_cases: usize, out: &str, tier: &str) {
    let mut g = Gen::new(seed ^ 0xC05);
    let mut w = BufWriter::new(std::fs::File::create(out).unwrap());
    let max_rows = if tier == "quick" { 14 } else { 40 };
    let mut n_queries = 0;
    for id in 0..n_cases {
        let s = gen_schema(&mut g);
        writeln!(w, "case id={} e=c05 ns={}", id, g.chance(1, 2) as u8).unwrap();
        for (i, e) in s.ents.iter().enumerate() {
            writeln!(w, "ent k={} opt={}", i, ["none", "none", "nofts", "empty"][g.below(4)]).unwrap();
            for (j, f) in e.iter().enumerate() {
                let mut l = format!("fld e={} k={} ty={} mod={}", i, j, f.ty, f.md);
                if f.ty == 'R' || f.ty == 'A' {
                    l.push_str(&format!(" to={}", f.to));
                }
                if let Some(dv) = &f.dv {
                    l.push_str(&format!(" dv={}", dv.show()));
                }
                if f.late {
                    l.push_str(" late=1");
                }
                if let Some(t) = &f.then {
                    l.push_str(&format!(" then={}", t.show()));
                }
                writeln!(w, "{}", l).unwrap();
            }
        }
        writeln!(w, "build").unwrap();
        // ---- rows: ids increasing, references to earlier rows only; the first part before the model upgrade
        let total: usize = s.ents.iter().map(|_| g.below(max_rows + 1)).sum();
        let split = g.below(total + 1);
        let mut by_ent: Vec<Vec<u64>> = vec![vec![]; s.ents.len()];
        let mut seen: Vec<Vec<Vec<Val>>> = s.ents.iter().map(|e| vec![vec![]; e.len()]).collect();
        let mut upgraded = false;
        for r in 0..total {
            if r == split {
                writeln!(w, "upgrade").unwrap();
                upgraded = true;
            }
            let id = (r + 1) as u64;
            let e = g.below(s.ents.len());
            let mut vals = vec![format!("0:I{}", id)];
            seen[e][0].push(Val::Int(id as i64));
            let mut refs = vec![];
            let mut jsons: Vec<String> = vec![];
            for (j, f) in s.ents[e].iter().enumerate().skip(1) {
                if f.late && !upgraded {
                    continue;
                }
                match f.ty {
                    'I' | 'S' | 'B' => {
                        let now_default = f.md == 'd' || (f.then.is_some() && upgraded);
                        let give = match f.md {
                            'r' => true,
                            'n' if !now_default => g.chance(2, 3),
                            _ => g.chance(1, 2),
                        };
                        if give {
                            let v = if f.md == 'n' && !now_default && g.chance(1, 3) { Val::Null } else { pool_val(f.ty, &mut g) };
                            if v != Val::Null {
                                seen[e][j].push(v.clone());
                            }
                            vals.push(format!("{}:{}", j, v.show()));
                        }
                    }
                    'J' => {
                        if f.md == 'r' || g.chance(3, 4) {
                            jsons.push(format!("{}:{}", j, enc(JSONS[g.below(JSONS.len())])));
                        }
                    }
                    'R' => {
                        let cand = &by_ent[f.to];
                        if !cand.is_empty() && g.chance(4, 5) {
                            refs.push(format!("{}:{}", j, cand[g.below(cand.len())]));
                        }
                    }
                    _ => {
                        let cand = &by_ent[f.to];
                        if !cand.is_empty() {
                            let k = g.below(4);
                            let mut ids: Vec<u64> = vec![];
                            for _ in 0..k {
                                let t = cand[g.below(cand.len())];
                                if !ids.contains(&t) {
                                    ids.push(t);
                                }
                            }
                            if !ids.is_empty() {
                                refs.push(format!("{}:{}", j, ids.iter().map(|x| x.to_string()).collect::<Vec<_>>().join(".")));
                            }
                        }
                    }
                }
            }
            if jsons.is_empty() {
                writeln!(w, "row id={} e={} v={} r={}", id, e, vals.join("|"), refs.join("|")).unwrap();
            } else {
                writeln!(w, "row id={} e={} v={} r={} j={}", id, e, vals.join("|"), refs.join("|"), jsons.join("|")).unwrap();
            }
            by_ent[e].push(id);
        }
        if !upgraded {
            writeln!(w, "upgrade").unwrap();
        }
        // ---- queries
        for _ in 0..(3 + g.below(4)) {
            let ent = g.below(s.ents.len());
            if g.chance(1, 8) {
                let mut cx = Ctx { g: &mut g, s: &s, seen: &seen, lines: vec![], next_node: 0, alias_n: 0 };
                gen_aggregate(&mut cx, ent);
                for l in &cx.lines {
                    writeln!(w, "{}", l).unwrap();
                }
                writeln!(w, "run").unwrap();
                n_queries += 1;
                continue;
            }
            let want_pages = g.chance(1, 4);
            let mut cx = Ctx { g: &mut g, s: &s, seen: &seen, lines: vec![], next_node: 0, alias_n: 0 };
            let root_alias = cx.g.chance(1, 4);
            gen_node(&mut cx, ent, 0, root_alias, !want_pages);
            let lines = cx.lines;
            let mut lines2 = vec![];
            let mut root_orders: Vec<String> = vec![];
            let mut root_selected: Vec<String> = vec![];
            let mut root_limited = false;
            for l in &lines {
                if want_pages && (l.starts_with("ql n=0 ") || l.starts_with("qa n=0 ")) {
                    root_limited = true;
                    continue; // paging drives first/after itself
                }
                if l.starts_with("qo n=0 ") {
                    root_orders.push(l.split_whitespace().find(|t| t.starts_with("name=")).unwrap()[5..].to_string());
                }
                if l.starts_with("qs n=0 ") && !l.ends_with("f=id") {
                    root_selected.push(l.split_whitespace().find(|t| t.starts_with("key=")).unwrap()[4..].to_string());
                }
                lines2.push(l.clone());
            }
            let _ = root_limited;
            for l in &lines2 {
                writeln!(w, "{}", l).unwrap();
            }
            writeln!(w, "run").unwrap();
            n_queries += 1;
            if want_pages && !root_orders.is_empty() && root_orders.iter().all(|o| root_selected.contains(o)) {
                // exact prediction needs an injective key: the unique field f0 selected under its own name and ordered
                let injective = root_orders.iter().any(|o| o == "f0");
                writeln!(w, "pages n={}{}", 1 + g.below(4), if injective { "" } else { " amb=1" }).unwrap();
            }
        }
    }
    w.flush().unwrap();
    println!("{}", serde_json::json!({"cases": n_cases, "queries": n_queries}));
}
