//! C04 — values round-trip unchanged and text is never executed.
//!
//! Op file:
//!   case id=<n> e=c04 ty=<String|Integer|Boolean|Float|Base64|Json> nul=<0|1> pos=<param|lit|default>
//!        fpos=<param|lit> place=<top|ref|arr> sel=<name|alias> via=<conn|svc>
//!   val v=<Value> [l=<cps>] [fl=<cps>] d=<Value;Value;…> [free=1]
//! Value = N | S<cps> | I<int> | B0 | B1 | F<bits>:<typed cps>:<display cps>
//!   v   the intended value (what the writer means)
//!   l   the token typed in the mutation (pos=lit) or in the data model (pos=default), quotes included
//!   fl  the token typed in the filter (fpos=lit)
//!   d   values of the decoy rows
//!   free=1  the result of the filter query is not predicted (the default value contains a quote or NUL)
//! Observation of a `val` line:
//!   st=<ok|err:class> raw=<_json text> res=<result text> ret=<Value> sib=<ok|bad> oth=<same|diff>
//!   flt=<tags|err:class|*> sql=<pct text> fsql=<pct text>
use crate::util::*;
use discret::verif_hooks::database::query_language::parameter::{Parameters, ParametersAdd};
use dvcommon::Stats;
use std::collections::HashMap;

#[derive(Clone, Debug)]
pub struct Case {
    pub ty: String,
    pub nul: bool,
    pub pos: String,
    pub fpos: String,
    pub place: String,
    pub alias: bool,
    pub svc: bool,
}

impl Case {
    pub fn parse(kv: &HashMap<String, String>) -> Option<Case> {
        let g = |k: &str| kv.get(k).cloned();
        let c = Case {
            ty: g("ty")?,
            nul: g("nul")? == "1",
            pos: g("pos")?,
            fpos: g("fpos")?,
            place: g("place")?,
            alias: g("sel")? == "alias",
            svc: g("via")? == "svc",
        };
        let ok = ["String", "Integer", "Boolean", "Float", "Base64", "Json"].contains(&c.ty.as_str())
            && ["param", "lit", "default"].contains(&c.pos.as_str())
            && ["param", "lit"].contains(&c.fpos.as_str())
            && ["top", "ref", "arr"].contains(&c.place.as_str())
            && !(c.pos == "default" && c.nul);
        if ok {
            Some(c)
        } else {
            None
        }
    }
    fn p_fields(&self, with_v: Option<&str>) -> String {
        // with_v: the declaration of v (None: v absent = first version of a `default` case)
        match (self.pos.as_str(), with_v) {
            ("default", None) => "a: Integer, b: String".to_string(),
            ("default", Some(d)) => format!("a: Integer, b: String, v: {}", d),
            (_, Some(d)) => format!("a: Integer, v: {}, b: String", d),
            (_, None) => unreachable!(),
        }
    }
    pub fn model(&self, v_decl: Option<&str>) -> String {
        let p = self.p_fields(v_decl);
        match self.place.as_str() {
            "top" => format!("{{ P {{ {} }} O {{ n: Integer }} }}", p),
            "ref" => format!("{{ Q {{ t: Integer, p: P }} P {{ {} }} O {{ n: Integer }} }}", p),
            _ => format!("{{ Q {{ t: Integer, ps: [P] }} P {{ {} }} O {{ n: Integer }} }}", p),
        }
    }
    fn wrap_mut(&self, tag: &str, inner: &str) -> String {
        match self.place.as_str() {
            "top" => format!("mutate {{ P {{ {} }} }}", inner),
            "ref" => format!("mutate {{ Q {{ t:{} p:{{ {} }} }} }}", tag, inner),
            _ => format!("mutate {{ Q {{ t:{} ps:[{{ {} }}] }} }}", tag, inner),
        }
    }
    fn sel_field(&self) -> &'static str {
        if self.alias {
            "w: v"
        } else {
            "v"
        }
    }
    fn vname(&self) -> &'static str {
        if self.alias {
            "w"
        } else {
            "v"
        }
    }
    pub fn select_query(&self) -> String {
        match self.place.as_str() {
            "top" => format!("query {{ P(id = $id) {{ a {} b }} }}", self.sel_field()),
            "ref" => format!("query {{ Q(id = $id) {{ t p {{ a {} b }} }} }}", self.sel_field()),
            _ => format!("query {{ Q(id = $id) {{ t ps {{ a {} b }} }} }}", self.sel_field()),
        }
    }
    /// a string-like literal in the filter is followed by a second clause with a variable (`a >= $a`, $a = 0,
    /// true of every row): the slot of a variable must not depend on the text of a literal
    pub fn second_clause(&self) -> bool {
        self.fpos == "lit" && ["String", "Base64", "Json"].contains(&self.ty.as_str())
    }
    pub fn filter_query(&self, x: &str) -> String {
        let sel = if self.alias { "a w: v" } else { "a" };
        let more = if self.second_clause() { ", a >= $a" } else { "" };
        match self.place.as_str() {
            "top" => format!("query {{ P({} = {}{}) {{ {} }} }}", self.vname(), x, more, sel),
            "ref" => format!("query {{ Q {{ t p({} = {}{}) {{ {} }} }} }}", self.vname(), x, more, sel),
            _ => format!("query {{ Q {{ t ps({} = {}{}) {{ {} }} }} }}", self.vname(), x, more, sel),
        }
    }
    pub fn v_decl(&self, default_tok: Option<&str>) -> String {
        match default_tok {
            Some(t) => format!("{} default {}", self.ty, t),
            None => format!("{}{}", self.ty, if self.nul { " nullable" } else { "" }),
        }
    }
}

pub struct ValOp {
    pub v: Val,
    pub l: Option<String>,
    pub fl: Option<String>,
    pub d: Vec<Val>,
    pub free: bool,
}
impl ValOp {
    pub fn parse(kv: &HashMap<String, String>) -> Option<ValOp> {
        let v = Val::parse(kv.get("v")?)?;
        let l = match kv.get("l") {
            Some(x) => Some(dec(x)?),
            None => None,
        };
        let fl = match kv.get("fl") {
            Some(x) => Some(dec(x)?),
            None => None,
        };
        let mut d = vec![];
        if let Some(ds) = kv.get("d") {
            if !ds.is_empty() {
                for t in ds.split(';') {
                    d.push(Val::parse(t)?);
                }
            }
        }
        Some(ValOp { v, l, fl, d, free: kv.get("free").map(|x| x == "1").unwrap_or(false) })
    }
}

fn b64(s: &str) -> Option<Vec<u8>> {
    discret::verif_hooks::security::base64_decode(s.as_bytes()).ok()
}

/// the target value as returned by the select query
fn extract<'a>(c: &Case, res: &'a J) -> Option<&'a J> {
    let top = match c.place.as_str() {
        "top" => res.get("P")?.arr()?.first()?,
        "ref" => res.get("Q")?.arr()?.first()?.get("p")?,
        _ => res.get("Q")?.arr()?.first()?.get("ps")?.arr()?.first()?,
    };
    Some(top)
}

fn j_to_obs(c: &Case, j: &J, intended: &Val) -> String {
    match j {
        J::Null => "N".into(),
        J::Bool(b) => format!("B{}", *b as u8),
        J::Str(s) => {
            if c.ty == "Json" {
                // a Json value returned as a string (only the default path does that)
                format!("S{}", enc_short(s))
            } else {
                format!("S{}", enc_short(s))
            }
        }
        J::Num(n) => {
            if c.ty == "Float" {
                match n.parse::<f64>() {
                    Ok(f) => format!("F{}", f.to_bits()),
                    Err(_) => "X".into(),
                }
            } else if let Ok(i) = n.parse::<i64>() {
                format!("I{}", i)
            } else if let Ok(f) = n.parse::<f64>() {
                format!("F{}", f.to_bits())
            } else {
                "X".into()
            }
        }
        J::Arr(_) | J::Obj(_) => {
            if let Val::Str(s) = intended {
                match JParser::parse(s) {
                    Ok(i) if i.canon() == j.canon() => "Jsame".into(),
                    _ => "Jdiff".into(),
                }
            } else {
                "Jdiff".into()
            }
        }
    }
}

/// for Json fields the scalar JSON values are compared structurally too
fn json_obs(c: &Case, j: &J, intended: &Val) -> String {
    if c.ty == "Json" && c.pos != "default" {
        if let Val::Str(s) = intended {
            return match JParser::parse(s) {
                Ok(i) if i.canon() == j.canon() => "Jsame".into(),
                Ok(_) => "Jdiff".into(),
                Err(_) => "Jbad".into(),
            };
        }
        if *intended == Val::Null && *j == J::Null {
            return "N".into();
        }
    }
    j_to_obs(c, j, intended)
}

fn tags(c: &Case, res: &J) -> Option<String> {
    let (ent, key) = if c.place == "top" { ("P", "a") } else { ("Q", "t") };
    let mut v: Vec<i64> = vec![];
    for r in res.get(ent)?.arr()? {
        match r.get(key)? {
            J::Num(n) => v.push(n.parse().ok()?),
            _ => return None,
        }
    }
    v.sort();
    Some(v.iter().map(|x| x.to_string()).collect::<Vec<_>>().join(","))
}

fn ids_of(c: &Case, mres: &str) -> Option<(Vec<u8>, Vec<u8>, String, String)> {
    // (top row id, P row id, both as text)
    let j = JParser::parse(mres).ok()?;
    let gid = |x: &J| -> Option<(Vec<u8>, String)> {
        match x.get("id")? {
            J::Str(s) => Some((b64(s)?, s.clone())),
            _ => None,
        }
    };
    match c.place.as_str() {
        "top" => {
            let (b, s) = gid(j.get("P")?)?;
            Some((b.clone(), b, s.clone(), s))
        }
        "ref" => {
            let q = j.get("Q")?;
            let (qb, qs) = gid(q)?;
            let (pb, ps) = gid(q.get("p")?)?;
            Some((qb, pb, qs, ps))
        }
        _ => {
            let q = j.get("Q")?;
            let (qb, qs) = gid(q)?;
            let (pb, ps) = gid(q.get("ps")?.arr()?.first()?)?;
            Some((qb, pb, qs, ps))
        }
    }
}

/// the service API (GraphDatabaseService::mutate / query / update_data_model) on an instance in `folder`
pub struct Svc {
    pub rt: tokio::runtime::Runtime,
    pub svc: discret::verif_hooks::database::graph_database::GraphDatabaseService,
    pub folder: std::path::PathBuf,
}
impl Svc {
    pub fn start(folder: std::path::PathBuf, model: &str) -> Result<Svc, &'static str> {
        use discret::verif_hooks::{configuration::Configuration, database::graph_database::GraphDatabaseService, event_service::EventService};
        let rt = tokio::runtime::Builder::new_multi_thread().worker_threads(2).enable_all().build().unwrap();
        let _ = std::fs::remove_dir_all(&folder);
        std::fs::create_dir_all(&folder).unwrap();
        let f2 = folder.clone();
        let model = model.to_string();
        let r = rt.block_on(async move {
            let mut c = Configuration::default();
            c.parallelism = 1;
            GraphDatabaseService::start("dv query", &model, &[9u8; 32], &[7u8; 32], f2, &c, EventService::new()).await
        });
        match r {
            Ok((svc, _, _)) => Ok(Svc { rt, svc, folder }),
            Err(e) => Err(class_db(&e)),
        }
    }
}
impl Drop for Svc {
    fn drop(&mut self) {
        let _ = std::fs::remove_dir_all(&self.folder);
    }
}

pub enum Backend {
    Conn(Conn),
    Svc(Svc),
}
impl Backend {
    pub fn mutate(&self, text: &str, p: Parameters) -> Result<String, (&'static str, String)> {
        match self {
            Backend::Conn(c) => c.mutate(text, p),
            Backend::Svc(s) => s
                .rt
                .block_on(s.svc.mutate(text, Some(p)))
                .map_err(|e| (class_db(&e), e.to_string())),
        }
    }
    pub fn query(&self, text: &str, p: Parameters) -> QueryOut {
        match self {
            Backend::Conn(c) => c.query(text, p),
            Backend::Svc(s) => match s.rt.block_on(s.svc.query(text, Some(p))) {
                Ok(r) => QueryOut { result: Ok(r), detail: String::new(), sql: vec![] },
                Err(e) => QueryOut { result: Err(class_db(&e)), detail: e.to_string(), sql: vec![] },
            },
        }
    }
    fn update_model(&mut self, model: &str) -> Result<(), &'static str> {
        match self {
            Backend::Conn(c) => c.update_model(model),
            Backend::Svc(s) => s.rt.block_on(s.svc.update_data_model(model)).map(|_| ()).map_err(|e| class_db(&e)),
        }
    }
    /// everything but the rows in `skip`
    fn digest_others(&self, c: &Case, skip: &[Vec<u8>], skip_txt: &[String]) -> u64 {
        match self {
            Backend::Conn(db) => db.digest_others(skip),
            Backend::Svc(_) => {
                // through the API: every row of every entity with its system fields
                let q = if c.place == "top" {
                    "query { P { id mdate cdate a b } O { id mdate n } }".to_string()
                } else {
                    let f = if c.place == "ref" { "p" } else { "ps" };
                    format!("query {{ Q(nullable({})) {{ id mdate t {} {{ id mdate a b }} }} P {{ id mdate cdate a b }} O {{ id mdate n }} }}", f, f)
                };
                let r = self.query(&q, Parameters::new());
                let mut lines: Vec<String> = vec![];
                if let Ok(t) = r.result {
                    if let Ok(J::Obj(ents)) = JParser::parse(&t) {
                        for (e, rows) in ents {
                            if let J::Arr(rows) = rows {
                                for row in rows {
                                    let id = match row.get("id") { Some(J::Str(s)) => s.clone(), _ => String::new() };
                                    if skip_txt.contains(&id) { continue; }
                                    // a Q row that points to a skipped row is skipped too
                                    let txt = row.canon();
                                    if skip_txt.iter().any(|s| txt.contains(&enc(s))) { continue; }
                                    lines.push(format!("{}{}", e, txt));
                                }
                            }
                        }
                    }
                } else {
                    return 0;
                }
                lines.sort();
                let mut h: u64 = 0xcbf29ce484222325;
                for l in &lines {
                    for b in l.bytes() { h ^= b as u64; h = h.wrapping_mul(0x100000001b3); }
                }
                h ^ (lines.len() as u64)
            }
        }
    }
    fn raw_json(&self, id: &[u8]) -> Option<String> {
        match self {
            Backend::Conn(c) => c.raw_json(id),
            Backend::Svc(_) => None,
        }
    }
}

pub struct Obs {
    pub line: String,
    pub oracle: Vec<(String, String)>,
}

/// numeric equality for floats, plain equality otherwise
fn val_eq(a: &Val, b: &Val) -> bool {
    match (a, b) {
        (Val::Float(x, _, _), Val::Float(y, _, _)) => f64::from_bits(*x) == f64::from_bits(*y),
        _ => a == b,
    }
}

pub fn run_val(c: &Case, op: &ValOp, stats: &mut Stats, scratch: &std::path::Path) -> Obs {
    stats.inc("c04.val");
    stats.inc(&format!("c04.ty.{}", c.ty));
    stats.inc(&format!("c04.pos.{}", c.pos));
    stats.inc(&format!("c04.fpos.{}", c.fpos));
    stats.inc(&format!("c04.place.{}", c.place));
    stats.inc(if c.svc { "c04.via.service_api" } else { "c04.via.connection" });
    let mut oracle = vec![];
    let fail = |st: &str| Obs {
        line: format!("st={} raw=- res=- ret=- sib=- oth=- flt=- sql=- fsql=-", st),
        oracle: vec![],
    };
    let dflt = c.pos == "default";
    // ---- data model (first version)
    let decl1 = if dflt { None } else { Some(c.v_decl(None)) };
    let model1 = c.model(decl1.as_deref());
    let mut db = if c.svc {
        static COUNTER: std::sync::atomic::AtomicU64 = std::sync::atomic::AtomicU64::new(0);
        let k = COUNTER.fetch_add(1, std::sync::atomic::Ordering::SeqCst);
        match Svc::start(scratch.join(format!("svc{}_{}", std::process::id(), k)), &model1) {
            Ok(s) => Backend::Svc(s),
            Err(e) => return fail(&format!("err:model:{}", e)),
        }
    } else {
        match Conn::new(&model1) {
            Ok(d) => Backend::Conn(d),
            Err(e) => return fail(&format!("err:model:{}", e)),
        }
    };
    let _ = db.mutate("mutate { O { n:1 } }", Parameters::new());
    let _ = db.mutate("mutate { O { n:2 } }", Parameters::new());

    let put_target = |db: &Backend| -> Result<String, (&'static str, String)> {
        let (inner, p) = match c.pos.as_str() {
            "param" => {
                let mut p = Parameters::new();
                op.v.add_to(&mut p, "v");
                ("a:7 v:$v b:\"sib\"".to_string(), p)
            }
            "lit" => (
                format!("a:7 v:{} b:\"sib\"", op.l.clone().unwrap_or_default()),
                Parameters::new(),
            ),
            _ => ("a:7 b:\"sib\"".to_string(), Parameters::new()),
        };
        db.mutate(&c.wrap_mut("7", &inner), p)
    };
    let put_decoys = |db: &Backend| {
        for (k, d) in op.d.iter().enumerate() {
            let mut p = Parameters::new();
            d.add_to(&mut p, "v");
            p.add("a", 100 + k as i64).unwrap();
            let _ = db.mutate(&c.wrap_mut("$a", "a:$a v:$v b:\"decoy\""), p);
        }
    };

    let mres;
    let d1;
    if dflt {
        mres = put_target(&db);
        let decl2 = c.v_decl(Some(op.l.as_deref().unwrap_or("")));
        if let Err(e) = db.update_model(&c.model(Some(&decl2))) {
            return fail(&format!("err:{}", e));
        }
        put_decoys(&db);
        d1 = None;
    } else {
        put_decoys(&db);
        d1 = Some(db.digest_others(c, &[], &[]));
        mres = put_target(&db);
    }
    let mres = match mres {
        Ok(m) => m,
        Err((cl, _)) => {
            stats.inc(&format!("c04.put.err.{}", cl));
            return fail(&format!("err:{}", cl));
        }
    };
    stats.inc("c04.put.ok");
    let (top_id, p_id, top_id_txt, p_id_txt) = match ids_of(c, &mres) {
        Some(x) => x,
        None => return fail("err:noid"),
    };
    let skip = vec![top_id.clone(), p_id.clone()];
    let skip_txt = vec![top_id_txt.clone(), p_id_txt.clone()];
    let d1 = d1.unwrap_or_else(|| db.digest_others(c, &skip, &skip_txt));
    let is_float = c.ty == "Float";
    let opaque = is_float || c.ty == "Json";

    // ---- the stored text
    let raw = db.raw_json(&p_id);

    // ---- select
    let mut p = Parameters::new();
    p.add("id", top_id_txt.clone()).unwrap();
    let sel = db.query(&c.select_query(), p);
    let mut ret = "-".to_string();
    let mut sib = "-".to_string();
    let res_txt = match &sel.result {
        Ok(r) => {
            match JParser::parse(r) {
                Ok(j) => match extract(c, &j) {
                    Some(row) => {
                        let key = if c.alias { "w" } else { "v" };
                        ret = match row.get(key) {
                            Some(x) => json_obs(c, x, &op.v),
                            None => "absent".into(),
                        };
                        let a_ok = row.get("a") == Some(&J::Num("7".into()));
                        let b_ok = row.get("b") == Some(&J::Str("sib".into()));
                        sib = if a_ok && b_ok { "ok".into() } else { "bad".into() };
                    }
                    None => ret = "norow".into(),
                },
                Err(_) => ret = "badjson".into(),
            }
            enc_short(r)
        }
        Err(cl) => {
            ret = format!("err:{}", cl);
            "-".into()
        }
    };

    // ---- equality filter
    let (x, fp) = if c.fpos == "param" {
        let mut p = Parameters::new();
        op.v.add_to(&mut p, "f");
        ("$f".to_string(), p)
    } else {
        let mut p = Parameters::new();
        if c.second_clause() {
            p.add("a", 0i64).unwrap();
        }
        (op.fl.clone().unwrap_or_default(), p)
    };
    let flt = db.query(&c.filter_query(&x), fp);
    let flt_txt = match &flt.result {
        Ok(r) => match JParser::parse(r).ok().and_then(|j| tags(c, &j)) {
            Some(t) => t,
            None => "badjson".into(),
        },
        Err(cl) => format!("err:{}", cl),
    };
    let d2 = db.digest_others(c, &skip, &skip_txt);
    let oth = if d1 == d2 { "same" } else { "diff" };

    // ---- observations the model does not predict are masked on both sides and judged here:
    //  * Json: the filter compares SQLite's rendering of the value with a text (no defined meaning)
    //  * free=1: the statement contains a spliced default with a quote or NUL (C04_partial's guard excludes it)
    //  * Float: a filter compares the bound/spliced f64 with SQLite's own reading of the stored JSON number text
    //    (or of a decimal printed into the SQL text), which is not always correctly rounded
    let mask_flt = c.ty == "Json" || op.free || is_float;
    let mask_ret = is_float && dflt;
    let mut exp: Vec<i64> = vec![7];
    for (k, d) in op.d.iter().enumerate() {
        if val_eq(d, &op.v) {
            exp.push(100 + k as i64);
        }
    }
    exp.sort();
    let exp_txt = exp.iter().map(|x| x.to_string()).collect::<Vec<_>>().join(",");
    if mask_flt && c.ty != "Json" && flt_txt != exp_txt {
        let sig = if op.free {
            "default-spliced-into-sql"
        } else if dflt {
            "float-default-inexact"
        } else if c.fpos == "lit" && op.fl.as_deref().map_or(false, |t| {
            let t = t.trim_start_matches('-');
            !t.is_empty() && t.len() <= 16 && t.chars().all(|ch| ch.is_ascii_digit())
        }) {
            // an integer spelling below 10^16: the decimal text of its f64 is exact, nothing excuses a mismatch
            "integer-literal-on-float-filter-mismatch"
        } else if c.fpos == "lit" {
            "float-literal-inexact"
        } else {
            "float-stored-reparse-inexact"
        };
        let d: String = flt.detail.replace('\n', " ").chars().take(120).collect();
        oracle.push((sig.to_string(), format!("equality filter returned rows [{}] expected [{}] {}", flt_txt, exp_txt, d)));
    }
    if mask_ret && ret != op.v.obs() {
        oracle.push(("float-default-inexact".to_string(), format!("default {} returned as {}", op.v.obs(), ret)));
    }
    let sql_s = if sel.sql.is_empty() { "-".to_string() } else { pct(&sel.sql.join("\n;;\n")) };
    let fsql_s = if flt.sql.is_empty() { "-".to_string() } else { pct(&flt.sql.join("\n;;\n")) };
    let line = format!(
        "st=ok raw={} res={} ret={} sib={} oth={} flt={} sql={} fsql={}",
        match &raw { Some(r) if !opaque => enc_short(r), _ => "-".to_string() },
        if opaque { "-".to_string() } else { res_txt },
        if mask_ret { "*".to_string() } else { ret },
        sib,
        oth,
        if mask_flt { "*".to_string() } else { flt_txt },
        sql_s,
        fsql_s
    );
    Obs { line, oracle }
}
