//! C05 — query results equal a direct evaluation of the query over the data.
//!
//! Op file (one `case` = one data model + data set + any number of queries):
//!   case id=<n> e=c05 ns=<0|1>
//!   ent k=<i> [opt=<none|empty|nofts>]      entity options of the grammar: `E()` / `E(no_full_text_index)`
//!   fld e=<i> k=<j> ty=<I|S|B|R|A> [to=<entity>] mod=<r|n|d> [dv=<Val>] [late=1] [then=<Val>]
//!        (then: a nullable field becomes `default <Val>` in the upgraded model)
//!   build                               create the first model version (fields without late=1) and the database
//!   row id=<n> e=<i> v=<j>:<Val>|…  r=<j>:<id.id…>|…     fields not listed are omitted from the mutation
//!   upgrade                             add the late fields, one model version each
//!   q n=<node> ent=<i> [alias=<name>]   node 0 is the root selection
//!   qs n=<node> key=<name> f=<j|id>
//!   qe n=<node> key=<name> f=<j> child=<m>
//!   qj n=<node> key=<name> f=<j> path=<k/m:1|@2|$>          json selector on a Json field (`key: f<j>->$.k.m[1]`)
//!   qg n=<node> key=<name> fn=<count|min|max> f=<j>      aggregate (grouped by the scalar selections of the node)
//!   qf n=<node> name=<name> sel=<0|1> f=<j> op=<eq|ne|lt|le|gt|ge> v=<Val> [var=1] [ref=1]
//!        (ref=1: `= null` / `!= null` on a reference field; sel=1 with an aggregate alias: a having-filter)
//!   qo n=<node> name=<name> sel=<0|1> f=<j> dir=<asc|desc>
//!   ql n=<node> first=<k> skip=<k>
//!   qa n=<node> kind=<after|before> v=<Val>|<Val>…
//!   qn n=<node> key=<name>
//!   run                                 -> res=<canonical result> | err:<class>
//!   pages n=<k> [amb=1]                 -> pages=<ids of page 1>/<ids of page 2>/… (first k, after(last) … until empty)
//! Val = N | I<int> | B0 | B1 | S<cps>
use crate::util::*;
use discret::verif_hooks::database::query_language::parameter::{Parameters, ParametersAdd};
use dvcommon::Stats;
use std::collections::HashMap;

#[derive(Clone, Debug)]
pub struct FieldDef {
    pub ty: char,
    pub to: usize,
    pub md: char,
    pub dv: Option<Val>,
    pub late: bool,
    /// a nullable field that becomes `default <then>` (not nullable) in the upgraded model
    pub then: Option<Val>,
}

#[derive(Clone, Debug, Default)]
pub struct Node {
    pub ent: usize,
    pub alias: Option<String>,
    pub sels: Vec<SelItem>,
    pub filters: Vec<(String, bool, usize, String, Val, bool)>, // name, sel, fld, op, value, var
    pub jfilters: Vec<(usize, String, String, Val)>,            // field, path spec, op, value
    pub orders: Vec<(String, bool, usize, bool)>,               // name, sel, fld, desc
    pub first: u64,
    pub skip: u64,
    pub after: Vec<Val>,
    pub before: Vec<Val>,
    pub nullable: Vec<String>,
}

#[derive(Clone, Debug)]
pub enum SelItem {
    Scalar(String, usize),
    Id(String),
    Sub(String, usize, usize), // key, field, child node
    Agg(String, String, usize), // key, count|min|max, field
    Json(String, usize, String), // key, field, path spec
}

#[derive(Default)]
pub struct Case {
    pub ns: bool,
    pub ents: Vec<Vec<FieldDef>>,
    pub ent_opts: Vec<String>,
    pub db: Option<Conn>,
    pub uids: HashMap<u64, String>,   // logical id -> uid text
    pub logical: HashMap<String, u64>, // uid text -> logical id
    pub nodes: HashMap<usize, Node>,
    pub upgraded: bool,
    pub last_full: Option<Vec<String>>, // canonical rows of the last `run` (for the paging oracle)
}

fn ent_name(c: &Case, i: usize) -> String {
    if c.ns {
        format!("app.E{}", i)
    } else {
        format!("E{}", i)
    }
}

fn type_text(c: &Case, f: &FieldDef, upgraded: bool) -> String {
    let base = match f.ty {
        'I' => "Integer".to_string(),
        'S' => "String".to_string(),
        'B' => "Boolean".to_string(),
        'J' => "Json".to_string(),
        'R' => ent_name(c, f.to),
        _ => format!("[{}]", ent_name(c, f.to)),
    };
    if upgraded {
        if let Some(t) = &f.then {
            return format!("{} default {}", base, lit(t));
        }
    }
    match f.md {
        'n' => format!("{} nullable", base),
        'd' => format!("{} default {}", base, lit(f.dv.as_ref().unwrap_or(&Val::Null))),
        _ => base,
    }
}

/// a value as a literal of the query language (strings of the C05 generator contain no quote and no backslash)
fn lit(v: &Val) -> String {
    match v {
        Val::Null => "null".into(),
        Val::Int(i) => i.to_string(),
        Val::Bool(b) => b.to_string(),
        Val::Str(s) => format!("\"{}\"", s),
        Val::Float(_, t, _) => t.clone(),
    }
}

fn model_text(c: &Case, upto_late: usize) -> String {
    // the late fields are added in the order (entity, field); `upto_late` of them are included
    let mut s = String::new();
    s.push_str(if c.ns { "app {" } else { "{" });
    let mut late_seen = 0;
    for (i, e) in c.ents.iter().enumerate() {
        let mut fields = vec![];
        for (j, f) in e.iter().enumerate() {
            if f.late {
                late_seen += 1;
                if late_seen > upto_late {
                    continue;
                }
            }
            fields.push(format!("f{}: {}", j, type_text(c, f, upto_late > 0)));
        }
        s.push_str(&format!(" E{}{} {{ {} }}", i, c.ent_opts.get(i).map(|x| x.as_str()).unwrap_or(""), fields.join(", ")));
    }
    s.push_str(" }");
    s
}

fn n_late(c: &Case) -> usize {
    c.ents.iter().map(|e| e.iter().filter(|f| f.late).count()).sum()
}

fn parse_pairs(s: &str) -> Option<Vec<(usize, String)>> {
    let mut v = vec![];
    if s.is_empty() {
        return Some(v);
    }
    for t in s.split('|') {
        let (j, x) = t.split_once(':')?;
        v.push((j.parse().ok()?, x.to_string()));
    }
    Some(v)
}

/// `k/m:1/o` -> `$.k.m[1].o`; `@2` -> `2`; `$` -> `$`
fn selector_text(spec: &str) -> Option<String> {
    if spec == "$" {
        return Some("$".into());
    }
    if let Some(i) = spec.strip_prefix('@') {
        return i.parse::<u64>().ok().map(|x| x.to_string());
    }
    let mut s = String::from("$");
    for seg in spec.split('/') {
        match seg.split_once(':') {
            Some((k, i)) => s.push_str(&format!(".{}[{}]", k, i.parse::<u64>().ok()?)),
            None => s.push_str(&format!(".{}", seg)),
        }
    }
    Some(s)
}

fn op_text(op: &str) -> Option<&'static str> {
    Some(match op {
        "eq" => "=",
        "ne" => "!=",
        "lt" => "<",
        "le" => "<=",
        "gt" => ">",
        "ge" => ">=",
        _ => return None,
    })
}

impl Case {
    fn node_text(&self, n: usize, as_field: Option<(&str, usize)>, p: &mut Parameters, pc: &mut usize, over: Option<(u64, Vec<Val>)>) -> Option<String> {
        let node = self.nodes.get(&n)?;
        let mut params: Vec<String> = vec![];
        for (name, _sel, _f, op, v, var) in &node.filters {
            let x = if *var {
                let pn = format!("p{}", *pc);
                *pc += 1;
                v.add_to(p, &pn);
                format!("${}", pn)
            } else {
                lit(v)
            };
            params.push(format!("{} {} {}", name, op_text(op)?, x));
        }
        for (f, spec, op, v) in &node.jfilters {
            params.push(format!("f{}->{} {} {}", f, selector_text(spec)?, op_text(op)?, lit(v)));
        }
        if !node.orders.is_empty() {
            let os: Vec<String> = node.orders.iter().map(|(name, _, _, desc)| format!("{} {}", name, if *desc { "desc" } else { "asc" })).collect();
            params.push(format!("order_by({})", os.join(", ")));
        }
        let (first, after) = match &over {
            Some((f, a)) => (*f, a.clone()),
            None => (node.first, node.after.clone()),
        };
        if first != 0 {
            params.push(format!("first {}", first));
        }
        if node.skip != 0 && over.is_none() {
            params.push(format!("skip {}", node.skip));
        }
        if !after.is_empty() {
            params.push(format!("after({})", after.iter().map(lit).collect::<Vec<_>>().join(", ")));
        }
        if !node.before.is_empty() && over.is_none() {
            params.push(format!("before({})", node.before.iter().map(lit).collect::<Vec<_>>().join(", ")));
        }
        if !node.nullable.is_empty() {
            params.push(format!("nullable({})", node.nullable.join(", ")));
        }
        let mut fields: Vec<String> = vec![];
        for s in &node.sels {
            match s {
                SelItem::Scalar(key, f) => {
                    let fname = format!("f{}", f);
                    fields.push(if *key == fname { fname } else { format!("{}: {}", key, fname) });
                }
                SelItem::Id(key) => fields.push(if key == "id" { "id".into() } else { format!("{}: id", key) }),
                SelItem::Json(key, f, spec) => fields.push(format!("{}: f{}->{}", key, f, selector_text(spec)?)),
                SelItem::Agg(key, fun, f) => fields.push(if fun == "count" { format!("{}: count()", key) } else { format!("{}: {}(f{})", key, fun, f) }),
                SelItem::Sub(key, f, child) => {
                    fields.push(self.node_text(*child, Some((key, *f)), p, pc, None)?);
                }
            }
        }
        let head = match as_field {
            Some((key, f)) => {
                let fname = format!("f{}", f);
                if key == fname { fname } else { format!("{}: {}", key, fname) }
            }
            None => match &node.alias {
                Some(a) => format!("{}: {}", a, ent_name(self, node.ent)),
                None => ent_name(self, node.ent),
            },
        };
        let ps = if params.is_empty() { String::new() } else { format!("({})", params.join(", ")) };
        Some(format!("{} {} {{ {} }}", head, ps, fields.join(" ")))
    }

    fn canon_json(&self, j: &J) -> String {
        match j {
            J::Obj(fs) => format!("J{{{}}}", fs.iter().map(|(k, v)| format!("{}={}", k, self.canon_json(v))).collect::<Vec<_>>().join(";")),
            J::Arr(l) => format!("A[{}]", l.iter().map(|v| self.canon_json(v)).collect::<Vec<_>>().join(",")),
            x => self.canon_val(x),
        }
    }

    fn canon_val(&self, j: &J) -> String {
        match j {
            J::Null => "N".into(),
            J::Bool(b) => format!("B{}", *b as u8),
            J::Num(n) => match n.parse::<i64>() {
                Ok(i) => format!("I{}", i),
                Err(_) => format!("F{}", n),
            },
            J::Str(s) => format!("S{}", s.chars().map(|c| (c as u32).to_string()).collect::<Vec<_>>().join(".")),
            J::Obj(_) | J::Arr(_) => self.canon_json(j),
        }
    }

    fn canon_row(&self, n: usize, row: &J) -> String {
        let node = match self.nodes.get(&n) {
            Some(x) => x,
            None => return "?".into(),
        };
        let mut parts = vec![];
        for s in &node.sels {
            match s {
                SelItem::Scalar(key, _) | SelItem::Agg(key, _, _) => {
                    parts.push(format!("{}={}", key, row.get(key).map(|x| self.canon_val(x)).unwrap_or("absent".into())));
                }
                SelItem::Json(key, _, _) => {
                    parts.push(format!("{}={}", key, row.get(key).map(|x| self.canon_json(x)).unwrap_or("absent".into())));
                }
                SelItem::Id(key) => {
                    let v = match row.get(key) {
                        Some(J::Str(s)) => match self.logical.get(s) {
                            Some(l) => format!("#{}", l),
                            None => "#?".into(),
                        },
                        _ => "#!".into(),
                    };
                    parts.push(format!("{}={}", key, v));
                }
                SelItem::Sub(key, f, child) => {
                    let is_arr = self.nodes.get(&n).and_then(|nd| self.ents.get(nd.ent)).and_then(|e| e.get(*f)).map(|fd| fd.ty == 'A').unwrap_or(false);
                    let v = match row.get(key) {
                        Some(J::Arr(items)) if is_arr => self.canon_list(*child, items),
                        Some(J::Null) => "N".into(),
                        Some(o @ J::Obj(_)) if !is_arr => self.canon_row(*child, o),
                        Some(_) => "?shape".into(),
                        None => "absent".into(),
                    };
                    parts.push(format!("{}={}", key, v));
                }
            }
        }
        format!("{{{}}}", parts.join(";"))
    }

    /// keeps the order of the implementation; only rows that tie on every VISIBLE order key (or all rows when
    /// no order is given) are sorted by their text
    fn canon_list(&self, n: usize, items: &[J]) -> String {
        format!("[{}]", self.canon_rows(n, items).join(","))
    }

    fn canon_rows(&self, n: usize, items: &[J]) -> Vec<String> {
        let node = match self.nodes.get(&n) {
            Some(x) => x,
            None => return vec!["?".into()],
        };
        let visible: Vec<String> = node
            .orders
            .iter()
            .filter(|(name, _, _, _)| node.sels.iter().any(|s| matches!(s, SelItem::Scalar(k, _) | SelItem::Agg(k, _, _) if k == name)))
            .map(|(name, _, _, _)| name.clone())
            .collect();
        let rows: Vec<(Vec<String>, String)> = items
            .iter()
            .map(|r| {
                let keys: Vec<String> = visible.iter().map(|k| r.get(k).map(|x| self.canon_val(x)).unwrap_or_default()).collect();
                (keys, self.canon_row(n, r))
            })
            .collect();
        let mut out: Vec<String> = vec![];
        let mut i = 0;
        while i < rows.len() {
            let mut j = i + 1;
            while j < rows.len() && rows[j].0 == rows[i].0 {
                j += 1;
            }
            let mut run: Vec<String> = rows[i..j].iter().map(|x| x.1.clone()).collect();
            run.sort();
            out.extend(run);
            i = j;
        }
        out
    }

    fn run_query(&self, over: Option<(u64, Vec<Val>)>) -> Result<Vec<J>, String> {
        let db = self.db.as_ref().ok_or("err:nodb")?;
        let mut p = Parameters::new();
        let mut pc = 0;
        let text = self.node_text(0, None, &mut p, &mut pc, over).ok_or("bad-op")?;
        let text = format!("query {{ {} }}", text);
        let out = db.query(&text, p);
        if std::env::var("DV_DEBUG").is_ok() {
            eprintln!("QUERY {}\n  -> {:?} {}", text, out.result.as_ref().map(|s| s.len()), out.detail.replace('\n', " "));
        }
        match out.result {
            Ok(r) => {
                let j = JParser::parse(&r).map_err(|e| format!("err:badjson:{}", e))?;
                let root = self.nodes.get(&0).ok_or("bad-op")?;
                let key = root.alias.clone().unwrap_or_else(|| ent_name(self, root.ent));
                match j.get(&key) {
                    Some(J::Arr(items)) => Ok(items.clone()),
                    _ => Err("err:shape".into()),
                }
            }
            Err(cl) => Err(format!("err:{}", cl)),
        }
    }
}

pub fn step(c: &mut Case, kind: &str, kv: &HashMap<String, String>, stats: &mut Stats, oracle: &mut Vec<(String, String)>) -> String {
    let num = |k: &str| kv.get(k).and_then(|v| v.parse::<usize>().ok());
    match kind {
        "ent" => match num("k") {
            Some(k) if k == c.ents.len() => {
                let opt = match kv.get("opt").map(|s| s.as_str()).unwrap_or("none") {
                    "none" => "",
                    "empty" => "()",
                    "nofts" => "(no_full_text_index)",
                    _ => return "bad-op".into(),
                };
                c.ents.push(vec![]);
                c.ent_opts.push(opt.to_string());
                "ok".into()
            }
            _ => "bad-op".into(),
        },
        "fld" => {
            let (e, k, ty, md) = match (num("e"), num("k"), kv.get("ty"), kv.get("mod")) {
                (Some(e), Some(k), Some(ty), Some(md)) if ty.len() == 1 && md.len() == 1 => (e, k, ty.chars().next().unwrap(), md.chars().next().unwrap()),
                _ => return "bad-op".into(),
            };
            if e >= c.ents.len() || k != c.ents[e].len() || !"ISBJRA".contains(ty) || !"rnd".contains(md) {
                return "bad-op".into();
            }
            let dv = match kv.get("dv") {
                Some(x) => match Val::parse(x) {
                    Some(v) => Some(v),
                    None => return "bad-op".into(),
                },
                None => None,
            };
            if (md == 'd') != dv.is_some() {
                return "bad-op".into();
            }
            let to = num("to").unwrap_or(0);
            if (ty == 'R' || ty == 'A') && kv.get("to").is_none() {
                return "bad-op".into();
            }
            let then = match kv.get("then") {
                Some(x) => match Val::parse(x) {
                    Some(v) if md == 'n' && "ISB".contains(ty) => Some(v),
                    _ => return "bad-op".into(),
                },
                None => None,
            };
            c.ents[e].push(FieldDef { ty, to, md, dv, late: kv.get("late").map(|x| x == "1").unwrap_or(false), then });
            "ok".into()
        }
        "build" => match Conn::new(&model_text(c, 0)) {
            Ok(db) => {
                c.db = Some(db);
                stats.inc("c05.models");
                "ok".into()
            }
            Err(e) => format!("err:{}", e),
        },
        "upgrade" => {
            let n = std::cmp::max(n_late(c), 1);
            for k in 1..=n {
                let m = model_text(c, k);
                if let Some(db) = c.db.as_mut() {
                    if let Err(e) = db.update_model(&m) {
                        return format!("err:{}", e);
                    }
                }
            }
            c.upgraded = true;
            "ok".into()
        }
        "row" => {
            let (id, e) = match (kv.get("id").and_then(|x| x.parse::<u64>().ok()), num("e")) {
                (Some(i), Some(e)) if e < c.ents.len() => (i, e),
                _ => return "bad-op".into(),
            };
            let vals = match parse_pairs(kv.get("v").map(|s| s.as_str()).unwrap_or("")) {
                Some(v) => v,
                None => return "bad-op".into(),
            };
            let refs = match parse_pairs(kv.get("r").map(|s| s.as_str()).unwrap_or("")) {
                Some(v) => v,
                None => return "bad-op".into(),
            };
            let jsons = match parse_pairs(kv.get("j").map(|s| s.as_str()).unwrap_or("")) {
                Some(v) => v,
                None => return "bad-op".into(),
            };
            let mut p = Parameters::new();
            let mut parts: Vec<String> = vec![];
            for (j, x) in &jsons {
                let txt = match dec(x) {
                    Some(t) => t,
                    None => return "bad-op".into(),
                };
                p.add(&format!("j{}", j), txt).unwrap();
                parts.push(format!("f{}:$j{}", j, j));
            }
            for (j, x) in &vals {
                let v = match Val::parse(x) {
                    Some(v) => v,
                    None => return "bad-op".into(),
                };
                v.add_to(&mut p, &format!("v{}", j));
                parts.push(format!("f{}:$v{}", j, j));
            }
            for (j, ids) in &refs {
                let fd = match c.ents[e].get(*j) {
                    Some(f) => f.clone(),
                    None => return "bad-op".into(),
                };
                let mut items = vec![];
                for (n, t) in ids.split('.').filter(|s| !s.is_empty()).enumerate() {
                    let l: u64 = match t.parse() {
                        Ok(x) => x,
                        Err(_) => return "bad-op".into(),
                    };
                    let uid = match c.uids.get(&l) {
                        Some(u) => u.clone(),
                        None => return "bad-op".into(),
                    };
                    let pn = format!("r{}x{}", j, n);
                    p.add(&pn, uid).unwrap();
                    items.push(format!("{{id:${}}}", pn));
                }
                if items.is_empty() {
                    continue;
                }
                if fd.ty == 'A' {
                    parts.push(format!("f{}:[{}]", j, items.join(",")));
                } else if fd.ty == 'R' {
                    parts.push(format!("f{}:{}", j, items[0]));
                } else {
                    return "bad-op".into();
                }
            }
            let text = format!("mutate {{ {} {{ {} }} }}", ent_name(c, e), parts.join(" "));
            let db = match c.db.as_ref() {
                Some(d) => d,
                None => return "err:nodb".into(),
            };
            match db.mutate(&text, p) {
                Ok(r) => {
                    let uid = JParser::parse(&r).ok().and_then(|j| match j.get(&ent_name(c, e)).and_then(|x| x.get("id")) {
                        Some(J::Str(s)) => Some(s.clone()),
                        _ => None,
                    });
                    match uid {
                        Some(u) => {
                            c.uids.insert(id, u.clone());
                            c.logical.insert(u, id);
                            stats.inc("c05.rows");
                            "ok".into()
                        }
                        None => "err:noid".into(),
                    }
                }
                Err((cl, _)) => format!("err:{}", cl),
            }
        }
        "q" => match (num("n"), num("ent")) {
            (Some(n), Some(e)) if e < c.ents.len() => {
                if n == 0 {
                    c.nodes.clear();
                }
                c.nodes.insert(n, Node { ent: e, alias: kv.get("alias").cloned(), ..Default::default() });
                "ok".into()
            }
            _ => "bad-op".into(),
        },
        "qs" => match (num("n"), kv.get("key"), kv.get("f")) {
            (Some(n), Some(key), Some(f)) if c.nodes.contains_key(&n) => {
                let item = if f == "id" {
                    SelItem::Id(key.clone())
                } else {
                    match f.parse::<usize>() {
                        Ok(j) => SelItem::Scalar(key.clone(), j),
                        Err(_) => return "bad-op".into(),
                    }
                };
                c.nodes.get_mut(&n).unwrap().sels.push(item);
                "ok".into()
            }
            _ => "bad-op".into(),
        },
        "qj" => match (num("n"), kv.get("key"), num("f"), kv.get("path")) {
            (Some(n), Some(key), Some(f), Some(path)) if c.nodes.contains_key(&n) && selector_text(path).is_some() => {
                c.nodes.get_mut(&n).unwrap().sels.push(SelItem::Json(key.clone(), f, path.clone()));
                "ok".into()
            }
            _ => "bad-op".into(),
        },
        "qg" => match (num("n"), kv.get("key"), kv.get("fn"), num("f")) {
            (Some(n), Some(key), Some(fun), Some(f)) if c.nodes.contains_key(&n) && ["count", "min", "max"].contains(&fun.as_str()) => {
                c.nodes.get_mut(&n).unwrap().sels.push(SelItem::Agg(key.clone(), fun.clone(), f));
                "ok".into()
            }
            _ => "bad-op".into(),
        },
        "qe" => match (num("n"), kv.get("key"), num("f"), num("child")) {
            (Some(n), Some(key), Some(f), Some(ch)) if c.nodes.contains_key(&n) && c.nodes.contains_key(&ch) && ch != n => {
                c.nodes.get_mut(&n).unwrap().sels.push(SelItem::Sub(key.clone(), f, ch));
                "ok".into()
            }
            _ => "bad-op".into(),
        },
        "qf" => match (num("n"), kv.get("name"), kv.get("sel"), num("f"), kv.get("op"), kv.get("v").and_then(|x| Val::parse(x))) {
            (Some(n), Some(_), Some(_), Some(f), Some(op), Some(v)) if c.nodes.contains_key(&n) && op_text(op).is_some() && kv.contains_key("jpath") => {
                let spec = kv.get("jpath").unwrap();
                if selector_text(spec).is_none() {
                    return "bad-op".into();
                }
                c.nodes.get_mut(&n).unwrap().jfilters.push((f, spec.clone(), op.clone(), v));
                "ok".into()
            }
            (Some(n), Some(name), Some(sel), Some(f), Some(op), Some(v)) if c.nodes.contains_key(&n) && op_text(op).is_some() => {
                c.nodes.get_mut(&n).unwrap().filters.push((name.clone(), sel == "1", f, op.clone(), v, kv.get("var").map(|x| x == "1").unwrap_or(false)));
                "ok".into()
            }
            _ => "bad-op".into(),
        },
        "qo" => match (num("n"), kv.get("name"), kv.get("sel"), num("f"), kv.get("dir")) {
            (Some(n), Some(name), Some(sel), Some(f), Some(dir)) if c.nodes.contains_key(&n) && (dir == "asc" || dir == "desc") => {
                c.nodes.get_mut(&n).unwrap().orders.push((name.clone(), sel == "1", f, dir == "desc"));
                "ok".into()
            }
            _ => "bad-op".into(),
        },
        "ql" => match (num("n"), num("first"), num("skip")) {
            (Some(n), Some(f), Some(s)) if c.nodes.contains_key(&n) => {
                let nd = c.nodes.get_mut(&n).unwrap();
                nd.first = f as u64;
                nd.skip = s as u64;
                "ok".into()
            }
            _ => "bad-op".into(),
        },
        "qa" => match (num("n"), kv.get("kind"), kv.get("v")) {
            (Some(n), Some(kind), Some(v)) if c.nodes.contains_key(&n) && (kind == "after" || kind == "before") => {
                let mut vals = vec![];
                for t in v.split('|') {
                    match Val::parse(t) {
                        Some(x) => vals.push(x),
                        None => return "bad-op".into(),
                    }
                }
                let nd = c.nodes.get_mut(&n).unwrap();
                if kind == "after" {
                    nd.after = vals
                } else {
                    nd.before = vals
                }
                "ok".into()
            }
            _ => "bad-op".into(),
        },
        "qn" => match (num("n"), kv.get("key")) {
            (Some(n), Some(key)) if c.nodes.contains_key(&n) => {
                c.nodes.get_mut(&n).unwrap().nullable.push(key.clone());
                "ok".into()
            }
            _ => "bad-op".into(),
        },
        "run" => {
            stats.inc("c05.queries");
            match c.run_query(None) {
                Ok(items) => {
                    let rows = c.canon_rows(0, &items);
                    if rows.is_empty() {
                        stats.inc("c05.queries.empty_result");
                    }
                    stats.add("c05.result_rows", rows.len() as u64);
                    let txt = format!("res=[{}]", rows.join(","));
                    c.last_full = Some(rows);
                    // condition coverage: is each root filter constant on this data set? (measured with the real engine)
                    if let Some(orig) = c.nodes.get(&0).cloned() {
                        if !orig.filters.is_empty() {
                            let mut base = orig.clone();
                            base.filters.clear();
                            base.first = 0;
                            base.skip = 0;
                            base.after.clear();
                            base.before.clear();
                            c.nodes.insert(0, base.clone());
                            let total = c.run_query(None).map(|x| x.len()).ok();
                            for f in &orig.filters {
                                let mut one = base.clone();
                                one.filters = vec![f.clone()];
                                c.nodes.insert(0, one);
                                let n = c.run_query(None).map(|x| x.len()).ok();
                                match (total, n) {
                                    (Some(t), Some(n)) if t == 0 => { let _ = n; stats.inc("c05.filter.no_candidate_rows") }
                                    (Some(t), Some(n)) if n == t => stats.inc("c05.filter.constant_true"),
                                    (Some(_), Some(0)) => stats.inc("c05.filter.constant_false"),
                                    (Some(_), Some(_)) => stats.inc("c05.filter.discriminating"),
                                    _ => stats.inc("c05.filter.unmeasured"),
                                }
                            }
                            c.nodes.insert(0, orig);
                        }
                    }
                    txt
                }
                Err(e) => {
                    stats.inc(&format!("c05.queries.{}", e.replace(':', "_")));
                    c.last_full = None;
                    e
                }
            }
        }
        "pages" => {
            stats.inc("c05.pagings");
            let n = match num("n") {
                Some(n) if n >= 1 => n as u64,
                _ => return "bad-op".into(),
            };
            let amb = kv.get("amb").map(|x| x == "1").unwrap_or(false);
            let root = match c.nodes.get(&0) {
                Some(r) => r.clone(),
                None => return "bad-op".into(),
            };
            // the cursor is read from the selected order keys of the last row of the page
            let mut pages: Vec<Vec<String>> = vec![];
            let mut cursor: Vec<Val> = vec![];
            let mut note = String::new();
            for _ in 0..60 {
                let items = match c.run_query(Some((n, cursor.clone()))) {
                    Ok(i) => i,
                    Err(e) => {
                        note = e;
                        break;
                    }
                };
                if items.is_empty() {
                    break;
                }
                pages.push(c.canon_rows(0, &items));
                let last = items.last().unwrap();
                cursor.clear();
                let mut null_key = false;
                for (name, _, _, _) in &root.orders {
                    match last.get(name) {
                        Some(J::Num(x)) => cursor.push(Val::Int(x.parse().unwrap_or(0))),
                        Some(J::Str(s)) => cursor.push(Val::Str(s.clone())),
                        Some(J::Bool(b)) => cursor.push(Val::Bool(*b)),
                        _ => {
                            null_key = true;
                            break;
                        }
                    }
                }
                if null_key {
                    note = "nullcursor".into();
                    break;
                }
            }
            let txt = pages.iter().map(|p| p.join(",")).collect::<Vec<_>>().join("/");
            let line = format!("pages={}{}", txt, if note.is_empty() { String::new() } else { format!(" note={}", note) });
            if amb {
                // ties or absent keys on purpose: the model does not predict the pages; every row must still come exactly once
                if let Some(full) = &c.last_full {
                    let mut got: Vec<String> = pages.iter().flatten().cloned().collect();
                    let mut want = full.clone();
                    got.sort();
                    want.sort();
                    if got != want {
                        let sig = if note == "nullcursor" || want.iter().any(|r| root.orders.iter().any(|(name, _, _, _)| r.contains(&format!("{}=N", name)))) {
                            "paging-absent-key-skipped"
                        } else {
                            "paging-ties-skipped"
                        };
                        oracle.push((sig.to_string(), format!("paging by {} visited {} rows, the query selects {}", n, got.len(), want.len())));
                    }
                }
                "pages=*".into()
            } else {
                line
            }
        }
        _ => "bad-op".into(),
    }
}

// ------------------------------------------------------------------------------------------------
// The tie of the SQL compiler model (lean/DiscretModel/Model/SqlGen.lean, SqlSem.lean), ops added for C05:
//   sqlck        -> sql=<SQL text of the root selection, %XX-encoded> par=<bound values, `;`-separated | -> rows=[<canonical rows>]
//                   | err:<class>     (text: `SingleQuery.sql_query` of PreparedQueries::build; bound values: what
//                   `SingleQuery::build_query_params` hands to SQLite after `validate_params`; rows: `Query::read`)
//   sqltbl       -> tbl=<id>:<_entity>:{<short>=<Val>;…}|…   the scalar fields of the `_node` rows of the case, by row number
use discret::verif_hooks::database::query::{PreparedQueries, Query};
use discret::verif_hooks::database::query_language::query_parser::QueryParser;
use rusqlite::types::{ToSqlOutput, Value, ValueRef};

fn bound_text(v: &dyn rusqlite::ToSql) -> String {
    let show_ref = |r: ValueRef| match r {
        ValueRef::Null => "N".to_string(),
        ValueRef::Integer(i) => format!("I{}", i),
        ValueRef::Real(f) => format!("F{}", f.to_bits()),
        ValueRef::Text(t) => format!("S{}", enc(&String::from_utf8_lossy(t))),
        ValueRef::Blob(b) => format!("X{}", b.len()),
    };
    match v.to_sql() {
        Ok(ToSqlOutput::Borrowed(r)) => show_ref(r),
        Ok(ToSqlOutput::Owned(Value::Null)) => "N".into(),
        Ok(ToSqlOutput::Owned(Value::Integer(i))) => format!("I{}", i),
        Ok(ToSqlOutput::Owned(Value::Real(f))) => format!("F{}", f.to_bits()),
        Ok(ToSqlOutput::Owned(Value::Text(t))) => format!("S{}", enc(&t)),
        Ok(ToSqlOutput::Owned(Value::Blob(b))) => format!("X{}", b.len()),
        _ => "?".into(),
    }
}

pub fn step_sql(c: &mut Case, kind: &str, _kv: &HashMap<String, String>, stats: &mut Stats) -> String {
    match kind {
        "sqlck" => {
            stats.inc("c05.sqlck");
            let db = match c.db.as_ref() {
                Some(d) => d,
                None => return "err:nodb".into(),
            };
            let mut p = Parameters::new();
            let mut pc = 0;
            let text = match c.node_text(0, None, &mut p, &mut pc, None) {
                Some(t) => format!("query {{ {} }}", t),
                None => return "bad-op".into(),
            };
            let qp = match QueryParser::parse(&text, &db.dm) {
                Ok(q) => q,
                Err(e) => return format!("err:{}", class_ql(&e)),
            };
            let pq = match PreparedQueries::build(&qp) {
                Ok(q) => q,
                Err(e) => return format!("err:{}", class_db(&e)),
            };
            if pq.sql_queries.len() != 1 {
                return "err:shape".into();
            }
            if let Err(e) = qp.variables.validate_params(&mut p) {
                return format!("err:{}", class_ql(&e));
            }
            let sql = pq.sql_queries[0].sql_query.clone();
            let par = match pq.sql_queries[0].build_query_params(&p) {
                Ok(v) => v.iter().map(|b| bound_text(b.as_ref())).collect::<Vec<_>>(),
                Err(e) => return format!("err:{}", class_db(&e)),
            };
            let mut q = Query { parameters: p, parser: std::sync::Arc::new(qp), sql_queries: std::sync::Arc::new(pq) };
            let res = match q.read(&db.conn) {
                Ok(r) => r,
                Err(e) => return format!("err:{}", class_db(&e)),
            };
            let j = match JParser::parse(&res) {
                Ok(j) => j,
                Err(e) => return format!("err:badjson:{}", e),
            };
            let root = match c.nodes.get(&0) {
                Some(r) => r,
                None => return "bad-op".into(),
            };
            let key = root.alias.clone().unwrap_or_else(|| ent_name(c, root.ent));
            let items = match j.get(&key) {
                Some(J::Arr(items)) => items.clone(),
                _ => return "err:shape".into(),
            };
            let rows = c.canon_rows(0, &items);
            stats.add("c05.sqlck_rows", rows.len() as u64);
            format!("sql={} par={} rows=[{}]", pct(&sql), if par.is_empty() { "-".to_string() } else { par.join(";") }, rows.join(","))
        }
        "sqltbl" => {
            let db = match c.db.as_ref() {
                Some(d) => d,
                None => return "err:nodb".into(),
            };
            // short names of the scalar fields, from the real data model
            let mut shorts: HashMap<String, Vec<String>> = HashMap::new(); // entity short name -> short names of its I/S/B fields
            for (i, e) in c.ents.iter().enumerate() {
                let ent = match db.dm.get_entity(&ent_name(c, i)) {
                    Ok(e) => e,
                    Err(_) => return "err:model".into(),
                };
                let mut v = vec![];
                for (j, f) in e.iter().enumerate() {
                    if "ISB".contains(f.ty) {
                        if let Ok(fd) = ent.get_field(&format!("f{}", j)) {
                            v.push(fd.short_name.clone());
                        }
                    }
                }
                shorts.insert(ent.short_name.clone(), v);
            }
            let mut st = match db.conn.prepare("SELECT id, _entity, _json FROM _node") {
                Ok(s) => s,
                Err(_) => return "err:sql".into(),
            };
            let mut out: Vec<(u64, String)> = vec![];
            let mut rows = st.query([]).unwrap();
            while let Some(r) = rows.next().unwrap() {
                let id: Vec<u8> = r.get(0).unwrap();
                let ent: String = r.get(1).unwrap();
                let js: Option<String> = r.get(2).unwrap();
                let uid = discret::verif_hooks::security::base64_encode(&id);
                let l = match c.logical.get(&uid) {
                    Some(l) => *l,
                    None => continue,
                };
                let parsed = JParser::parse(js.as_deref().unwrap_or("{}")).unwrap_or(J::Obj(vec![]));
                let mut items = vec![];
                if let (J::Obj(fs), Some(sh)) = (&parsed, shorts.get(&ent)) {
                    for (k, v) in fs {
                        if sh.contains(k) {
                            items.push(format!("{}={}", k, c.canon_val(v)));
                        }
                    }
                }
                items.sort();
                out.push((l, format!("{}:{}:{{{}}}", l, ent, items.join(";"))));
            }
            out.sort();
            format!("tbl={}", out.into_iter().map(|x| x.1).collect::<Vec<_>>().join("|"))
        }
        "sqledge" => {
            // sqledge -> edges=<src>><label>><dest>|…   the rows of `_edge` between rows of the case, by row numbers, sorted
            let db = match c.db.as_ref() {
                Some(d) => d,
                None => return "err:nodb".into(),
            };
            let mut st = match db.conn.prepare("SELECT src, label, dest FROM _edge") {
                Ok(s) => s,
                Err(_) => return "err:sql".into(),
            };
            let mut out: Vec<String> = vec![];
            let mut rows = st.query([]).unwrap();
            while let Some(r) = rows.next().unwrap() {
                let src: Vec<u8> = r.get(0).unwrap();
                let label: String = r.get(1).unwrap();
                let dest: Vec<u8> = r.get(2).unwrap();
                let (a, b) = (discret::verif_hooks::security::base64_encode(&src), discret::verif_hooks::security::base64_encode(&dest));
                match (c.logical.get(&a), c.logical.get(&b)) {
                    (Some(x), Some(y)) => out.push(format!("{}>{}>{}", x, label, y)),
                    _ => out.push("?".into()),
                }
            }
            out.sort();
            format!("edges={}", out.join("|"))
        }
        _ => "bad-op".into(),
    }
}
