//! C04, update stream: "writing a value affects no other field and no other row".
//!
//!   case id=<n> e=c04u tys=<I|F|B|S|X>,… nul=<0|1>,… via=<conn|svc> [opt=<none|empty|nofts>] [idx=1] [ns=1]
//!        entity T[()|(no_full_text_index)] { f0: ty0 [nullable], f1: … [, index(f0)] } (in namespace `app` with ns=1)
//!   new v=<Val|->;<Val|->;…          creates the row (`-` = field omitted, nullable fields only)
//!   upd set=<j>:<Val>;<j>:<Val>…     `mutate { T { id:$id fj:$pj … } }` (an empty set is an update of nothing)
//! Observation of `new`/`upd`: st=ok row=<Value;Value;…> oth=<same|diff>  — every field of the row read back
//! through `query { T(id=$id) { f0 f1 … } }`, and a digest of every other row (a decoy row of the same entity
//! and a row of another entity are created first).
use crate::c04::{Backend, Svc};
use crate::util::*;
use discret::verif_hooks::database::query_language::parameter::{Parameters, ParametersAdd};
use dvcommon::Stats;
use std::collections::HashMap;

pub struct UCase {
    pub tys: Vec<char>,
    pub nul: Vec<bool>,
    pub svc: bool,
    /// entity options of the data model grammar: "" | "()" | "(no_full_text_index)" ; an index entry; a namespace
    pub opt: String,
    pub idx: bool,
    pub ns: bool,
    db: Option<Backend>,
    id: Option<(Vec<u8>, String)>,
    digest: u64,
}

fn ty_name(t: char) -> Option<&'static str> {
    Some(match t {
        'I' => "Integer",
        'F' => "Float",
        'B' => "Boolean",
        'S' => "String",
        'X' => "Base64",
        _ => return None,
    })
}

impl UCase {
    pub fn parse(kv: &HashMap<String, String>) -> Option<UCase> {
        let tys: Vec<char> = kv.get("tys")?.split(',').map(|t| t.chars().next().unwrap_or('?')).collect();
        let nul: Vec<bool> = kv.get("nul")?.split(',').map(|t| t == "1").collect();
        if tys.is_empty() || tys.len() != nul.len() || tys.iter().any(|t| ty_name(*t).is_none()) {
            return None;
        }
        let opt = match kv.get("opt").map(|s| s.as_str()).unwrap_or("none") {
            "none" => "",
            "empty" => "()",
            "nofts" => "(no_full_text_index)",
            _ => return None,
        };
        Some(UCase {
            tys,
            nul,
            svc: kv.get("via").map(|v| v == "svc").unwrap_or(false),
            opt: opt.to_string(),
            idx: kv.get("idx").map(|v| v == "1").unwrap_or(false),
            ns: kv.get("ns").map(|v| v == "1").unwrap_or(false),
            db: None,
            id: None,
            digest: 0,
        })
    }

    fn model(&self) -> String {
        let fs: Vec<String> = self
            .tys
            .iter()
            .zip(self.nul.iter())
            .enumerate()
            .map(|(j, (t, n))| format!("f{}: {}{}", j, ty_name(*t).unwrap(), if *n { " nullable" } else { "" }))
            .collect();
        format!(
            "{}{{ T{} {{ {}{} }} O {{ n: Integer }} }}",
            if self.ns { "app " } else { "" },
            self.opt,
            fs.join(", "),
            if self.idx { ", index(f0)" } else { "" }
        )
    }
    fn t(&self) -> &'static str {
        if self.ns { "app.T" } else { "T" }
    }
    fn o(&self) -> &'static str {
        if self.ns { "app.O" } else { "O" }
    }

    fn start(&mut self, scratch: &std::path::Path) -> Result<(), String> {
        let model = self.model();
        let db = if self.svc {
            static COUNTER: std::sync::atomic::AtomicU64 = std::sync::atomic::AtomicU64::new(0);
            let k = COUNTER.fetch_add(1, std::sync::atomic::Ordering::SeqCst);
            Backend::Svc(Svc::start(scratch.join(format!("svcu{}_{}", std::process::id(), k)), &model).map_err(|e| format!("err:model:{}", e))?)
        } else {
            Backend::Conn(Conn::new(&model).map_err(|e| format!("err:model:{}", e))?)
        };
        let _ = db.mutate(&format!("mutate {{ {} {{ n:1 }} }}", self.o()), Parameters::new());
        self.db = Some(db);
        Ok(())
    }

    /// all other rows, read through the API (works for both backends)
    fn others(&self) -> u64 {
        let db = self.db.as_ref().unwrap();
        let fields: Vec<String> = (0..self.tys.len()).map(|j| format!("f{}", j)).collect();
        let q = format!("query {{ {} {{ id mdate {} }} {} {{ id mdate n }} }}", self.t(), fields.join(" "), self.o());
        let r = db.query(&q, Parameters::new());
        let skip = self.id.as_ref().map(|x| x.1.clone()).unwrap_or_default();
        let mut lines: Vec<String> = vec![];
        if let Ok(t) = r.result {
            if let Ok(J::Obj(ents)) = JParser::parse(&t) {
                for (e, rows) in ents {
                    if let J::Arr(rows) = rows {
                        for row in rows {
                            if matches!(row.get("id"), Some(J::Str(s)) if *s == skip) {
                                continue;
                            }
                            lines.push(format!("{}{}", e, row.canon()));
                        }
                    }
                }
            }
        } else {
            return 0;
        }
        lines.sort();
        let mut h: u64 = 0xcbf29ce484222325;
        for l in &lines {
            for b in l.bytes() {
                h ^= b as u64;
                h = h.wrapping_mul(0x100000001b3);
            }
        }
        h ^ (lines.len() as u64)
    }

    fn read_row(&self) -> String {
        let db = self.db.as_ref().unwrap();
        let (_, id) = self.id.as_ref().unwrap();
        let fields: Vec<String> = (0..self.tys.len()).map(|j| format!("f{}", j)).collect();
        let mut p = Parameters::new();
        p.add("id", id.clone()).unwrap();
        let r = db.query(&format!("query {{ {}(id = $id) {{ {} }} }}", self.t(), fields.join(" ")), p);
        match r.result {
            Ok(t) => match JParser::parse(&t).ok().and_then(|j| j.get(self.t()).and_then(|x| x.arr().cloned())) {
                Some(rows) if rows.len() == 1 => {
                    let mut out = vec![];
                    for (j, ty) in self.tys.iter().enumerate() {
                        out.push(match rows[0].get(&format!("f{}", j)) {
                            None => "absent".to_string(),
                            Some(J::Null) => "N".into(),
                            Some(J::Bool(b)) => format!("B{}", *b as u8),
                            Some(J::Str(s)) => format!("S{}", enc_short(s)),
                            Some(J::Num(n)) => {
                                if *ty == 'F' {
                                    n.parse::<f64>().map(|f| format!("F{}", f.to_bits())).unwrap_or("X".into())
                                } else {
                                    n.parse::<i64>().map(|i| format!("I{}", i)).unwrap_or("X".into())
                                }
                            }
                            Some(_) => "X".into(),
                        });
                    }
                    out.join(";")
                }
                Some(rows) => format!("rows{}", rows.len()),
                None => "badjson".into(),
            },
            Err(c) => format!("err:{}", c),
        }
    }
}

pub fn step(c: &mut UCase, kind: &str, kv: &HashMap<String, String>, stats: &mut Stats, scratch: &std::path::Path) -> String {
    match kind {
        "new" => {
            if c.db.is_some() {
                return "bad-op".into();
            }
            let toks: Vec<&str> = kv.get("v").map(|s| s.split(';').collect()).unwrap_or_default();
            if toks.len() != c.tys.len() {
                return "bad-op".into();
            }
            let mut vals: Vec<Option<Val>> = vec![];
            for t in &toks {
                if *t == "-" {
                    vals.push(None)
                } else {
                    match Val::parse(t) {
                        Some(v) => vals.push(Some(v)),
                        None => return "bad-op".into(),
                    }
                }
            }
            if let Err(e) = c.start(scratch) {
                return format!("st={}", e);
            }
            stats.inc("c04u.rows");
            // a decoy row of the same entity with the same values, then the target
            let mut last = Err(("none", String::new()));
            for _ in 0..2 {
                let mut p = Parameters::new();
                let mut parts = vec![];
                for (j, v) in vals.iter().enumerate() {
                    if let Some(v) = v {
                        v.add_to(&mut p, &format!("p{}", j));
                        parts.push(format!("f{}:$p{}", j, j));
                    }
                }
                last = c.db.as_ref().unwrap().mutate(&format!("mutate {{ {} {{ {} }} }}", c.t(), parts.join(" ")), p);
            }
            match last {
                Ok(r) => {
                    let id = JParser::parse(&r).ok().and_then(|j| match j.get(c.t()).and_then(|x| x.get("id")) {
                        Some(J::Str(s)) => Some(s.clone()),
                        _ => None,
                    });
                    match id {
                        Some(s) => {
                            let bytes = discret::verif_hooks::security::base64_decode(s.as_bytes()).unwrap_or_default();
                            c.id = Some((bytes, s));
                        }
                        None => return "st=err:noid".into(),
                    }
                    c.digest = c.others();
                    format!("st=ok row={} oth=same", c.read_row())
                }
                Err((cl, _)) => format!("st=err:{}", cl),
            }
        }
        "upd" => {
            if c.db.is_none() || c.id.is_none() {
                return "bad-op".into();
            }
            stats.inc("c04u.updates");
            let mut p = Parameters::new();
            p.add("id", c.id.as_ref().unwrap().1.clone()).unwrap();
            let mut parts = vec!["id:$id".to_string()];
            let set = kv.get("set").cloned().unwrap_or_default();
            for t in set.split(';').filter(|t| !t.is_empty()) {
                let (j, v) = match t.split_once(':') {
                    Some((j, v)) => match (j.parse::<usize>(), Val::parse(v)) {
                        (Ok(j), Some(v)) if j < c.tys.len() => (j, v),
                        _ => return "bad-op".into(),
                    },
                    None => return "bad-op".into(),
                };
                v.add_to(&mut p, &format!("p{}", j));
                parts.push(format!("f{}:$p{}", j, j));
            }
            match c.db.as_ref().unwrap().mutate(&format!("mutate {{ {} {{ {} }} }}", c.t(), parts.join(" ")), p) {
                Ok(_) => {
                    let oth = if c.others() == c.digest { "same" } else { "diff" };
                    format!("st=ok row={} oth={}", c.read_row(), oth)
                }
                Err((cl, _)) => format!("st=err:{}", cl),
            }
        }
        _ => "bad-op".into(),
    }
}

// ------------------------------------------------------------------------------------------- generator

use dvcommon::Gen;
use std::io::Write;

fn uval(ty: char, g: &mut Gen) -> Val {
    match ty {
        'I' => Val::Int([0, 1, -1, 42, i64::MAX, i64::MIN, 1 << 53][g.below(7)]),
        'B' => Val::Bool(g.chance(1, 2)),
        'F' => {
            let f = [0.5, 1.5, -2.25, 0.1, 1e21, 5e-324, 3.0][g.below(7)];
            let d = format!("{}", f);
            Val::Float(f64::to_bits(f), d.clone(), d)
        }
        'X' => Val::Str(["", "AAAA", "-_-_", "AA"][g.below(4)].to_string()),
        _ => Val::Str(["", "", "a", "it's", " ", "\0", "日本"][g.below(7)].to_string()),
    }
}

/// rows with and without text, with empty strings, with nulls; updates of a subset of the fields
pub fn gen_cases(w: &mut impl Write, g: &mut Gen, first_id: usize, n: usize, n_svc: usize) -> (usize, usize) {
    let mut ops = 0;
    for k in 0..n {
        let nf = 2 + g.below(4);
        // profile: 0 = no text field at all, 1 = text fields that hold "" or null, 2 = anything
        let profile = k % 3;
        let mut tys = vec![];
        let mut nul = vec![];
        for _ in 0..nf {
            let t = match profile {
                0 => ['I', 'F', 'B'][g.below(3)],
                _ => ['I', 'F', 'B', 'S', 'S', 'X'][g.below(6)],
            };
            tys.push(t);
            nul.push(g.chance(1, 2));
        }
        let svc = k >= n - n_svc;
        writeln!(
            w,
            "case id={} e=c04u tys={} nul={} via={} opt={} idx={} ns={}",
            first_id + k,
            tys.iter().map(|c| c.to_string()).collect::<Vec<_>>().join(","),
            nul.iter().map(|b| (*b as u8).to_string()).collect::<Vec<_>>().join(","),
            if svc { "svc" } else { "conn" },
            ["none", "nofts", "empty", "nofts"][(k / 3) % 4],
            g.chance(1, 4) as u8,
            g.chance(1, 3) as u8
        )
        .unwrap();
        let val = |j: usize, g: &mut Gen| -> Val {
            if nul[j] && g.chance(1, 4) {
                return Val::Null;
            }
            if profile == 1 && (tys[j] == 'S' || tys[j] == 'X') {
                return Val::Str(String::new());
            }
            uval(tys[j], g)
        };
        let vs: Vec<String> = (0..nf).map(|j| if nul[j] && g.chance(1, 5) { "-".to_string() } else { val(j, g).show() }).collect();
        writeln!(w, "new v={}", vs.join(";")).unwrap();
        ops += 1;
        for _ in 0..(2 + g.below(3)) {
            let mut set = vec![];
            let how = g.below(10);
            for j in 0..nf {
                let take = match how {
                    0 => true,         // every field
                    1 => false,        // nothing
                    _ => g.chance(1, 3),
                };
                if take {
                    set.push(format!("{}:{}", j, val(j, g).show()));
                }
            }
            if set.is_empty() && how > 1 {
                let j = g.below(nf);
                set.push(format!("{}:{}", j, val(j, g).show()));
            }
            writeln!(w, "upd set={}", set.join(";")).unwrap();
            ops += 1;
        }
    }
    (n, ops)
}
