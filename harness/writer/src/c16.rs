//! C16 — the three phases of a mutation called one by one on the real code.
//!
//!   case id=<n> prop=c16
//!   mut i=<i> key=<k> [set=<f>:<v>,…] [room=<1|2>] [add=<k>,…] [pet=<k>|null]     declares mutation i   -> "mut <i>"
//!   r i=<i>      read phase: `MutationQuery::execute` on the reader connection                          -> "read ok|err"
//!   v i=<i>      validate + sign: `AuthorisationMessage::Mutation` to the real authorisation actor
//!                (the writer thread is held, so the validated request waits in the write buffer)       -> "val ok|err"
//!   w i=<i>,…    the writer runs: every validated request is written, in ONE batch, in FIFO order        -> "acks=oo…"
//!   state        rows 1..4 and their references as a reader sees them
//!                -> "rows=<k>:<room>:<mdate>:<f>=<v>;… refs=<src>><label>:<dest>,…"
//!   stream n=<K> K times: two mutations of one row (different fields) pushed back to back through the
//!                public `mutation_stream`; lost updates are counted (stats + oracle file)               -> "stream done"
//! fields: 1 = val, 2 = alt; labels: 1 = parents (array), 2 = pet (single-valued); rooms 1 and 2 grant the same rights.
use crate::inst::*;
use crate::CaseOut;
use discret::verif_hooks as vh;
use dvcommon::{parse_kv, Args, Gen, Stats};
use std::collections::HashMap;
use std::io::Write;
use std::path::Path;
use std::sync::Arc;
use tokio::sync::oneshot;
use vh::database::authorisation_service::AuthorisationMessage;
use vh::database::mutation_query::MutationQuery;
use vh::database::query_language::data_model_parser::DataModel;
use vh::database::query_language::mutation_parser::MutationParser;
use vh::database::query_language::parameter::{Parameters, ParametersAdd};
use vh::database::Error as DbError;
use vh::security::{base64_encode, uid_encode, Uid};

#[derive(Clone, Default)]
struct MutDecl {
    key: u64,
    sets: Vec<(u64, u64)>,
    room: Option<u64>,
    adds: Vec<u64>,
    pet: Option<Option<u64>>,
}

fn parse_mut(kv: &HashMap<String, String>) -> Option<(usize, MutDecl)> {
    let i: usize = kv.get("i")?.parse().ok()?;
    let mut m = MutDecl {
        key: kv.get("key")?.parse().ok()?,
        ..Default::default()
    };
    if let Some(s) = kv.get("set") {
        for fv in s.split(',').filter(|x| !x.is_empty()) {
            let (f, v) = fv.split_once(':')?;
            let f: u64 = f.parse().ok()?;
            if f != 1 && f != 2 {
                return None;
            }
            m.sets.push((f, v.parse().ok()?));
        }
    }
    if let Some(r) = kv.get("room") {
        let r: u64 = r.parse().ok()?;
        if r != 1 && r != 2 {
            return None;
        }
        m.room = Some(r);
    }
    if let Some(a) = kv.get("add") {
        for k in a.split(',').filter(|x| !x.is_empty()) {
            m.adds.push(k.parse().ok()?);
        }
    }
    if let Some(p) = kv.get("pet") {
        m.pet = Some(if p == "null" { None } else { Some(p.parse().ok()?) });
    }
    Some((i, m))
}

struct Ctx {
    inst: Inst,
    room2: Uid,
    dm: DataModel,
    label_parents: String,
    label_pet: String,
    decl: HashMap<usize, MutDecl>,
    read: HashMap<usize, MutationQuery>,
    validated: Vec<(usize, oneshot::Receiver<Result<MutationQuery, DbError>>)>,
    hold: Option<Hold>,
    n_read: i64,
    ids: HashMap<u64, Uid>,  // rows of the current case: model key 1..4 -> id
    keys: HashMap<Uid, u64>,
}

const T0: i64 = BASE + 3_700_000;
fn clock16(n: i64) {
    vh::clock::set(T0 + n * 1000);
}

impl Ctx {
    async fn start(dir: &Path, n: usize) -> Result<Ctx, String> {
        let mut inst = Inst::start(dir.join("db"), secret_of(50_000 + n as u64))
            .await
            .map_err(|e| format!("{:?}", e))?;
        clock16(0);
        inst.setup().await?;
        clock16(0);
        // second room, same rights
        let mut p = Parameters::default();
        p.add("me", base64_encode(&inst.me)).unwrap();
        let q = inst
            .svc
            .mutate_raw(
                r#"mutate { sys.Room{ admin: [{ verif_key:$me }]
                    authorisations:[{ name:"second" rights:[{ entity:"Item" mutate_self:true mutate_all:true }] users:[{ verif_key:$me }] }] } }"#,
                Some(p),
            )
            .await
            .map_err(|e| format!("room 2: {:?}", e))?;
        let room2 = q.mutate_entities[0].node_to_mutate.id;
        inst.recompute_and_wait().await;
        let dm: DataModel =
            serde_json::from_str(&inst.svc.datamodel().await.map_err(|e| format!("{:?}", e))?)
                .map_err(|e| format!("data model: {}", e))?;
        let ent = dm.get_entity("Item").map_err(|e| format!("{:?}", e))?;
        let label_parents = ent.get_field("parents").map_err(|e| format!("{:?}", e))?.short_name.clone();
        let label_pet = ent.get_field("pet").map_err(|e| format!("{:?}", e))?.short_name.clone();
        Ok(Ctx {
            inst,
            room2,
            dm,
            label_parents,
            label_pet,
            decl: HashMap::new(),
            read: HashMap::new(),
            validated: vec![],
            hold: None,
            n_read: 0,
            ids: HashMap::new(),
            keys: HashMap::new(),
        })
    }

    /// four fresh rows (model keys 1..4) in room 1, field 1 = 0, dated 0; nothing pending
    async fn begin_case(&mut self, c: usize) -> Result<(), String> {
        if let Some(h) = self.hold.take() {
            h.release().await;
        }
        self.decl.clear();
        self.read.clear();
        self.validated.clear();
        self.n_read = 0;
        self.ids.clear();
        self.keys.clear();
        for k in 1..=4u64 {
            clock16(0);
            let mut p = Parameters::default();
            p.add("room", uid_encode(&self.inst.room)).unwrap();
            let q = self
                .inst
                .svc
                .mutate_raw(
                    &format!(
                        r#"mutate {{ Item {{ room_id:$room key:"k{}" val:"v0" }} }}"#,
                        (c as u64 + 1) * 10 + k
                    ),
                    Some(p),
                )
                .await
                .map_err(|e| format!("row {}: {:?}", k, e))?;
            let id = q.mutate_entities[0].node_to_mutate.id;
            self.ids.insert(k, id);
            self.keys.insert(id, k);
        }
        Ok(())
    }

    fn request(&self, m: &MutDecl) -> Result<(String, Parameters), String> {
        let mut p = Parameters::default();
        let id = self.ids.get(&m.key).ok_or("unknown key")?;
        p.add("id", uid_encode(id)).unwrap();
        let mut t = String::from("mutate { Item { id:$id ");
        if let Some(r) = m.room {
            p.add("room", uid_encode(if r == 1 { &self.inst.room } else { &self.room2 }))
                .unwrap();
            t.push_str("room_id:$room ");
        }
        for (f, v) in &m.sets {
            if *f == 1 {
                t.push_str(&format!("val:\"v{}\" ", v));
            } else {
                t.push_str(&format!("alt:\"a{}\" ", v));
            }
        }
        if !m.adds.is_empty() {
            t.push_str("parents:[");
            for (n, k) in m.adds.iter().enumerate() {
                let id = self.ids.get(k).ok_or("unknown key")?;
                p.add(&format!("p{}", n), uid_encode(id)).unwrap();
                t.push_str(&format!("{}{{id:$p{}}} ", if n > 0 { "," } else { "" }, n));
            }
            t.push_str("] ");
        }
        match m.pet {
            Some(Some(k)) => {
                let id = self.ids.get(&k).ok_or("unknown key")?;
                p.add("pet", uid_encode(id)).unwrap();
                t.push_str("pet:{id:$pet} ");
            }
            Some(None) => t.push_str("pet:null "),
            None => {}
        }
        t.push_str("} }");
        Ok((t, p))
    }

    async fn state(&mut self) -> String {
        let room1 = self.inst.room;
        let room2 = self.room2;
        let ids: Vec<Uid> = (1..=4u64).filter_map(|k| self.ids.get(&k).copied()).collect();
        let (rows, edges) = self
            .inst
            .read(move |conn| {
                // the four rows of the current case, by id
                let mut rows: Vec<(Uid, Option<Uid>, String, i64)> = vec![];
                let mut st = conn
                    .prepare_cached("SELECT id, room_id, _json, mdate FROM _node WHERE id = ?")
                    .unwrap();
                let mut edges: Vec<(Uid, String, Uid)> = vec![];
                let mut se = conn
                    .prepare_cached("SELECT src, label, dest FROM _edge WHERE src = ?")
                    .unwrap();
                for id in &ids {
                    let mut q = st.query([id]).unwrap();
                    while let Some(r) = q.next().unwrap() {
                        rows.push((
                            r.get(0).unwrap(),
                            r.get(1).unwrap(),
                            r.get::<_, Option<String>>(2).unwrap().unwrap_or_default(),
                            r.get(3).unwrap(),
                        ));
                    }
                    let mut q = se.query([id]).unwrap();
                    while let Some(r) = q.next().unwrap() {
                        edges.push((r.get(0).unwrap(), r.get(1).unwrap(), r.get(2).unwrap()));
                    }
                }
                (rows, edges)
            })
            .await;
        let mut rs: Vec<(u64, String)> = vec![];
        for (id, room, json, mdate) in rows {
            let k = match self.keys.get(&id) {
                Some(k) => *k,
                _ => continue,
            };
            let v: serde_json::Value = serde_json::from_str(&json).unwrap_or(serde_json::Value::Null);
            let mut vals: Vec<(u64, u64)> = vec![];
            if let Some(o) = v.as_object() {
                for x in o.values() {
                    if let Some(s) = x.as_str() {
                        if let Some(n) = s.strip_prefix('v').and_then(|t| t.parse().ok()) {
                            vals.push((1, n));
                        } else if let Some(n) = s.strip_prefix('a').and_then(|t| t.parse().ok()) {
                            vals.push((2, n));
                        }
                    }
                }
            }
            vals.sort();
            let room = match room {
                Some(r) if r == room1 => 1,
                Some(r) if r == room2 => 2,
                _ => 0,
            };
            let vs: Vec<String> = vals.iter().map(|(f, v)| format!("{}={}", f, v)).collect();
            rs.push((
                k,
                format!("{}:{}:{}:{}", k, room, (mdate - T0) / 1000, vs.join(";")),
            ));
        }
        rs.sort();
        let mut es: Vec<(u64, u64, u64)> = vec![];
        for (s, l, d) in edges {
            let label = if l == self.label_parents {
                1
            } else if l == self.label_pet {
                2
            } else {
                9
            };
            if !self.keys.contains_key(&s) {
                continue;
            }
            es.push((self.keys[&s], label, self.keys.get(&d).copied().unwrap_or(99)));
        }
        es.sort();
        format!(
            "rows={} refs={}",
            rs.into_iter().map(|x| x.1).collect::<Vec<_>>().join(","),
            es.iter()
                .map(|(s, l, d)| format!("{}>{}:{}", s, l, d))
                .collect::<Vec<_>>()
                .join(",")
        )
    }

    /// the public API: two mutations of one row pushed through `mutation_stream` without waiting
    async fn stream(&mut self, attempts: u64, stats: &mut Stats, oracle: &mut Vec<(String, String)>) {
        let mut lost = 0u64;
        let id = uid_encode(self.ids.get(&1).unwrap());
        for a in 0..attempts {
            let (v, al) = (1000 + a, 2000 + a);
            let mut p1 = Parameters::default();
            p1.add("id", id.clone()).unwrap();
            let mut p2 = Parameters::default();
            p2.add("id", id.clone()).unwrap();
            let t1 = format!("mutate {{ Item {{ id:$id val:\"v{}\" }} }}", v);
            let t2 = format!("mutate {{ Item {{ id:$id alt:\"a{}\" }} }}", al);
            let mut ok = 0;
            if a % 2 == 0 {
                // pipelined on one mutation stream
                let (tx, mut rx) = self.inst.svc.mutation_stream();
                let _ = tx.send((t1, Some(p1))).await;
                let _ = tx.send((t2, Some(p2))).await;
                for _ in 0..2 {
                    if let Ok(Some(Ok(_))) =
                        tokio::time::timeout(std::time::Duration::from_secs(20), rx.recv()).await
                    {
                        ok += 1;
                    }
                }
                drop(tx);
            } else {
                // two concurrent callers of the public `mutate`
                let s1 = self.inst.svc.clone();
                let s2 = self.inst.svc.clone();
                let (r1, r2) = tokio::join!(
                    tokio::spawn(async move { s1.mutate_raw(&t1, Some(p1)).await.is_ok() }),
                    tokio::spawn(async move { s2.mutate_raw(&t2, Some(p2)).await.is_ok() })
                );
                ok += r1.unwrap_or(false) as i32 + r2.unwrap_or(false) as i32;
            }
            let st = self.state().await;
            let row1 = st
                .split_whitespace()
                .next()
                .unwrap_or("")
                .trim_start_matches("rows=")
                .split(',')
                .next()
                .unwrap_or("")
                .to_string();
            let has_v = row1.contains(&format!("1={}", v));
            let has_a = row1.contains(&format!("2={}", al));
            if ok == 2 && !(has_v && has_a) {
                lost += 1;
                stats.sample(serde_json::json!({"public_api": if a % 2 == 0 { "mutation_stream, both acknowledged" } else { "two concurrent mutate callers, both acknowledged" }, "row_after": row1,
                    "expected": format!("1={};2={}", v, al)}));
            }
        }
        stats.add("public_api.pairs", attempts);
        stats.add("public_api.lost_updates", lost);
        if lost > 0 {
            oracle.push((
                "lost-update-whole-row-rewrite".into(),
                format!(
                    "public API: {} of {} pairs of acknowledged mutations of one row (alternately pipelined on mutation_stream and issued by two concurrent mutate callers) lost one of the two field assignments",
                    lost, attempts
                ),
            ));
        }
    }
}

async fn run_one(ctx: &mut Ctx, case: &[String], c: usize, stats: &mut Stats, res: &mut CaseOut) {
    if let Err(e) = ctx.begin_case(c).await {
        while res.lines.len() < case.len() {
            res.lines.push(format!("harness-error setup:{}", e).replace(' ', "_"));
        }
        return;
    }
    for line in &case[1..] {
        let (kind, kv) = parse_kv(line);
        let idx = |k: &str| kv.get(k).and_then(|v| v.parse::<usize>().ok());
        let out: String = match kind.as_str() {
            "mut" => match parse_mut(&kv) {
                Some((i, m)) => {
                    ctx.decl.insert(i, m);
                    stats.inc("c16.mut");
                    format!("mut {}", i)
                }
                None => "bad-op".into(),
            },
            "r" => match idx("i").and_then(|i| ctx.decl.get(&i).cloned().map(|m| (i, m))) {
                Some((i, m)) if !ctx.read.contains_key(&i) => {
                    ctx.n_read += 1;
                    clock16(ctx.n_read);
                    match ctx.request(&m) {
                        Ok((text, mut params)) => match MutationParser::parse(&text, &ctx.dm) {
                            Ok(parser) => {
                                let parser = Arc::new(parser);
                                let r = ctx
                                    .inst
                                    .read(move |conn| MutationQuery::execute(&mut params, parser, conn))
                                    .await;
                                stats.inc("c16.read");
                                match r {
                                    Ok(q) => {
                                        ctx.read.insert(i, q);
                                        "read ok".into()
                                    }
                                    Err(_) => "read err".into(),
                                }
                            }
                            Err(e) => format!("harness-error parse:{:?}", e).replace(' ', "_"),
                        },
                        Err(e) => format!("harness-error {}", e).replace(' ', "_"),
                    }
                }
                _ => "bad-op".into(),
            },
            "v" => match idx("i").and_then(|i| ctx.read.remove(&i).map(|q| (i, q))) {
                Some((i, q)) => {
                    if ctx.hold.is_none() {
                        match ctx.inst.hold().await {
                            Ok(h) => ctx.hold = Some(h),
                            Err(e) => {
                                res.lines.push(format!("harness-error {}", e).replace(' ', "_"));
                                continue;
                            }
                        }
                    }
                    let base = enqueued();
                    let (tx, mut rx) = oneshot::channel();
                    let _ = ctx.inst.svc.auth.send(AuthorisationMessage::Mutation(q, tx)).await;
                    let mut state = 0;
                    for _ in 0..100_000 {
                        if enqueued() > base {
                            state = 1;
                            break;
                        }
                        if rx.try_recv().is_ok() {
                            state = 2;
                            break;
                        }
                        tokio::time::sleep(std::time::Duration::from_micros(100)).await;
                    }
                    stats.inc("c16.validate");
                    match state {
                        1 => {
                            ctx.validated.push((i, rx));
                            "val ok".into()
                        }
                        2 => "val err".into(),
                        _ => "harness-error validation-lost".into(),
                    }
                }
                None => "bad-op".into(),
            },
            "w" => {
                let want: Vec<usize> = kv
                    .get("i")
                    .map(|s| s.split(',').filter_map(|x| x.parse().ok()).collect())
                    .unwrap_or_default();
                let have: Vec<usize> = ctx.validated.iter().map(|x| x.0).collect();
                if want.is_empty() || want != have {
                    "bad-op".into()
                } else {
                    if let Some(h) = ctx.hold.take() {
                        h.release().await;
                    }
                    let mut acks = String::new();
                    for (_, rx) in ctx.validated.drain(..) {
                        match tokio::time::timeout(std::time::Duration::from_secs(20), rx).await {
                            Ok(Ok(Ok(_))) => acks.push('o'),
                            Ok(Ok(Err(_))) => acks.push('e'),
                            _ => acks.push('-'),
                        }
                    }
                    stats.inc(&format!("c16.write.batch{}", want.len()));
                    format!("acks={}", acks)
                }
            }
            "state" => ctx.state().await,
            "stream" => {
                let k = kv.get("n").and_then(|v| v.parse().ok()).unwrap_or(10);
                let mut orc = vec![];
                ctx.stream(k, stats, &mut orc).await;
                res.oracle.extend(orc);
                "stream done".into()
            }
            _ => "bad-op".into(),
        };
        res.lines.push(out);
    }
    if let Some(h) = ctx.hold.take() {
        h.release().await;
    }
}

/// consecutive C16 cases share one running instance (every case works on four fresh rows)
pub fn run_cases(cases: &[&Vec<String>], work: &Path, n: usize, stats: &mut Stats) -> Vec<CaseOut> {
    let dir = work.join(format!("dvw16_{}_{}", std::process::id(), n));
    let _ = std::fs::remove_dir_all(&dir);
    std::fs::create_dir_all(&dir).unwrap();
    let r = crate::rt();
    let out = r.block_on(async {
        let mut out = vec![];
        let mut ctx = Ctx::start(&dir, n).await;
        for (c, case) in cases.iter().enumerate() {
            if c > 0 && c % 400 == 0 {
                // a fresh instance from time to time keeps the database small
                drop(ctx);
                ctx = Ctx::start(&dir.join(format!("g{}", c)), n + c).await;
            }
            let mut res = CaseOut {
                lines: vec![],
                oracle: vec![],
            };
            let (_, kv) = parse_kv(&case[0]);
            match kv.get("id").and_then(|v| v.parse::<u64>().ok()) {
                Some(id) => res.lines.push(format!("case {}", id)),
                None => {
                    res.lines = case.iter().map(|_| "bad-op".to_string()).collect();
                    out.push(res);
                    continue;
                }
            }
            match &mut ctx {
                Ok(ctx) => run_one(ctx, case, c, stats, &mut res).await,
                Err(e) => {
                    while res.lines.len() < case.len() {
                        res.lines.push(format!("harness-error start:{}", e).replace(' ', "_"));
                    }
                }
            }
            stats.inc("c16.cases");
            out.push(res);
        }
        out
    });
    r.shutdown_timeout(std::time::Duration::from_millis(200));
    let _ = std::fs::remove_dir_all(&dir);
    out
}

// ------------------------------------------------------------------------------------------------
// generators

/// all interleavings of the read/write events of `n` mutations with each read before its write; for every
/// interleaving, the validations are placed right before each maximal run of consecutive writes (one batch
/// per run) and, as a second variant, right before every single write (one batch per write)
fn interleavings(n: usize) -> Vec<Vec<(char, usize)>> {
    fn go(state: &mut Vec<u8>, cur: &mut Vec<(char, usize)>, out: &mut Vec<Vec<(char, usize)>>) {
        if state.iter().all(|s| *s == 2) {
            out.push(cur.clone());
            return;
        }
        for i in 0..state.len() {
            if state[i] < 2 {
                cur.push((if state[i] == 0 { 'r' } else { 'w' }, i));
                state[i] += 1;
                go(state, cur, out);
                state[i] -= 1;
                cur.pop();
            }
        }
    }
    let mut out = vec![];
    go(&mut vec![0u8; n], &mut vec![], &mut out);
    out
}

fn emit_schedule(w: &mut impl Write, rw: &[(char, usize)], batched: bool) {
    let mut i = 0;
    while i < rw.len() {
        if rw[i].0 == 'r' {
            writeln!(w, "r i={}", rw[i].1).unwrap();
            i += 1;
        } else {
            let mut j = i;
            while j < rw.len() && rw[j].0 == 'w' {
                j += 1;
            }
            if batched {
                for e in &rw[i..j] {
                    writeln!(w, "v i={}", e.1).unwrap();
                }
                let ids: Vec<String> = rw[i..j].iter().map(|e| e.1.to_string()).collect();
                writeln!(w, "w i={}", ids.join(",")).unwrap();
            } else {
                for e in &rw[i..j] {
                    writeln!(w, "v i={}", e.1).unwrap();
                    writeln!(w, "w i={}", e.1).unwrap();
                }
            }
            i = j;
        }
    }
    writeln!(w, "state").unwrap();
}

/// the mutation families of the property: different fields, same field, reference add, reference replace,
/// room move, mixes; 2 and 3 mutations
fn families(tier: &str) -> Vec<Vec<&'static str>> {
    let mut f = vec![
        vec!["key=1 set=1:5", "key=1 set=2:7"],                 // different fields
        vec!["key=1 set=1:5", "key=1 set=1:6"],                 // same field
        vec!["key=1 add=2", "key=1 add=3"],                     // reference add (array field)
        vec!["key=1 pet=2", "key=1 pet=3"],                     // reference replace (single-valued field)
        vec!["key=1 set=1:5 room=2", "key=1 set=2:7"],          // room move vs field write
        vec!["key=1 set=1:5", "key=1 add=2"],                   // field write vs reference add
        vec!["key=1 set=1:5", "key=2 set=1:6"],                 // different rows
        vec!["key=1 set=1:5", "key=1 set=2:7", "key=1 set=1:8"], // three mutations of one row
        // updates that re-send the value a field already has, together with a room move / a reference change
        vec!["key=1 set=1:0 room=2", "key=2 set=1:0,2:0 pet=3"],
        vec!["key=1 set=1:5", "key=1 set=1:5 room=2"],
        // one target under two reference fields of the same row: "already referenced" is a fact about ONE field
        vec!["key=1 pet=2", "key=1 add=2"],
        vec!["key=1 pet=2", "key=1 pet=3", "key=1 add=2"],
    ];
    if tier != "quick" {
        f.push(vec!["key=1 set=1:0,2:0 room=2 add=3", "key=1 set=2:0 room=1", "key=1 set=1:0 pet=4"]);
        f.push(vec!["key=1 pet=2", "key=1 pet=null"]);
        f.push(vec!["key=1 set=1:5 room=2", "key=1 set=1:6 room=1"]);
        f.push(vec!["key=1 set=1:5", "key=1 pet=2", "key=1 add=3"]);
        f.push(vec!["key=1 set=1:5", "key=2 set=1:6 add=1", "key=1 set=2:7"]);
        f.push(vec!["key=1 add=2,3", "key=1 add=3,4", "key=1 pet=4"]);
        f.push(vec!["key=1 set=1:5,2:6", "key=1 set=2:7 room=2", "key=2 pet=1"]);
    }
    f
}

pub fn enumerate(a: &Args) {
    let tier = a.str_or("tier", "quick");
    let out = a.str_or("out", "cases16.ops");
    let mut w = std::io::BufWriter::new(std::fs::File::create(out).unwrap());
    let mut id = 0u64;
    let mut per_family = vec![];
    for fam in families(&tier) {
        let scheds = interleavings(fam.len());
        let mut count = 0;
        for rw in &scheds {
            for batched in [true, false] {
                // the two variants coincide when no two writes are adjacent
                let adjacent = rw.windows(2).any(|p| p[0].0 == 'w' && p[1].0 == 'w');
                if !batched && !adjacent {
                    continue;
                }
                writeln!(w, "case id={} prop=c16", id).unwrap();
                id += 1;
                count += 1;
                for (i, m) in fam.iter().enumerate() {
                    writeln!(w, "mut i={} {}", i, m).unwrap();
                }
                emit_schedule(&mut w, rw, batched);
            }
        }
        per_family.push(serde_json::json!({"mutations": fam, "rw_interleavings": scheds.len(), "cases": count}));
    }
    // the window through the public API
    writeln!(w, "case id={} prop=c16", id).unwrap();
    writeln!(w, "stream n={}", if tier == "quick" { 10 } else { 100 }).unwrap();
    id += 1;
    w.flush().unwrap();
    println!("{}", serde_json::json!({"cases": id, "families": per_family}));
}

/// random sets of 2–3 mutations of rows 1..2 and a random valid schedule
pub fn gen(a: &Args) {
    let mut g = Gen::new(a.u64_or("seed", 1));
    let n = a.usize_or("n", 20);
    let out = a.str_or("out", "cases16r.ops");
    let mut w = std::io::BufWriter::new(std::fs::File::create(out).unwrap());
    for id in 0..n {
        writeln!(w, "case id={} prop=c16", id).unwrap();
        let nm = 2 + g.below(2);
        for i in 0..nm {
            let key = if g.chance(3, 4) { 1 } else { 2 };
            let mut parts = vec![format!("key={}", key)];
            match g.below(6) {
                // re-sends the initial value of the field(s) (the current one unless another mutation changed it)
                5 => {
                    parts.push(if g.chance(1, 2) { "set=1:0".to_string() } else { "set=1:0,2:0".to_string() });
                    parts.push(format!("room={}", 1 + g.below(2)));
                    if g.chance(1, 3) {
                        parts.push(format!("add={}", 2 + g.below(3)));
                    }
                }
                0 => parts.push(format!("set=1:{}", 1 + g.below(9))),
                1 => parts.push(format!("set=2:{}", 1 + g.below(9))),
                2 => parts.push(format!("set=1:{},2:{}", 1 + g.below(9), 1 + g.below(9))),
                3 => parts.push(format!("add={}", 2 + g.below(3))),
                _ => parts.push(if g.chance(1, 4) {
                    "pet=null".to_string()
                } else {
                    format!("pet={}", 2 + g.below(3))
                }),
            }
            if g.chance(1, 5) && !parts.iter().any(|p| p.starts_with("set")) {
                parts.push(format!("set=1:{}", 1 + g.below(9)));
            }
            if g.chance(1, 5) && parts.iter().any(|p| p.starts_with("set")) && !parts.iter().any(|p| p.starts_with("room")) {
                parts.push(format!("room={}", 1 + g.below(2)));
            }
            writeln!(w, "mut i={} {}", i, parts.join(" ")).unwrap();
        }
        let scheds = interleavings(nm);
        let rw = g.pick(&scheds).clone();
        emit_schedule(&mut w, &rw, g.chance(1, 2));
    }
    w.flush().unwrap();
}
