//! C16 — placeholder until the C13 part is complete
use crate::CaseOut;
use dvcommon::{Args, Stats};
use std::path::Path;

pub fn run_case(case: &[String], _work: &Path, _n: usize, _stats: &mut Stats) -> CaseOut {
    CaseOut {
        lines: case.iter().map(|_| "bad-op".to_string()).collect(),
        oracle: vec![],
    }
}
pub fn enumerate(_a: &Args) {}
pub fn gen(_a: &Args) {}
